"""C12 (and shared code for C13): iv_work pools under the deterministic T-sched engine.

T-sched tie: the real iv_work.c / iv_thread_posix.c / iv_event.c run under harness/mt_h.c + mt_work.c (white-box pool
snapshot before every release of the pool lock, library-internal posts/handler runs logged by link-time redirection);
the Lean driver `ivyreplay work` replays the log on the LTS Ivy.Work (one state per pool instance, NULL-pool state per
thread, iv_thread state per spawned thread), checks every action is enabled and every snapshot equal.
An implementation-only oracle states the property on the log alone and yields (scenario, seed) counterexamples."""
import hashlib, os, random, re, subprocess
from concurrent.futures import ThreadPoolExecutor
from . import common

PROP = "C12"
LEANCHECK_MODULES = ["Ivy.L3.Work", "Ivy.L3.WorkSpec", "Ivy.L3.WorkProofs", "Ivy.Props.C12"]
HARNESS = os.path.join(common.BUILD, "mt_work_h")
EXT = os.path.join(common.VERIF, "harness", "mt_work.c")
WRAPS = ["iv_event_register", "iv_event_unregister", "iv_event_post", "iv_timer_register", "iv_thread_create"]
SEC = 1000000000
T0 = 1000000000          # the virtual clock starts here


# ---------------------------------------------------------------- build


def gen_whitebox():
    """T-gen: the private struct declarations are extracted from the iv_work.c being compiled and handed to the harness"""
    text = open(os.path.join(common.REPO, "src", "iv_work.c")).read()
    out = []
    for name in ("work_pool_priv", "work_pool_thread"):
        m = re.search(r"struct\s+%s\s*\{.*?\n\};" % name, text, flags=re.S)
        if not m:
            return None, f"struct {name} not found in src/iv_work.c (the white-box harness needs it)"
        out.append(m.group(0))
    d = os.path.join(common.BUILD, "gen")
    os.makedirs(d, exist_ok=True)
    path = os.path.join(d, "work_wb.h")
    tmp = path + f".tmp{os.getpid()}"
    with open(tmp, "w") as f:
        f.write("/* generated from src/iv_work.c by vlib/c12.py */\n" + "\n\n".join(out) + "\n")
    os.replace(tmp, path)
    return path, None


def build():
    path, bad = gen_whitebox()
    if bad:
        return False, bad
    return common.build_mt(out=HARNESS, extra_sources=[EXT], extra_wraps=WRAPS, extra=[f'-DMT_WORK_WB_FILE="{path}"'])


# ---------------------------------------------------------------- scenario generator
FAMILIES_C12 = ["burst", "timeout", "saturate", "null", "mixed", "owner1", "stall"]
FAMILIES_C13 = ["shutdown", "threads", "reuse", "shutdown", "mixed13", "threads", "quit", "stall"]


class Scn:
    def __init__(self, rng):
        self.rng = rng
        self.head = []
        self.sec = {0: [], 1: []}
        self.tail = []          # on / idle lines
        self.nx = 0
        self.nt = 0
        self.nh = 0

    def item(self, th):
        i = self.nx
        self.nx += 1
        self.sec[th].insert(0, f"obj work x{i}")
        return f"x{i}"

    def timer(self, th):
        i = self.nt
        self.nt += 1
        self.sec[th].insert(0, f"obj timer t{i}")
        return f"t{i}"

    def thr(self, th):
        i = self.nh
        self.nh += 1
        self.sec[th].insert(0, f"obj thr h{i}")
        return f"h{i}"

    def lines(self):
        out = list(self.head)
        for th in (0, 1):
            if self.sec[th]:
                out.append(f"thread {th}")
                out += self.sec[th]
                out.append("main")
        out += self.tail
        return out


MODES = ["ret", "pexit", "nodeinit", "pexit-nodeinit", "noinit"]


def gen_quit(rng):
    """the creator leaves its loop with iv_quit and deinitialises while threads it created may still be alive
    (iv_thread_tls_deinit_thread detaches them)"""
    g = Scn(rng)
    g.head.append(f"cfg seed={rng.randrange(1, 1 << 30)} stay={rng.choice([10, 55, 90])} waitlimit=800 cblimit=4000 steplimit=400000")
    n = rng.choice([1, 1, 2, 3])
    setup = []
    for _ in range(n):
        h = g.thr(0)
        mode = rng.choice(MODES)
        setup.append(f"spawn {h} {mode}")
        if mode != "noinit":
            xs = [g.item(0) for _ in range(rng.choice([0, 1, 2, 3]))]
            if xs:
                g.tail.append(f"on {h}.body 1 : " + " ; ".join([f"submit null {x}" for x in xs[:1]] + ["yield"] * rng.choice([0, 1, 3])))
                for a, b in zip(xs, xs[1:]):
                    g.tail.append(f"on {a}.work 1 : " + " ; ".join(["yield"] * rng.choice([0, 2, 4]) + [f"submit null {b}"]))
    t = g.timer(0)
    setup.append(f"trel {t} {rng.choice([0, 0, 1, SEC])}")
    g.tail.append(f"on {t} 1 : {rng.choice(['quit', 'yield ; quit', 'yield ; yield ; yield ; quit'])}")
    g.sec[0].append("do " + " ; ".join(setup))
    return g.lines()


def gen_stall(rng):
    """the owner stays inside one handler for more than the 10 s idle timeout (`clk`): the pool's event stays pending (or the
    owner sits in a completion) while the pool's last worker idles out; then a worker of ANOTHER pool submits a continuation
    into the now thread-less pool (only thread_needed is posted, behind the pending pool event), and the owner puts the pool
    before returning to its loop: the pool event runs first and must not free the pool with the item queued (defect D10)"""
    g = Scn(rng)
    g.head.append(f"cfg seed={rng.randrange(1, 1 << 30)} stay={rng.choice([5, 10, 10, 20, 30])} waitlimit=800 cblimit=4000 steplimit=400000")
    m0, m1 = rng.choice([1, 2, 3]), rng.choice([1, 1, 2, 3])
    hooks = rng.choice([" hooks", " hooks", " hooks-stop", " hooks-start"]) if rng.random() < 0.5 else ""
    g.sec[0].append(f"obj pool p0 max={m0}")
    g.sec[0].append(f"obj pool p1 max={m1}{hooks}")
    warm = [g.item(0) for _ in range(rng.choice([1, 1, 2]))]
    x, y = g.item(0), g.item(0)
    extra = [g.item(0) for _ in range(rng.choice([0, 0, 1, 2]))]
    t0, t1 = g.timer(0), g.timer(0)

    def ys(lo=8, hi=16):
        return ["yield"] * rng.randrange(lo, hi)
    body = []
    where = rng.random()
    if where < 0.7:
        # everything inside one timer handler of the owner
        body += [f"submit p1 {w}" for w in warm] + ys() + [f"clk {rng.choice([10, 11, 11, 15, 25]) * SEC + rng.choice([0, 1, 1000])}"] + ys()
        body += [f"submit p0 {x}"] + ys() + [f"put p1"]
        g.tail.append(f"on {t0} 1 : " + " ; ".join(body))
    else:
        # the stall happens inside a completion of p1 (owner pc = running the stolen batch)
        g.tail.append(f"on {t0} 1 : " + " ; ".join([f"submit p1 {w}" for w in warm]))
        body += ys(2, 8) + [f"clk {rng.choice([10, 11, 11, 15]) * SEC + rng.choice([0, 1])}"] + ys() + [f"submit p0 {x}"] + ys() + ["put p1"]
        g.tail.append(f"on {warm[0]}.done 1 : " + " ; ".join(body))
    g.tail.append(f"on {x}.work 1 : " + " ; ".join(["yield"] * rng.choice([0, 0, 1, 2]) + [f"submitc p1 {y}"] +
                                                   [f"submitc {rng.choice(['p0', 'p1'])} {e}" for e in extra]))
    if rng.random() < 0.3:
        g.tail.append(f"on {y}.work 1 : yield ; yield")
    g.tail.append(f"on {t1} 1 : put p0" + (" ; put p1" if rng.random() < 0.5 else ""))
    g.sec[0].append(f"do poolcreate p0 ; poolcreate p1 ; trel {t0} {rng.choice([0, 1000])} ; treg {t1} {T0 + 200 * SEC}")
    return g.lines()


def gen_scenario(rng, family):
    if family == "quit":
        return gen_quit(rng)
    if family == "stall":
        return gen_stall(rng)
    g = Scn(rng)
    seed = rng.randrange(1, 1 << 30)
    stay = rng.choice([10, 30, 55, 55, 75, 92])
    # one scenario in six: the pool has been in use for a long time, its submission counters are about to pass 2^16 / 2^31 / 2^32
    seq0 = "" if seed % 6 else f" seq0={[65530, 65534, 2147483645, 4294967290][(seed // 6) % 4]}"
    g.head.append(f"cfg seed={seed} stay={stay} waitlimit=800 cblimit=4000 steplimit=400000{seq0}")
    if rng.random() < 0.15:
        g.head.insert(0, "exclude " + rng.choice(["epoll-timerfd", "epoll-timerfd epoll", "epoll-timerfd epoll ppoll"]))
    owner = 1 if family == "owner1" else 0
    pools = ["p0"] if rng.random() < 0.8 else ["p0", "p1"]
    maxes = {}
    for p in pools:
        if family == "saturate":
            maxes[p] = rng.choice([1, 1, 2])
        else:
            maxes[p] = rng.choice([1, 2, 3, 4])
        hooks = rng.choice([" hooks", " hooks", " hooks", " hooks-stop", " hooks-start"]) if rng.random() < 0.6 else ""
        g.sec[owner].append(f"obj pool {p} max={maxes[p]}{hooks}")
    if owner == 1:
        # the main thread does something unrelated: its own NULL-pool items and a timer
        a = g.item(0)
        t = g.timer(0)
        g.sec[0].append(f"do submit null {a} ; trel {t} {rng.choice([1, 5, 11, 30]) * SEC}")
        g.tail.append(f"on {t} 1 : submit null {a}")
    items = [g.item(owner) for _ in range(rng.choice([2, 4, 6, 10, 16]))]
    nullitems = [g.item(owner) for _ in range(rng.choice([0, 0, 1, 3]) if family not in ("null",) else rng.choice([2, 4, 8]))]
    setup = []
    for p in pools:
        setup.append(f"poolcreate {p}")

    def pick_pool():
        return rng.choice(pools)

    # pool -> items first submitted to it at setup: lets a work function address "the other pool" on purpose
    home = {}

    def some_actions(ctx, depth=0):
        """actions usable in a reaction; ctx: 'owner' (completion/timer/event in the owner) or 'work' (inside a work function)"""
        acts = []
        for _ in range(rng.choice([1, 1, 2, 3])):
            r = rng.random()
            if ctx == "work":
                if r < 0.6:
                    # with two pools about half of these are continuations into the OTHER pool than the one whose worker
                    # runs the work function (a foreign submitter for that pool: model action submitf)
                    acts.append(f"submitc {pick_pool()} {rng.choice(items)}")
                elif r < 0.8:
                    acts.append("yield")
                elif r < 0.9 and nullitems:
                    acts.append(f"submit null {rng.choice(nullitems)}")
                else:
                    acts.append("yield ; yield")
            else:
                if r < 0.55:
                    acts.append(f"submit {pick_pool()} {rng.choice(items)}")
                elif r < 0.65:
                    acts.append(f"submitc {pick_pool()} {rng.choice(items)}")
                elif r < 0.8 and nullitems:
                    acts.append(f"submit null {rng.choice(nullitems)}")
                elif r < 0.88:
                    acts.append("yield")
                elif family in ("shutdown", "reuse", "mixed13", "mixed") and r < 0.96:
                    p = pick_pool()
                    acts.append(f"put {p}")
                    if family in ("reuse", "mixed13") or rng.random() < 0.3:
                        acts.append(f"poolcreate {p} ; submit {p} {rng.choice(items)}")
                else:
                    acts.append(f"submit {pick_pool()} {rng.choice(items)}")
        return " ; ".join(acts)

    # bursts at setup
    nb = {"burst": [1, 3, 5, 8], "timeout": [1, 1, 2], "saturate": [2, 4, 6], "null": [0, 1], "mixed": [0, 2, 5],
          "owner1": [1, 3], "shutdown": [0, 1, 3, 6], "threads": [0, 1, 2], "reuse": [1, 3], "mixed13": [0, 2, 4]}[family]
    for x in rng.sample(items, min(len(items), rng.choice(nb))):
        p = pick_pool()
        home.setdefault(p, []).append(x)
        setup.append(f"submit {p} {x}")
    # two pools: a deliberate cross-pool continuation (worker of one pool submits into the other, which may have no
    # worker at all: only thread_needed is posted), sometimes raced with a put of the target pool from an owner timer
    if len(pools) == 2 and rng.random() < 0.5:
        src = rng.choice(pools)
        dst = pools[1 - pools.index(src)]
        x = rng.choice(home[src]) if home.get(src) else rng.choice(items)
        if x not in home.get(src, []):
            setup.append(f"submit {src} {x}")
        y = rng.choice([i for i in items if i != x] or items)
        ys = " ; ".join(["yield"] * rng.choice([0, 1, 1, 2]))
        g.tail.append(f"on {x}.work 1 : " + " ; ".join(a for a in [ys, f"submitc {dst} {y}", rng.choice(["", "yield", "yield ; yield"])] if a))
        if family in ("shutdown", "reuse", "mixed13", "mixed") and rng.random() < 0.6:
            t = g.timer(owner)
            setup.append(f"trel {t} {rng.choice([0, 0, 0, 1, 1000])}")
            g.tail.append(f"on {t} 1 : " + " ; ".join(["yield"] * rng.choice([0, 1, 2, 2, 3]) + [f"put {dst}"]))
    for x in nullitems:
        if rng.random() < 0.7:
            setup.append(f"submit null {x}")
    if family in ("shutdown", "mixed13") and rng.random() < 0.35:
        setup.append(f"put {pick_pool()}")
        if rng.random() < 0.4:
            setup.append(f"poolcreate {pools[0]}")
    # reactions from completions and work functions
    for x in items:
        if rng.random() < {"burst": 0.5, "saturate": 0.6, "timeout": 0.2}.get(family, 0.35):
            g.tail.append(f"on {x}.done {rng.choice(['1', '1', '2', '*' if rng.random() < 0.15 else '1'])} : {some_actions('owner')}")
        if rng.random() < {"saturate": 0.7, "burst": 0.35, "timeout": 0.15}.get(family, 0.25):
            g.tail.append(f"on {x}.work {rng.choice(['1', '1', '2'])} : {some_actions('work')}")
    for x in nullitems:
        if rng.random() < 0.4:
            g.tail.append(f"on {x}.work 1 : submit null {rng.choice(nullitems)} ; submit {pick_pool()} {rng.choice(items)}")
        if rng.random() < 0.4:
            g.tail.append(f"on {x}.done 1 : submit null {rng.choice(nullitems)}")
    # timers of the owner around the idle timeouts (workers that went idle at T0 expire at T0 + 10 s, and so on)
    ntim = {"timeout": [2, 4, 6], "burst": [0, 1, 2], "saturate": [0, 1], "null": [0, 1]}.get(family, [0, 1, 3])
    for _ in range(rng.choice(ntim)):
        t = g.timer(owner)
        rounds = rng.choice([1, 1, 1, 2, 2, 3])
        delta = rng.choice([0, 0, 0, 1, -1, 2, -2, 1000, -1000, SEC // 2, -SEC // 2, SEC, 3 * SEC])
        when = T0 + rounds * 10 * SEC + delta
        if rng.random() < 0.2:
            when = T0 + rng.choice([1, 1000, SEC, 5 * SEC, 9 * SEC])
        setup.append(f"treg {t} {when}")
        acts = some_actions("owner")
        if rng.random() < 0.3:
            acts += f" ; trel {t} {rng.choice([10 * SEC, 10 * SEC - 1, 10 * SEC + 1, SEC])}"
        g.tail.append(f"on {t} {rng.choice(['1', '*'])} : {acts}")
    # iv_thread spawns
    nsp = {"threads": [2, 3, 5], "mixed13": [0, 1, 2], "null": [0, 1], "mixed": [0, 0, 1]}.get(family, [0])
    for _ in range(rng.choice(nsp)):
        h = g.thr(owner)
        mode = rng.choice(MODES)
        where = rng.random()
        if where < 0.6 or not items:
            setup.append(f"spawn {h} {mode}")
        elif where < 0.8:
            g.tail.append(f"on {rng.choice(items)}.done 1 : spawn {h} {mode}")
        else:
            t = g.timer(owner)
            setup.append(f"treg {t} {T0 + rng.choice([0, 1, SEC, 10 * SEC, 10 * SEC + 1])}")
            g.tail.append(f"on {t} 1 : spawn {h} {mode}")
        if mode != "noinit" and rng.random() < 0.6:
            body = []
            if nullitems and rng.random() < 0.7:
                body.append(f"submit null {rng.choice(nullitems)}")
            body.append(rng.choice(["yield", "yield ; yield", "nop"]))
            g.tail.append(f"on {h}.body 1 : {' ; '.join(body)}")
    # submissions while workers are busy: a zero-delay timer chain in the owner, and a user event posted from work functions
    # (`at` stimuli run inside the owner's poll call, where calling the library is not valid use: not used)
    extra_ev = None
    if family in ("saturate", "burst", "mixed", "mixed13", "shutdown") and rng.random() < 0.6:
        if rng.random() < 0.6:
            t = g.timer(owner)
            setup.append(f"trel {t} 0")
            for n in range(1, rng.choice([2, 3, 5])):
                g.tail.append(f"on {t} {n} : {some_actions('owner')} ; trel {t} {rng.choice([0, 0, 1, 1000])}")
        if rng.random() < 0.6:
            extra_ev = 8
            g.sec[owner].insert(0, f"obj event e{extra_ev}")
            g.sec[owner].append(f"do evreg e{extra_ev}")
            for x in rng.sample(items, min(len(items), rng.choice([1, 2, 3]))):
                g.tail.append(f"on {x}.work {rng.choice(['1', '*'])} : evpost e{extra_ev}")
            g.tail.append(f"on e{extra_ev} {rng.choice(['1', '*', '2'])} : {some_actions('owner')}")
    rng.shuffle(setup)
    # creation first
    creates = [a for a in setup if a.startswith("poolcreate")]
    rest = [a for a in setup if not a.startswith("poolcreate")]
    if family in ("reuse", "mixed13", "shutdown"):
        first = creates[:len(pools)]
        later = creates[len(pools):]
        for a in later:
            rest.insert(rng.randrange(len(rest) + 1), a)
        creates = first
    g.sec[owner].append("do " + " ; ".join(creates + rest))
    # final drain, long after everything else (idle stimuli run inside some thread's poll call, where calling the library
    # is not valid use, so a far-future timer of the owner is used): put everything, drop the helper event, so that
    # iv_main can return
    if family in FAMILIES_C13 or rng.random() < 0.5:
        stages = rng.choice([1, 1, 2, 3])
        for k in range(stages):
            t = g.timer(owner)
            last = k == stages - 1
            when = T0 + (200 + 40 * k) * SEC + rng.choice([0, 0, 1, SEC // 2])
            if last:
                acts = " ; ".join([f"put {p}" for p in pools] + ([f"evunreg e{extra_ev}"] if extra_ev else []))
            else:
                acts = some_actions("owner")
            g.sec[owner].append(f"do treg {t} {when}")
            g.tail.append(f"on {t} 1 : {acts}")
    return g.lines()


def corpus_bases():
    """the regression scenarios of both properties (same harness, same model): bases for the schedule enumeration.
    Scenarios that need pthread_create to fail are outside the stated contract (ASSUMPTIONS) and are left out."""
    out = []
    for prop in ("C13", "C12"):
        d = os.path.join(common.VERIF, "corpus", prop)
        for f in sorted(os.listdir(d)) if os.path.isdir(d) else []:
            if not f.endswith(".scn"):
                continue
            ls = [l.rstrip("\n") for l in open(os.path.join(d, f)) if l.strip() and not l.startswith("#")]
            if any("failcreate" in l for l in ls if l.startswith("cfg")):
                continue
            out.append((f"corpus-{prop}-{f[:-4]}", ls))
    return out


def gen_cases(prop, tier, seed):
    rng = random.Random(seed * 7919 + (12 if prop == "C12" else 13))
    fams = FAMILIES_C12 if prop == "C12" else FAMILIES_C13
    n = (2400 if tier == "quick" else 40000)
    from . import sched
    erng = random.Random(seed * 7919 + 1212)
    bases = corpus_bases()
    ncorpus = len(bases)
    # the regression scenarios as they are (their own seeded schedule) ...
    for name, ls in bases:
        yield (name, ls)
    # ... and as the first bases of the systematic enumeration
    k = 0
    while len(bases) < 40 + ncorpus and k < 2000:
        fam = fams[k % len(fams)]; k += 1
        ls = gen_scenario(erng, fam)
        if len(ls) <= 26:
            bases.append((f"{fam}{len(bases)}", ls))
    # the regression corpus does not use up the quota of generated bases
    yield from sched.enum_cases(prop, HARNESS, bases, tier, os.path.join(common.BUILD, "sched-c12"),
                                want=(4 if tier == "quick" else 8) + ncorpus)
    # a worker that cannot be started (pthread_create fails) is outside the stated contract as far as item completion goes, but the pool's
    # bookkeeping must survive it: with another worker draining the queue, a later release must still free the pool (oracle only; the LTS
    # does not model the failure, so these runs are not replayed through it)
    frng = random.Random(seed * 7919 + 1313)
    for i in range(40 if tier == "quick" else 400):
        yield (f"failgrow-{i}", gen_failgrow(frng))
    for i in range(n):
        fam = fams[i % len(fams)]
        yield (f"{fam}-{i}", gen_scenario(rng, fam))


def gen_failgrow(rng):
    mx = rng.choice([2, 2, 3])
    nx = rng.choice([2, 3, 4])
    L = [f"cfg seed={rng.randrange(1, 10**6)} stay={rng.choice([30, 55, 80])} failcreate={rng.choice([2, 2, 3])}", "thread 0",
         f"obj pool p0 max={mx}" + (rng.choice([" hooks", " hooks", " hooks-stop"]) if rng.random() < 0.5 else "")]
    L += [f"obj work x{i}" for i in range(nx)] + ["obj timer t0", "obj timer t1"]
    subs = [f"submit p0 x{i}" for i in range(nx)]
    cut = rng.randrange(1, nx + 1)
    L.append("do poolcreate p0 ; " + " ; ".join(subs[:cut]) + f" ; trel t0 {rng.choice([1000, 1000000, 20000000000])} ; trel t1 {rng.choice([500, 2000000])}")
    if subs[cut:]:
        L.append("on t1 1 : " + " ; ".join(subs[cut:]))
    L.append("on t0 1 : put p0")
    L.append("main")
    return L


# ---------------------------------------------------------------- implementation-only oracle
def parse(log):
    for n, l in enumerate(log, 1):
        w = l.split()
        if len(w) >= 2 and w[0][0] == "T" and w[0][1:].isdigit():
            yield n, int(w[0][1:]), w[1:]


ENDS_INCONCLUSIVE = ("WAITLIMIT", "CBLIMIT", "STEPLIMIT", "HARNESS-ERROR")


def oracle(log, scenario=(), want=("C12", "C13")):
    """returns a list of (signature, message); signature strings are stable"""
    v = []

    def bad(sig, msg):
        if not any(s == sig for s, _ in v):
            v.append((sig, msg))
    pool_owner, pool_max, pool_put, pool_freed, pool_hooks = {}, {}, set(), set(), {}
    running = {}                 # pool -> concurrent work functions
    item = {}                    # x -> dict(pool, sub, begun, ended, thread)
    worker_pool = {}             # thread -> pool
    hook = {}                    # thread -> [starts, stops]
    hook_inst = {}               # thread -> pool instance named by its thread_start
    idle_kicks = {}              # worker thread -> (kick handler runs in a row without a work function, line of the first)
    dead_creator, dead_thread, dead_joined = {}, {}, set()
    lib_created = {}             # thread -> creator (threads created through iv_thread_create)
    exited, joined = set(), set()
    holding_ev = {}              # thread -> count of evmu held
    mainret, quitters = {}, set()
    in_api_create = {}
    inconclusive = False
    create_failed = False
    ended = None
    evreg, in_main = {}, set()
    detached_by = {}
    last_snap = {}               # pool -> fields of its latest white-box snapshot
    tn_pending = set()           # pools whose thread_needed is posted and not yet handled
    in_tn = {}                   # thread -> [pool, thread created inside the handler?]
    for n, t, w in parse(log):
        k = w[0]
        if k == "FATAL":
            bad("fatal:" + " ".join(w[1:6]), f"line {n}: iv_fatal: {' '.join(w[1:])}")
            ended = "FATAL"
        elif k in ENDS_INCONCLUSIVE:
            inconclusive = True
        elif k in ("SELF-DEADLOCK", "DESTROY-LOCKED-MUTEX"):
            bad("mutex:" + k, f"line {n}: {' '.join(w)}")
        elif k == "API" and w[1] == "poolcreate":
            pool_owner[w[2]] = t
            pool_max[w[2]] = int(w[3].split("=")[1])
            pool_hooks[w[2]] = {"hooks=1": "both", "hooks=start": "start", "hooks=stop": "stop"}.get(w[4])
            running[w[2]] = 0
        elif k == "API" and w[1] in ("submit", "submitc"):
            p, x = w[2], w[3]
            item[x] = {"pool": p, "sub": t, "begun": 0, "ended": 0, "thread": None, "line": n}
        elif k == "API" and w[1] == "put":
            pool_put.add(w[2])
        elif k == "API" and w[1] == "quit":
            quitters.add(t)
        elif k == "API" and w[1] == "main":
            in_main.add(t)
        elif k == "API" and w[1] == "evRegister":
            evreg.setdefault(t, set()).add(w[2])
        elif k == "API" and w[1] == "evUnregister":
            evreg.setdefault(t, set()).discard(w[2])
        elif k == "RET" and len(w) > 1 and w[1].startswith("handle="):
            if w[1] != "handle=0":
                bad("put:handle", f"line {n}: iv_work_pool_put returned with the user's handle still set")
        elif k == "LOCK":
            if w[1].startswith("evmu:"):
                holding_ev[t] = holding_ev.get(t, 0) + 1
            elif w[1].startswith("poolmu:") and holding_ev.get(t, 0) > 0:
                bad("lockorder", f"line {n}: pool lock taken while holding an event-list mutex (lock-order inversion)")
        elif k == "UNLOCK" and w[1].startswith("evmu:"):
            holding_ev[t] = holding_ev.get(t, 0) - 1
        elif k == "SNAP" and w[1].startswith("poolmu:"):
            kv = dict(f.split("=", 1) for f in w[2:] if "=" in f)
            if int(kv["started"]) > int(kv["max"]):
                bad("threads>max", f"line {n}: {kv['started']} worker threads started with max_threads={kv['max']}")
            if int(kv["started"]) < 0:
                bad("threads<0", f"line {n}: started_threads negative")
            last_snap[w[1][7:]] = kv
        elif k == "IPOST" and w[1].startswith("tn:"):
            tn_pending.add(w[1][3:])
        elif k == "IH" and w[1].startswith("kick:") and w[2] == "begin":
            # a worker that handles its kick while an item of its pool has been queued since before its previous kick must dequeue something:
            # three kick rounds in a row without starting a work function, with such an item waiting all along, is a livelock (the worker
            # re-kicks itself for ever and the item never runs)
            p = w[1].split(":")[1]
            waiting = [x for x, it in item.items() if it["pool"] == p and it["begun"] == 0 and it["line"] < idle_kicks.get(t, (0, n))[1]]
            c, first = idle_kicks.get(t, (0, n))
            idle_kicks[t] = (c + 1, first) if waiting or c == 0 else (1, n)
            if idle_kicks[t][0] >= 4 and waiting:
                bad("lost:livelock", f"line {n}: worker T{t} of pool {p} handled its kick {idle_kicks[t][0]} times in a row without starting a work function "
                    f"although {waiting[0]} (submitted at line {item[waiting[0]]['line']}) has been queued all along: the item never runs")
        elif k == "IH" and w[1].startswith("tn:") and w[2] == "begin":
            tn_pending.discard(w[1][3:])
            in_tn[t] = [w[1][3:], False]
        elif k in ("THREAD-CREATE", "THREAD-CREATE-FAILED"):
            if t in in_tn:
                in_tn[t][1] = True
            if k == "THREAD-CREATE-FAILED":
                create_failed = True
        elif k == "IH" and w[1].startswith("tn:") and w[2] == "end":
            p, created = in_tn.pop(t, [w[1][3:], True])
            kv = last_snap.get(p, {})
            # C13 (and C12's no-lost-work): the request for a thread is what a continuation from a non-owner thread relies
            # on; it must be honoured whether or not the pool has been put in the meantime
            if not created and kv.get("queued") and kv.get("started") == "0" and not kv.get("idle"):
                bad("tn:no-thread-for-queued-work", f"line {n}: the thread_needed handler of pool {p} returned without starting a thread although "
                    f"work is queued ({kv['queued']}) and the pool has no worker thread (shutting_down={kv.get('shut')})")
        elif k == "IREG":
            if w[1].startswith("kick:"):
                worker_pool[t] = w[1].split(":")[1]
                hook.setdefault(t, [0, 0])
            elif w[1].startswith("dead:"):
                d = int(w[1].split(":")[1])
                dead_creator[d] = t
        elif k == "IPOST" and w[1].startswith("dead:"):
            if t in detached_by:
                bad("thread:creator-deinit-live-thread", f"line {n}: T{t} posts its `dead` event although its creator T{detached_by[t]} "
                    "deinitialised its loop before (post into a freed iv_state)")
        elif k == "TSTART":
            d = int(w[1].split(":")[1])
            dead_thread[d] = t
            lib_created[t] = dead_creator.get(d)
        elif k == "IUNREG":
            if w[1].startswith("tn:"):
                pool_freed.add(w[1][3:])
                kv = last_snap.get(w[1][3:], {})
                if kv.get("queued"):
                    bad("put:freed-with-queued-item", f"line {n}: pool {w[1][3:]} is freed (its events unregistered) while {kv['queued']} is still on "
                        f"work_items" + (" and thread_needed is posted but not yet handled" if w[1][3:] in tn_pending else "") +
                        ": a submitted item can never run")
            elif w[1].startswith("dead:"):
                dead_joined.add(int(w[1].split(":")[1]))
        elif k == "HOOK":
            h = hook.setdefault(t, [0, 0])
            # the hooks and the cookie are those the pool was created with: a worker's start and stop name the same pool instance
            # even when the caller's struct iv_work_pool has been put and re-used for a new pool in between
            if w[1] == "start":
                hook_inst[t] = w[2] if len(w) > 2 else None
            elif len(w) > 2 and hook_inst.get(t) is not None and w[2] != hook_inst[t]:
                bad("hook:wrong-pool", f"line {n}: worker T{t} ran thread_start with the cookie of pool {hook_inst[t]} but thread_stop with the cookie of pool {w[2]} "
                    "(the hooks/cookie of a released pool were read through the caller's re-used struct iv_work_pool)")
            if w[1] == "start":
                h[0] += 1
                if h[0] > 1:
                    bad("hook:start-twice", f"line {n}: thread_start called twice in worker T{t}")
            else:
                h[1] += 1
                if h[1] > h[0] and pool_hooks.get(worker_pool.get(t)) != "stop":
                    bad("hook:stop-before-start", f"line {n}: thread_stop without thread_start in worker T{t}")
                if h[1] > 1:
                    bad("hook:stop-twice", f"line {n}: thread_stop called twice in worker T{t}")
        elif k == "WORK" and w[2] == "begin" and idle_kicks.pop(t, None) and False:
            pass
        elif k == "WORK" and w[2] == "begin":
            x = w[1]
            p = w[3].split("=")[1]
            it = item.get(x)
            if it is None or it.get("completed"):
                bad("work:unsubmitted", f"line {n}: work function of {x} ran without a pending submission")
                continue
            it["begun"] += 1
            it["thread"] = t
            if it["begun"] > 1:
                bad("work:twice", f"line {n}: work function of {x} executed twice for one submission")
            if p == "null":
                if t != it["sub"]:
                    bad("null:thread", f"line {n}: NULL-pool work function of {x} ran in T{t}, submitted in T{it['sub']}")
            else:
                if t == pool_owner.get(p):
                    bad("work:in-owner", f"line {n}: work function of {x} ran in the owner thread")
                if worker_pool.get(t) != p:
                    bad("work:not-a-worker", f"line {n}: work function of {x} ran in T{t}, not a worker of {p}")
                if pool_hooks.get(p) in ("both", "start") and hook.get(t, [0, 0])[0] != 1:
                    bad("hook:work-before-start", f"line {n}: work function ran in T{t} before thread_start")
                if hook.get(t, [0, 0])[1] != 0:
                    bad("hook:work-after-stop", f"line {n}: work function ran in T{t} after thread_stop")
                running[p] = running.get(p, 0) + 1
                if running[p] > pool_max.get(p, 99):
                    bad("work:concurrency", f"line {n}: {running[p]} work functions running in pool {p} with max_threads={pool_max[p]}")
        elif k == "WORK" and w[2] == "end":
            it = item.get(w[1])
            if it is not None:
                it["ended"] += 1
                if it["thread"] != t:
                    bad("work:thread-changed", f"line {n}: work function of {w[1]} ended in another thread")
                if it["pool"] != "null":
                    running[it["pool"]] = running.get(it["pool"], 1) - 1
        elif k == "CB" and w[1].endswith(".done"):
            x = w[1][:-5]
            it = item.get(x)
            if it is None or it.get("completed"):
                bad("compl:twice", f"line {n}: completion of {x} executed without a pending submission (twice?)")
                continue
            if it["ended"] != 1:
                bad("compl:before-work", f"line {n}: completion of {x} called before its work function returned (begun={it['begun']} ended={it['ended']})")
            want_t = it["sub"] if it["pool"] == "null" else pool_owner.get(it["pool"])
            if t != want_t:
                bad("compl:thread", f"line {n}: completion of {x} ran in T{t}, expected T{want_t}")
            it["completed"] = True
        elif k == "THREAD-EXIT":
            exited.add(t)
            if t in worker_pool and pool_hooks.get(worker_pool[t]):
                want = {"both": [1, 1], "start": [1, 0], "stop": [0, 1]}[pool_hooks[worker_pool[t]]]
                if hook.get(t, [0, 0]) != want:
                    bad("hook:exit-unpaired", f"line {n}: worker T{t} exited with thread_start/thread_stop counts {hook.get(t, [0, 0])}, the pool's hooks "
                                              f"({pool_hooks[worker_pool[t]]}) require {want}: every started worker calls each hook that is set exactly once")
        elif k == "THREAD-JOIN":
            joined.add(int(w[1][1:]))
        elif k == "THREAD-DETACH":
            joined.add(int(w[1][1:]))
            detached_by[int(w[1][1:])] = t          # the creator t deinitialised its loop with this thread unjoined
        elif k == "MAINRET":
            mainret[t] = n
            if t not in quitters:
                for d, c in dead_creator.items():
                    if c == t and d in dead_thread and d not in dead_joined:
                        bad("mainret:thread-alive", f"line {n}: iv_main returned in T{t} while the thread it created (dead:{d}, T{dead_thread[d]}) was not joined")
                for p, o in pool_owner.items():
                    if o == t and p not in pool_freed:
                        bad("mainret:pool-alive", f"line {n}: iv_main returned in T{t} while pool {p} still had its events registered")
        elif k in ("QUIESCENT", "ALLDONE"):
            ended = k
        elif k == "FIN" and ended is None:
            ended = "FIN"
    if ended is None and not inconclusive:
        bad("crash", "log ends without FIN (crash or sanitizer abort)")
    conclusive = (not inconclusive) and ended in ("QUIESCENT", "ALLDONE", "FIN")
    if conclusive:
        for x, it in item.items():
            if not it.get("completed"):
                where = "queued" if it["begun"] == 0 else ("running" if it["ended"] == 0 else "awaiting completion")
                bad("lost:" + where, f"work item {x} submitted at line {it['line']} never completed (run ended {ended}, item {where})")
        for p in pool_put:
            if p not in pool_freed and pool_owner.get(p) not in quitters:
                bad("put:not-freed", f"pool {p} was put but never released its events (run ended {ended})")
        for t, c in lib_created.items():
            if c in quitters:
                continue
            if t in exited and t not in joined:
                bad("thread:not-joined", f"T{t} (created through iv_thread_create by T{c}) exited but was never joined")
            if t in worker_pool and worker_pool[t] in pool_put and t not in exited:
                bad("worker:alive-after-put", f"worker T{t} of pool {worker_pool[t]} still alive after put and drain")
        # nothing keeps the loop of T alive any more (no user event registered, every pool of T released, every thread it
        # created joined; no timer can be pending at the end of a conclusive run): iv_main must have returned
        for t in in_main:
            if t in mainret or t in quitters:
                continue
            if evreg.get(t):
                continue
            if any(o == t and p not in pool_freed for p, o in pool_owner.items()):
                continue
            if any(c == t and d not in dead_joined for d, c in dead_creator.items()):
                continue
            if not any(o == t for o in pool_owner.values()) and not any(c == t for c in dead_creator.values()):
                continue
            bad("mainret:missing", f"iv_main of T{t} never returned although every pool it owned was released and every thread it created was joined (run ended {ended})")
    if create_failed and ended in ("QUIESCENT", "ALLDONE", "FIN"):
        # a failed attempt to start a worker makes item completion inconclusive (outside the stated contract), but not the release: a pool
        # that was put, whose workers have all exited and none of whose items is outstanding must have dropped its events
        for p in pool_put:
            if p in pool_freed or pool_owner.get(p) in quitters:
                continue
            if any(wp == p and t not in exited for t, wp in worker_pool.items()):
                continue
            if any(it["pool"] == p and not it.get("completed") for it in item.values()):
                continue
            bad("put:not-freed", f"pool {p} was put, all its workers have exited and no item is outstanding, but it never released its events "
                f"(after a failed attempt to start a worker; run ended {ended})")
    return v


# ---------------------------------------------------------------- running
def run_impl(lines):
    env = dict(os.environ, ASAN_OPTIONS="detect_stack_use_after_return=1:detect_leaks=1:abort_on_error=0")
    try:
        r = subprocess.run([HARNESS], input="\n".join(lines) + "\n", stdout=subprocess.PIPE, stderr=subprocess.PIPE,
                           text=True, timeout=75, env=env)
        return r.stdout, r.stderr, r.returncode
    except subprocess.TimeoutExpired as e:
        out = e.stdout.decode() if isinstance(e.stdout, bytes) else (e.stdout or "")
        return out, "TIMEOUT", -9


def impl_fails(lines):
    out, err, rc = run_impl(lines)
    log = out.splitlines()
    v = oracle(log, lines)
    # LeakSanitizer (recoverable check at the end of the run): only allocations made by the library count
    for blk in err.split("\n\n"):
        if "leak of" in blk:
            fr = [l for l in blk.splitlines() if "/src/iv_" in l]
            if fr:
                fn = re.sub(r".* in (\S+) .*", r"\1", fr[0])
                v.append(("leak:" + fn, f"memory allocated in {fn} ({fr[0].split()[-1]}) is never released"))
                break
    if rc != 0:
        s = common.san_line(err) or (err.strip().splitlines() or ["?"])[-1]
        if err == "TIMEOUT":
            kind = "timeout"
        else:
            what = re.search(r"(AddressSanitizer|LeakSanitizer|runtime error): ?([a-zA-Z-]+)", s)
            frames, caller = [], None
            for l in err.splitlines():
                m = re.match(r"\s*#\d+ \S+ in (\S+) \S*/src/(?:include/)?(iv_\w+|mutex|pthr)\.", l)
                if m and m.group(1) not in frames:
                    frames.append(m.group(1))
                    # the signature names the first library function above the generic event/list/fd plumbing
                    if caller is None and not re.match(r"iv_list|iv_event|iv_fd|mutex|pthr", m.group(2)):
                        caller = m.group(1)
                if l.startswith(("0x", "freed by", "previously allocated")):
                    break
            kind = "sanitizer:" + (what.group(2) if what else "abort") + ":" + (caller or (frames[0] if frames else "?"))
        v = [(kind, f"harness exit {rc}: {s[:160]} [{' <- '.join(frames[:4]) if err != 'TIMEOUT' else ''}]")] + [x for x in v if x[0] != "crash"]
    # one root cause, several symptoms (use-after-free at different places, iv_fatal on the closed epoll descriptor): a
    # creator that deinitialised its loop while a thread it created was not joined, followed by any crash
    if v and v[0][0].startswith(("sanitizer:", "fatal:")):
        creator, joined_d, gone = {}, set(), False
        for n, t, w in parse(log):
            if w[0] == "IREG" and w[1].startswith("dead:"):
                creator[w[1]] = t
            elif w[0] == "IUNREG" and w[1].startswith("dead:"):
                joined_d.add(w[1])
            elif w[0] == "DEINIT" and any(c == t and d not in joined_d for d, c in creator.items()):
                gone = True
        if gone:
            v[0] = ("thread:creator-deinit-live-thread", "creator called iv_deinit while a thread it created was not joined; later: " + v[0][1])
    return v, out


def replay_model(out):
    b = common.run_cmd([common.REPLAY_BIN, "work"], out)
    div = [l for l in b.stdout.splitlines() if l.startswith(("DIVERGE", "bad-log"))]
    cov = {}
    concl = True
    for l in b.stdout.splitlines():
        if l.startswith("COV "):
            _, k, n = l.split()
            cov[k] = cov.get(k, 0) + int(n)
        if l.startswith("SUMMARY") and "conclusive false" in l:
            concl = False
    if b.returncode != 0 or "SUMMARY" not in b.stdout:
        div = div or ["replayer failed: " + (b.stderr or "")[-200:]]
    return div, cov, concl


NONTRIVIAL = ("wAfter-rekick", "wEnter-rekick", "wTimeoutRun-rearm", "wTimeoutRun-die", "submitc-threadneeded", "oTnRun-start",
              "oTnRun-nothing", "submit-nokick", "submitc-nokick", "submitf-threadneeded", "submitf-kick", "submitf-nokick", "oFinish-keep-queued", "wEnter-die", "wAfter-die", "oFinish-free", "thread-died")


def one_case(args):
    name, lines = args
    viol, out = impl_fails(lines)
    if viol:
        return name, lines, viol, [], {}, out
    if "THREAD-CREATE-FAILED" in out:
        return name, lines, [], [], {}, out      # not modelled (see gen_failgrow): judged by the oracle alone
    div, cov, _ = replay_model(out)
    return name, lines, [], div, cov, out


def run_prop(prop, tier, seed, proof, sigfilter=None):
    res = common.Result()
    ok, log = build()
    if not ok:
        res.divergences.append(("T-sched harness for iv_work.c no longer builds: " + log[-500:], None))
        return res
    if not proof["driver_ok"]:
        return res
    cov = {}
    ends = {}
    stop = False
    known = {f["signature"] for f in common.known_findings(prop)}
    known_hits = {}
    cases = list(gen_cases(prop, tier, seed))
    with ThreadPoolExecutor(max_workers=common.NCPU) as ex:
        for name, lines, viol, div, c, out in common.bounded_map(ex, one_case, cases):
            if stop:
                break       # enough evidence of failure: the cases not yet started are never run
            res.evaluations += 1
            for k, n in c.items():
                cov[k] = cov.get(k, 0) + n
            end = next((e for e in ("QUIESCENT", "ALLDONE", "WAITLIMIT", "CBLIMIT", "STEPLIMIT", "HARNESS-ERROR", "FATAL") if e in out[-3000:]), "FIN")
            ends[end] = ends.get(end, 0) + 1
            if any(k in c for k in NONTRIVIAL):
                res.nontrivial.add(hashlib.sha1("\n".join(lines).encode()).hexdigest()[:12])
            if len(res.samples) < 3:
                res.samples.append({"case": name, "scenario_head": lines[:10], "n_lines": len(lines), "log_lines": out.count("\n")})
            if viol and f"{prop.lower()}:{viol[0][0]}" in known:
                # a recorded finding: reported once (finish() prints KNOWN-FINDING), does not end the run early
                known_hits[viol[0][0]] = known_hits.get(viol[0][0], 0) + 1
                if known_hits[viol[0][0]] == 1:
                    p = common.write_case(prop, name, lines, tier, seed, ext="scn")
                    res.impl_violations.append((f"{prop.lower()}:{viol[0][0]}", f"implementation violates {prop}: {viol[0][1]}", p))
                continue
            if viol:
                sig0 = viol[0][0]
                small = common.shrink(lines, lambda o: any(s == sig0 for s, _ in impl_fails(o)[0]), keep_head=1, budget=120)
                v2 = [x for x in impl_fails(small)[0] if x[0] == sig0] or viol
                p = common.write_case(prop, name, small, tier, seed, ext="scn")
                res.impl_violations.append((f"{prop.lower()}:{v2[0][0]}", f"implementation violates {prop}: {v2[0][1]}", p))
            elif div:
                nmain = sum(1 for l in lines if l.strip() == "main")
                def still(o):
                    if sum(1 for l in o if l.strip() == "main") != nmain:
                        return False        # every thread still runs its loop: the scenario stays a meaningful program
                    v, out2 = impl_fails(o)
                    return bool(v) or bool(replay_model(out2)[0])
                small = common.shrink(lines, still, keep_head=1, budget=80)
                p = common.write_case(prop, name, small, tier, seed, ext="scn")
                v3 = [x for x in impl_fails(small)[0] if not x[0].startswith(("harness", "crash"))]
                if v3:
                    # a variant of the diverging scenario on which the oracle rejects the implementation: a concrete failing input
                    res.impl_violations.append((f"{prop.lower()}:{v3[0][0]}", f"implementation violates {prop}: {v3[0][1]}", p))
                else:
                    res.divergences.append((f"model Ivy.Work does not replay iv_work.c's log: {div[0][:500]}", p))
            if len(res.impl_violations) - len([1 for k in known_hits if known_hits[k]]) + len(res.divergences) >= 4:
                stop = True
    res.extra["known_finding_hits"] = known_hits
    res.extra["model_action_coverage"] = dict(sorted(cov.items()))
    res.extra["run_endings"] = ends
    return res


RULE = ("T-sched scenarios (one deterministic interleaving per scenario+seed): pools with max_threads 1-4 (1-2 pools, owner = main thread or "
        "a second thread, with and without thread_start/stop hooks), bursts of 0-16 submissions at setup / from completions / from work "
        "functions (continuations, also into the other pool of a two-pool scenario = a submitter that is neither owner nor worker of the target pool, "
        "raced with put of the target pool) / from owner timers placed at, 1 ns, 1 us, 0.5 s around multiples of the 10 s idle timeout / at the "
        "owner's n-th wait, NULL-pool items (also nested and from spawned threads), put at setup / in completions / in timers / at global "
        "quiescence, pool re-creation in the same structure right after put, iv_thread spawns in 5 exit modes, all poll methods; "
        "every pool snapshot (started, head/tail, queued, done, idle list, kicked and timer flags of every live worker) compared with the "
        "model at every release of the pool lock, every internal post/handler run mapped to a model action and checked enabled, model "
        "quiescent at the end of every conclusive run. non-trivial = the case exercised a self re-kick, an idle-timeout re-arm or death, "
        "a thread_needed round trip, a submission with no kick, a death on shutdown, a pool free or a thread join; distinct by scenario hash")
ASSUMPTIONS = [
    "iv_event: a post to a registered event is followed by exactly one later handler run in the owner unless unregistered (C08); posts to an already pending event are absorbed",
    "iv_timer: a registered timer fires once when its time has come (C05/C06); the 10 s idle timeout is the only timer of iv_work",
    "pthread_create does not fail (iv_work_submit_pool ignores the failure: the item then waits for the next submission that starts a thread)",
    "fewer than 2^31 work items outstanding (uint32 sequence numbers modelled as Nat)",
    "valid use: submit_work only from the owner, submit_continuation from the owner or from any thread running a work function of any pool; no submission to a pool after put on it and no put while a submission to it is in progress (both enforced by the harness: P[i].cur, P[i].submitting); an item is not re-submitted before its completion ran; put called once",
    "model = iv_work.c after the D10 repair (harness/iv_work_d10.patch: iv_work_event frees a shutting-down pool only if work_items is empty too)",
    "the pool lock is released by pthread_mutex_unlock without touching the mutex afterwards (POSIX), so freeing the pool right after the last worker's unlock is safe",
    "critical sections are atomic in the model: checked on every run by the lock-order oracle (the pool lock is never acquired while an event-list mutex is held)",
]


def run(tier, seed, proof):
    res = run_prop(PROP, tier, seed, proof)
    res.rule = RULE
    res.assumptions = ASSUMPTIONS
    return res


def search_prop(prop, tier, seed, proof):
    res = common.Result()
    ok, _ = build()
    if not ok:
        return res
    for s in range(seed + 900, seed + 903):
        cases = list(gen_cases(prop, "quick", s))[:600]
        with ThreadPoolExecutor(max_workers=common.NCPU) as ex:
            for name, lines, viol, _, _, _ in common.bounded_map(ex, lambda a: one_case_impl(a), cases):
                res.evaluations += 1
                if viol and not res.impl_violations:
                    sig0 = viol[0][0]
                    small = common.shrink(lines, lambda o: any(x == sig0 for x, _ in impl_fails(o)[0]), keep_head=1, budget=120)
                    p = common.write_case(prop, "search-" + name, small, tier, seed, ext="scn")
                    res.impl_violations.append((f"{prop.lower()}:{sig0}", f"implementation violates {prop}: {viol[0][1]}", p))
        if res.impl_violations:
            break
    return res


def one_case_impl(args):
    name, lines = args
    viol, out = impl_fails(lines)
    return name, lines, viol, [], {}, out


def search(tier, seed, proof):
    return search_prop(PROP, tier, seed, proof)


def replay(path):
    lines = [l.rstrip("\n") for l in open(path) if l.strip() and not l.startswith("#")]
    ok, log = build()
    if not ok:
        print(log)
        return 2
    common.lean_build(["ivyreplay"])
    out, err, rc = run_impl(lines)
    print("--- implementation log (tail)")
    print(out[-6000:], err[-3000:])
    div, cov, _ = replay_model(out)
    print("--- model replay")
    print("\n".join(div[:10]) or "no divergence")
    v = oracle(out.splitlines(), lines)
    print("--- oracle:", "; ".join(m for _, m in v) or "ok", "| harness rc", rc)
    return 1 if (v or rc != 0) else 0
