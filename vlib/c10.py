"""C10: iv_signal fan-out — T-sched: the real library under the deterministic scheduler (harness/mt_h.c + mt_sig.c, which
textually includes mt_proc.c) runs generated scenarios (1-3 threads, exclusive / shared / this-thread interests on 1-2
signals, deliveries aimed at threads or at "any", handlers that (un)register and free, deliveries from inside handlers,
a forked child receiving signals).  The Lean LTS Ivy.L2.Signal replays every log (each record = one action that must
be enabled; every post / sigaction predicted exactly; `active` snapshots under sig_lock compared).  An independent
oracle states C10 on the implementation's log alone (who must be called after which delivery, who must not, in which
thread, hand-off on unregister, SIG_DFL iff last interest gone, silence of a forked child)."""
import hashlib, os, random, re
from concurrent.futures import ThreadPoolExecutor
from . import common

PROP = "C10"
LEANCHECK_MODULES = ["Ivy.L2.Signal", "Ivy.L2.SignalSpec", "Ivy.L2.SignalProofs", "Ivy.Props.C10"]
HARNESS = os.path.join(common.BUILD, "mt_sig_h")
SIG_WRAPS = ["iv_event_raw_post", "iv_event_raw_register", "iv_event_raw_unregister"]
CORPUS = os.path.join(common.VERIF, "corpus", "C10")


def build():
    """mt_sig.c includes mt_proc.c (white-box access to its tables), so mt_proc.c is not compiled separately"""
    h = os.path.join(common.VERIF, "harness")
    return common.build_wrapped(HARNESS, [os.path.join(h, "mt_h.c"), os.path.join(h, "mt_sig.c")],
                                common.MT_WRAPS + SIG_WRAPS)


# ---------------------------------------------------------------- implementation-only oracle
class _Grant:
    __slots__ = ("members", "n", "k", "tree", "live", "credit", "inprog", "handoff", "born", "group", "until", "k2")

    def __init__(self, members, n, k, tree, handoff, born, group, until):
        self.members, self.n, self.k, self.tree, self.handoff, self.born, self.group, self.until = \
            set(members), n, k, tree, handoff, born, group, until
        self.live = True      # still needs a handler invocation of a member
        self.credit = True    # can still justify a handler invocation of a member
        self.k2 = k           # thread performing the walk
        self.inprog = True    # the walk that notes it is still in progress in thread k (until SIGNAL-RETURN / SPINUNLOCK)


def oracle(log):
    """C10 on the implementation's log. Returns (signature, message) or None.

    A delivery of n received by thread k creates *grants*: from k's own (this-thread) interests for n if there are
    any, otherwise from the process-wide ones at the moment the handler holds sig_lock: one grant for the group of
    exclusive interests if there is an exclusive one (exactly one of them is to be called), otherwise one grant per
    interest.  A handler invocation (SIGEVENT/CB s<i>) must be covered by a grant containing i that still has credit; it
    satisfies all of them (it runs after those deliveries) and uses up the credit of the oldest one - except that an
    invocation that starts while the delivering walk is still in progress leaves the credit (the post may come after it).  The deliveries are
    served when iv_signal_event has cleared `active` (its critical section after SIGEVENT; at once for a this-thread
    interest) and goes on to the user handler.  It must run in the registering thread.  Unregistering removes the interest
    from open grants; when the exclusive group of a grant becomes empty the delivery must be handed on: new grants by the
    same rule over what is registered then (same thread's interests, else process-wide).  At a regular end of the run
    (all threads blocked / finished) no grant may be open.  sigaction: HANDLER exactly at 0->1 interests, SIG_DFL
    exactly at 1->0; a signal must not take the default action while an interest is fully registered."""
    ints = {}
    count = {}
    installed = {}
    th = {}
    grants = []
    unreset_child = False
    end_kind = None
    fin = False
    waits = {}           # thread -> log lines of its WAIT records

    def T(k):
        return th.setdefault(k, {"api": None, "hnd": None, "await": False, "child": False, "want": None, "locked": False})

    def rule(members, n):
        c = [i for i in members if ints[i]["sig"] == n]
        e = [i for i in c if ints[i]["excl"]]
        return [(set(e), True)] if e else [({i}, False) for i in c]

    def thr_tree(k):
        return [i for i, a in ints.items() if a["reg"] and a["this"] and a["owner"] == k]

    def proc_tree():
        return [i for i, a in ints.items() if a["reg"] and not a["this"]]

    def make(k, n, tree, handoff, ln, until, walker=None):
        src = thr_tree(k) if tree == "thr" else proc_tree()
        for m, grp in rule(src, n):
            g = _Grant(m, n, k, tree, handoff, ln, grp, until)
            if walker is not None:
                g.k2 = walker      # the hand-off walk is performed by the unregistering thread
            grants.append(g)

    def cleared(i):
        """iv_signal_event(i) has cleared `active` and is about to call the user handler: every delivery noted so far is served"""
        for g in grants:
            if g.live and i in g.members:
                g.live = False

    def walk_over(k, what):
        for g in grants:
            if g.inprog and g.k2 == k and g.until == what:
                g.inprog = False

    for ln, l in enumerate(log, 1):
        w = l.split()
        if len(w) < 2 or not w[0].startswith("T") or not w[0][1:].isdigit():
            continue
        k = int(w[0][1:])
        t = T(k)
        r = w[1]
        if r == "API" and len(w) >= 4 and w[2] == "sigRegister":
            i = int(w[3][1:])
            kvs = dict(x.split("=") for x in w[4:])
            t["api"] = ("reg", i, int(kvs["signum"]), kvs["excl"] == "1", kvs["this"] == "1")
        elif r == "API" and len(w) >= 4 and w[2] == "sigUnregister":
            t["api"] = ("unreg", int(w[3][1:]))
        elif r == "SPINLOCK":
            t["locked"] = True
            if t["child"]:
                return ("signal:child-not-silent", f"line {ln}: the signal handler running in a forked child went on to the interest sets")
            if t["hnd"] is not None:
                if t["await"]:
                    t["await"] = False
                    make(k, t["hnd"], "proc", False, ln, "unlock")
            elif t["api"] and t["api"][0] == "reg":
                _, i, n, e, h = t["api"]
                want = []
                if unreset_child:
                    # first registration in a forked child: everything inherited is dropped, dispositions reset
                    want += [("DFL", m) for m in sorted(installed) if installed[m]]
                    for a in ints.values():
                        a["reg"] = False
                    count.clear(); installed.clear(); del grants[:]
                    unreset_child = False
                ints[i] = {"sig": n, "excl": e, "this": h, "owner": k, "reg": True}
                count[n] = count.get(n, 0) + 1
                if count[n] == 1:
                    want.append(("HANDLER", n))
                t["want"] = want
                t["inst"] = n if count[n] == 1 else None
            elif t.get("ev") is not None and t["api"] is None:
                cleared(t["ev"])
                t["ev"] = None
            elif t["api"] and t["api"][0] == "unreg":
                i = t["api"][1]
                if i in ints and ints[i]["reg"]:
                    n = ints[i]["sig"]
                    ints[i]["reg"] = False
                    count[n] = count.get(n, 0) - 1
                    t["want"] = [("DFL", n)] if count[n] == 0 else []
                    if count[n] == 0:
                        installed[n] = False
                    for g in list(grants):
                        if (g.live or g.credit) and i in g.members:
                            # an interest that is unregistered excuses a delivery noted for it only if its handler had no chance to run:
                            # once the owner has gone into the kernel wait three times since the delivery, it had (shared interests
                            # only: for an exclusive group the log does not show which member was woken)
                            if g.live and not g.group and not g.inprog:
                                loops = sum(1 for x in waits.get(k, []) if x > g.born)
                                if loops >= 3:
                                    return ("signal:delivery-lost", f"delivery of signal {g.n} received by T{g.k} (line {g.born}): handler of s{i} was never invoked "
                                            f"although its owner T{k} entered the kernel wait {loops} times before unregistering it at line {ln}")
                            g.members.discard(i)
                            if g.members and g.group:
                                # if i was the member that had been woken, the hand-off goes to the first exclusive interest
                                # registered now (possibly one registered after the delivery): any of them may hold it
                                src = thr_tree(g.k) if g.tree == "thr" else proc_tree()
                                g.members = {j for j in src if ints[j]["sig"] == n and ints[j]["excl"]} or g.members
                            if not g.members:
                                if g.live and g.group:
                                    tree = "thr" if (g.tree == "thr" and any(ints[j]["sig"] == n for j in thr_tree(g.k))) else "proc"
                                    make(g.k, n, tree, True, ln, "unlock", walker=k)
                                g.live = g.credit = False
        elif r == "WAIT":
            waits.setdefault(k, []).append(ln)
        elif r == "SIGACTION":
            n, what = int(w[2]), w[3]
            want = t.get("want") or []
            if (what, n) in want:
                want.remove((what, n))
            else:
                return ("signal:disposition", f"line {ln}: sigaction({n}, {what}) although the number of interests for {n} did not change between 0 and 1")
        elif r == "SPINUNLOCK":
            t["locked"] = False
            walk_over(k, "unlock")
            if t.get("want"):
                what, n = t["want"][0]
                t["want"] = None
                return ("signal:disposition", f"line {ln}: disposition of signal {n} not set to {what} " +
                        ("when its last interest went away" if what == "DFL" else "when its first interest was registered"))
            t["want"] = None
            if t.get("inst") is not None:
                installed[t["inst"]] = True
                t["inst"] = None
        elif r == "RET":
            if t["api"] is not None and not t["locked"]:
                t["api"] = None
        elif r == "SIGNAL-DELIVER":
            n = int(w[2])
            t["hnd"] = n
            if not unreset_child:
                if any(ints[j]["sig"] == n for j in thr_tree(k)):
                    make(k, n, "thr", False, ln, "return")
                else:
                    t["await"] = True
        elif r == "SIGNAL-RETURN":
            if t["await"]:
                t["await"] = False
                make(k, t["hnd"], "proc", False, ln, "return")
            walk_over(k, "return")
            t["hnd"] = None
        elif r == "SIGNAL-DEFAULT":
            n = int(w[2])
            if installed.get(n):
                return ("signal:default-while-registered", f"line {ln}: signal {n} took the default action while interests for it are registered")
        elif r == "SIGEVENT" or r == "CB":
            if not w[2].startswith("s") or not w[2][1:].isdigit():
                if r == "SIGEVENT":
                    return ("signal:unexpected-callback", f"line {ln}: handler invoked for an unknown interest")
                continue
            i = int(w[2][1:])
            if i not in ints:
                return ("signal:unexpected-callback", f"line {ln}: handler of never-registered interest s{i} invoked")
            if ints[i]["owner"] != k or (r == "CB" and w[3] != f"owner=T{k}"):
                return ("signal:wrong-thread", f"line {ln}: handler of s{i} ran in T{k}, registered in T{ints[i]['owner']}")
            if r == "SIGEVENT":
                g = [x for x in grants if x.credit and i in x.members]
                if not g:
                    kind = "exclusive" if ints[i]["excl"] else "shared"
                    scope = "this-thread" if ints[i]["this"] else "process-wide"
                    return ("signal:unexpected-callback",
                            f"line {ln}: handler of {kind} {scope} interest s{i} invoked, but no delivery of signal {ints[i]['sig']} "
                            f"since its last invocation selects it (fan-out rule / child silence)")
                t["ev"] = i
                if ints[i]["this"]:
                    cleared(i)
                # which member of an exclusive group was woken is not visible here: the invocation uses up the credit of
                # the oldest covering grant only (lenient; a second exclusive called for the same delivery still finds none)
                if not g[0].inprog:
                    g[0].credit = False
        elif r == "PID":
            unreset_child = True
            del grants[:]
        elif r == "CHILD-SIGNAL":
            t["child"] = True
        elif r == "CHILD-SIGNAL-RETURN":
            t["child"] = False
        elif r == "SIGPOST":
            if t["child"]:
                return ("signal:child-not-silent", f"line {ln}: a signal delivered in a forked child posted {w[2]} of the parent")
        elif r == "FATAL":
            return ("signal:fatal", f"line {ln}: library called iv_fatal: {' '.join(w[2:])[:80]}")
        elif r in ("QUIESCENT", "ALLDONE", "SECTION-DONE"):
            end_kind = end_kind or r
        elif r in ("WAITLIMIT", "CBLIMIT", "STEPLIMIT", "SELF-DEADLOCK"):
            end_kind = r
        elif r == "FIN":
            fin = True
    if not fin:
        return ("signal:crash", "log ends without FIN (crash or sanitizer abort)")
    if end_kind == "SELF-DEADLOCK":
        return ("signal:self-deadlock", "a thread tried to take sig_lock while holding it")
    if end_kind in ("QUIESCENT", "ALLDONE", "SECTION-DONE"):
        for g in grants:
            if g.live and g.members:
                who = ",".join(f"s{i}" for i in sorted(g.members))
                if g.handoff:
                    return ("signal:handoff-dropped",
                            f"delivery of signal {g.n} (thread T{g.k}) noted for an exclusive interest that was unregistered before its handler ran "
                            f"was not handed on: {who} (registered, selected by the rule at line {g.born}) was never called")
                return ("signal:delivery-lost", f"delivery of signal {g.n} received by T{g.k} (line {g.born}): handler of {who} was never invoked")
    return None


# ---------------------------------------------------------------- generator
SIGS = [10, 12]


def gen_case(rng, tier, force=None):
    kind = force or rng.choices(["mix", "handoff", "redeliver", "child", "childreg", "plain"], [44, 18, 14, 10, 6, 8])[0]
    if kind == "childreg":
        return gen_childreg(rng)
    # "plain": the process also has a thread that never called iv_init (no ivykis state); signals it receives must still reach the
    # process-wide interests of the other threads
    plain = kind == "plain"
    if plain:
        kind = rng.choice(["mix", "mix", "redeliver"])
    nthr = rng.choice([1, 2, 2, 3]) if not plain else rng.choice([1, 1, 2])
    nsig = rng.choice([1, 1, 2])
    sigs = SIGS[:nsig]
    regsigs = sigs
    if kind == "mix" and rng.random() < 0.25:
        # signal numbers at the edges of the per-signal bookkeeping: the lowest and highest valid ones, and numbers the library must refuse
        # (>= _NSIG): a refused registration changes nothing, an accepted one at the top of the range works like any other
        edge = rng.choice([1, 34, 63, 64, 64, 65, 65, 66, 200])
        if edge <= 64:
            sigs = sigs + [edge]        # deliverable
        regsigs = sigs + [edge]
    nint = rng.randint(2, 6)
    ints = []
    for i in range(nint):
        ints.append({"id": i, "thr": rng.randrange(nthr), "sig": rng.choice(regsigs), "excl": rng.random() < 0.4, "this": rng.random() < 0.35})
    if kind == "handoff":
        # an exclusive this-thread (or process-wide) interest plus others for the same signal
        ints[0].update(excl=True, this=rng.random() < 0.6)
        ints[1].update(sig=ints[0]["sig"], this=rng.random() < 0.4)
        if rng.random() < 0.5:
            ints[1]["thr"] = ints[0]["thr"]
    lines = [f"cfg seed={rng.randrange(1, 1 << 30)} stay={rng.choice([30, 55, 80])}"]
    mine = lambda k: [x for x in ints if x["thr"] == k]

    def tgt():
        if plain and rng.random() < 0.5:
            return f" T{nthr}"
        return rng.choice([""] + [f" T{j}" for j in range(nthr)])

    def action(k, self_id=None):
        r = rng.random()
        own = mine(k)
        if r < 0.34:
            s = ints[self_id]["sig"] if (self_id is not None and rng.random() < 0.7) else rng.choice(sigs)
            a = f"deliver {s}{tgt()}"
            if rng.random() < 0.5:
                a += " ; yield"
            return a
        if r < 0.62 and own:
            x = ints[self_id] if (self_id is not None and rng.random() < 0.5) else rng.choice(own)
            return f"sigunreg s{x['id']}" + (" free" if rng.random() < 0.3 else "")
        if r < 0.82 and own:
            return f"sigreg s{rng.choice(own)['id']}"
        if r < 0.88:
            return f"childsig {rng.choice(sigs)}"
        return "yield"

    reacts = []
    for k in range(nthr):
        lines.append(f"thread {k}")
        for x in mine(k):
            lines.append(f"obj sig s{x['id']} {x['sig']}" + (" excl" if x["excl"] else "") + (" this" if x["this"] else ""))
        lines.append(f"obj timer t{k}")
        regs = [f"sigreg s{x['id']}" for x in mine(k) if rng.random() < 0.85]
        rng.shuffle(regs)
        lines.append("do " + " ; ".join(regs + [f"trel t{k} {1000 * (k + 1)}"]))
        lines.append("main")
        for n in range(rng.choice([0, 1, 2])):
            lines.append(f"at {rng.randrange(0, 6)} : deliver {rng.choice(sigs)}{tgt()}")
        nt = rng.randint(1, 4)
        for j in range(1, nt + 1):
            acts = [action(k) for _ in range(rng.randint(1, 3))]
            if kind == "handoff" and j == 1:
                ex = [x for x in mine(k) if x["excl"]]
                if ex:
                    x = rng.choice(ex)
                    acts = [f"deliver {x['sig']} T{k}" if x["this"] or rng.random() < 0.5 else f"deliver {x['sig']}", "yield", f"sigunreg s{x['id']}"]
            if j < nt:
                acts.append(f"trel t{k} {rng.choice([500, 1000, 3000])}")
            reacts.append(f"on t{k} {j} : " + " ; ".join(acts))
    for x in ints:
        for n in range(1, rng.choice([1, 2, 3, 4])):
            if rng.random() < (0.8 if kind == "redeliver" else 0.5):
                acts = [action(x["thr"], x["id"]) for _ in range(rng.randint(1, 2))]
                if kind == "redeliver" and n == 1:
                    acts = [f"deliver {x['sig']}" + (f" T{x['thr']}" if x["this"] else tgt()), "yield"] + acts[:1]
                reacts.append(f"on s{x['id']} {n} : " + " ; ".join(acts))
    if plain:
        lines.append(f"thread {nthr} plain")
    lines += reacts
    for j in range(rng.randint(2, 7)):
        acts = [f"deliver {rng.choice(sigs)}{tgt()}" for _ in range(rng.randint(1, 3))]
        if (kind == "child" and j % 2 == 1) or rng.random() < 0.06:
            acts.insert(rng.randrange(len(acts) + 1), f"childsig {rng.choice(sigs)}")
        lines.append(f"idle {j} : " + " ; ".join(acts))
    return lines


def gen_childreg(rng):
    """single thread: the process forks (setpid), the child receives signals (silent), registers its own interest
    (post-fork reset), receives signals again.  API calls are made from timer handlers (never from idle stimuli,
    which run inside the kernel wait)."""
    nint = rng.randint(1, 4)
    # the signal numbers: usually the two ordinary ones, in 40 % of the cases numbers at the edges of the per-signal bookkeeping (the
    # post-fork reset walks over ALL signal numbers: 1, the real-time range, the highest valid one)
    SIGS = [10, 12] if rng.random() < 0.6 else rng.choice([[64, 10], [1, 64], [63, 64], [34, 12], [64, 64]])
    lines = [f"cfg seed={rng.randrange(1, 1 << 30)}", "thread 0"]
    regs = []
    for i in range(nint):
        s = rng.choice(SIGS)
        lines.append(f"obj sig s{i} {s}" + (" excl" if rng.random() < 0.4 else "") + (" this" if rng.random() < 0.35 else ""))
        regs.append(f"sigreg s{i}")
    s5 = rng.choice(SIGS)
    lines.append(f"obj sig s5 {s5}" + (" excl" if rng.random() < 0.4 else "") + (" this" if rng.random() < 0.35 else ""))
    lines.append(f"obj sig s6 {rng.choice(SIGS)}")
    lines.append("obj timer t0")
    lines.append("do " + " ; ".join(regs + ["trel t0 1000"]))
    lines.append("main")
    lines.append(f"at 0 : deliver {rng.choice(SIGS)}")
    lines.append(f"on t0 1 : setpid 2 ; deliver {SIGS[0]} ; deliver {SIGS[1]} ; yield ; trel t0 1000")
    lines.append(f"on t0 2 : deliver {rng.choice(SIGS)} ; yield ; sigreg s5" + (" ; sigreg s6" if rng.random() < 0.5 else "") + " ; trel t0 1000")
    lines.append(f"on t0 3 : deliver {s5} ; yield ; trel t0 1000")
    lines.append(f"on t0 4 : deliver {SIGS[0]} ; deliver {SIGS[1]} ; yield ; trel t0 1000")
    lines.append(f"on t0 5 : sigunreg s5 ; deliver {s5} ; yield")
    lines.append(f"idle 0 : deliver {rng.choice(SIGS)}")
    return lines


def corpus_cases():
    out = []
    if os.path.isdir(CORPUS):
        for f in sorted(os.listdir(CORPUS)):
            if f.endswith(".scn"):
                out.append(("corpus-" + f[:-4], [l.rstrip("\n") for l in open(os.path.join(CORPUS, f)) if l.strip() and not l.startswith("#")]))
    return out


def gen_cases(tier, seed):
    rng = random.Random(seed * 7919 + 10)
    for c in corpus_cases():
        yield c
    from . import sched
    erng = random.Random(seed * 7919 + 1010)
    bases = list(corpus_cases())
    while len(bases) < 40:
        ls = gen_case(erng, "quick")
        if sum(1 for l in ls if l.startswith("thread")) >= 2 and len(ls) <= 30:
            bases.append((f"gen{len(bases)}", ls))
    for j in range(6):
        bases.append((f"plain{j}", gen_case(erng, "quick", force="plain")))
    yield from sched.enum_cases(PROP, HARNESS, bases, tier, os.path.join(common.BUILD, "sched-c10"))
    for i in range(4000 if tier == "quick" else 60000):
        yield (f"rand-{i}", gen_case(rng, tier))


# ---------------------------------------------------------------- running
def run_impl(lines):
    return common.run_cmd([HARNESS], "\n".join(lines) + "\n", timeout=75)


def impl_fails(lines):
    a = run_impl(lines)
    v = oracle(a.stdout.splitlines())
    if a.returncode != 0:
        v = ("signal:crash", f"harness exit {a.returncode} {common.san_line(a.stderr)}")
    return v, a


def model_replay(text):
    b = common.run_cmd([common.REPLAY_BIN, "signal"], text)
    div = [l for l in b.stdout.splitlines() if l.startswith(("DIVERGE", "bad-log"))]
    cov = {}
    for l in b.stdout.splitlines():
        if l.startswith("COV "):
            _, k, n = l.split()
            cov[k] = int(n)
    ok = b.returncode == 0 and "SUMMARY" in b.stdout
    return div, cov, ok, b


NONTRIVIAL_KEYS = ("-many", "unreg-handoff", "-during-handler", "reg-in-child-reset")


def evaluate(item):
    name, lines = item
    v, a = impl_fails(lines)
    if v is not None:
        return name, lines, v, None, {}, a
    div, cov, ok, b = model_replay(a.stdout)
    if div or not ok:
        return name, lines, None, (div or ["replayer failed: " + b.stderr[-200:]])[0], cov, a
    return name, lines, None, None, cov, a


def chunked_map(ex, fn, items, stopped, size=192):
    """ex.map in chunks, so that nothing more is started once `stopped()`"""
    chunk = []
    for it in items:
        chunk.append(it)
        if len(chunk) == size:
            for r in ex.map(fn, chunk):
                yield r
            chunk = []
            if stopped():
                return
    for r in ex.map(fn, chunk):
        yield r


def valid_head(o):
    return bool(o) and o[0].startswith("cfg")


def run(tier, seed, proof):
    res = common.Result()
    res.rule = ("generated T-sched scenarios: 1-3 threads, 2-6 iv_signal interests (exclusive / shared, process-wide / this-thread) on 1-2 signals, "
                "deliveries aimed at a thread (also at a plain thread of the program that never called iv_init) or at any thread (from timers, from inside signal handlers, at loop waits, at quiescence), handlers that "
                "unregister (self / others, with free) and re-register, deliveries while a handler runs, a forked child receiving signals and registering; "
                "scheduler seeds from the scenario. Every log is replayed on the Lean LTS (each record = an enabled action, every post/sigaction predicted, "
                "`active` snapshots under sig_lock equal) and judged by the implementation-only grant oracle. non-trivial = the replay covered at least one of: "
                "fan-out to several interests, a hand-off on unregister, a post while the interest's handler stage is active (re-delivery), a post-fork "
                "reset; distinct by hash of the scenario")
    res.assumptions = ["signals are delivered at the harness's scheduling points (wrapped lock/unlock/write/epoll_ctl/wait calls), not between arbitrary instructions",
                       "kernel coalescing of pending standard signals is not modelled (every sent signal is delivered once)",
                       "raw event layer: a post makes the owner run iv_signal_event at least once afterwards (C09)",
                       "AVL tree = sorted list of its nodes (C16); address order of the structs read from the harness (SIGADDR)",
                       "fork: virtual (getpid() answer switched); the child consists of the forking thread only"]
    ok, log = build()
    if not ok:
        res.divergences.append(("T-sched harness for iv_signal.c no longer builds: " + log[-400:], None))
        return res
    if not proof["driver_ok"]:
        return res
    cov = {}
    kinds = {}
    stop = False
    with ThreadPoolExecutor(max_workers=common.NCPU) as ex:
        for name, lines, v, div, c, a in chunked_map(ex, evaluate, gen_cases(tier, seed), lambda: stop):
            if stop:
                continue
            res.evaluations += 1
            for k, n in c.items():
                cov[k] = cov.get(k, 0) + n
            txt = "\n".join(lines)
            if any(any(nk in k for nk in NONTRIVIAL_KEYS) for k in c):
                res.nontrivial.add(hashlib.sha1(txt.encode()).hexdigest()[:12])
            endk = next((w for w in ("WAITLIMIT", "CBLIMIT", "STEPLIMIT", "QUIESCENT", "ALLDONE", "SECTION-DONE") if w in a.stdout), "other")
            kinds[endk] = kinds.get(endk, 0) + 1
            if len(res.samples) < 3 and not name.startswith("corpus"):
                res.samples.append({"case": name, "scenario_head": lines[:10], "n_lines": len(lines), "log_lines": a.stdout.count("\n")})
            if v is not None:
                sig = v[0]
                small = common.shrink(lines, lambda o: valid_head(o) and (impl_fails(o)[0] or (None,))[0] == sig, budget=120)
                v2 = impl_fails(small)[0] or v
                p = common.write_case(PROP, name, small, tier, seed, ext="scn")
                res.impl_violations.append((v2[0], f"implementation violates C10: {v2[1]}", p))
            elif div is not None:
                def still(o):
                    if not valid_head(o):
                        return False
                    x = run_impl(o)
                    return bool(model_replay(x.stdout)[0])
                small = common.shrink(lines, still, budget=80)
                p = common.write_case(PROP, name, small, tier, seed, ext="scn")
                # the minimised diverging scenario is itself valid use: when the oracle rejects the implementation on it (e.g. because the
                # lines that excused a lost delivery are gone) it is a concrete failing input, not just a broken correspondence
                v3 = impl_fails(small)[0]
                if v3 is not None and not v3[0].startswith(("harness", "skip")):
                    res.impl_violations.append((v3[0], f"implementation violates C10: {v3[1]}", p))
                else:
                    res.divergences.append((f"model Ivy.L2.Signal does not predict iv_signal.c: {div[:400]}", p))
            if len(res.impl_violations) + len(res.divergences) >= 4:
                stop = True
    res.extra["model_action_coverage"] = cov
    res.extra["run_endings"] = kinds
    return res


def search(tier, seed, proof):
    res = common.Result()
    ok, _ = build()
    if not ok:
        return res
    for s in range(seed + 900, seed + 903):
        with ThreadPoolExecutor(max_workers=common.NCPU) as ex:
            for name, lines, (v, a) in chunked_map(ex, lambda it: (it[0], it[1], impl_fails(it[1])), gen_cases("quick", s),
                                                   lambda: bool(res.impl_violations)):
                res.evaluations += 1
                if v is not None and not res.impl_violations:
                    sig = v[0]
                    small = common.shrink(lines, lambda o: valid_head(o) and (impl_fails(o)[0] or (None,))[0] == sig, budget=120)
                    v2 = impl_fails(small)[0] or v
                    p = common.write_case(PROP, "search-" + name, small, tier, seed, ext="scn")
                    res.impl_violations.append((v2[0], "implementation violates C10: " + v2[1], p))
        if res.impl_violations:
            return res
    return res


def replay(path):
    lines = [l.rstrip("\n") for l in open(path) if l.strip() and not l.startswith("#")]
    ok, log = build()
    if not ok:
        print(log); return 2
    common.lean_build(["ivyreplay"])
    a = run_impl(lines)
    print("--- implementation log"); print(a.stdout[-6000:], a.stderr[-2000:])
    div, cov, okr, b = model_replay(a.stdout)
    print("--- model replay"); print(b.stdout[-2000:])
    v = oracle(a.stdout.splitlines())
    print("--- oracle:", f"{v[0]}: {v[1]}" if v else "ok")
    return 1 if (v or a.returncode != 0) else 0
