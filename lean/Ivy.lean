import Ivy.L0.Avl
