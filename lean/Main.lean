import Ivy.Drv.Avl
import Ivy.Drv.AvlPtr
import Ivy.Drv.Tls
import Ivy.Drv.ListPtr
import Ivy.Drv.Heap
import Ivy.Drv.Pump
import Ivy.Drv.Loop
import Ivy.Drv.Select
import Ivy.Drv.Inotify
import Ivy.Drv.Popen
import Ivy.Drv.Work
import Ivy.Drv.Wait
import Ivy.Drv.Event
import Ivy.Drv.Signal
import Ivy.Drv.Raw
import Ivy.Drv.FdPoll
import Ivy.Drv.FdEpoll
import Ivy.Drv.TimeArith

def main (args : List String) : IO UInt32 := do
  match args with
  | ["avl"] => Ivy.Drv.Avl.run; return 0
  | ["avlptr"] => Ivy.Drv.AvlPtr.runQuiet; return 0
  | ["tls"] => Ivy.Drv.Tls.run; return 0
  | ["listptr"] => Ivy.Drv.ListPtr.run; return 0
  | ["heap"] => Ivy.Drv.Heap.run; return 0
  | ["pump"] => Ivy.Drv.Pump.run; return 0
  | ["loop"] => Ivy.Drv.Loop.run; return 0
  | ["select"] => Ivy.Drv.Select.run; return 0
  | ["inotify"] => Ivy.Drv.Inotify.run; return 0
  | ["popen"] => Ivy.Drv.Popen.run; return 0
  | ["work"] => Ivy.Drv.Work.run; return 0
  | ["wait"] => Ivy.Drv.Wait.run; return 0
  | ["event"] => Ivy.Drv.Event.run; return 0
  | ["signal"] => Ivy.Drv.Signal.run; return 0
  | ["raw"] => Ivy.Drv.Raw.run; return 0
  | ["fdpoll"] => Ivy.Drv.FdPoll.run; return 0
  | ["fdepoll"] => Ivy.Drv.FdEpoll.run; return 0
  | ["timearith"] => Ivy.Drv.TimeArith.run; return 0
  | _ => IO.eprintln "usage: ivyreplay <component>"; return 2
