import Ivy.Drv.Avl

def main (args : List String) : IO UInt32 := do
  match args with
  | ["avl"] => Ivy.Drv.Avl.run; return 0
  | _ => IO.eprintln "usage: ivyreplay <component>"; return 2
