import Ivy.L1.ProofsC08loop
/-!
# C08 (owner's side, inside one loop) — property theorem over the L1 loop machine

Every trace the loop machine can produce — every poll method, configuration, user program, kernel answer allowed by
`envOk`, and every foreign-thread post at a wait — is accepted by the monitor `Ivy.Mon.C08`: event handlers run only
for registered events and only after a post (coalesced, never over-delivered), and the loop never enters a wait that
can block while a posted event is undelivered unless the wake-up source of the post (one-shot kick armed / kick
descriptor watched) is in place.  The multi-thread side of C08 (posting threads, the pending list under its mutex)
is `Ivy.Props.C08`.  Proofs in `Ivy/L1/ProofsC08loop.lean`.
-/
namespace Ivy.Props.C08loop
open Ivy.L1

theorem monitor_accepts (m : Method) (ntimers : Nat) (timerfdAvail pwait2 : Bool)
    (evs : List Ev) (s' : St) (h : Exec (St.init m ntimers timerfdAvail pwait2) evs s') :
    Ivy.Mon.C08.verdict evs = none :=
  Ivy.L1.ProofsC08loop.monitor_accepts m ntimers timerfdAvail pwait2 evs s' h

end Ivy.Props.C08loop
