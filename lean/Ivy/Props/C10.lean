import Ivy.L2.SignalProofs
import Ivy.L1.TablesAgree
/-!
# C10 — iv_signal: every delivery reaches the interests with the documented fan-out

Property theorems only; the model is `Ivy/L2/Signal.lean` (an LTS over `/repo/src/iv_signal.c`), the
specification vocabulary (`Selected`, `Fanout`, `Inv`, `Oblig`) is in `Ivy/L2/SignalSpec.lean`, all proofs are
in `Ivy/L2/SignalProofs.lean`.  Every theorem quantifies over every state satisfying `Inv`; `run_inv` shows
that `Inv` holds after every history (any interleaving of any number of threads: registrations,
unregistrations, deliveries to any thread split in their two halves, individual raw-event writes, event runs,
forks).  The interest ids stand for the addresses of the `struct iv_signal`s (last key of the comparator).

History (finding D7, repaired in /repo by 5037219): before the repair `iv_signal_unregister` re-walked only
the interest's OWN tree.  For the model of that code the full-strength `handoff_on_unregister` below was
false; the witness was
  `[reg 0 0 10 true true, reg 0 1 10 false false, sigThread 0 10, posted 0, unreg 0 0]` from `State.init 1`:
interest 0 (exclusive, this-thread, thread 0) is noted for the delivery and unregistered before its event
runs; the old walk over thread 0's now empty set posted nothing (`posts o = []`), whereas `Fanout st' 0 10 1`
holds for the process-wide interest 1.  Only the weaker "hand-off within the same tree" was provable.  The
replay is /verif/corpus/C10/d7-handoff-thread-to-process.scn (oracle signature `signal:handoff-dropped` on
the unrepaired code).
-/
namespace Ivy.Props.C10
open Ivy.Signal

theorem init_inv (pid : Nat) (hp : pid ≠ 0) : Inv (State.init pid) := Proofs.init_inv pid hp

/-- The invariant is preserved by every enabled action … -/
theorem step_inv (st : State) (h : Inv st) (a : Action) {st' o} (hs : step st a = some (st', o)) : Inv st' :=
  Proofs.step_inv st h a hs

/-- … hence holds after every history (all orders of register / unregister / delivery / event runs / forks, all
interleavings of the threads' critical sections and raw-event writes). -/
theorem run_inv (pid : Nat) (hp : pid ≠ 0) (as : List Action) {st o} (hr : run (State.init pid) as = some (st, o)) :
    Inv st := Proofs.run_inv _ (Proofs.init_inv pid hp) as hr

/-- fanout_spec, first half of the handler (thread T receives signal n in the owner process): exactly the
interests the documented rule selects among T's own this-thread interests are posted (each once): the first
exclusive one if there is one, otherwise all of them.  The handler goes on to the process-wide set exactly
when T has no own interest for n (and then nothing was posted and nothing else changed). -/
theorem fanout_spec_thread (st : State) (h : Inv st) (T n : Nat) (hp : st.ownerPid = st.pid) {st' o}
    (hs : step st (.sigThread T n) = some (st', o)) :
    (∀ i, i ∈ posts o ↔ Selected (InThr st T) st n i) ∧ (posts o).Nodup ∧ o = (posts o).map Out.post ∧
    (st'.pc T = some n ↔ ¬ HasThr st T n) ∧ (HasThr st T n → st'.pc T = none) ∧ st'.pend T = posts o ∧
    (∀ i, i ∈ posts o → st'.active i = true ∧ st'.noted i = true) ∧
    (¬ HasThr st T n → st' = { st with pc := upd st.pc T (some n) }) :=
  Proofs.fanout_thread st h T n hp hs

/-- fanout_spec, second half (under `sig_lock`, in whatever state the other threads have produced meanwhile):
exactly the interests the rule selects among the process-wide ones are posted, each once; their writes are the
thread's pending writes and `sig_lock` is held until they are done. -/
theorem fanout_spec_process (st : State) (h : Inv st) (T n : Nat) (hpc : st.pc T = some n) {st' o}
    (hs : step st (.sigProc T) = some (st', o)) :
    (∀ i, i ∈ posts o ↔ Selected (InProc st) st n i) ∧ (posts o).Nodup ∧ o = (posts o).map Out.post ∧
    st'.pc T = none ∧ st'.pend T = posts o ∧ (posts o ≠ [] → st'.lock = some T) ∧
    (∀ i, i ∈ posts o → st'.active i = true ∧ st'.noted i = true) :=
  Proofs.fanout_proc st h T n hpc hs

/-- fanout_spec for an uninterrupted delivery: what one delivery of n to thread T posts is exactly `Fanout st T n`
(T's own interests for n by the rule if it has any, else the process-wide ones by the rule). -/
theorem fanout_spec (st : State) (h : Inv st) (T n : Nat) (hp : st.ownerPid = st.pid) {st1 o1}
    (h1 : step st (.sigThread T n) = some (st1, o1)) :
    (HasThr st T n → st1.pc T = none ∧ ∀ i, i ∈ posts o1 ↔ Fanout st T n i) ∧
    (¬ HasThr st T n → o1 = [] ∧ st1.pc T = some n ∧
      ∀ {st2 o2}, step st1 (.sigProc T) = some (st2, o2) → ∀ i, i ∈ posts o2 ↔ Fanout st T n i) :=
  Proofs.fanout_spec st h T n hp h1

/-- every raw-event write of a wake walk can be performed and targets a registered interest (never a closed
descriptor); it makes the event run owed -/
theorem posts_are_written (st : State) (h : Inv st) (T i : Nat) (rest : List Nat) (hp : st.pend T = i :: rest) :
    ∃ st', step st (.posted T) = some (st', []) ∧ st'.owed i = true :=
  Proofs.posted_enabled st h T i rest hp

/-- redelivery_during_handler: a delivery (either half of the handler) that selects interest i — in particular
while i's user handler is running, `stage i = 2`, after `iv_signal_event` cleared `active` — sets `active` again
and creates the obligation `Oblig` (its write is pending, then the event run is owed); the obligation survives every
continuation that contains neither the event run of i itself nor unregistering i nor a fork; and when the handler has
returned (`stage i = 0`), the owner is not inside a signal handler and the write has been performed, the event run
is enabled: the handler is called again. -/
theorem redelivery_during_handler (st : State) (h : Inv st) (i : Nat) (d : Action) (hd : d.isDelivery = true)
    {st1 o1} (hs : step st d = some (st1, o1)) (hp : i ∈ posts o1)
    (as : List Action) (hc : ∀ a, a ∈ as → consumes i a = false) {st2 o2} (hr : run st1 as = some (st2, o2)) :
    st1.active i = true ∧ st1.noted i = true ∧ Oblig st1 i ∧ Oblig st2 i ∧
    (st2.owed i = true → st2.stage i = 0 → busy st2 (st2.owner i) = false →
      ∃ st3, step st2 (.evRead i) = some (st3, [])) :=
  Proofs.redelivery st h i d hd hs hp as hc hr

/-- a noted delivery whose handler has not started keeps `active` set (this is what makes the hand-off fire), and
an event run is owed, in progress, or its write is pending -/
theorem noted_is_served (st : State) (h : Inv st) (i : Nat) (hr : st.reg i = true) (hn : st.noted i = true) :
    st.active i = true ∧ (st.owed i = true ∨ st.stage i = 1 ∨ ∃ T, i ∈ st.pend T) :=
  h.noted_ok i hr hn

/-- handoff_on_unregister (full strength, code as repaired by D7): unregistering an exclusive interest whose `active`
flag is set (by `noted_is_served`: in particular one with a noted delivery whose handler has not run) while other
interests for the signal remain registered posts exactly what a fresh delivery would reach: for a this-thread
interest `Fanout` of the unregistering thread over the remaining interests (its own remaining this-thread
interests by the rule, else the process-wide ones), for a process-wide interest the rule over the remaining
process-wide ones.  Everything posted is marked noted/active and becomes a pending write. -/
theorem handoff_on_unregister (st : State) (h : Inv st) (T i : Nat) {st' o}
    (hs : step st (.unreg T i) = some (st', o))
    (hex : st.excl i = true) (hact : st.active i = true) (hmore : st.count (st.sig i) ≠ 1) :
    (∀ j, j ∈ posts o ↔ (if st.this i then Fanout st' T (st.sig i) j else Selected (InProc st') st' (st.sig i) j)) ∧
    (posts o).Nodup ∧ o = (posts o).map Out.post ∧ st'.pend T = posts o ∧
    (∀ j, j ∈ posts o → st'.active j = true ∧ st'.noted j = true ∧ st'.reg j = true) :=
  Proofs.handoff_on_unregister st h T i hs hex hact hmore

/-- default_restored: the disposition is SIG_DFL exactly when `total_num_interests[n]` is 0, which is exactly
when no interest for n is registered … -/
theorem default_restored (st : State) (h : Inv st) (n : Nat) :
    (st.disp n = false ↔ st.count n = 0) ∧ (st.count n = 0 ↔ ∀ i, st.reg i = true → st.sig i ≠ n) :=
  Proofs.default_restored st h n

/-- … and `iv_signal_unregister` calls sigaction(SIG_DFL) exactly when the last interest for the signal goes
away (and never touches another signal's disposition). -/
theorem default_restored_step (st : State) (h : Inv st) (T i : Nat) {st' o} (hs : step st (.unreg T i) = some (st', o)) :
    (Out.disp (st.sig i) false ∈ o ↔ ∀ j, st.reg j = true → j ≠ i → st.sig j ≠ st.sig i) ∧
    (∀ m b, Out.disp m b ∈ o → m = st.sig i ∧ b = false) :=
  Proofs.unreg_disp st h T i hs

/-- child_is_silent: in a process whose pid differs from the owner pid (a forked child that has not registered
anything itself) a delivery posts nothing and changes nothing … -/
theorem child_is_silent (st : State) (T n : Nat) (hp : st.ownerPid ≠ st.pid) {st' o}
    (hs : step st (.sigThread T n) = some (st', o)) : st' = st ∧ o = [] :=
  Proofs.child_silent_step st T n hp hs

/-- … such a process is what `fork` produces … -/
theorem fork_gives_child (st : State) (p : Nat) (hp : st.ownerPid = st.pid) {c o} (hs : step st (.fork p) = some (c, o)) :
    c.ownerPid ≠ c.pid ∧ o = [] ∧ (∀ T, c.pc T = none ∧ c.pend T = []) ∧ c.ownerPid = st.ownerPid :=
  Proofs.fork_child st p hp hs

/-- … and no sequence of signal-handler actions (first halves, second halves, raw-event writes) in it ever posts. -/
theorem child_is_silent_run (st : State) (h : Inv st) (hp : st.ownerPid ≠ st.pid) (as : List Action)
    (hall : ∀ a, a ∈ as → Proofs.handlerAction a = true) {st' o} (hr : run st as = some (st', o)) :
    st' = st ∧ o = [] :=
  Proofs.child_silent_run st h hp as hall hr

/-- Non-vacuity 1 (fan-out, exclusive stop, this-thread precedence): thread 0 has a shared this-thread interest 5;
process-wide: exclusive 3 and 4, shared 6.  A delivery to thread 0 posts only 5; a delivery to thread 1 posts only
the first exclusive process-wide interest 3. -/
example : (run (State.init 1)
    [.reg 0 5 10 false true, .reg 1 4 10 true false, .reg 1 3 10 true false, .reg 0 6 10 false false,
     .sigThread 0 10, .posted 0, .sigThread 1 10, .sigProc 1, .posted 1]).map (·.2) =
    some [.disp 10 true, .post 5, .post 3] := by decide

/-- Non-vacuity 2 (the D7 scenario on the repaired code): exclusive this-thread interest 0 and process-wide
interest 1; the delivery to thread 0 is noted for 0, which is unregistered before its event runs: the delivery is
handed on to 1. -/
example : (run (State.init 1)
    [.reg 0 0 10 true true, .reg 0 1 10 false false, .sigThread 0 10, .posted 0, .unreg 0 0]).map (·.2) =
    some [.disp 10 true, .post 0, .post 1] := by decide

/-- Non-vacuity 3 (re-delivery during the handler, default restored, silent child). -/
example : (run (State.init 1)
    [.reg 0 0 10 false false, .reg 0 1 12 false false, .sigThread 1 10, .sigProc 1, .posted 1, .evRead 0, .evClear 0,
     .sigThread 1 10, .sigProc 1, .posted 1, .evEnd 0, .evRead 0, .evClear 0, .evEnd 0,
     .unreg 0 0, .fork 2, .sigThread 0 12]).map (·.2) =
    some [.disp 10 true, .disp 12 true, .post 0, .post 0, .disp 10 false] := by decide

/-- T-gen (finite table, re-checked against /repo's current code on every run): `iv_signal_compare` orders all
pairs of the 8-object universe (both signal numbers, exclusive or not, this-thread or not, address order = id order) as
the model's `less` does -/
theorem signal_compare_table_agrees :
    (∀ r ∈ Ivy.Generated.Tables.signalCompare,
      Ivy.L1.TablesAgree.cmp3 Ivy.L1.TablesAgree.sigState r.1 r.2.1 = r.2.2) ∧
    (∀ i ∈ List.range Ivy.Generated.Tables.signalObjs.length, ∀ j ∈ List.range Ivy.Generated.Tables.signalObjs.length,
      (i, j, Ivy.L1.TablesAgree.cmp3 Ivy.L1.TablesAgree.sigState i j) ∈ Ivy.Generated.Tables.signalCompare) :=
  Ivy.L1.TablesAgree.signal_compare_table_agrees

end Ivy.Props.C10
