import Ivy.L0.TlsProofs
/-!
# C18 (extension) — per-module thread state: regions handed to the module hooks are owned, disjoint and complete

Statements about the iv_tls registry (`/repo/src/iv_tls.c`) for EVERY sequence of module registrations
(any number of modules, any state sizes, with or without hooks) and every `sizeof(struct iv_state)`:
the region each module's init/deinit hook and `iv_tls_user_ptr` receive lies inside the block `iv_init`
allocates (`iv_tls_total_state_size()` bytes), above the loop's own `struct iv_state`, is 16-byte aligned
and overlaps no other module's region; every registered module's hooks are called, once per thread
init / deinit, in registration order; `iv_tls_user_ptr` never takes its fatal branch for a registered module.
Property theorems only; proofs in `Ivy/L0/TlsProofs.lean`.
-/
namespace Ivy.Props.C18tls
open Ivy.Tls

/-- Regions are inside the allocated block, above `struct iv_state`, aligned. -/
theorem regions_owned (base : Nat) (us : List User) {s : St} (h : registerAll (St.init base) us = some s) :
    ∀ p ∈ s.users, base ≤ p.2 ∧ p.2 + p.1.size ≤ total s ∧ p.2 % 16 = 0 :=
  (registerAll_inv us (init_inv base) h).inside

/-- No two modules' regions overlap (they are laid out in registration order). -/
theorem regions_disjoint (base : Nat) (us : List User) {s : St} (h : registerAll (St.init base) us = some s) :
    s.users.Pairwise (fun a b => a.2 + a.1.size ≤ b.2) :=
  (registerAll_inv us (init_inv base) h).sorted

/-- Registration before the first `iv_init` always succeeds and records exactly the modules registered, in order. -/
theorem registry_complete (base : Nat) (us : List User) :
    ∃ s, registerAll (St.init base) us = some s ∧ s.users.map (·.1) = us := by
  obtain ⟨s, hs⟩ := registerAll_some us (St.init base) rfl
  exact ⟨s, hs, by have := (registerAll_users us hs).1; simpa [St.init] using this⟩

/-- Thread init / deinit call the hook of every module that has one, once, in registration order, each with its own region. -/
theorem hooks_cover (s : St) :
    (threadInit s).2 = (s.users.filter (·.1.hasInit)).map (·.2) ∧
    threadDeinit s = (s.users.filter (·.1.hasDeinit)).map (·.2) ∧
    (threadInit s).1.users = s.users := ⟨rfl, rfl, rfl⟩

/-- `iv_tls_user_ptr` never hits "called on unregistered iv_tls_user" for a registered module (sizeof(struct iv_state) > 0). -/
theorem user_ptr_ok (base : Nat) (hb : 0 < base) (us : List User) {s : St} (h : registerAll (St.init base) us = some s) :
    ∀ p ∈ s.users, userPtr p.2 = some p.2 := by
  intro p hp
  have := (regions_owned base us h p hp).1
  unfold userPtr
  split
  · omega
  · rfl

/-- Registration after the first `iv_init` is refused (iv_fatal), so the layout can no longer change under a live thread. -/
theorem frozen_after_init (s : St) (u : User) : register (threadInit s).1 u = none := by
  simp [register, threadInit]

/-- Non-vacuity: three modules (sizes 24, 0, 100), base 1000. -/
example : (registerAll (St.init 1000) [⟨24, true, true⟩, ⟨0, false, true⟩, ⟨100, true, false⟩]).map
    (fun s => (s.users.map (·.2), total s, (threadInit s).2, threadDeinit s)) =
    some ([1008, 1040, 1040], 1152, [1008, 1040], [1008, 1040]) := by decide

end Ivy.Props.C18tls
