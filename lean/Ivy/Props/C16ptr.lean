import Ivy.L0.AvlPtrProofs
/-!
# C16 (pointer level) — iv_avl.c with its `left`/`right`/`parent` pointers refines the
functional AVL model, and parent-pointer traversal visits the in-order sequence

`Ivy/L0/AvlPtr.lean` transcribes iv_avl.c (and `iv_avl_tree_min/max` of iv_avl.h) statement by
statement over a heap of node records.  `Repr h t ids` (`Ivy/L0/AvlPtrRepr.lean`) says: heap `h`
holds a pointer structure with exactly the shape, keys and stored heights of the functional
tree `t`; every node's `parent` field is its actual parent (root: NULL); `ids` is the in-order
list of node addresses and they are pairwise distinct.

Property theorems only; all helper lemmas live in `Ivy/L0/AvlPtr*.lean`.
Together with `Ivy/Props/C16.lean` (which proves the functional model correct) this gives the
set/order/balance guarantees for the pointer structure itself.
-/
namespace Ivy.Props.C16ptr
open Ivy.Avl (Tree toList size Inv Ordered)
open Ivy.AvlPtr

/-- The empty tree (`INIT_IV_AVL_TREE`) is represented by the empty heap. -/
theorem init : Repr empty Tree.nil [] := repr_empty

/-- Parent consistency is part of `Repr`: the root's `parent` is NULL and every child's
`parent` field points back to the node whose `left`/`right` field points to it. -/
theorem parents_consistent {h : Heap} {t : Tree} {ids : List Nat} (hR : Repr h t ids) :
    (∀ i, h.root = some i → ∃ n, h.mem i = some n ∧ n.parent = none) ∧
    (∀ i ∈ ids, ∃ n, h.mem i = some n ∧
      (∀ c, n.left = some c → ∃ nc, h.mem c = some nc ∧ nc.parent = some i) ∧
      (∀ c, n.right = some c → ∃ nc, h.mem c = some nc ∧ nc.parent = some i)) :=
  repr_parents hR

/-- `iv_avl_tree_insert` refines `Avl.insert`: whatever the functional model returns
(`(T, 0)` or, for a duplicate key, `(t, -1)`), the pointer code returns the same code and leaves
a heap representing `T` (all parent pointers consistent after any rotation / early stop); the
new node's address is spliced into the in-order address list; memory outside the tree and the
new node is untouched.  Fuel `size t + 1` suffices for both loops. -/
theorem insert_refines {h : Heap} {t T : Tree} {ids : List Nat} {a : Nat} {na : Node}
    {fuel : Nat} {rc : Int}
    (hR : Repr h t ids) (ha : h.mem a = some na) (hfresh : a ∉ ids) (hf : size t < fuel)
    (hins : Ivy.Avl.insert na.key t = some (T, rc)) :
    ∃ h' ids', insert fuel h a = some (h', rc) ∧ Repr h' T ids' ∧
      ((rc = 0 ∧ ∃ pre post, ids = pre ++ post ∧ ids' = pre ++ a :: post) ∨
        (rc = -1 ∧ h' = h ∧ ids' = ids)) ∧
      (∀ n, n ∉ ids → n ≠ a → h'.mem n = h.mem n) :=
  Ivy.AvlPtr.insert_refines hR ha hfresh hf hins

/-- With the C16 invariant the pointer-level insert of an absent key always succeeds. -/
theorem insert_new {h : Heap} {t : Tree} {ids : List Nat} {a : Nat} {na : Node} {fuel : Nat}
    (hR : Repr h t ids) (hinv : Inv t) (ha : h.mem a = some na) (hfresh : a ∉ ids)
    (hx : na.key ∉ toList t) (hf : size t < fuel) :
    ∃ h' T ids', insert fuel h a = some (h', 0) ∧ Repr h' T ids' ∧ Inv T ∧
      Ivy.Avl.insert na.key t = some (T, 0) ∧
      (∀ y, y ∈ toList T ↔ (y = na.key ∨ y ∈ toList t)) := by
  obtain ⟨T, e, inv, mem⟩ := Ivy.Avl.Proofs.insert_new t na.key hinv hx
  obtain ⟨h', ids', e', hR', _, _⟩ := Ivy.AvlPtr.insert_refines hR ha hfresh hf e
  exact ⟨h', T, ids', e', hR', inv, e, mem⟩

/-- … and inserting a key already present returns −1 and changes nothing. -/
theorem insert_dup {h : Heap} {t : Tree} {ids : List Nat} {a : Nat} {na : Node} {fuel : Nat}
    (hR : Repr h t ids) (hinv : Inv t) (ha : h.mem a = some na) (hfresh : a ∉ ids)
    (hx : na.key ∈ toList t) (hf : size t < fuel) :
    insert fuel h a = some (h, -1) := by
  have e := Ivy.Avl.Proofs.insert_dup t na.key hinv hx
  obtain ⟨h', ids', e', _, hcase, _⟩ := Ivy.AvlPtr.insert_refines hR ha hfresh hf e
  rcases hcase with ⟨h0, _⟩ | ⟨_, rfl, _⟩
  · simp at h0
  · exact e'

/-- `iv_avl_tree_delete` refines `Avl.delete` of the key stored in the node: no fault, the
result heap represents the functional result, the address list is the old one without `a`
(parent pointers consistent after the victim splice, the node replacement, all rotations and
the early stop), memory outside the tree untouched. -/
theorem delete_refines {h : Heap} {t T : Tree} {ids : List Nat} {a : Nat} {na : Node}
    {fuel : Nat}
    (hR : Repr h t ids) (ha : a ∈ ids) (hna : h.mem a = some na) (hord : Ordered t)
    (hf : size t < fuel) (hdel : Ivy.Avl.delete na.key t = some T) :
    ∃ h' A B, delete fuel h a = some h' ∧ ids = A ++ a :: B ∧ Repr h' T (A ++ B) ∧
      (∀ j, j ∉ ids → h'.mem j = h.mem j) :=
  Ivy.AvlPtr.delete_refines hR ha hna hord hf hdel

/-- With the C16 invariant deleting any node of the tree always succeeds. -/
theorem delete_node {h : Heap} {t : Tree} {ids : List Nat} {a : Nat} {fuel : Nat}
    (hR : Repr h t ids) (hinv : Inv t) (ha : a ∈ ids) (hf : size t < fuel) :
    ∃ na h' T A B, h.mem a = some na ∧ delete fuel h a = some h' ∧
      Ivy.Avl.delete na.key t = some T ∧ ids = A ++ a :: B ∧ Repr h' T (A ++ B) ∧ Inv T ∧
      (∀ y, y ∈ toList T ↔ (y ≠ na.key ∧ y ∈ toList t)) := by
  obtain ⟨na, hna, _⟩ := (repr_parents hR).2 a ha
  have hk := keyAt_ids hR
  have hx : na.key ∈ toList t := by
    have : some na.key ∈ ids.map (keyAt h) := by
      refine List.mem_map.2 ⟨a, ha, ?_⟩
      simp [keyAt, hna]
    rw [hk] at this
    obtain ⟨y, hy, e⟩ := List.mem_map.1 this
    cases e; exact hy
  obtain ⟨T, e, inv, mem⟩ := Ivy.Avl.Proofs.delete_mem t na.key hinv hx
  obtain ⟨h', A, B, e', eids, hR', _⟩ := Ivy.AvlPtr.delete_refines hR ha hna hinv.ord hf e
  exact ⟨na, h', T, A, B, hna, e', e, eids, hR', inv, mem⟩

/-- `iv_avl_tree_next` of the node holding the `n`-th key of `toList t` is the node holding the
`n+1`-th key (NULL for the maximum). -/
theorem next_is_successor {h : Heap} {t : Tree} {ids : List Nat} {fuel n : Nat} {i : Nat}
    (hR : Repr h t ids) (hf : size t ≤ fuel) (hi : ids[n]? = some i) :
    next fuel h i = some ids[n + 1]? ∧ keyAt h i = (toList t)[n]? ∧
      (ids[n + 1]?.bind (keyAt h)) = (toList t)[n + 1]? :=
  next_key hR hf hi

/-- `iv_avl_tree_prev` symmetric (NULL for the minimum: see `min_max`). -/
theorem prev_is_predecessor {h : Heap} {t : Tree} {ids : List Nat} {fuel n : Nat} {i : Nat}
    (hR : Repr h t ids) (hf : size t ≤ fuel) (hi : ids[n + 1]? = some i) :
    prev fuel h i = some ids[n]? ∧ keyAt h i = (toList t)[n + 1]? ∧
      (ids[n]?.bind (keyAt h)) = (toList t)[n]? :=
  prev_key hR hf hi

/-- `prev` of the first node and `next` of the last node are NULL. -/
theorem ends_null {h : Heap} {t : Tree} {i : Nat} {rest : List Nat} {fuel : Nat}
    (hf : size t ≤ fuel) :
    (Repr h t (i :: rest) → prev fuel h i = some none) ∧
    (Repr h t (rest ++ [i]) → next fuel h i = some none) :=
  ⟨fun hR => prev_spec (A := []) hR rfl hf, fun hR => next_spec (B := []) hR rfl hf⟩

/-- `iv_avl_tree_min` / `iv_avl_tree_max` return the nodes holding the head / last of `toList`. -/
theorem min_max {h : Heap} {t : Tree} {ids : List Nat} {fuel : Nat}
    (hR : Repr h t ids) (hf : size t ≤ fuel) :
    (min fuel h = some ids.head? ∧ ids.head?.bind (keyAt h) = (toList t).head?) ∧
    (max fuel h = some ids.getLast? ∧ ids.getLast?.bind (keyAt h) = (toList t).getLast?) :=
  ⟨min_key hR hf, max_key hR hf⟩

/-- `iv_avl_tree_for_each` (min, then next until NULL) terminates and visits exactly the nodes
of the tree in order: the keys seen are `toList t`. -/
theorem forward_traversal {h : Heap} {t : Tree} {ids : List Nat} {fuel : Nat}
    (hR : Repr h t ids) (hf : size t ≤ fuel) :
    forEach fuel h = some ids ∧
    (forEach fuel h).map (keysOf h) = some ((toList t).map some) :=
  ⟨forEach_spec hR hf, forEach_keys hR hf⟩

/-- max, then prev until NULL: the reverse. -/
theorem backward_traversal {h : Heap} {t : Tree} {ids : List Nat} {fuel : Nat}
    (hR : Repr h t ids) (hf : size t ≤ fuel) :
    forEachRev fuel h = some ids.reverse ∧
    (forEachRev fuel h).map (keysOf h) = some ((toList t).reverse.map some) :=
  ⟨forEachRev_spec hR hf, forEachRev_keys hR hf⟩

/-! ## Non-vacuity: a concrete heap built by the pointer-level code itself -/

/-- insert keys one by one; the node for key `k` lives at address `k` -/
def buildKeys (ks : List Nat) : Option Heap :=
  ks.foldl (fun oh k => do
    let h ← oh
    let (h, _) ← insert 16 (alloc h k k) k
    some h) (some empty)

/-- read the pointer structure back as a functional tree -/
def reify : Nat → Heap → Option Nat → Tree
  | 0, _, _ => .nil
  | _, _, none => .nil
  | f + 1, h, some i =>
    match h.mem i with
    | none => .nil
    | some n => .node (reify f h n.left) n.key n.height (reify f h n.right)

def funKeys (ks : List Nat) : Option Tree :=
  ks.foldl (fun ot (k : Nat) => do
    let t ← ot
    let (t, _) ← Ivy.Avl.insert (Int.ofNat k) t
    some t) (some .nil)

/-- nine inserts (single and double rotations, early stops) then forward and backward
traversal through parent pointers -/
example : (buildKeys [5, 3, 8, 1, 4, 7, 9, 2, 6]).bind (forEach 16) =
    some [1, 2, 3, 4, 5, 6, 7, 8, 9] := by decide
example : (buildKeys [5, 3, 8, 1, 4, 7, 9, 2, 6]).bind (forEachRev 16) =
    some [9, 8, 7, 6, 5, 4, 3, 2, 1] := by decide
/-- ascending inserts force rotations at the root; shape, keys and stored heights equal the
functional model's -/
example : (buildKeys [1, 2, 3, 4, 5, 6, 7]).map (fun h => reify 16 h h.root) =
    funKeys [1, 2, 3, 4, 5, 6, 7] := by decide
/-- deletes: inner node with victim (5), leaf (1), node with one child -/
example : ((buildKeys [5, 3, 8, 1, 4, 7, 9, 2, 6]).bind (fun h => delete 16 h 5)).bind
    (forEach 16) = some [1, 2, 3, 4, 6, 7, 8, 9] := by decide
example : (((buildKeys [5, 3, 8, 1, 4, 7, 9, 2, 6]).bind (fun h => delete 16 h 5)).bind
    (fun h => delete 16 h 1)).bind (forEachRev 16) = some [9, 8, 7, 6, 4, 3, 2] := by decide
/-- a duplicate insert returns −1 -/
example : ((buildKeys [2, 1, 3]).bind (fun h => insert 16 (alloc h 7 2) 7)).map (·.2) =
    some (-1) := by decide

/-- The hypothesis `Repr` is satisfiable by a heap the pointer code produced: after inserting
2, 1, 3 the heap represents the three-node tree, and the theorems above apply to it. -/
def h3 : Heap := (buildKeys [2, 1, 3]).getD empty

theorem h3_repr : Repr h3 (.node (.node .nil 1 1 .nil) 2 2 (.node .nil 3 1 .nil)) [1, 2, 3] :=
  ⟨⟨2, some 1, some 3, [1], [3], by decide, by decide,
      ⟨1, none, none, [], [], rfl, by decide, ⟨rfl, rfl⟩, ⟨rfl, rfl⟩, rfl⟩,
      ⟨3, none, none, [], [], rfl, by decide, ⟨rfl, rfl⟩, ⟨rfl, rfl⟩, rfl⟩, rfl⟩,
    by decide⟩

example : forEach 4 h3 = some [1, 2, 3] := (forward_traversal h3_repr (by decide)).1
example : forEachRev 4 h3 = some [3, 2, 1] := (backward_traversal h3_repr (by decide)).1

end Ivy.Props.C16ptr
