import Ivy.L0.FdPollProofs
/-!
# C15 (poll / ppoll back end) — the bookkeeping of `/repo/src/iv_fd_poll.c`

`Ivy/L0/FdPoll.lean` transcribes `iv_fd_poll_register_fd`, `bits_to_poll_mask`,
`iv_fd_poll_notify_fd` (three branches, swap-remove of the dense arrays `pfds[]` / `fds[]`, the
per-descriptor `u.index`), `iv_fd_poll_activate_fds`, `iv_fd_poll_notify_fd_sync`, and the callers
in `iv_fd.c` (`recompute_wanted_flags`, `notify_fd`, `iv_fd_register`, `iv_fd_register_try`,
`iv_fd_unregister`, `iv_fd_set_handler_*`) statement by statement.  `step s op` is one API call,
`run s ops` a sequence of calls, `init` the state after `iv_fd_poll_init`.

All theorems about sequences hold for EVERY finite sequence of calls (`ops : List Op`,
induction; no bound on length, number of objects or descriptor numbers).

* `WF s` — the representation invariant (fields documented in `Ivy/L0/FdPollProofs.lean`).
* `isWanted s o` — `o` is registered and wants a band; `entryOf s o` — the `struct pollfd` the
  kernel should see for `o`; `pollArray s` — the first `num` entries of `pfds[]`, what `poll()`
  is handed; `pollSet s univ` — the abstract poll set listed along `univ`.
* `slotEntry s o` — the entry currently polled for `o` (`none` if it has no slot).

Property theorems only; proofs of the lemmas live in `Ivy/L0/FdPollProofs.lean`.
Each main theorem is followed by an `example` instantiating its hypotheses on the concrete state
`exState` (three objects, after a swap-remove) — non-vacuity.
-/
namespace Ivy.Props.C15poll
open Ivy.FdPoll

/-! ## the concrete state used by the non-vacuity examples -/

/-- objects 0,1,2 with descriptors 10,11,12: all three get an `in` handler and are registered,
1 also gets `out`+`err`; then 0 is unregistered from slot 0 (so the last slot, object 2, is moved
into slot 0), and 0 is registered again without handlers via `iv_fd_register_try`. -/
def exOps : List Op :=
  [.setFd 0 10, .setHandler 0 .inn true, .register 0,
   .setFd 1 11, .setHandler 1 .inn true, .register 1,
   .setFd 2 12, .setHandler 2 .inn true, .register 2,
   .setHandler 1 .out true, .setHandler 1 .err true,
   .unregister 0, .setHandler 0 .inn false, .registerTry 0 true]

def exState : State := run init exOps

/-- the example state is not trivial: two live slots, object 2 was moved into slot 0, object 0 is
registered without a slot, and slot 2 still holds stale data -/
example : exState.num = 2 ∧ exState.fds 0 = 2 ∧ exState.fds 1 = 1 ∧
    (exState.objs 2).index = some 0 ∧ (exState.objs 0).registered = true ∧
    (exState.objs 0).index = none ∧ exState.fds 2 = 0 ∧
    pollArray exState = [⟨12, POLLIN ||| POLLHUP⟩, ⟨11, POLLIN ||| POLLOUT ||| POLLHUP⟩] := by
  decide

/-! ## `bits_to_poll_mask` -/

/-- the table of `bits_to_poll_mask`, all eight band combinations -/
theorem mask_table :
    bitsToPollMask 0 = 0 ∧
    bitsToPollMask MASKIN = POLLIN ||| POLLHUP ∧
    bitsToPollMask MASKOUT = POLLOUT ||| POLLHUP ∧
    bitsToPollMask (MASKIN ||| MASKOUT) = POLLIN ||| POLLOUT ||| POLLHUP ∧
    bitsToPollMask MASKERR = POLLHUP ∧
    bitsToPollMask (MASKIN ||| MASKERR) = POLLIN ||| POLLHUP ∧
    bitsToPollMask (MASKOUT ||| MASKERR) = POLLOUT ||| POLLHUP ∧
    bitsToPollMask (MASKIN ||| MASKOUT ||| MASKERR) = POLLIN ||| POLLOUT ||| POLLHUP := by
  decide

/-- `POLLHUP` is requested whenever any band is wanted; `POLLIN` / `POLLOUT` exactly when
`MASKIN` / `MASKOUT` is; nothing else is ever requested -/
theorem mask_bits : ∀ b, b < 8 →
    (b ≠ 0 → bitsToPollMask b &&& POLLHUP ≠ 0) ∧
    (bitsToPollMask b &&& POLLIN ≠ 0 ↔ b &&& MASKIN ≠ 0) ∧
    (bitsToPollMask b &&& POLLOUT ≠ 0 ↔ b &&& MASKOUT ≠ 0) ∧
    bitsToPollMask b &&& (POLLIN ||| POLLOUT ||| POLLHUP) = bitsToPollMask b ∧
    (bitsToPollMask b = 0 ↔ b = 0) := by
  decide

/-- `recompute_wanted_flags` only ever produces the eight combinations of the table -/
theorem recompute_lt_8 (fd : Obj) : recomputeWanted fd < 8 := by
  cases fd with
  | mk fdnum hin hout herr registered wanted index =>
    cases hin <;> cases hout <;> cases herr <;> cases registered <;>
      simp [recomputeWanted, MASKIN, MASKOUT, MASKERR]

/-! ## the invariant -/

/-- right after `iv_fd_poll_init` (no slots, nothing registered) the invariant holds -/
theorem wf_init : WF init := init_wf

/-- `fd->wanted_bands = b; method->notify_fd(st, fd)` on a registered object — the only way
iv_fd.c drives the back end — preserves the invariant, whatever `b` is -/
theorem wf_setWanted {s : State} (h : WF s) {o : Nat} (ho : (s.objs o).registered = true)
    (b : Nat) : WF (setWanted s o b) :=
  setWanted_wf h ho b

example : WF (setWanted exState 2 0) := wf_setWanted (run_wf init_wf _) (by decide) 0

/-- every API call preserves the invariant -/
theorem wf_step {s : State} (h : WF s) (op : Op) : WF (step s op) := step_wf h op

/-- ... hence every sequence of API calls does, from any well-formed state -/
theorem wf_run {s : State} (h : WF s) (ops : List Op) : WF (run s ops) := run_wf h ops

/-- the invariant holds after ANY sequence of API calls on a fresh back end -/
theorem wf_reachable (ops : List Op) : WF (run init ops) := run_wf init_wf ops

example : WF exState := wf_reachable exOps

/-- the invariant, item by item, after any sequence of calls: for every live slot `i` the object
in it knows its slot, is registered, and `pfds[i]` is exactly its descriptor number with the mask
of its wanted bands -/
theorem slots_consistent (ops : List Op) (i : Nat) (hi : i < (run init ops).num) :
    let s := run init ops
    (s.objs (s.fds i)).index = some i ∧ (s.objs (s.fds i)).registered = true ∧
    s.pfds i = entryOf s (s.fds i) := by
  have h := wf_reachable ops
  refine ⟨h.slot_index i hi, h.slot_reg i hi, ?_⟩
  have h3 := h.slot_fd i hi
  have h4 := h.slot_events i hi
  cases hp : (run init ops).pfds i
  simp_all [entryOf]

example : (0 : Nat) < (run init exOps).num := by decide

/-- a registered object has a slot (`u.index != -1`) exactly when it wants some band; the index
is then below `num` and the slot holds that very object -/
theorem index_iff_wanted (ops : List Op) (o : Nat)
    (ho : ((run init ops).objs o).registered = true) :
    let s := run init ops
    ((s.objs o).index ≠ none ↔ (s.objs o).wanted ≠ 0) ∧
    ∀ i, (s.objs o).index = some i → i < s.num ∧ s.fds i = o :=
  ⟨(wf_reachable ops).obj_wanted o ho, fun i hi => (wf_reachable ops).obj_slot o i ho hi⟩

example : ((run init exOps).objs 0).registered = true ∧ ((run init exOps).objs 2).registered = true
    ∧ ((run init exOps).objs 2).index = some 0 := by decide

/-- no object occupies two live slots -/
theorem no_two_slots (ops : List Op) (i j : Nat) (hi : i < (run init ops).num)
    (hj : j < (run init ops).num) (h : (run init ops).fds i = (run init ops).fds j) : i = j := by
  have h1 := (wf_reachable ops).slot_index i hi
  have h2 := (wf_reachable ops).slot_index j hj
  rw [h, h2] at h1
  exact (Option.some.inj h1).symm

/-- `wanted_bands` of a registered object is what `recompute_wanted_flags` computes from its three
handlers (so it is one of the eight table rows) -/
theorem wanted_tied (ops : List Op) (o : Nat)
    (ho : ((run init ops).objs o).registered = true) :
    ((run init ops).objs o).wanted = recomputeWanted ((run init ops).objs o) ∧
    ((run init ops).objs o).wanted < 8 := by
  have h := run_tied (s := init) (by intro o; simp [init]) ops o ho
  exact ⟨h, h ▸ recompute_lt_8 _⟩

/-- every entry handed to `poll()` asks for `POLLHUP` (and for nothing outside
`POLLIN | POLLOUT | POLLHUP`), after any sequence of calls -/
theorem pollhup_always_requested (ops : List Op) (i : Nat) (hi : i < (run init ops).num) :
    ((run init ops).pfds i).events &&& POLLHUP ≠ 0 := by
  have h := wf_reachable ops
  have hr := h.slot_reg i hi
  have hw := (h.obj_wanted _ hr).1 (by simp [h.slot_index i hi])
  rw [h.slot_events i hi]
  exact (mask_bits _ (wanted_tied ops _ hr).2).1 hw

/-- the removal branch is only entered with `num_regd_fds > 0` (the model's truncated `num - 1`
is the C `num_regd_fds--`): in the state `notify_fd(x)` runs in, an index is always below `num` -/
theorem num_pos_of_index {s : State} {x i : Nat} (h : WFx s x)
    (hi : (s.objs x).index = some i) : i < s.num :=
  (h.obj_slot x i (.inr rfl) hi).1

/-- Capacity.  The C code never compares `num_regd_fds` with the `IV_FD_POLL_MAXFD` entries it
allocated.  This is the condition under which that is safe: after any sequence of calls, if no two
registered objects share a descriptor number (two `struct iv_fd` on one descriptor is what would
break it), then `num_regd_fds ≤ IV_FD_POLL_MAXFD` — every registered descriptor number is below
`IV_FD_POLL_MAXFD` because `iv_fd_poll_register_fd` refuses others. -/
theorem num_le_capacity (ops : List Op)
    (hd : ∀ o o', ((run init ops).objs o).registered = true →
      ((run init ops).objs o').registered = true →
      ((run init ops).objs o).fdnum = ((run init ops).objs o').fdnum → o = o') :
    (run init ops).num ≤ MAXFD ∧
    ∀ o, ((run init ops).objs o).registered = true → ((run init ops).objs o).fdnum < MAXFD :=
  ⟨num_le_maxfd (wf_reachable ops) (run_fdBound (by intro o; simp [init]) ops) hd,
   run_fdBound (by intro o; simp [init]) ops⟩

/-- non-vacuity: in `exState` the registered objects 0, 1, 2 have descriptors 10, 11, 12 -/
example : ((exState.objs 0).registered, (exState.objs 1).registered, (exState.objs 2).registered,
    (exState.objs 0).fdnum, (exState.objs 1).fdnum, (exState.objs 2).fdnum) =
    (true, true, true, 10, 11, 12) := by decide

/-! ## refinement: `pfds[0..num)` is the abstract poll set -/

/-- After any sequence of calls, the array handed to `poll()` is, as a multiset, exactly
`{ (fd->fd, bits_to_poll_mask(wanted_bands)) | fd registered, wanted_bands ≠ 0 }`:
for every duplicate-free enumeration `univ` of (at least) the registered objects, `pollArray` is
a permutation of `pollSet` along `univ`. -/
theorem pollset_refines (ops : List Op) (univ : List Nat) (hnd : univ.Nodup)
    (hcov : ∀ o, ((run init ops).objs o).registered = true → o ∈ univ) :
    (pollArray (run init ops)).Perm (pollSet (run init ops) univ) :=
  pollArray_perm (wf_reachable ops) hnd hcov

/-- the same with the enumeration made explicit: the objects named by the calls -/
theorem pollset_refines_named (ops : List Op) :
    (pollArray (run init ops)).Perm (pollSet (run init ops) (dedup (ops.map Op.obj))) :=
  pollset_refines ops _ (nodup_dedup _) fun o ho =>
    mem_dedup.2 ((run_registered_sub ops o ho).resolve_left (by simp [init]))

example : dedup (exOps.map Op.obj) = [2, 1, 0] ∧ pollSet (run init exOps) [0, 1, 2] =
    [⟨11, POLLIN ||| POLLOUT ||| POLLHUP⟩, ⟨12, POLLIN ||| POLLHUP⟩] ∧
    pollArray (run init exOps) = [⟨12, POLLIN ||| POLLHUP⟩, ⟨11, POLLIN ||| POLLOUT ||| POLLHUP⟩] := by
  decide

/-- `num_regd_fds` is the number of registered objects that want a band -/
theorem num_eq_wanted_count (ops : List Op) :
    (run init ops).num = ((dedup (ops.map Op.obj)).filter (isWanted (run init ops))).length :=
  num_eq_count (wf_reachable ops) (nodup_dedup _) fun o ho =>
    mem_dedup.2 ((run_registered_sub ops o ho).resolve_left (by simp [init]))

/-- Frame: an API call on one object never changes what is polled for another registered object
`o` — its entry (`slotEntry`: descriptor number and event mask, or "no slot") is the same before
and after, and so is every field of `o` except possibly `u.index` (its slot may move). -/
theorem frame_other_objects {s : State} (h : WF s) (op : Op) {o : Nat} (ho : o ≠ op.obj)
    (hr : (s.objs o).registered = true) :
    slotEntry (step s op) o = slotEntry s o ∧
    ((step s op).objs o).noIndex = (s.objs o).noIndex :=
  step_frame h op ho hr

/-- non-vacuity: unregistering object 2 (slot 0) moves object 1 from slot 1 to slot 0; its entry
is unchanged -/
example : WF exState ∧ (1 : Nat) ≠ (Op.unregister 2).obj ∧ (exState.objs 1).registered = true ∧
    (exState.objs 1).index = some 1 ∧ ((step exState (.unregister 2)).objs 1).index = some 0 ∧
    slotEntry exState 1 = some ⟨11, POLLIN ||| POLLOUT ||| POLLHUP⟩ :=
  ⟨wf_reachable exOps, by decide, by decide, by decide, by decide, by decide⟩

/-- the slot of another object moves only in the swap-remove: it was the last slot, `x` wants
nothing any more, and it lands in `x`'s old slot -/
theorem frame_slot_moves_only_on_swap {s : State} {x : Nat} (h : WFx s x) {o : Nat} (ho : o ≠ x)
    (hr : (s.objs o).registered = true) :
    ((notifyFd s x).objs o).index = (s.objs o).index ∨
    ((s.objs o).index = some (s.num - 1) ∧ (s.objs x).wanted = 0 ∧
      ((notifyFd s x).objs o).index = (s.objs x).index) :=
  (notifyFd_frame h ho hr).2

/-! ## dispatch: `iv_fd_poll_activate_fds` -/

/-- the three tests of the loop body: which bands one `revents` value makes ready -/
theorem bandsOf_spec (r b : Nat) :
    b ∈ bandsOf r ↔
      (b = MASKIN ∧ r &&& (POLLIN ||| POLLERR ||| POLLHUP) ≠ 0) ∨
      (b = MASKOUT ∧ r &&& (POLLOUT ||| POLLERR ||| POLLHUP) ≠ 0) ∨
      (b = MASKERR ∧ r &&& (POLLERR ||| POLLHUP) ≠ 0) :=
  bandsOf_mem r b

/-- in C order: MASKIN, MASKOUT, MASKERR — e.g. a hang-up makes all three ready -/
example : bandsOf POLLIN = [MASKIN] ∧ bandsOf POLLOUT = [MASKOUT] ∧
    bandsOf POLLHUP = [MASKIN, MASKOUT, MASKERR] ∧ bandsOf POLLERR = [MASKIN, MASKOUT, MASKERR] ∧
    bandsOf (POLLIN ||| POLLOUT) = [MASKIN, MASKOUT] ∧ bandsOf 0 = [] ∧ bandsOf POLLNVAL = [] := by
  decide

/-- For any `revents` vector, after any sequence of calls (any history of swap-removes):
`activate` reports, slot by slot in increasing order, the bands `bandsOf (revents i)` for the
object `fds[i]`; and that object is the registered object whose descriptor number is `pfds[i].fd`,
whose wanted bands produced `pfds[i].events`, and which believes it is in slot `i` — readiness of
a descriptor is never attributed to another object. -/
theorem dispatch_no_misattribution (ops : List Op) (revents : Nat → Nat) :
    let s := run init ops
    activate s revents =
      (List.range s.num).flatMap (fun i => (bandsOf (revents i)).map (fun b => (s.fds i, b))) ∧
    ∀ i, i < s.num →
      (s.objs (s.fds i)).registered = true ∧ (s.objs (s.fds i)).index = some i ∧
      (s.objs (s.fds i)).fdnum = (s.pfds i).fd ∧
      bitsToPollMask (s.objs (s.fds i)).wanted = (s.pfds i).events ∧
      ∀ b, b ∈ bandsOf (revents i) → (s.fds i, b) ∈ activate s revents := by
  have h := wf_reachable ops
  refine ⟨rfl, fun i hi => ⟨h.slot_reg i hi, h.slot_index i hi, (h.slot_fd i hi).symm,
    (h.slot_events i hi).symm, fun b hb => mem_activate.2 ⟨i, hi, rfl, hb⟩⟩⟩

example : activate exState (fun i => if i = 0 then POLLIN else POLLHUP) =
    [(2, MASKIN), (1, MASKIN), (1, MASKOUT), (1, MASKERR)] := by decide

/-- End to end: if the kernel answers `K fd events` for a descriptor `fd` polled for `events`
(`kernelRevents`), then after any sequence of calls `iv_fd_make_ready(o, b)` is called exactly for
the registered objects `o` that want some band, with exactly the bands that the kernel's answer
for `o`'s own descriptor and `o`'s own mask makes ready. -/
theorem dispatch_kernel (ops : List Op) (K : Nat → Nat → Nat) (o b : Nat) :
    let s := run init ops
    (o, b) ∈ activate s (kernelRevents s K) ↔
      isWanted s o = true ∧
      b ∈ bandsOf (K (s.objs o).fdnum (bitsToPollMask (s.objs o).wanted)) :=
  mem_activate_kernel (wf_reachable ops) K o b

/-- a kernel in which only descriptor 12 is readable: object 2 (descriptor 12, now in slot 0) and
nobody else is made ready, for `MASKIN` only -/
example : activate exState (kernelRevents exState fun fd ev => if fd = 12 then ev &&& POLLIN else 0)
    = [(2, MASKIN)] := by decide

/-! ## the check has teeth: the mutant that forgets `last->u.index = fd->u.index` -/

/-- register A (object 0) and B (object 1), each with an `in` handler; remove A (B is moved from
slot 1 to slot 0); add C (object 2); remove B -/
def mutOps : List Op :=
  [.setFd 0 10, .setHandler 0 .inn true, .register 0,
   .setFd 1 11, .setHandler 1 .inn true, .register 1,
   .setHandler 0 .inn false,
   .setFd 2 12, .setHandler 2 .inn true, .register 2,
   .setHandler 1 .inn false]

/-- the state the mutant back end is in after `mutOps` -/
def mutState : State := runMut init mutOps

/-- On the mutant (`notifyFdMut`: the moved object keeps its stale index) this sequence ends with
one live slot that still polls B's descriptor 11 although B wants nothing, while C — registered,
wanting `MASKIN` — believes it is in slot 1 `≥ num`: C's descriptor 12 is not in the array handed
to `poll()`.  The invariant fails and C has been dropped from the poll set. -/
theorem mutant_drops_C :
    let s := mutState
    s.num = 1 ∧ s.fds 0 = 1 ∧ (s.pfds 0).fd = 11 ∧ (s.objs 1).wanted = 0 ∧
    (s.objs 2).registered = true ∧ (s.objs 2).wanted = MASKIN ∧ (s.objs 2).index = some 1 ∧
    pollArray s = [⟨11, POLLIN ||| POLLHUP⟩] ∧
    pollSet s [0, 1, 2] = [⟨12, POLLIN ||| POLLHUP⟩] := by
  decide

theorem mutant_breaks_wf : ¬ WF mutState := by
  intro h
  have m := mutant_drops_C
  have h1 : mutState.num = 1 := m.1
  have h2 := (h.obj_slot 2 1 m.2.2.2.2.1 m.2.2.2.2.2.2.1).1
  omega

/-- the same sequence on the real code: C is the one polled entry -/
theorem real_keeps_C :
    let s := run init mutOps
    s.num = 1 ∧ s.fds 0 = 2 ∧ (s.objs 2).index = some 0 ∧
    pollArray s = [⟨12, POLLIN ||| POLLHUP⟩] ∧
    pollSet s [0, 1, 2] = [⟨12, POLLIN ||| POLLHUP⟩] := by
  decide

end Ivy.Props.C15poll
