import Ivy.L1.Select
import Ivy.Props.C04
import Ivy.L1.TablesAgree
/-!
# C15 — poll method, interrupted waits and missing syscalls do not change behaviour

At model level this property *is* the quantifier structure of the L1 theorems: `Ivy.Props.C01 … C07
.monitor_accepts` hold for every `Method`, every availability of the kernel timer and of `epoll_pwait2`,
and every wait result — including `EINTR` at any wait, `ENOSYS`/`EPERM` for `epoll_pwait2` (fallback to
`epoll_wait`), `ENOSYS` for `ppoll` (mid-run switch to `poll`), `timerfd_create` failing (mid-run switch to
plain epoll) — because those are inputs of the machine (`WRes.eintr`, `WRes.enosys`, `timerfdAvail`).
This file states the part that is specific to C15: which method is selected, and re-exports the theorems
already proved so that the claim is visible in one place.  (Theorems for further monitors are added here as
their proofs land; see obligations.json.)
-/
namespace Ivy.Props.C15
open Ivy.L1 Ivy.L1.Select

/-- the selected poll method is the first candidate (epoll-timerfd, epoll, ppoll, poll) that is neither
excluded by `IV_EXCLUDE_POLL_METHOD` (parsed as the C does) nor fails to initialise -/
theorem method_selection (exclude : Option String) (avail : Method → Bool) (m : Method)
    (h : select exclude avail = some m) :
    eligible exclude avail m = true ∧
    ∃ before after, candidates = before ++ m :: after ∧ ∀ x ∈ before, eligible exclude avail x = false :=
  select_first exclude avail m h

theorem no_method_only_if_none_eligible (exclude : Option String) (avail : Method → Bool)
    (h : select exclude avail = none) : ∀ m, eligible exclude avail m = false :=
  select_none exclude avail h

/-- timers: never early, exactly once, no oversleep — under every method, configuration, EINTR and fallback -/
theorem timers_under_every_configuration (m : Method) (ntimers : Nat) (timerfdAvail pwait2 : Bool)
    (evs : List Ev) (s' : St) (h : Exec (St.init m ntimers timerfdAvail pwait2) evs s') :
    Ivy.Mon.C04.verdict evs = none :=
  Ivy.Props.C04.monitor_accepts m ntimers timerfdAvail pwait2 evs s' h

/-- T-gen (sample, re-checked against /repo's current code on every run): `method_is_excluded` answers as the
model's `excludeWords` / `eligible` on every row of the sample -/
theorem exclude_table_agrees : ∀ r ∈ Ivy.Generated.Tables.exclude, Ivy.L1.TablesAgree.exRowOk r :=
  Ivy.L1.TablesAgree.exclude_table_agrees

end Ivy.Props.C15
