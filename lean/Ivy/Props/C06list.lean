import Ivy.L0.ListPtrProofs
/-!
# C06 (pointer level) — ivykis' intrusive circular doubly-linked list (`struct iv_list_head`,
iv_list.h, and `__iv_list_steal_elements`, iv_private.h) refines Lean lists

Every model in this tree (tasks, timers' expired list, events, work items, ...) represents an
`iv_list_head` list as a plain Lean `List`.  `Ivy/L0/ListPtr.lean` transcribes the pointer code
statement by statement over a heap `Nat → Option Node`, `Node = {next prev : Option Nat}`
(`none` = NULL; an operation returns `none` where the C code would dereference NULL or an
unallocated address).  The theorems below say that on a well-formed list the pointer code
never faults and does to the heap exactly what the list operation does to the list.

`Repr h head xs` (`Ivy/L0/ListPtrProofs.lean`): the addresses `head :: xs` are pairwise
distinct; following `next` from `head` one visits exactly `xs`, in order, and is back at
`head`; following `prev` from `head` one visits exactly `xs.reverse` and is back at `head`
(so `a->next->prev == a == a->prev->next` all the way round: `ring_consistent`).
`hd l d` / `lst l d` = first / last element of `l`, or `d` when `l = []` (so `hd xs head` is
`head->next` and `lst xs head` is `head->prev`).
`Preserves h h' big` (separation): every list represented in `h` none of whose nodes (head
included) is in `big` is still represented, unchanged, in `h'`.
Each theorem also states the exact frame: the (at most five) addresses outside which memory
is untouched.

Property theorems only; all proofs live in `Ivy/L0/ListPtrProofs.lean`.
-/
namespace Ivy.Props.C06list
open Ivy.ListPtr

/-! ## what `Repr` pins down -/

/-- The head record: `head->next` is the first element and `head->prev` the last (the head
itself when the list is empty). -/
theorem head_fields {h : Heap} {head : Nat} {xs : List Nat} (hR : Repr h head xs) :
    h head = some ⟨some (hd xs head), some (lst xs head)⟩ :=
  node_of_fields (repr_head hR).1 (repr_head hR).2

/-- An element record: `next` is its successor in `xs` (the head for the last element), `prev`
its predecessor (the head for the first). -/
theorem elem_fields {h : Heap} {head : Nat} {A : List Nat} {x : Nat} {B : List Nat}
    (hR : Repr h head (A ++ x :: B)) : h x = some ⟨some (hd B head), some (lst A head)⟩ :=
  node_of_fields (repr_elem hR).1 (repr_elem hR).2

/-- `next`/`prev` are mutually consistent all the way round, head included. -/
theorem ring_consistent {h : Heap} {head : Nat} {xs : List Nat} (hR : Repr h head xs) {a : Nat}
    (ha : a ∈ head :: xs) :
    ∃ n p, nextOf h a = some (some n) ∧ prevOf h a = some (some p) ∧
      prevOf h n = some (some a) ∧ nextOf h p = some (some a) :=
  repr_consistent hR ha

/-- `Repr` depends on nothing but the records of `head :: xs` (frame rule). -/
theorem frame_rule {h h' : Heap} {head : Nat} {xs : List Nat} (hR : Repr h head xs)
    (hf : ∀ i ∈ head :: xs, h' i = h i) : Repr h' head xs :=
  repr_frame hR hf

/-! ## INIT_IV_LIST_HEAD, iv_list_empty -/

/-- `INIT_IV_LIST_HEAD` of any allocated record makes it the head of the empty list and
touches nothing else. -/
theorem init_empty {h : Heap} {a : Nat} (ha : Alloc h a) :
    ∃ h', init h a = some h' ∧ Repr h' a [] ∧ ∀ j, j ≠ a → h' j = h j :=
  init_spec ha

/-- `iv_list_empty` returns true exactly when the represented list is `[]`. -/
theorem empty_iff {h : Heap} {head : Nat} {xs : List Nat} (hR : Repr h head xs) :
    empty h head = some xs.isEmpty :=
  empty_spec hR

/-! ## iv_list_add, iv_list_add_tail -/

/-- `iv_list_add(x, head)` of an allocated record `x` that is not a node of the list (whatever
its fields hold): no fault, the list becomes `x :: xs`; only `x`, `head` and the old first
element are written; disjoint lists are preserved. -/
theorem add_front {h : Heap} {head : Nat} {xs : List Nat} {x : Nat}
    (hR : Repr h head xs) (hx : Alloc h x) (hfresh : x ∉ head :: xs) :
    ∃ h', add h x head = some h' ∧ Repr h' head (x :: xs) ∧
      (∀ j, j ∉ [x, head, hd xs head] → h' j = h j) ∧ Preserves h h' (x :: head :: xs) :=
  add_refines hR hx hfresh

/-- `iv_list_add_tail(x, head)`: the list becomes `xs ++ [x]`; only `x`, `head` and the old
last element are written. -/
theorem add_tail {h : Heap} {head : Nat} {xs : List Nat} {x : Nat}
    (hR : Repr h head xs) (hx : Alloc h x) (hfresh : x ∉ head :: xs) :
    ∃ h', addTail h x head = some h' ∧ Repr h' head (xs ++ [x]) ∧
      (∀ j, j ∉ [x, head, lst xs head] → h' j = h j) ∧ Preserves h h' (x :: head :: xs) :=
  addTail_refines hR hx hfresh

/-! ## iv_list_del, iv_list_del_init -/

/-- `iv_list_del(x)` takes only `x` — not the head — and unlinks it from whichever list
`Repr h head xs` it is an element of: the list becomes `xs.erase x` (`= A ++ B` where
`xs = A ++ x :: B`), `x`'s fields are NULL, only `x` and its two neighbours (either may be the
head) are written. -/
theorem del_anywhere {h : Heap} {head : Nat} {xs : List Nat} {x : Nat}
    (hR : Repr h head xs) (hx : x ∈ xs) :
    ∃ h' A B, xs = A ++ x :: B ∧ del h x = some h' ∧ Repr h' head (xs.erase x) ∧
      h' x = some ⟨none, none⟩ ∧ (∀ j, j ∉ [x, lst A head, hd B head] → h' j = h j) ∧
      Preserves h h' (head :: xs) :=
  del_refines hR hx

/-- `iv_list_del_init(x)`: the same, and `x` is left self-linked, i.e. the head of an empty
list (`iv_list_empty(x)` is how ivykis tests "not registered"). -/
theorem del_init_anywhere {h : Heap} {head : Nat} {xs : List Nat} {x : Nat}
    (hR : Repr h head xs) (hx : x ∈ xs) :
    ∃ h' A B, xs = A ++ x :: B ∧ delInit h x = some h' ∧ Repr h' head (xs.erase x) ∧
      Repr h' x [] ∧ (∀ j, j ∉ [x, lst A head, hd B head] → h' j = h j) ∧
      Preserves h h' (head :: xs) :=
  delInit_refines hR hx

/-! ## the four splice variants
`src` heads `ys`, `dst` heads `xs`, the two lists (heads included) share no node. -/

/-- `iv_list_splice(src, dst)`: `dst` heads `ys ++ xs`.  The record of `src` is NOT written
(`h' src = h src`); an empty source is a complete no-op. -/
theorem splice_front {h : Heap} {src dst : Nat} {ys xs : List Nat}
    (hRs : Repr h src ys) (hRd : Repr h dst xs) (hdis : ∀ i ∈ src :: ys, i ∉ dst :: xs) :
    ∃ h', splice h src dst = some h' ∧ Repr h' dst (ys ++ xs) ∧ h' src = h src ∧
      (ys = [] → h' = h) ∧
      (∀ j, j ∉ [hd ys src, lst ys src, dst, hd xs dst] → h' j = h j) ∧
      Preserves h h' (src :: ys ++ dst :: xs) :=
  splice_refines hRs hRd hdis

/-- `iv_list_splice_tail(src, dst)`: `dst` heads `xs ++ ys`; `src` not written. -/
theorem splice_back {h : Heap} {src dst : Nat} {ys xs : List Nat}
    (hRs : Repr h src ys) (hRd : Repr h dst xs) (hdis : ∀ i ∈ src :: ys, i ∉ dst :: xs) :
    ∃ h', spliceTail h src dst = some h' ∧ Repr h' dst (xs ++ ys) ∧ h' src = h src ∧
      (ys = [] → h' = h) ∧
      (∀ j, j ∉ [hd ys src, lst ys src, lst xs dst, dst] → h' j = h j) ∧
      Preserves h h' (src :: ys ++ dst :: xs) :=
  spliceTail_refines hRs hRd hdis

/-- What exactly is guaranteed about the source head after a non-`_init` splice of a non-empty
list: its record still holds the old first/last element, and it is the head of NO well-formed
list any more (its first element's `prev` points into `dst`'s ring) — it must be re-initialised
before any further use.  (With `ys = []` it is untouched and still heads `[]`: `splice_front`.) -/
theorem splice_source_stale {h h' : Heap} {src dst : Nat} {ys xs : List Nat}
    (hRs : Repr h src ys) (hRd : Repr h dst xs) (hdis : ∀ i ∈ src :: ys, i ∉ dst :: xs)
    (hne : ys ≠ []) (he : splice h src dst = some h' ∨ spliceTail h src dst = some h') :
    h' src = some ⟨some (hd ys src), some (lst ys src)⟩ ∧ ∀ zs, ¬ Repr h' src zs :=
  splice_stale hRs hRd hdis hne he

/-- `iv_list_splice_init(src, dst)`: `dst` heads `ys ++ xs` and `src` heads `[]`. -/
theorem splice_front_init {h : Heap} {src dst : Nat} {ys xs : List Nat}
    (hRs : Repr h src ys) (hRd : Repr h dst xs) (hdis : ∀ i ∈ src :: ys, i ∉ dst :: xs) :
    ∃ h', spliceInit h src dst = some h' ∧ Repr h' dst (ys ++ xs) ∧ Repr h' src [] ∧
      (ys = [] → h' = h) ∧
      (∀ j, j ∉ [src, hd ys src, lst ys src, dst, hd xs dst] → h' j = h j) ∧
      Preserves h h' (src :: ys ++ dst :: xs) :=
  spliceInit_refines hRs hRd hdis

/-- `iv_list_splice_tail_init(src, dst)`: `dst` heads `xs ++ ys` and `src` heads `[]`. -/
theorem splice_back_init {h : Heap} {src dst : Nat} {ys xs : List Nat}
    (hRs : Repr h src ys) (hRd : Repr h dst xs) (hdis : ∀ i ∈ src :: ys, i ∉ dst :: xs) :
    ∃ h', spliceTailInit h src dst = some h' ∧ Repr h' dst (xs ++ ys) ∧ Repr h' src [] ∧
      (ys = [] → h' = h) ∧
      (∀ j, j ∉ [src, hd ys src, lst ys src, lst xs dst, dst] → h' j = h j) ∧
      Preserves h h' (src :: ys ++ dst :: xs) :=
  spliceTailInit_refines hRs hRd hdis

/-! ## __iv_list_steal_elements -/

/-- `__iv_list_steal_elements(oldh, newh)` with `newh` any allocated record outside the list
(uninitialised is fine): `newh` heads exactly the old elements in the old order and `oldh`
heads `[]` — also when the list was empty.  This is what iv_run_tasks / iv_event / iv_work use
to process a batch while handlers register new elements on `oldh`. -/
theorem steal_all {h : Heap} {oldh newh : Nat} {xs : List Nat}
    (hR : Repr h oldh xs) (hnew : Alloc h newh) (hfresh : newh ∉ oldh :: xs) :
    ∃ h', steal h oldh newh = some h' ∧ Repr h' newh xs ∧ Repr h' oldh [] ∧
      (∀ j, j ∉ [oldh, newh, hd xs oldh, lst xs oldh] → h' j = h j) ∧
      Preserves h h' (newh :: oldh :: xs) :=
  steal_refines hR hnew hfresh

/-! ## traversal -/

/-- `iv_list_for_each` visits exactly `xs`, in order, and terminates: fuel `xs.length`
suffices (one unit per loop iteration). -/
theorem for_each_visits {h : Heap} {head : Nat} {xs : List Nat} {fuel : Nat}
    (hR : Repr h head xs) (hf : xs.length ≤ fuel) : forEach fuel h head = some xs :=
  forEach_spec hR hf

/-- `iv_list_for_each_safe` whose body deletes (`iv_list_del`) the current element at the
positions selected by `d`: no fault, every element of the original `xs` is visited exactly
once in order, the heap is left representing the survivors, the deleted elements have NULL
fields, nothing outside the list is written. -/
theorem for_each_safe_visits {h : Heap} {head : Nat} {xs : List Nat} {fuel : Nat}
    (d : Nat → Bool) (hR : Repr h head xs) (hf : xs.length ≤ fuel) :
    ∃ h', forEachSafe fuel h head d = some (h', xs) ∧ Repr h' head (survivors d 0 xs) ∧
      (∀ j, j ∉ head :: xs → h' j = h j) ∧
      (∀ x ∈ xs, x ∉ survivors d 0 xs → h' x = some ⟨none, none⟩) ∧
      Preserves h h' (head :: xs) :=
  forEachSafe_refines d hR hf

/-- `survivors d 0 xs` is `xs` without the elements at the positions `i` with `d i`. -/
theorem survivors_filter (d : Nat → Bool) (xs : List Nat) :
    survivors d 0 xs = ((xs.zipIdx 0).filter (fun p => !d p.2)).map (·.1) :=
  survivors_eq d 0 xs

/-! ## composite idioms (sequences of operations, as ivykis' register/unregister pairs use them) -/

/-- Queue then cancel (`iv_task_register` … `iv_task_unregister`, `iv_event_post` … the
unregister's `iv_list_del`): `iv_list_add_tail(x, head)` followed by `iv_list_del(x)` never
faults and gives back the list that was there before. -/
theorem add_tail_then_del {h : Heap} {head : Nat} {xs : List Nat} {x : Nat}
    (hR : Repr h head xs) (hx : Alloc h x) (hfresh : x ∉ head :: xs) :
    ∃ h1 h2, addTail h x head = some h1 ∧ del h1 x = some h2 ∧ Repr h2 head xs ∧
      h2 x = some ⟨none, none⟩ := by
  obtain ⟨h1, e1, r1, _, _⟩ := add_tail hR hx hfresh
  obtain ⟨h2, _, _, _, e2, r2, z, _⟩ := del_anywhere r1 (x := x) (by simp)
  have hx' : x ∉ xs := fun m => hfresh (List.mem_cons_of_mem _ m)
  have he : (xs ++ [x]).erase x = xs := by
    rw [List.erase_append_right _ hx']; simp
  exact ⟨h1, h2, e1, e2, he ▸ r2, z⟩

/-- The same with `iv_list_del_init`: afterwards `iv_list_empty(x)` answers true, which is
ivykis' "not registered / not pending" test, and the record can be queued again at once. -/
theorem add_tail_then_del_init {h : Heap} {head : Nat} {xs : List Nat} {x : Nat}
    (hR : Repr h head xs) (hx : Alloc h x) (hfresh : x ∉ head :: xs) :
    ∃ h1 h2, addTail h x head = some h1 ∧ delInit h1 x = some h2 ∧ Repr h2 head xs ∧
      empty h2 x = some true ∧
      ∃ h3, addTail h2 x head = some h3 ∧ Repr h3 head (xs ++ [x]) := by
  obtain ⟨h1, e1, r1, _, _⟩ := add_tail hR hx hfresh
  obtain ⟨h2, _, _, _, e2, r2, rx, _⟩ := del_init_anywhere r1 (x := x) (by simp)
  have hx' : x ∉ xs := fun m => hfresh (List.mem_cons_of_mem _ m)
  have he : (xs ++ [x]).erase x = xs := by
    rw [List.erase_append_right _ hx']; simp
  rw [he] at r2
  obtain ⟨h3, e3, r3, _⟩ := add_tail r2 (repr_alloc rx (by simp)) hfresh
  exact ⟨h1, h2, e1, e2, r2, by simpa using empty_iff rx, h3, e3, r3⟩

/-- FIFO: two `iv_list_add_tail`s are traversed in the order they were queued, after whatever
was there already. -/
theorem add_tail_fifo {h : Heap} {head : Nat} {xs : List Nat} {x y : Nat} {fuel : Nat}
    (hR : Repr h head xs) (hx : Alloc h x) (hy : Alloc h y) (hfx : x ∉ head :: xs)
    (hfy : y ∉ head :: xs) (hxy : x ≠ y) (hf : xs.length + 2 ≤ fuel) :
    ∃ h1 h2, addTail h x head = some h1 ∧ addTail h1 y head = some h2 ∧
      forEach fuel h2 head = some (xs ++ [x, y]) := by
  obtain ⟨h1, e1, r1, fr, _⟩ := add_tail hR hx hfx
  have hy' : Alloc h1 y := by
    by_cases c : y ∈ [x, head, lst xs head]
    · have hl : lst xs head ∈ head :: xs := lst_mem xs head
      simp only [List.mem_cons, List.not_mem_nil, or_false] at c
      rcases c with c | c | c
      · exact absurd c.symm hxy
      · exact absurd (c ▸ List.mem_cons_self) hfy
      · exact absurd (c ▸ hl) hfy
    · unfold Alloc; rw [fr y c]; exact hy
  have hfy' : y ∉ head :: (xs ++ [x]) := by
    simp only [List.mem_cons, List.mem_append, List.not_mem_nil, or_false] at hfy ⊢
    rintro (c | c | c)
    · exact hfy (Or.inl c)
    · exact hfy (Or.inr c)
    · exact hxy c.symm
  obtain ⟨h2, e2, r2, _, _⟩ := add_tail r1 hy' hfy'
  refine ⟨h1, h2, e1, e2, ?_⟩
  have := for_each_visits (fuel := fuel) r2 (by simp; omega)
  simpa using this

/-- LIFO: two `iv_list_add`s (head insertion) are traversed newest first, before whatever was
there already. -/
theorem add_front_lifo {h : Heap} {head : Nat} {xs : List Nat} {x y : Nat} {fuel : Nat}
    (hR : Repr h head xs) (hx : Alloc h x) (hy : Alloc h y) (hfx : x ∉ head :: xs)
    (hfy : y ∉ head :: xs) (hxy : x ≠ y) (hf : xs.length + 2 ≤ fuel) :
    ∃ h1 h2, add h x head = some h1 ∧ add h1 y head = some h2 ∧
      forEach fuel h2 head = some (y :: x :: xs) := by
  obtain ⟨h1, e1, r1, fr, _⟩ := add_front hR hx hfx
  have hy' : Alloc h1 y := by
    by_cases c : y ∈ [x, head, hd xs head]
    · have hl : hd xs head ∈ head :: xs := hd_mem xs head
      simp only [List.mem_cons, List.not_mem_nil, or_false] at c
      rcases c with c | c | c
      · exact absurd c.symm hxy
      · exact absurd (c ▸ List.mem_cons_self) hfy
      · exact absurd (c ▸ hl) hfy
    · unfold Alloc; rw [fr y c]; exact hy
  have hfy' : y ∉ head :: x :: xs := by
    simp only [List.mem_cons, not_or] at hfy ⊢
    exact ⟨hfy.1, fun c => hxy c.symm, hfy.2⟩
  obtain ⟨h2, e2, r2, _, _⟩ := add_front r1 hy' hfy'
  exact ⟨h1, h2, e1, e2, for_each_visits (fuel := fuel) r2 (by simp; omega)⟩

/-! ## Non-vacuity: concrete heaps built by the pointer-level code itself
Addresses 0..15 hold zeroed records (NULL fields); 0, 1, 2 are used as heads. -/

/-- run a sequence of operations -/
def runOps (ops : List (Heap → Option Heap)) : Option Heap :=
  ops.foldl (fun oh f => oh.bind f) (some (zeroed 16))

/-- follow `prev` from `head` until back at `head` (the C library has no reverse macro) -/
def backward (h : Heap) (head : Nat) : Nat → Option Nat → Option (List Nat)
  | 0, cur => if cur = some head then some [] else none
  | f + 1, cur => if cur = some head then some [] else do
      let c ← cur
      let r ← backward h head f (← ldPrev h (some c))
      some (c :: r)

/-- add_tail ×3, add ×1 -/
def build1 : List (Heap → Option Heap) :=
  [(init · 0), (addTail · 4 0), (addTail · 5 0), (addTail · 6 0), (add · 7 0)]

example : (runOps build1).bind (forEach 8 · 0) = some [7, 4, 5, 6] := by decide
example : (runOps build1).bind (fun h => backward h 0 8 (h 0 >>= (·.prev))) = some [6, 5, 4, 7] := by
  decide
example : (runOps build1).bind (empty · 0) = some false := by decide
example : (runOps [(init · 0)]).bind (empty · 0) = some true := by decide
/-- delete the middle: the list shrinks, the deleted record holds NULLs -/
example : (runOps (build1 ++ [(del · 5)])).bind (forEach 8 · 0) = some [7, 4, 6] := by decide
example : (runOps (build1 ++ [(del · 5)])).bind (· 5) = some ⟨none, none⟩ := by decide
/-- del_init leaves the element self-linked -/
example : (runOps (build1 ++ [(delInit · 5)])).bind (· 5) = some ⟨some 5, some 5⟩ := by decide

/-- a second list; splice variants -/
def build2 : List (Heap → Option Heap) :=
  build1 ++ [(del · 5), (init · 1), (addTail · 8 1), (addTail · 9 1)]

example : (runOps (build2 ++ [(splice · 0 1)])).bind (forEach 8 · 1) = some [7, 4, 6, 8, 9] := by
  decide
example : (runOps (build2 ++ [(spliceTail · 0 1)])).bind (forEach 8 · 1) = some [8, 9, 7, 4, 6] := by
  decide
/-- after the non-init splice the source head still points at its old first/last element -/
example : (runOps (build2 ++ [(spliceTail · 0 1)])).bind (· 0) = some ⟨some 7, some 6⟩ := by decide
example : (runOps (build2 ++ [(spliceInit · 0 1)])).bind
    (fun h => do some ((← forEach 8 h 1), (← forEach 8 h 0), (← backward h 1 8 (h 1 >>= (·.prev))))) =
    some ([7, 4, 6, 8, 9], [], [9, 8, 6, 4, 7]) := by decide
example : (runOps (build2 ++ [(spliceTailInit · 0 1)])).bind
    (fun h => do some ((← forEach 8 h 1), (← empty h 0))) = some ([8, 9, 7, 4, 6], true) := by decide
/-- splicing an empty list is a no-op -/
example : (runOps (build2 ++ [(init · 2), (splice · 2 1)])).bind (forEach 8 · 1) = some [8, 9] := by
  decide

/-- steal into an uninitialised head, then traverse; the source is empty and usable again -/
def build3 : List (Heap → Option Heap) := build2 ++ [(spliceInit · 0 1), (steal · 1 2)]

example : (runOps build3).bind
    (fun h => do some ((← forEach 8 h 2), (← forEach 8 h 1), (← backward h 2 8 (h 2 >>= (·.prev))))) =
    some ([7, 4, 6, 8, 9], [], [9, 8, 6, 4, 7]) := by decide
example : (runOps (build3 ++ [(addTail · 10 1)])).bind (forEach 8 · 1) = some [10] := by decide
/-- stealing an empty list leaves both heads empty -/
example : (runOps [(init · 0), (steal · 0 1)]).bind
    (fun h => do some ((← empty h 0), (← empty h 1))) = some (true, true) := by decide

/-- for_each_safe deleting the elements at positions 0 and 2 (and then position 4): all five are
visited, the survivors remain -/
example : ((runOps build3).bind (forEachSafe 8 · 2 (fun i => i == 0 || i == 2))).map (·.2) =
    some [7, 4, 6, 8, 9] := by decide
example : ((runOps build3).bind (forEachSafe 8 · 2 (fun i => i == 0 || i == 2))).bind
    (fun r => forEach 8 r.1 2) = some [4, 8, 9] := by decide
example : ((runOps build3).bind (forEachSafe 8 · 2 (fun _ => true))).bind
    (fun r => do some (r.2, (← empty r.1 2))) = some ([7, 4, 6, 8, 9], true) := by decide

/-- the faults the model reports: `iv_list_del` of a record with NULL fields (deleted twice),
`iv_list_add` to a head that was never initialised, an operation on unallocated memory, a
traversal with too little fuel -/
example : (runOps (build1 ++ [(del · 5), (del · 5)])).isNone = true := by decide
example : (runOps [(add · 4 0)]).isNone = true := by decide
example : (runOps [(init · 99)]).isNone = true := by decide
example : ((runOps build1).bind (forEach 3 · 0)).isNone = true := by decide

/-- The hypothesis `Repr` is satisfiable by heaps the pointer code produced, and the theorems
above apply to them. -/
def h1 : Heap := (runOps build1).getD (zeroed 0)
def h2 : Heap := (runOps build2).getD (zeroed 0)

theorem h1_repr : Repr h1 0 [7, 4, 5, 6] := by decide
theorem h2_repr : Repr h2 0 [7, 4, 6] ∧ Repr h2 1 [8, 9] := by decide

example : forEach 4 h1 0 = some [7, 4, 5, 6] := for_each_visits h1_repr (by decide)
example : ∃ h', del h1 5 = some h' ∧ Repr h' 0 [7, 4, 6] := by
  obtain ⟨h', _, _, _, e, r, _⟩ := del_anywhere h1_repr (x := 5) (by decide)
  exact ⟨h', e, r⟩
example : ∃ h', spliceTailInit h2 0 1 = some h' ∧ Repr h' 1 [8, 9, 7, 4, 6] ∧ Repr h' 0 [] := by
  obtain ⟨h', e, r, s, _⟩ := splice_back_init h2_repr.1 h2_repr.2 (by decide)
  exact ⟨h', e, r, s⟩
example : ∃ h', steal h2 1 2 = some h' ∧ Repr h' 2 [8, 9] ∧ Repr h' 1 [] ∧ Repr h' 0 [7, 4, 6] := by
  obtain ⟨h', e, r, s, _, p⟩ := steal_all (newh := 2) h2_repr.2 (by decide) (by decide)
  exact ⟨h', e, r, s, p _ _ h2_repr.1 (by decide)⟩

example : ∃ a b, addTail h1 9 0 = some a ∧ del a 9 = some b ∧ Repr b 0 [7, 4, 5, 6] := by
  obtain ⟨a, b, p, q, r, _⟩ := add_tail_then_del h1_repr (x := 9) (by decide) (by decide)
  exact ⟨a, b, p, q, r⟩
example : ∃ a b, addTail h1 9 0 = some a ∧ addTail a 10 0 = some b ∧
    forEach 8 b 0 = some [7, 4, 5, 6, 9, 10] :=
  add_tail_fifo h1_repr (x := 9) (y := 10) (by decide) (by decide) (by decide) (by decide)
    (by decide) (by decide)

example : ∃ a b, add h1 9 0 = some a ∧ add a 10 0 = some b ∧
    forEach 8 b 0 = some [10, 9, 7, 4, 5, 6] :=
  add_front_lifo h1_repr (x := 9) (y := 10) (by decide) (by decide) (by decide) (by decide)
    (by decide) (by decide)

end Ivy.Props.C06list
