import Ivy.Generated.Consts
import Ivy.L3.InotifyProofs
/-!
# C20 — iv_inotify routes every event to its watch; unregistering inside handlers is safe

Property theorems only; definitions are in `Ivy/L3/Inotify.lean` (model of `src/iv_inotify.c`) and
`Ivy/L3/InotifySpec.lean` (`Inv`, `validUse`, `ValidFrom`, `specCalls`, `CallFacts`); proofs are in
`Ivy/L3/InotifyProofs.lean`.

Quantification: every state satisfying `Inv` (all sets of instances and watches reachable by valid
use), every buffer (`recs : List Rec`, any number of records, any `len`, any masks, descriptors with or
without a watch), every reaction program (`ins : List In`: whatever the handlers do — register,
unregister, release watches, unregister or register instances — and when they return).
-/
namespace Ivy.Props.C20
open Ivy.Inotify

theorem init_inv : Inv St.init := Proofs.init_inv

/-- Valid use keeps the invariant (tree nodes are live watches filed under their own descriptor, one per
descriptor; `term` is set exactly while the instance's walk runs; the walk frame is consistent). -/
theorem step_inv (s : St) (a : In) (hi : Inv s) (hv : validUse s a = true) {s' o} (h : step s a = .ok s' o) : Inv s' :=
  Proofs.step_inv s a hi hv h

/-- (4) no_fault, one step: under valid use the code never touches a released instance or watch, never
stores through a stale `term`, never hands `iv_avl_tree_delete` a node that is not in the tree, never
reads name bytes as a record header (the stride `len + sizeof` always lands on a record), never calls
iv_fatal. -/
theorem no_fault (s : St) (a : In) (hi : Inv s) (hv : validUse s a = true) : ∃ s' o, step s a = .ok s' o ∧ Inv s' :=
  Proofs.step_ok_inv s a hi hv

/-- (4) no_fault, whole histories from the initial state. -/
theorem no_fault_run (ins : List In) (hv : ValidFrom St.init ins) : ∃ s' o, run St.init ins = .ok s' o ∧ Inv s' :=
  Proofs.run_ok_inv ins St.init Proofs.init_inv hv

/-- (1) routing_in_order: for one read returning `recs` and any reaction program `ins` (no second read),
the handler invocations are exactly `specCalls`: in buffer order, one per record whose descriptor had a
watch in the instance at the moment the record was reached, to that watch, with the pointer at the
record's byte offset; nothing after the instance was unregistered. -/
theorem routing_in_order (s : St) (hi : Inv s) (i k : Nat) (recs : List Rec) (ins : List In)
    (hng : ∀ a ∈ ins, isGotEvent a = false) (hv : ValidFrom s (.gotEvent i k (.data recs) :: ins))
    {s' : St} {outs : List Out} (h : run s (.gotEvent i k (.data recs) :: ins) = .ok s' outs) :
    calls outs = specCalls i 0 recs s (returnStates s (.gotEvent i k (.data recs) :: ins)) :=
  Proofs.routing_in_order s hi i k recs ins hng hv h

/-- (1) the target of every invocation: the watch was registered when the record was reached, it is the
watch whose descriptor the record carries, on the instance being walked; at most one invocation per step. -/
theorem call_target (s : St) (hi : Inv s) (a : In) (hv : validUse s a = true) {s' : St} {o : List Out}
    (h : step s a = .ok s' o) {w off : Nat} {r : Rec} {b : Bool} (hc : Out.call w off r b ∈ o) :
    CallFacts s s' w off r b ∧ calls o = [(w, off, r)] :=
  Proofs.call_spec s hi a hv h hc

/-- (1) "and to no other": two registered watches of one instance never share a descriptor. -/
theorem wd_unique (s : St) (hi : Inv s) (w1 w2 : Nat) (a b : WInfo) (ha : s.ws w1 = some a) (hb : s.ws w2 = some b)
    (r1 : isReg s w1 = true) (r2 : isReg s w2 = true) (hinst : a.inst = b.inst) (hwd : a.wd = b.wd) : w1 = w2 :=
  Proofs.wd_unique s hi w1 w2 a b ha hb r1 r2 hinst hwd

/-- (2) dropped_before_handler: when the handler is entered for an IN_IGNORED record or on a one-shot
watch, the watch is already out of the instance (`b = false`, `isReg s' w = false`); otherwise it is
still in. -/
theorem dropped_before_handler (s : St) (hi : Inv s) (a : In) (hv : validUse s a = true) {s' : St} {o : List Out}
    (h : step s a = .ok s' o) {w off : Nat} {r : Rec} {b : Bool} (hc : Out.call w off r b ∈ o) :
    ∃ wi, s.ws w = some wi ∧ b = !dropCond r.mask wi.mask ∧ isReg s' w = !dropCond r.mask wi.mask :=
  Proofs.dropped_before_handler s hi a hv h hc

/-- (2)+(3) a watch that is not registered gets no record — later in the same walk or in any later
walk — until it is registered again. -/
theorem unregistered_no_call (w : Nat) (ins : List In) (s s' : St) (outs : List Out) (hi : Inv s) (hn : isReg s w = false)
    (hnr : ∀ a ∈ ins, isWatchRegister w a = false) (hv : ValidFrom s ins) (h : run s ins = .ok s' outs) :
    ∀ o ∈ outs, isCallTo w o = false :=
  Proofs.unregistered_no_call w ins s s' outs hi hn hnr hv h

/-- (3) unregister_suppresses, watch: after `iv_inotify_watch_unregister(w)`, called from any handler
(its own or another watch's) or outside, nothing more is delivered to `w`. -/
theorem unregister_suppresses (s : St) (hi : Inv s) (w : Nat) (ins : List In)
    (hnr : ∀ a ∈ ins, isWatchRegister w a = false) (hv : ValidFrom s (.watchUnregister w :: ins))
    {s' : St} {outs : List Out} (h : run s (.watchUnregister w :: ins) = .ok s' outs) :
    ∀ o ∈ outs, isCallTo w o = false :=
  Proofs.unregister_suppresses s hi w ins hnr hv h

/-- (2) a dropped watch (handler entered with `b = false`) gets no later record, e.g. one carrying the
same descriptor further on in the same buffer. -/
theorem dropped_suppresses (s : St) (hi : Inv s) (a : In) (hv : validUse s a = true) {s1 : St} {o : List Out}
    (h : step s a = .ok s1 o) {w off : Nat} {r : Rec} (hc : Out.call w off r false ∈ o)
    (ins : List In) (hnr : ∀ a ∈ ins, isWatchRegister w a = false) (hvs : ValidFrom s1 ins)
    {s' : St} {outs : List Out} (hrun : run s1 ins = .ok s' outs) :
    ∀ o ∈ outs, isCallTo w o = false :=
  Proofs.dropped_suppresses s hi a hv h hc ins hnr hvs hrun

/-- (3) unregister_suppresses, instance: `iv_inotify_unregister` of the instance being walked, from
inside a handler: the history is an execution (no fault), no further handler is called, and the
unregistered instance is never modified again (it is exactly as `unregister` left it). -/
theorem instance_unregister_stops (s : St) (hi : Inv s) (wk : Walk) (hw : s.walk = some wk) (i : Nat) (ht : wk.this = some i)
    (ins : List In) (hng : ∀ a ∈ ins, isGotEvent a = false) (hv : ValidFrom s (.instUnregister i :: ins)) :
    ∃ s' outs x, run s (.instUnregister i :: ins) = .ok s' outs ∧ calls outs = [] ∧
      s.insts i = some x ∧ s'.insts i = some { x with registered := false } :=
  Proofs.instance_unregister_stops s hi wk hw i ht ins hng hv

/-- (3) no step ever modifies an instance that has been unregistered. -/
theorem dead_untouched (s : St) (hi : Inv s) (a : In) (hv : validUse s a = true) {s' : St} {o : List Out}
    (h : step s a = .ok s' o) (i : Nat) (x : Inst) (hx : s.insts i = some x) (hd : x.registered = false) :
    s'.insts i = some x :=
  Proofs.dead_untouched s hi a hv h i x hx hd

/-! Non-vacuity.  Instance 0 with watches 1 (wd 5), 2 (wd 7, one-shot), 3 (wd 9).  One read of seven
records, two of them with names (len 16, 32).  Handler of 1 unregisters 3 and registers 4 (wd 11);
the one-shot 2 is delivered once and its second record is skipped; the record for 9 is skipped;
4 gets its record; the IN_IGNORED record drops 1, whose last record is skipped. -/
def demo : List In :=
  [.instRegister 0 4, .watchRegister 1 0 2 5, .watchRegister 2 0 0x80000002 7, .watchRegister 3 0 2 9,
   .gotEvent 0 1 (.data [⟨5, 2, 0, 0⟩, ⟨7, 2, 0, 16⟩, ⟨9, 2, 0, 0⟩, ⟨11, 2, 1, 32⟩, ⟨7, 2, 0, 0⟩, ⟨5, 0x8000, 0, 0⟩, ⟨5, 2, 0, 0⟩]),
   .watchUnregister 3, .watchFree 3, .watchRegister 4 0 2 11, .handlerEnd,
   .watchFree 2, .handlerEnd, .handlerEnd, .handlerEnd]

example : runCalls St.init demo =
    some [(1, 0, ⟨5, 2, 0, 0⟩), (2, 16, ⟨7, 2, 0, 16⟩), (4, 64, ⟨11, 2, 1, 32⟩), (1, 128, ⟨5, 0x8000, 0, 0⟩)] := by decide

example : ValidFrom St.init demo := (Proofs.validFromB_iff demo St.init).1 (by decide)

/-- unregistering the instance inside the first handler stops the walk: one invocation only -/
example : runCalls St.init
    [.instRegister 0 4, .watchRegister 1 0 2 5, .watchRegister 2 0 2 7,
     .gotEvent 0 0 (.data [⟨5, 2, 0, 0⟩, ⟨7, 2, 0, 0⟩, ⟨5, 2, 0, 0⟩]), .instUnregister 0, .watchFree 1, .watchFree 2, .handlerEnd] =
    some [(1, 0, ⟨5, 2, 0, 0⟩)] := by decide

/-- the valid-use clause is needed: unregistering a watch the library has dropped is a fault
(`iv_avl_tree_delete` on a node that is not in the tree) -/
example : (match run St.init [.instRegister 0 4, .watchRegister 1 0 2 5, .gotEvent 0 0 (.data [⟨5, 0x8000, 0, 0⟩]), .watchUnregister 1] with
    | .fault _ => true | _ => false) = true := by decide

/-- T-gen obligation: the buffer `iv_inotify_got_event` hands to `read(2)` (its size is evaluated by the compiler from the source's own
declaration and regenerated on every run) holds at least one event of the largest size the kernel can produce (header + NAME_MAX + 1
name bytes, padded to 16); otherwise `read` fails with EINVAL for such an event and it — and everything queued behind it — is never
delivered. The model's `gotEvent` (a read returns whole records) relies on it. -/
theorem read_buffer_holds_any_event :
    0 < Ivy.Generated.INOTIFY_MAX_EVENT ∧ Ivy.Generated.INOTIFY_MAX_EVENT ≤ Ivy.Generated.INOTIFY_READ_BUF := by decide

end Ivy.Props.C20
