import Ivy.L0.FdEpollProofs
/-!
# C15 (epoll back end) — the registration bookkeeping of `iv_fd_epoll.c` keeps the kernel's
interest list equal to what the handlers ask for

Model: `Ivy/L0/FdEpoll.lean` (statement-by-statement transcription of `bits_to_poll_mask`,
`__iv_fd_epoll_flush_one`, `iv_fd_epoll_flush_one`, `iv_fd_epoll_flush_pending`,
`iv_fd_epoll_notify_fd`, `iv_fd_epoll_notify_fd_sync`, `iv_fd_epoll_unregister_fd`, the dispatch
loop of `iv_fd_epoll_poll`, and of the callers in iv_fd.c: `recompute_wanted_flags`, `notify_fd`,
`iv_fd_register`, `iv_fd_register_try`, `iv_fd_unregister`, `iv_fd_set_handler_*`).  The kernel
is `kernelCtl` (ASSUMPTION: ADD on a present descriptor = EEXIST, MOD / DEL on an absent one =
ENOENT, anything on a closed one = EBADF, otherwise the entry is set / removed).

Hypothesis (`pre`, decidable, checked per operation; an operation outside it is not executed):
the API contract that the library itself enforces with iv_fatal (register only unregistered
objects, unregister only registered ones) and the environment contract: a descriptor number is
used by at most one registered object, it is open when registered and stays open while registered
(`closefd` only on free numbers).  `regtry` may additionally probe a closed or occupied number (it
then fails with EBADF / EEXIST and registers nothing).  All theorems are for EVERY operation
sequence (`run`, induction over the list); `Inv` is in `Ivy/L0/FdEpollProofs.lean`.

Property theorems only; helper lemmas live in `Ivy/L0/FdEpollProofs.lean`.
-/
namespace Ivy.Props.C15epoll
open Ivy.L0.FdEpoll

/-! ## 1. the invariant, for every operation sequence -/

/-- After any sequence of operations: `notify` has no duplicates and `queued` is membership; only
registered objects are queued; a registered object whose `registered_bands` differ from
`wanted_bands` is queued; the kernel's entry for a registered object's descriptor is exactly the
one `registered_bands` stands for (none for 0, otherwise `(bits_to_poll_mask registered_bands,
data.ptr = the object)`): the library's belief equals the kernel's interest list; every kernel
entry belongs to a registered object on that descriptor; `iv_fatal` was not reached. -/
theorem invariant_always (ops : List Op) : Inv (run init ops) :=
  run_inv inv_init ops

/-- the same, spelled out for the belief clause -/
theorem belief_equals_kernel (ops : List Op) (o : Nat) (hr : ((run init ops).objs o).reg = true) :
    (run init ops).kernel ((run init ops).objs o).fd =
      if ((run init ops).objs o).registered = 0 then none
      else some (bitsToPollMask ((run init ops).objs o).registered, o) :=
  (invariant_always ops).belief o hr

/-- an object is on the notify list at most once, and `queued` says whether it is -/
theorem queued_once (ops : List Op) :
    (run init ops).notify.Nodup ∧
      ∀ o, ((run init ops).objs o).queued = true ↔ o ∈ (run init ops).notify :=
  ⟨(invariant_always ops).nodup, (invariant_always ops).queued_iff⟩

/-- a pending change is queued -/
theorem pending_is_queued (ops : List Op) (o : Nat) (hr : ((run init ops).objs o).reg = true)
    (hne : ((run init ops).objs o).registered ≠ ((run init ops).objs o).wanted) :
    o ∈ (run init ops).notify :=
  ((invariant_always ops).queued_iff o).1 ((invariant_always ops).pending o hr hne)

/-- `wanted_bands` of a registered object is always what the three handler pointers say
(`MASKIN` iff `handler_in != NULL`, ...), so "mask of wanted" below is "mask of the handlers" -/
theorem wanted_is_handlers (ops : List Op) (o : Nat) (hr : ((run init ops).objs o).reg = true) :
    ((run init ops).objs o).wanted =
      (if ((run init ops).objs o).hin then MASKIN else 0) |||
      (if ((run init ops).objs o).hout then MASKOUT else 0) |||
      (if ((run init ops).objs o).herr then MASKERR else 0) := by
  have h := run_winv inv_init (by intro o; simp [init]) ops o hr
  rw [h]; simp [wantedOf, hr]

/-- one step from any state that satisfies the invariant (so the theorem does not depend on
starting from `init`) -/
theorem invariant_step {s : State} (hI : Inv s) (op : Op) : Inv (exec s op).1 := exec_inv hI op

example : Inv (run init [.set 0 MASKIN true, .reg 0 5, .set 0 MASKOUT true, .reg 1 6, .flush [],
    .set 0 MASKIN false, .regtry 2 5, .unreg 1]) := invariant_always _

/-- non-vacuity: that run really registers, queues and talks to the kernel -/
example : (run init [.set 0 MASKIN true, .reg 0 5, .set 1 MASKOUT true, .reg 1 6, .flush [],
    .set 0 MASKOUT true, .set 1 MASKOUT false]).notify = [0, 1] := by decide
example : (run init [.set 0 MASKIN true, .reg 0 5, .set 1 MASKOUT true, .reg 1 6, .flush [],
    .set 0 MASKOUT true, .set 1 MASKOUT false]).kernel 6 = some (EPOLLOUT, 1) := by decide

/-! ## 2. no invalid epoll_ctl: `iv_fatal` in `iv_fd_epoll_flush_one` is unreachable -/

/-- the strict hypothesis along a run: every `regtry` is on an open, free descriptor number -/
def strictRun (s : State) : List Op → Bool
  | [] => true
  | op :: ops => strict s op && strictRun (exec s op).1 ops

/-- `iv_fatal` is never reached (under `pre`, i.e. for every sequence as executed by `run`) -/
theorem never_fatal (ops : List Op) : (run init ops).fatal = false :=
  (invariant_always ops).notfatal

/-- every epoll_ctl the library issues succeeds: never ADD on a present descriptor, never MOD or
DEL on an absent one -/
theorem no_invalid_ctl {s : State} (hI : Inv s) (ops : List Op) (hs : strictRun s ops = true) :
    ∀ c ∈ runCtls s ops, c.err = 0 := by
  induction ops generalizing s with
  | nil => simp [runCtls]
  | cons op ops ih =>
    simp only [strictRun, Bool.and_eq_true] at hs
    intro c hc
    simp only [runCtls, List.mem_append] at hc
    rcases hc with hc | hc
    · exact exec_ctls_ok hI op hs.1 c hc
    · exact ih (exec_inv hI op) hs.2 c hc

/-- without the strict hypothesis the only epoll_ctl that can fail is the probing ADD of a
`regtry` on a closed or occupied descriptor number; its errno is returned, nothing is registered,
`iv_fatal` is not reached -/
theorem only_probes_fail {s : State} (hI : Inv s) (o d : Nat) (hp : pre s (.regtry o d) = true)
    (hbad : strict s (.regtry o d) = false) :
    (registerTry s o d).2.2 = (if s.closed d then EBADF else EEXIST) ∧
    ((registerTry s o d).1.objs o).reg = false ∧ (registerTry s o d).1.kernel = s.kernel ∧
    (registerTry s o d).1.fatal = false ∧
    ∀ x, x ≠ o → (registerTry s o d).1.objs x = s.objs x := by
  simp only [strict, Bool.and_eq_false_iff, Bool.not_eq_false'] at hbad
  rcases registerTry_cases hI hp with ⟨hc, hf, _⟩ | ⟨_, e⟩
  · rcases hbad with h | h <;> simp_all
  · rw [e]
    refine ⟨rfl, by simp [tryFailSt], rfl, hI.notfatal, ?_⟩
    intro x hx; simp [tryFailSt, upd_other _ _ hx]

example : let s := run init [.set 0 MASKIN true, .reg 0 5, .flush []]
    pre s (.regtry 1 5) = true ∧ strict s (.regtry 1 5) = false ∧
      pre s (.regtry 1 6) = true ∧ strict s (.regtry 1 6) = true := by decide
example : strictRun init [.set 0 MASKIN true, .reg 0 5, .flush [], .set 0 MASKIN false,
    .set 0 MASKERR true, .flush [], .regtry 1 6, .unreg 0] = true := by decide
example : runCtls init [.set 0 MASKIN true, .reg 0 5, .flush [], .set 0 MASKIN false,
    .set 0 MASKERR true, .flush [], .unreg 0] =
    [⟨.add, 5, EPOLLIN, 0, 0⟩, ⟨.mod, 5, 0, 0, 0⟩, ⟨.del, 5, 0, 0, 0⟩] := by decide
/-- the probe on an occupied number: EEXIST -/
example : runCtls init [.set 0 MASKIN true, .reg 0 5, .flush [], .regtry 1 5] =
    [⟨.add, 5, EPOLLIN, 0, 0⟩, ⟨.add, 5, EPOLLIN ||| EPOLLOUT, 1, EEXIST⟩] := by decide

/-! ## 3. after `iv_fd_epoll_flush_pending` the kernel watches exactly the abstract poll set -/

/-- After the flush (what both poll functions do before every epoll_wait): the notify list is
empty, every registered object has `registered_bands = wanted_bands`, and the kernel has the entry
`(m, p)` for descriptor `d` iff `p` is a registered object on `d` with some handler and
`m = bits_to_poll_mask (wanted_bands p)`. -/
theorem flush_installs_wanted {s : State} (hI : Inv s) :
    (flushPending s).1.notify = [] ∧
    (∀ o, ((flushPending s).1.objs o).reg = true →
      ((flushPending s).1.objs o).registered = ((flushPending s).1.objs o).wanted) ∧
    (∀ d m p, (flushPending s).1.kernel d = some (m, p) ↔
      (((flushPending s).1.objs p).reg = true ∧ ((flushPending s).1.objs p).fd = d ∧
        ((flushPending s).1.objs p).wanted ≠ 0 ∧
        m = bitsToPollMask ((flushPending s).1.objs p).wanted)) := by
  have h := flushPending_spec hI
  exact ⟨h.empty, fun o hr => synced_of_empty h.inv h.empty hr, kernel_iff_of_empty h.inv h.empty⟩

/-- The same as a finite map.  `pollSet s : fdnum ↦ bands` (defined from the registered objects
and their handlers only, no epoll notion in it) is the set a poll(2) back end hands to the kernel
in its `pfds` array; after the flush the epoll interest list is that map with the bands turned
into EPOLL bits: both back ends present the same set to the kernel. -/
theorem flush_presents_pollSet {s : State} (hI : Inv s) (d : Nat) :
    ((flushPending s).1.kernel d).map Prod.fst =
      (pollSet (flushPending s).1 d).map bitsToPollMask :=
  kernel_eq_pollSet_of_empty (flushPending_spec hI).inv (flushPending_spec hI).empty d

/-- the flush changes no handler, no `wanted_bands`, no registration: the poll set is the one the
user asked for before the flush -/
theorem flush_keeps_requests {s : State} (hI : Inv s) (x : Nat) :
    ((flushPending s).1.objs x).reg = (s.objs x).reg ∧ ((flushPending s).1.objs x).fd = (s.objs x).fd ∧
    ((flushPending s).1.objs x).wanted = (s.objs x).wanted ∧
    ((flushPending s).1.objs x).hin = (s.objs x).hin ∧ ((flushPending s).1.objs x).hout = (s.objs x).hout ∧
    ((flushPending s).1.objs x).herr = (s.objs x).herr :=
  (flushPending_spec hI).same x

example : let s := run init [.set 0 MASKIN true, .reg 0 5, .set 1 MASKOUT true, .set 1 MASKERR true,
      .reg 1 6, .reg 2 7]
    s.notify = [0, 1] ∧ (flushPending s).1.kernel 5 = some (EPOLLIN, 0) ∧
      (flushPending s).1.kernel 6 = some (EPOLLOUT, 1) ∧ (flushPending s).1.kernel 7 = none ∧
      pollSet (flushPending s).1 6 = some (MASKOUT ||| MASKERR) := by decide

/-! ## 4. `iv_fd_unregister`: the kernel forgets the descriptor, nothing else changes -/

/-- After `iv_fd_unregister` of a registered object the kernel has no entry for its descriptor —
even when a change was still queued (the object is flushed by `iv_fd_epoll_unregister_fd`, at most
one epoll_ctl: a DEL that succeeds) — the object is off the notify list, and nothing about other
objects, other descriptors or the order of the rest of the notify list changes. -/
theorem unregister_forgets {s : State} (hI : Inv s) {o : Nat} (hr : (s.objs o).reg = true) :
    (unregister s o).1.kernel (s.objs o).fd = none ∧
    o ∉ (unregister s o).1.notify ∧ ((unregister s o).1.objs o).queued = false ∧
    ((unregister s o).1.objs o).reg = false ∧
    (∀ x, x ≠ o → (unregister s o).1.objs x = s.objs x) ∧
    (∀ d, d ≠ (s.objs o).fd → (unregister s o).1.kernel d = s.kernel d) ∧
    (unregister s o).1.notify = s.notify.filter (· != o) ∧
    (unregister s o).2 = (if (s.objs o).registered = 0 then []
      else [⟨.del, (s.objs o).fd, 0, o, 0⟩]) := by
  rw [unregister_eq hI hr]
  refine ⟨by simp [unregisteredSt], by simp [unregisteredSt], by simp [unregisteredSt],
    by simp [unregisteredSt], ?_, ?_, rfl, rfl⟩
  · intro x hx; simp [unregisteredSt, upd_other _ _ hx]
  · intro d hd; simp [unregisteredSt, upd_other _ _ hd]

/-- so no event can be delivered for an unregistered (possibly freed) object: every entry of the
interest list carries the `data.ptr` of an object that is registered on that descriptor -/
theorem kernel_entries_are_registered (ops : List Op) (d m p : Nat)
    (h : (run init ops).kernel d = some (m, p)) :
    ((run init ops).objs p).reg = true ∧ ((run init ops).objs p).fd = d :=
  (invariant_always ops).owner d m p h

/-- a change still queued at unregister time: IN registered, handler removed, not yet flushed -/
example : let s := run init [.set 0 MASKIN true, .reg 0 5, .flush [], .set 0 MASKIN false]
    s.notify = [0] ∧ s.kernel 5 = some (EPOLLIN, 0) ∧ (unregister s 0).1.kernel 5 = none ∧
      (unregister s 0).2 = [⟨.del, 5, 0, 0, 0⟩] := by decide

/-! ## 5. minimality -/

/-- `__iv_fd_epoll_flush_one` issues at most one epoll_ctl (it returns an `Option`), and none when
`registered_bands = wanted_bands` -/
theorem flushOne_no_call_when_equal (s : State) (o : Nat)
    (h : (s.objs o).registered = (s.objs o).wanted) : (flushOneRaw s o).2 = none := by
  rcases flushOneRaw_ctl s o with ⟨h0, _⟩ | ⟨_, _, hne⟩
  · exact h0
  · exact absurd h hne

/-- `iv_fd_epoll_flush_pending` issues at most one epoll_ctl per queued object, each for a
different queued object whose `registered_bands` really differ from `wanted_bands`, with the op of
the C table and the mask of the wanted bands -/
theorem flush_minimal {s : State} (hI : Inv s) :
    (flushPending s).2.length ≤ s.notify.length ∧
    ((flushPending s).2.map (·.data)).Nodup ∧
    ∀ c ∈ (flushPending s).2, c.data ∈ s.notify ∧
      (s.objs c.data).registered ≠ (s.objs c.data).wanted ∧ c.fd = (s.objs c.data).fd ∧
      c.mask = bitsToPollMask (s.objs c.data).wanted ∧
      c.op = chooseOp (s.objs c.data).registered (s.objs c.data).wanted := by
  have h := flushPending_spec hI
  refine ⟨?_, h.once, h.from_queue⟩
  have hsub : ∀ x ∈ (flushPending s).2.map (·.data), x ∈ s.notify := by
    intro x hx
    obtain ⟨c, hc, rfl⟩ := List.mem_map.1 hx
    exact (h.from_queue c hc).1
  have := List.Nodup.length_le_of_subset h.once hsub
  simpa using this

/-- setting a handler and setting it back before the flush costs no system call: the object is
taken off the notify list again and the flush issues nothing for it -/
theorem toggle_back_no_syscall {s : State} (hI : Inv s) {o : Nat} (hr : (s.objs o).reg = true)
    (hsync : (s.objs o).registered = wantedOf (s.objs o)) (b : Bool) :
    let s2 := setHandler (setHandler s o MASKIN b) o MASKIN (s.objs o).hin
    o ∉ s2.notify ∧ (s2.objs o).registered = (s2.objs o).wanted ∧
      ∀ c ∈ (flushPending s2).2, c.data ≠ o := by
  intro s2
  have hI2 : Inv s2 := inv_setHandler (inv_setHandler hI _ _ _) _ _ _
  have hobj := setHandler_twice_obj hr b
  change s2.objs o = _ at hobj
  have hw : (s2.objs o).registered = (s2.objs o).wanted := by rw [hobj]; exact hsync
  have hnot : o ∉ s2.notify := by
    intro hm
    have hq := (hI2.queued_iff o).2 hm
    rw [hobj] at hq
    simp [hsync] at hq
  refine ⟨hnot, hw, ?_⟩
  intro c hc hco
  exact hnot (hco ▸ ((flushPending_spec hI2).from_queue c hc).1)

example : let s := run init [.set 0 MASKIN true, .reg 0 5, .flush []]
    (s.objs 0).registered = wantedOf (s.objs 0) ∧
    (flushPending (setHandler (setHandler s 0 MASKIN false) 0 MASKIN true)).2 = [] ∧
    (setHandler s 0 MASKIN false).notify = [0] := by decide

/-! ## 6. dispatch -/

/-- the bands reported for one event, all 16 combinations of IN / OUT / ERR / HUP (`i o e h`):
IN ready iff IN|ERR|HUP, OUT ready iff OUT|ERR|HUP, ERR ready iff ERR|HUP -/
theorem dispatch_table : ∀ i o e h : Bool,
    readyBands ((if i then EPOLLIN else 0) ||| (if o then EPOLLOUT else 0) |||
      (if e then EPOLLERR else 0) ||| (if h then EPOLLHUP else 0)) =
    (if i || e || h then MASKIN else 0) ||| (if o || e || h then MASKOUT else 0) |||
      (if e || h then MASKERR else 0) := by decide

/-- the table, row by row -/
theorem dispatch_rows :
    readyBands 0 = 0 ∧
    readyBands EPOLLIN = MASKIN ∧ readyBands EPOLLOUT = MASKOUT ∧
    readyBands (EPOLLIN ||| EPOLLOUT) = MASKIN ||| MASKOUT ∧
    readyBands EPOLLERR = 7 ∧ readyBands (EPOLLERR ||| EPOLLIN) = 7 ∧
    readyBands (EPOLLERR ||| EPOLLOUT) = 7 ∧ readyBands (EPOLLERR ||| EPOLLIN ||| EPOLLOUT) = 7 ∧
    readyBands EPOLLHUP = 7 ∧ readyBands (EPOLLHUP ||| EPOLLIN) = 7 ∧
    readyBands (EPOLLHUP ||| EPOLLOUT) = 7 ∧ readyBands (EPOLLHUP ||| EPOLLIN ||| EPOLLOUT) = 7 ∧
    readyBands (EPOLLHUP ||| EPOLLERR) = 7 ∧ readyBands (EPOLLHUP ||| EPOLLERR ||| EPOLLIN) = 7 ∧
    readyBands (EPOLLHUP ||| EPOLLERR ||| EPOLLOUT) = 7 ∧
    readyBands (EPOLLHUP ||| EPOLLERR ||| EPOLLIN ||| EPOLLOUT) = 7 := by decide

/-- The loop over the batch (three conditional `iv_fd_make_ready` calls per event) puts each
reported object on the active list once, in batch order, with exactly `readyBands events`;
an event with none of the four bits reports nothing.  (Events of one batch are for different
objects: one interest-list entry per descriptor, one descriptor per registered object.) -/
theorem dispatch_eq (evs : List (Nat × Nat)) (hd : (evs.map (·.1)).Nodup) :
    dispatch evs = (evs.filter (fun e => readyBands e.2 != 0)).map (fun e => (e.1, readyBands e.2)) := by
  have := dispatch_fold_eq evs [] hd (by simp)
  simpa [dispatch] using this

/-- events are only ever dispatched to registered objects: whatever descriptors the kernel
reports, the `data.ptr` it hands back is a registered object on that descriptor -/
theorem dispatch_targets_registered (ops : List Op) (kev : List (Nat × Nat)) :
    ∀ pe ∈ kernelEvents (run init ops).kernel kev, ((run init ops).objs pe.1).reg = true := by
  intro pe hpe
  simp only [kernelEvents, List.mem_filterMap] at hpe
  obtain ⟨e, _, he⟩ := hpe
  cases hk : (run init ops).kernel e.1 with
  | none => simp [hk] at he
  | some md =>
    obtain ⟨m, p⟩ := md
    simp [hk] at he
    subst he
    exact ((invariant_always ops).owner e.1 m p hk).1

example : dispatch [(3, EPOLLIN), (1, EPOLLHUP), (2, EPOLLOUT ||| EPOLLIN)] = [(3, 1), (1, 7), (2, 3)] := by
  decide
example : ([(3, EPOLLIN), (1, EPOLLHUP), (2, EPOLLOUT ||| EPOLLIN)].map (·.1)).Nodup := by decide

/-! ## 7. outside the hypothesis: a descriptor closed while registered -/

/-- If the descriptor of a queued object was closed behind the library's back, the flush gets
EBADF: `registered_bands` is NOT updated (it still equals what the kernel had), the object is off
the notify list, `notify_fd_sync` returns the error and `iv_fd_epoll_flush_one` reaches
`iv_fatal`. -/
theorem closed_descriptor_is_fatal (s : State) (o : Nat) (hc : s.closed (s.objs o).fd = true)
    (hne : (s.objs o).registered ≠ (s.objs o).wanted) :
    ctlErr (notifySync s o).2 = EBADF ∧ ((notifySync s o).1.objs o).registered = (s.objs o).registered ∧
    (notifySync s o).1.kernel = s.kernel ∧ (flushOne s o).1.fatal = true := by
  have h := flushOneRaw_closed s o hc hne
  refine ⟨by simp [notifySync, h.2, ctlErr], by simp [notifySync, h.1, delInitNotify],
    by simp [notifySync, h.1, delInitNotify], ?_⟩
  unfold flushOne
  simp [h.2, ctlErr]

example : let s := run init [.set 0 MASKIN true, .reg 0 5]
    let s := { s with closed := upd s.closed 5 true }
    s.closed (s.objs 0).fd = true ∧ (s.objs 0).registered ≠ (s.objs 0).wanted := by decide

/-! ## 8. teeth: two mutants break the invariant on a concrete sequence -/

/-- Mutant 1 (`registered_bands = wanted_bands` even when epoll_ctl failed): a probing
`iv_fd_register_try` on an occupied descriptor leaves the library believing IN|OUT is registered
for an object the kernel knows nothing about; the correct code leaves 0. -/
theorem mutant_update_on_failure_breaks_belief :
    let s := run init [.set 0 MASKIN true, .reg 0 5, .flush []]
    let mid := tryMid s 1 5
    ((flushOneRawM1 mid 1).1.objs 1).registered = 3 ∧ ctlErr (flushOneRawM1 mid 1).2 = EEXIST ∧
    (flushOneRawM1 mid 1).1.kernel 5 = some (EPOLLIN, 0) ∧
    ((flushOneRaw mid 1).1.objs 1).registered = 0 ∧
    ¬ ((flushOneRawM1 mid 1).1.kernel ((flushOneRawM1 mid 1).1.objs 1).fd =
        entry ((flushOneRawM1 mid 1).1.objs 1).registered 1) := by decide

/-- the same mutant with a descriptor closed behind the library's back: belief IN, kernel nothing -/
theorem mutant_update_on_failure_breaks_belief_closed :
    let s := run init [.set 0 MASKIN true, .reg 0 5]
    let s := { s with closed := upd s.closed 5 true }
    ((flushOneRawM1 s 0).1.objs 0).registered = 1 ∧ (flushOneRawM1 s 0).1.kernel 5 = none ∧
    ((flushOneRaw s 0).1.objs 0).registered = 0 := by decide

/-- Mutant 2 (`iv_fd_unregister` without the flush in `iv_fd_epoll_unregister_fd`): the kernel
keeps an entry whose `data.ptr` is an object that is no longer registered (a dangling pointer once
the user frees it), and the unregistered object stays on the notify list: `owner`, `queued_reg`
fail, so `Inv` fails. -/
theorem mutant_no_flush_on_unregister_breaks_inv :
    let s := run init [.set 0 MASKIN true, .reg 0 5, .flush []]
    let s' := (unregisterM2 s 0).1
    s'.kernel 5 = some (EPOLLIN, 0) ∧ (s'.objs 0).reg = false ∧ s'.notify = [0] ∧ ¬ Inv s' := by
  refine ⟨by decide, by decide, by decide, ?_⟩
  intro hI
  have h := hI.owner 5 EPOLLIN 0 (by decide)
  exact absurd h.1 (by decide)

end Ivy.Props.C15epoll
