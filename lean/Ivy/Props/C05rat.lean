import Ivy.L0.RatProofs
/-!
# C05 (radix tree) — the timer radix tree of iv_timer.c behaves as the flat array of the heap model

`Ivy/L0/Heap.lean` (on which the C05 theorems are proved) models the timer store as a flat array of
size `2^((rat_depth+1)*bits)`.  `Ivy/L0/Rat.lean` models the pointer structure itself:
`iv_timer_get_node` (one-level growth, lazy zero-filled allocation, descent by digits),
`iv_timer_radix_tree_remove_level`, `iv_timer_free_ratnode`, `iv_timer_deinit`.  Property theorems
only; the proofs live in `Ivy/L0/RatProofs.lean`.  Every statement is for an arbitrary `bits`
(so for every `bits ≥ 1`), every depth and every index; the heap-model statements are for the
generated `IV_TIMER_SPLIT_BITS`.
-/
namespace Ivy.Props.C05rat
open Ivy.Rat Ivy.Rat.Proofs

/-- (a) `iv_timer_get_node` at an index at most one level beyond the capacity returns a valid pointer
to the slot of that index, changes no slot (`flat` of new slots is NULL, as it was beyond the old
capacity), and afterwards the index is within the capacity. -/
theorem getNode_correct {bits : Nat} {s : RatState} (i : Nat) (hs : Shape bits s)
    (hi : i < span bits (s.depth + 1)) :
    Shape bits (getNode bits s i).1 ∧
    (getNode bits s i).1.depth = (if span bits s.depth ≤ i then s.depth + 1 else s.depth) ∧
    i < span bits (getNode bits s i).1.depth ∧
    readSlot (getNode bits s i).1 (getNode bits s i).2 = some (flat bits s i) ∧
    ∀ j, flat bits (getNode bits s i).1 j = flat bits s j :=
  getNode_spec i hs hi

/-- (b) write-then-read. -/
theorem store_correct {bits : Nat} {s : RatState} (i : Nat) (v : Option Nat) (hs : Shape bits s)
    (hi : i < span bits (s.depth + 1)) :
    Shape bits (store bits s i v) ∧
    readSlot (store bits s i v) (getNode bits s i).2 = some v ∧
    ∀ j, flat bits (store bits s i v) j = if j = i then v else flat bits s j :=
  let h := store_spec i v hs hi
  ⟨h.1, h.2.2.2.1, h.2.2.2.2⟩

/-- (c) `iv_timer_radix_tree_remove_level` under the C's shrink condition keeps every slot ... -/
theorem removeLevel_slots {bits : Nat} {s : RatState} (hs : Shape bits s) (hd : 0 < s.depth)
    (hnull : ∀ j, span bits (s.depth - 1) ≤ j → flat bits s j = none) :
    Shape bits (removeLevel s) ∧ (removeLevel s).depth = s.depth - 1 ∧
    ∀ j, flat bits (removeLevel s) j = flat bits s j :=
  removeLevel_flat hs hd hnull

/-- ... and, on a dense tree, frees exactly the discarded nodes (the old root and everything
reachable from its `child[1..]`). -/
theorem removeLevel_frees {bits : Nat} {s : RatState} {m : Nat} (h : Dense bits s m) (hl : Ledger s)
    (hd : 0 < s.depth) :
    removeLevelFreed s = discarded s ∧ s.allocated = (removeLevel s).allocated + discarded s ∧
    Ledger (removeLevel s) ∧ Dense bits (removeLevel s) (min m (span bits (s.depth - 1) - 1)) :=
  removeLevel_ledger h hl hd

/-- (d) Refinement: any legal sequence of the heap model's slot operations reads the same on the
tree as on the flat array, and the tree keeps denoting the array. -/
theorem rat_refines_array (bits : Nat) (ops : List SlotOp) (a : Arr) (r : RatState) (h : Sim bits a r)
    (hl : LegalRun bits a ops) :
    Sim bits (runA bits a ops).1 (runR bits r ops).1 ∧ (runA bits a ops).2 = (runR bits r ops).2 :=
  Proofs.rat_refines_array bits ops a r h hl

/-- (d) for the heap model itself: along any history of valid `register` / `unregister` /
`iv_run_timers` (first loop) calls of the heap model (which by C05 succeed and keep `HeapInv`), the models of
the C tree functions keep a tree that denotes the store's slot array; initially they agree. -/
theorem heap_on_tree {s' : Heap.Store} (n : Nat) (hh : History (Heap.Store.init n) s') :
    Heap.HeapInv s' ∧ ∃ ops, Sim Heap.bits (Arr.ofStore s') (runR Heap.bits (RatState.init Heap.bits) ops).1 :=
  history_refines hh (Heap.Proofs.init_inv n) (init_store_sim n)

/-- the premise of `heap_on_tree` is satisfiable: by C05 every valid call extends a history -/
theorem history_extends {s0 s : Heap.Store} (hh : History s0 s) (hinv : Heap.HeapInv s) (t : Nat) (e : Heap.TS)
    (ht : s.idx[t]? = some (-1)) : ∃ s', History s0 s' ∧ s'.num = s.num + 1 := by
  obtain ⟨s', e1, _, _, _, hn, _⟩ := Heap.Proofs.register_ok s t e hinv ht
  exact ⟨s', hh.trans (.step (.register t e) ht e1 (.refl _)), hn⟩

/-- `push_down`'s `p[1]` (pointer arithmetic, no `iv_timer_get_node`) is the slot of `2*index+1`. -/
theorem right_child_is_next_slot {bits : Nat} (hb : 1 ≤ bits) {s : RatState} (k : Nat) (hs : Shape bits s)
    (hi : 2 * k < span bits (s.depth + 1)) :
    readSlot (getNode bits s (2 * k)).1 (bump (getNode bits s (2 * k)).2) = some (flat bits s (2 * k + 1)) :=
  sibling_spec (2 * k) hs hi (even_not_last hb k)

/-- The cell overlaying `st->ratnode.timer_root` (cell 0 of the embedded first leaf) is addressed
only by index 0, which the heap never uses. -/
theorem overlay_only_index_zero {bits : Nat} {s : RatState} (i : Nat) (hs : Shape bits s)
    (hi : i < span bits (s.depth + 1)) :
    (getNode bits s i).2 = List.replicate ((getNode bits s i).1.depth + 1) 0 ↔ i = 0 :=
  ptr_zero_iff i hs hi

/-- (e) No leak: after any history of register/unregister tree calls `allocated` is the number of
reachable malloc'ed nodes, and `iv_timer_deinit` frees them all. -/
theorem no_leak {bits : Nat} (hb : 1 ≤ bits) (cs : List Call) (hc : CallsOk bits ⟨RatState.init bits, 0⟩ cs) :
    let s := calls bits ⟨RatState.init bits, 0⟩ cs
    s.rat.allocated + 1 = reach s.rat.depth s.rat.root ∧ (freeAll s.rat).allocated = 0 :=
  Proofs.no_leak hb cs hc

theorem deinit_frees_all {bits : Nat} {s : RatState} {m : Nat} (h : Dense bits s m) (hl : Ledger s) :
    (freeAll s).allocated = 0 ∧ (freeAll s).depth = 0 :=
  freeAll_allocated h hl

/-! ## Non-vacuity, `bits = 2` (fan-out 4): crossing the `2^bits = 4` and `2^(2*bits) = 16` boundaries -/

/-- `n` timers registered: slots `1..n` hold `1..n` -/
def build (bits n : Nat) : TState := calls bits ⟨RatState.init bits, 0⟩ ((List.range n).map (fun i => .register (i + 1)))

set_option maxRecDepth 100000

example : (build 2 3).rat.depth = 0 ∧ (build 2 4).rat.depth = 1 ∧ (build 2 15).rat.depth = 1 ∧
    (build 2 16).rat.depth = 2 ∧ (build 2 17).rat.depth = 2 := by decide

/-- every slot reads back, unused and beyond-capacity indices read NULL -/
example : (List.range 20).map (flat 2 (build 2 17).rat) =
    none :: (List.range 17).map (fun i => some (i + 1)) ++ [none, none] := by decide

/-- ledger at 17 timers: depth-2 root, two depth-1 nodes, leaves 1..4 (leaf 0 is embedded) -/
example : (build 2 17).rat.allocated = 7 ∧ reach 2 (build 2 17).rat.root = 8 := by decide

/-- unregister 17, 16 (shrinks: `num == 1 << 2*bits`), 15 ... 4 (shrinks again), then regrow to 17:
slots keep reading back and nothing leaks; `iv_timer_deinit` frees everything -/
def shrinkRegrow : List Call :=
  (List.range 17).map (fun i => .register (i + 1)) ++ List.replicate 14 .unregisterLast ++
  (List.range 14).map (fun i => .register (100 + i))

example : CallsOk 2 ⟨RatState.init 2, 0⟩ shrinkRegrow := by
  simp only [shrinkRegrow]; decide

example :
    let mid := calls 2 ⟨RatState.init 2, 0⟩ ((List.range 17).map (fun i => .register (i + 1)) ++ List.replicate 14 .unregisterLast)
    mid.num = 3 ∧ mid.rat.depth = 0 ∧ mid.rat.allocated = 0 ∧
    (List.range 6).map (flat 2 mid.rat) = [none, some 1, some 2, some 3, none, none] := by decide

example :
    let s := calls 2 ⟨RatState.init 2, 0⟩ shrinkRegrow
    s.num = 17 ∧ s.rat.depth = 2 ∧ s.rat.allocated = 7 ∧ reach 2 s.rat.root = 8 ∧
    flat 2 s.rat 3 = some 3 ∧ flat 2 s.rat 4 = some 100 ∧ flat 2 s.rat 17 = some 113 ∧ flat 2 s.rat 18 = none ∧
    (freeAll s.rat).allocated = 0 := by decide

/-- the refinement hypotheses are satisfiable: a legal slot-operation run over both boundaries reads
the same on the array and on the tree -/
def demoOps : List SlotOp :=
  [.grow 1, .set 1 (some 11), .grow 4, .set 4 (some 14), .get 4, .get 1, .get 2, .get 7,
   .grow 16, .set 16 (some 26), .get 16, .get 4, .set 16 none, .removeLevel, .get 4, .get 5,
   .set 4 none, .removeLevel, .get 1, .get 3]

example : LegalRun 2 ⟨Array.replicate (span 2 0) none, 0⟩ demoOps := by decide

example : (runR 2 (RatState.init 2) demoOps).2 =
    [some (some 14), some (some 11), some none, some none, some (some 26), some (some 14),
     some (some 14), some none, some (some 11), some none] ∧
    (runA 2 ⟨Array.replicate (span 2 0) none, 0⟩ demoOps).2 = (runR 2 (RatState.init 2) demoOps).2 ∧
    (runR 2 (RatState.init 2) demoOps).1.depth = 0 ∧ (runR 2 (RatState.init 2) demoOps).1.allocated = 0 := by
  decide

/-- Why the ledger theorems assume density (`index ≤ num_timers`, indices grow by one): the C frees
with `break` at the first NULL child, so a (never issued) access that skips a leaf -- here index 15
while only leaves 0 and 1 exist -- would leak that leaf on the next shrink, although the slots still
read correctly. -/
example :
    let ops : List SlotOp := [.grow 4, .set 4 (some 14), .get 15, .set 4 none, .removeLevel]
    LegalRun 2 ⟨Array.replicate (span 2 0) none, 0⟩ ops ∧
    (runR 2 (RatState.init 2) ops).1.depth = 0 ∧ (runR 2 (RatState.init 2) ops).1.allocated = 1 := by decide

/-- The seeded bug "only child[1] freed on shrink": with three leaves hanging off the root
(12 timers, fan-out 4) the buggy shrink leaves two nodes allocated that are no longer reachable,
whereas the modelled C code leaves none. -/
example :
    let s := (build 2 12).rat
    s.allocated = 4 ∧
    (removeLevel s).allocated + 1 = reach 0 (removeLevel s).root ∧
    (removeLevelBuggy s).allocated = 2 ∧ reach 0 (removeLevelBuggy s).root = 1 ∧
    (removeLevelBuggy s).allocated + 1 ≠ reach (removeLevelBuggy s).depth (removeLevelBuggy s).root := by decide

end Ivy.Props.C05rat
