import Ivy.L1.ProofsC03
/-!
# C03 — property theorem over the L1 loop machine

Statement: every trace the machine can produce — for every poll method, every configuration of
optional kernel facilities, every user program (any API calls from set-up code and from any handler),
every kernel answer allowed by the kernel contract `envOk` (wait results, EINTR, ENOSYS, clock values,
raw-event reads) and every foreign-thread post at a wait — is accepted by the monitor
`Ivy.Mon.C03`, which states the property over observable records only.  The same monitor is run on the
implementation's logs by the check.  Helper lemmas and invariants live in `Ivy/L1/ProofsC03.lean`.
-/
namespace Ivy.Props.C03
open Ivy.L1

theorem monitor_accepts (m : Method) (ntimers : Nat) (timerfdAvail pwait2 : Bool)
    (evs : List Ev) (s' : St) (h : Exec (St.init m ntimers timerfdAvail pwait2) evs s') :
    Ivy.Mon.C03.verdict evs = none :=
  Ivy.L1.ProofsC03.monitor_accepts m ntimers timerfdAvail pwait2 evs s' h

end Ivy.Props.C03
