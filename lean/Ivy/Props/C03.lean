import Ivy.L1.ProofsC03
import Ivy.L1.TablesAgree
/-!
# C03 — property theorem over the L1 loop machine

Statement: every trace the machine can produce — for every poll method, every configuration of
optional kernel facilities, every user program (any API calls from set-up code and from any handler),
every kernel answer allowed by the kernel contract `envOk` (wait results, EINTR, ENOSYS, clock values,
raw-event reads) and every foreign-thread post at a wait — is accepted by the monitor
`Ivy.Mon.C03`, which states the property over observable records only.  The same monitor is run on the
implementation's logs by the check.  Helper lemmas and invariants live in `Ivy/L1/ProofsC03.lean`.
-/
namespace Ivy.Props.C03
open Ivy.L1

theorem monitor_accepts (m : Method) (ntimers : Nat) (timerfdAvail pwait2 : Bool)
    (evs : List Ev) (s' : St) (h : Exec (St.init m ntimers timerfdAvail pwait2) evs s') :
    Ivy.Mon.C03.verdict evs = none :=
  Ivy.L1.ProofsC03.monitor_accepts m ntimers timerfdAvail pwait2 evs s' h

/-- T-gen (finite tables, re-checked against /repo's current code on every run): the event→band lines of
`iv_fd_epoll_poll` and `iv_fd_epoll_timerfd_poll` are `bandsOfKEv` on all 16 kernel answers -/
theorem epoll_event_band_table_agrees :
    (∀ r ∈ Ivy.Generated.Tables.epollEventBand, Ivy.L1.TablesAgree.evRowOk r) ∧
    (∀ r ∈ Ivy.Generated.Tables.epollTimerfdEventBand, Ivy.L1.TablesAgree.evRowOk r) ∧
    (∀ ev : KEv, Ivy.L1.TablesAgree.evRowOf ev ∈ Ivy.Generated.Tables.epollEventBand ∧
      Ivy.L1.TablesAgree.evRowOf ev ∈ Ivy.Generated.Tables.epollTimerfdEventBand) :=
  Ivy.L1.TablesAgree.epoll_event_band_table_agrees

/-- T-gen: `iv_fd_poll_activate_fds` is `bandsOfKEv` on all 16 kernel answers -/
theorem poll_event_band_table_agrees :
    (∀ r ∈ Ivy.Generated.Tables.pollEventBand, Ivy.L1.TablesAgree.evRowOk r) ∧
    (∀ ev : KEv, Ivy.L1.TablesAgree.evRowOf ev ∈ Ivy.Generated.Tables.pollEventBand) :=
  Ivy.L1.TablesAgree.poll_event_band_table_agrees

end Ivy.Props.C03
