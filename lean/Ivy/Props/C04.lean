import Ivy.L1.ProofsC04
import Ivy.L1.TablesAgree
/-!
# C04 — property theorem over the L1 loop machine

Statement: every trace the machine can produce — for every poll method, every configuration of
optional kernel facilities, every user program (any API calls from set-up code and from any handler),
every kernel answer allowed by the kernel contract `envOk` (wait results, EINTR, ENOSYS, clock values,
raw-event reads) and every foreign-thread post at a wait — is accepted by the monitor
`Ivy.Mon.C04`, which states the property over observable records only.  The same monitor is run on the
implementation's logs by the check.  Helper lemmas and invariants live in `Ivy/L1/ProofsC04.lean`.
-/
namespace Ivy.Props.C04
open Ivy.L1

theorem monitor_accepts (m : Method) (ntimers : Nat) (timerfdAvail pwait2 : Bool)
    (evs : List Ev) (s' : St) (h : Exec (St.init m ntimers timerfdAvail pwait2) evs s') :
    Ivy.Mon.C04.verdict evs = none :=
  Ivy.L1.ProofsC04.monitor_accepts m ntimers timerfdAvail pwait2 evs s' h

/-- T-gen (sampled grid, re-checked against /repo's current code on every run): `timespec_gt`, `to_relative`,
`to_msec`, `timespec_cmp` are `TS.gt`, `toRelative`, `toMsec`, `tsCmp` on every row of the grid -/
theorem timespec_tables_agree :
    (∀ r ∈ Ivy.Generated.Tables.timespec, Ivy.L1.TablesAgree.tsRowOk r) ∧
    (∀ r ∈ Ivy.Generated.Tables.timespecCmpNull, tsCmp none ⟨r.1, r.2.1⟩ = r.2.2) :=
  Ivy.L1.TablesAgree.timespec_tables_agree

end Ivy.Props.C04
