import Ivy.L1.Ledger
import Ivy.L1.ProofsReach
/-!
# C18 — memory / descriptor hygiene (the part that is logic)

* `resource_ledger`: for every history of init / kernel-timer creation / timer-store growth and shrink /
  raw-event (un)registration / deinit — any number of init–use–deinit cycles — whenever the loop instance
  is de-initialised everything it acquired (descriptors, heap blocks) has been released.
* use of freed object memory is excluded by `Ivy.Props.C01.monitor_accepts` (no `fault` output is reachable
  under valid use); out-of-bounds access to the poll arrays by the poll invariants used for `Ivy.Props.C02`.
Byte-level ownership ("reads and writes only memory it owns") is a runtime fact the model cannot exhibit
beyond object granularity: it is carried by AddressSanitizer/UBSan/LeakSanitizer and the descriptor-table
ledger in the correspondence runs (partial, stated in the evidence).
-/
namespace Ivy.Props.C18
open Ivy.L1.Ledger

theorem resource_ledger (s' : St) (ops : List Op) (hr : run {} ops = some s') (hd : s'.inited = false) :
    s'.res = ({} : Res) :=
  deinit_releases s' ops hr hd

theorem books_exact (base : Res) (s s' : St) (ops : List Op) (h : Inv base s) (hr : run s ops = some s') : Inv base s' :=
  run_inv base s s' ops h hr

/-- no out-of-bounds access to the poll back-end's arrays: in every reachable state of the loop machine
(every method of the poll family, every user program and kernel answer) a descriptor's `index` points at a
slot inside `pfds` that holds that descriptor (D4 was a violation of exactly this) -/
theorem no_oob (m : Ivy.L1.Method) (ntimers : Nat) (timerfdAvail pwait2 : Bool) (evs : List Ivy.L1.Ev) (s' : Ivy.L1.St)
    (h : Ivy.L1.Exec (Ivy.L1.St.init m ntimers timerfdAvail pwait2) evs s') (hP : s'.method.isEpoll = false) :
    ∀ f i, (s'.fds f).index = some i → i < s'.pfds.length ∧ ∃ b, s'.pfds[i]? = some (f, b) :=
  Ivy.L1.ProofsReach.poll_index_in_bounds m ntimers timerfdAvail pwait2 evs s' h hP

/-- no stale kernel registration survives an unregister (epoll family): whatever the kernel is still asked
to watch is a registered descriptor -/
theorem no_stale_kernel_interest (m : Ivy.L1.Method) (ntimers : Nat) (timerfdAvail pwait2 : Bool) (evs : List Ivy.L1.Ev) (s' : Ivy.L1.St)
    (h : Ivy.L1.Exec (Ivy.L1.St.init m ntimers timerfdAvail pwait2) evs s') (hE : s'.method.isEpoll = true) :
    ∀ f, (s'.kint f).isSome = true → (s'.fds f).registered = true :=
  Ivy.L1.ProofsReach.kernel_interest_registered m ntimers timerfdAvail pwait2 evs s' h hE

/-- non-vacuity: two cycles, one per method family, with a kernel timer, radix growth and a raw event -/
example : (run {} [.init true, .timerfdCreate, .ratGrow, .rawRegister, .rawUnregister, .deinit,
                   .init false, .ratGrow, .ratGrow, .ratShrink, .deinit]).map (·.res) = some {} := by decide

end Ivy.Props.C18
