import Ivy.L2.EventProofs
/-!
# C08 — iv_event: posts from any thread are never lost, over-delivered or misrouted

Property theorems only; the model is `Ivy/L2/Event.lean` (a labelled transition system at the granularity of
the critical sections of `iv_event.c` and the single wake-up operation that follows a post), the invariant
and the trace vocabulary are in `Ivy/L2/EventSpec.lean`, all proofs in `Ivy/L2/EventProofs.lean`.

Every theorem quantifies over: both transports (`cfg.raw`), any owner thread index, any number `n` of poster
threads (the owner's own thread included), any number of events, and every interleaving — a path of the LTS is
an arbitrary sequence of enabled actions (`exec … = some s`), and the invariant is shown for the initial state
and for every enabled action.  Valid use is part of the enabling conditions: only registered events are posted,
an event is not unregistered while some thread is inside a post of it, the API is called by the owner only from
loop code or handlers.

What is NOT proved here (trusted, see the plugin's assumptions): that the kernel ends the owner's wait when a
wake source exists (armed one-shot registration of an always-readable descriptor / readable raw descriptor),
and that iv_main runs a registered task before blocking.  `Quiescent` therefore says "no wake source at all".
-/
namespace Ivy.Props.C08
open Ivy.Event

theorem init_inv (cfg : Cfg) (n : Nat) : Inv cfg (State.init n) := Proofs.init_inv cfg n

/-- Every enabled action — of any poster thread or of the owner — preserves the invariant. -/
theorem step_inv (cfg : Cfg) (s s' : State) (a : Action) (h : Inv cfg s) (hs : step cfg s a = some s') :
    Inv cfg s' := Proofs.step_inv a h hs

/-- Hence it holds after every interleaving. -/
theorem reachable_inv (cfg : Cfg) (n : Nat) (s : State) (hr : Reachable cfg n s) : Inv cfg s :=
  Proofs.reachable_inv hr

/-- WakeOwed: in every reachable state a non-empty pending list is covered by a wake source of the transport in
use (armed kick / raw counter > 0), the owner's local task, a poster that still has to send its kick, or an owner
already between wake-up and steal; and a non-empty stolen batch exists only while the owner is inside a handler
from which it will re-check the batch. -/
theorem wake_owed (cfg : Cfg) (n : Nat) (s : State) (hr : Reachable cfg n s) :
    (s.pending ≠ [] → kickPending cfg s ∨ s.localTask = true ∨ kickInFlight s ∨ s.pc = .woken) ∧
    (s.batch ≠ [] → ∃ e, s.pc = .inHandler e false) :=
  ⟨(Proofs.reachable_inv hr).wake, (Proofs.reachable_inv hr).batchPc⟩

/-- C08_no_lost_post (state form): whenever the owner is outside the delivery code (idle or blocked in the
kernel), no wake source exists and no poster still owes a kick, nothing is queued and no post is owed: every post
that passed its critical section has had its handler started afterwards, or its event was unregistered. -/
theorem no_lost_post (cfg : Cfg) (n : Nat) (s : State) (hr : Reachable cfg n s) (hq : Quiescent cfg s) :
    s.pending = [] ∧ s.batch = [] ∧ ∀ e, s.owed e = false :=
  Proofs.no_lost_post (Proofs.reachable_inv hr) hq

/-- C08_no_lost_post (trace form): in any execution that ends quiescent, every post of `e` (its critical
section, which is after the post began) is followed by a handler start of `e` or an unregistration of `e`. -/
theorem post_settled (cfg : Cfg) (n : Nat) (pre post : List Action) (t : Tid) (e : Ev) (s : State)
    (hs : exec cfg (State.init n) (pre ++ Action.postCs t e :: post) = some s) (hq : Quiescent cfg s) :
    ∃ a ∈ post, a.clears e :=
  Proofs.post_settled hs hq

/-- C08_not_over_delivered (counter form): handler starts of `e` plus queued copies of `e` never exceed the posts
of `e` that completed their critical section, which never exceed the posts begun; an event is queued at most once. -/
theorem not_over_delivered (cfg : Cfg) (n : Nat) (s : State) (hr : Reachable cfg n s) (e : Ev) :
    s.delivered e + (s.pending ++ s.batch).count e ≤ s.csDone e ∧ s.csDone e ≤ s.begun e ∧
    (s.pending ++ s.batch).count e ≤ 1 :=
  Proofs.not_over_delivered (Proofs.reachable_inv hr) e

/-- The ghost counters are the trace counts: in every execution #handler starts ≤ #post critical sections ≤ #posts begun. -/
theorem trace_counts (cfg : Cfg) (n : Nat) (as : List Action) (s : State)
    (hs : exec cfg (State.init n) as = some s) (e : Ev) :
    as.countP (Proofs.isStart e) + (s.pending ++ s.batch).count e ≤ as.countP (Proofs.isCs e) ∧
    as.countP (Proofs.isCs e) ≤ as.countP (Proofs.isBegin e) :=
  Proofs.trace_counts hs e

/-- C08_not_over_delivered (trace form, exact): every handler start of `e` is preceded by a post of `e` whose
critical section happened after the previous handler start (and after any unregistration) of `e`: posts coalesce,
but one post never yields two invocations. -/
theorem start_justified (cfg : Cfg) (n : Nat) (pre : List Action) (a : Action) (e : Ev) (s : State)
    (hs : exec cfg (State.init n) (pre ++ [a]) = some s) (hst : a.starts e) :
    ∃ p1 t p2, pre = p1 ++ Action.postCs t e :: p2 ∧ ∀ b ∈ p2, ¬ b.clears e :=
  Proofs.start_justified hs hst

/-- Ordering: the critical section of a post by thread `t` is preceded by `t` entering that post, with no other
critical section of `t` in between; together with `post_settled`/`start_justified`: the handler invocation that
serves a post begins after the post began. -/
theorem cs_after_begin (cfg : Cfg) (n : Nat) (pre : List Action) (t : Tid) (e : Ev) (s : State)
    (hs : exec cfg (State.init n) (pre ++ [Action.postCs t e]) = some s) :
    ∃ q1 q2, pre = q1 ++ Action.postBegin t e :: q2 ∧ ∀ b ∈ q2, ∀ e', b ≠ .postCs t e' :=
  Proofs.cs_after_begin hs

/-- C08_owner_thread: the number of handler invocations of `e` changes only by the owner's `stealRun e` /
`handlerNext e`, taken from the owner's delivery loop (structural in the model: there is no other action that
starts a handler), and only while `e` is registered (never after an unregistration, so never on freed memory). -/
theorem owner_thread (cfg : Cfg) (n : Nat) (s s' : State) (a : Action) (e : Ev) (hr : Reachable cfg n s)
    (hs : step cfg s a = some s') (hd : s'.delivered e ≠ s.delivered e) :
    a.starts e ∧ (s.pc = .woken ∨ ∃ e0, s.pc = .inHandler e0 false) ∧ (∃ b, s'.pc = .inHandler e b) ∧
    e ∈ s.registered :=
  Proofs.owner_thread (Proofs.reachable_inv hr) hs hd

/-- Queue sanity: an event is on at most one of the two lists, at most once, and only while registered. -/
theorem queue_sane (cfg : Cfg) (n : Nat) (s : State) (hr : Reachable cfg n s) :
    (s.pending ++ s.batch).Nodup ∧ ∀ x, x ∈ s.pending ∨ x ∈ s.batch → x ∈ s.registered :=
  ⟨(Proofs.reachable_inv hr).nodup, (Proofs.reachable_inv hr).sub⟩

/-- A kick is never sent to an owner whose receive side is off (EPOLL_CTL_MOD on a deleted registration would
be fatal; a write on a closed raw descriptor would go elsewhere). -/
theorem no_fault (cfg : Cfg) (n : Nat) (s : State) (hr : Reachable cfg n s) : s.fault = false :=
  (Proofs.reachable_inv hr).noFault

/-- No deadlock at the LTS level: with the posters done, a non-empty pending list can always be delivered by owner
actions alone — unblock, consume the wake source that WakeOwed guarantees, steal, start the head's handler. -/
theorem deliverable (cfg : Cfg) (n : Nat) (s : State) (e : Ev) (rest : List Ev) (hr : Reachable cfg n s)
    (hp : s.pending = e :: rest) (hpc : s.pc = .idle ∨ s.pc = .blocked) (hall : ∀ p ∈ s.posters, p = .outside) :
    ∃ as s' b, exec cfg s as = some s' ∧ s'.pc = .inHandler e b ∧
      ∀ a ∈ as, a = .unblock ∨ a = .kickWake ∨ a = .rawWake ∨ a = .taskWake ∨ a = .stealRun e :=
  Proofs.deliverable (Proofs.reachable_inv hr) hp hpc hall

/-- The executable quiescence test that the replay driver evaluates on the model state at every `QUIESCENT` record
of the harness is exactly the `Quiescent` of `no_lost_post`. -/
theorem quiescent_test_sound (cfg : Cfg) (s : State) : quiescentB cfg s = true ↔ Quiescent cfg s :=
  Proofs.quiescentB_iff cfg s

/-! Non-vacuity: the classical lost-wake-up-prone interleaving (poster 1 makes the list non-empty, poster 2
appends without a kick and returns, the owner blocks, only then poster 1 sends the kick; the owner posts to an
already-stolen event from a handler) runs on the epoll transport and ends quiescent with both handlers invoked
exactly once; a raw-transport run with the owner posting to itself and an unregistration from a handler. -/
def demoKick : List Action :=
  [.register 0, .register 1, .postBegin 1 0, .postCs 1 0, .postBegin 2 1, .postCs 2 1, .postKick 2 1, .block,
   .postKick 1 0, .kickWake, .stealRun 0, .postBegin 0 1, .postCs 0 1, .postKick 0 1, .handlerNext 1,
   .handlerDone, .block]

example : (exec ⟨0, false⟩ (State.init 3) demoKick).map
      (fun s => (s.pending, s.batch, s.pc, s.armed, s.localTask, s.posters, s.delivered 0, s.delivered 1, s.begun 1)) =
    some ([], [], .blocked, false, false, [.outside, .outside, .outside], 1, 1, 2) := by rfl

example : (exec ⟨0, true⟩ (State.init 2)
      [.register 0, .register 1, .register 2, .postBegin 0 0, .postCs 0 0, .postBegin 1 1, .postCs 1 1, .postKick 1 1,
       .postBegin 1 2, .postCs 1 2, .postKick 1 2, .postKick 0 0, .taskWake, .stealRun 0, .unregister 1,
       .handlerNext 2, .handlerDone, .block]).map
      (fun s => (s.pending, s.pc, s.rawCount, s.localTask, s.registered, s.delivered 0, s.delivered 1, s.delivered 2, s.owed 1)) =
    some ([], .blocked, 0, false, [2, 0], 1, 0, 1, false) := by rfl

/-- an action that is not enabled is rejected: a second thread cannot run a handler, the owner cannot block
in the middle of a post, an event cannot be unregistered while a poster is inside a post of it -/
example : (exec ⟨0, false⟩ (State.init 2) [.register 0, .postBegin 1 0, .unregister 0]).isNone = true := by decide
example : (exec ⟨0, false⟩ (State.init 2) [.register 0, .postBegin 0 0, .block]).isNone = true := by decide

end Ivy.Props.C08
