import Ivy.L3.WaitProofs
/-!
# C11 — iv_wait: child statuses reach the right interest once, in order, in the owner; strangers are harmless;
# the kill helper never signals a reaped pid

Property theorems only; the model is `Ivy/L3/Wait.lean` (an LTS: `step : State → Action → Option State`), the invariant
`Ivy/L3/WaitSpec.lean`, all proofs `Ivy/L3/WaitProofs.lean`.  `Reachable s` = s is reached from the initial state by ANY
sequence of enabled actions: any number of threads and interests, every interleaving at critical-section granularity
(including the reaper being any thread and running between any two steps of any other thread), every history of
children with and without interests stopping/continuing/exiting/being killed at any moment (also before fork() has
returned), registration, unregistration (also from inside the handler) and re-registration at any moment, pid reuse as
soon as a termination has been reaped.  Ghost fields used in the statements: `queued`/`got` = everything ever appended to
the interest's queue / handed to its handler since it was registered; `cid` = the child incarnation it was attached to
(pids are reused, incarnations are not); `hist c` = all state changes of child c in the order they occurred;
`reapedOf`/`unreapedOf` = the part of it wait4() has / has not yet returned.
-/
namespace Ivy.Props.C11
open Ivy.Wait

theorem init_inv : Inv State.init := Proofs.init_inv

/-- every enabled action — of the environment, of the reaper, of any API call, of any completion — keeps the invariant -/
theorem step_inv {s s' : State} (a : Action) (h : Inv s) (hs : step s a = some s') : Inv s' := Proofs.step_inv a h hs

/-- hence it holds in every reachable state: for all interleavings and histories -/
theorem reachable_inv {s : State} (h : Reachable s) : Inv s := Proofs.reachable_inv h

/-- ROUTING (one reap): a status reaped for pid p while an interest w is registered for p is appended to the tail of w's
queue, w's event is due to be posted, and no other interest and no thread-local state is touched. -/
theorem routing_step {s s' : State} {t : Tid} {pid : Pid} {st : Status} {w : Wid}
    (hs : step s (.reapOne t pid st) = some s') (hw : alookup s.set pid = some w) :
    (s'.ints w).pending = (s.ints w).pending ++ [st] ∧ (s'.ints w).queued = (s.ints w).queued ++ [st] ∧
    s'.posting = some w ∧ (∀ x, x ≠ w → s'.ints x = s.ints x) ∧ s'.thr = s.thr := Proofs.routing_step hs hw

/-- ROUTING (whole history): what was queued to a registered interest is exactly the contiguous segment of ITS child's
state changes reaped since the registration, in the order they occurred — nothing foreign, nothing duplicated, nothing
skipped — and it is, in this order, what the handler got ++ what the owner's completion still holds ++ what is pending. -/
theorem queue_is_history {s : State} (h : Reachable s) {w : Wid} (hr : (s.ints w).reg = true) :
    (s.ints w).queued = (reapedOf s (s.ints w).cid).drop (s.ints w).base ∧
    (s.ints w).queued = (s.ints w).got ++ infl s w ++ (s.ints w).pending := Proofs.queue_is_history h hr

/-- the handler therefore sees a prefix of its child's history (from the registration on), in order -/
theorem delivered_in_order {s : State} (h : Reachable s) {w : Wid} (hr : (s.ints w).reg = true) :
    (s.ints w).got <+: (s.hist (s.ints w).cid).drop (s.ints w).base := Proofs.delivered_in_order h hr

/-- a handler call made by thread t is for an interest that is still registered and was registered by t, with the next
status in order -/
theorem deliver_owner {s : State} (h : Reachable s) {t : Tid} {w : Wid} {st : Status} (hd : deliverCall s t = some (w, st)) :
    (s.ints w).reg = true ∧ (s.ints w).owner = t ∧ ∃ rest, infl s w = st :: rest := Proofs.deliver_owner h hd

theorem deliver_step {s s' : State} {t : Tid} {w : Wid} {st : Status} (hd : deliverCall s t = some (w, st))
    (hs : step s (.deliver t) = some s') : (s'.ints w).got = (s.ints w).got ++ [st] ∧ ∀ x, x ≠ w → s'.ints x = s.ints x :=
  Proofs.deliver_step hd hs

/-- after an unregister from inside the handler the rest of the batch is dropped without any handler call -/
theorem silent_deliver {s s' : State} {t : Tid} (hd : deliverCall s t = none) (hs : step s (.deliver t) = some s') :
    s'.ints = s.ints := Proofs.silent_deliver hd hs

/-- TERMINAL ONCE AND LAST: in every reachable state, of everything ever queued to (resp. handed to the handler of) a
registered interest only the LAST element can be a terminating status — so it occurs at most once and nothing is queued
or delivered behind it, also when the pid has been reused since; the dead flag is set exactly when that last element is
terminating, and then the interest is out of the set. -/
theorem terminal_once_last {s : State} (h : Reachable s) {w : Wid} (hr : (s.ints w).reg = true) :
    noDead (s.ints w).queued.dropLast ∧ noDead (s.ints w).got.dropLast ∧
    ((s.ints w).dead = true ↔ ∃ d, (s.ints w).queued.getLast? = some d ∧ d.dead = true) ∧
    ((s.ints w).dead = true → ∀ p, alookup s.set p ≠ some w) := Proofs.terminal_once_last h hr

/-- SPAWN NEVER MISSED (1): fork and insertion are one step: right after it the interest is in the set under the new pid,
attached to the new child, whose history is still empty. -/
theorem spawn_atomic {s s' : State} (h : Reachable s) {t : Tid} {w : Wid} {pid : Pid}
    (hs : step s (.registerSpawn t w pid) = some s') :
    alookup s'.set pid = some w ∧ alookup s'.procs pid = some (s'.ints w).cid ∧ s'.hist (s'.ints w).cid = [] ∧
    (s'.ints w).reg = true ∧ (s'.ints w).spawned = true ∧ (s'.ints w).owner = t ∧ (s'.ints w).pid = pid :=
  Proofs.spawn_atomic h hs

/-- SPAWN NEVER MISSED (2): as long as a spawned interest stays registered, EVERY state change its child ever made is
either in its queue history or still unreaped in the kernel — none was reaped and dropped, however early it happened;
the queue history is what the handler got ++ in flight ++ pending, and a non-empty pending queue always has its
completion on the way (posted, about to be posted by the reaper holding the lock, or started). -/
theorem spawn_never_missed {s : State} (h : Reachable s) {w : Wid} (hr : (s.ints w).reg = true)
    (hsp : (s.ints w).spawned = true) :
    s.hist (s.ints w).cid = (s.ints w).queued ++ unreapedOf s (s.ints w).cid ∧
    (s.ints w).queued = (s.ints w).got ++ infl s w ++ (s.ints w).pending ∧
    ((s.ints w).pending ≠ [] → (s.ints w).owed = true ∨ (s.thr (s.ints w).owner).comp = .started w ∨ s.posting = some w) :=
  Proofs.spawn_never_missed h hr hsp

/-- STRANGER HARMLESS (the repaired D1): when the drain loop reaps a status — terminating or not — of a pid nobody has an
interest in, the step is defined (no fault) and changes nothing but the kernel's own table: set, every interest, every
thread, the lock and the post obligation are untouched, and the invariant still holds. -/
theorem stranger_harmless {s : State} (h : Reachable s) {t : Tid} {pid : Pid} {c : Cid} {st : Status}
    (hl : s.lock = some t) (hp : s.posting = none) (hc : alookup s.procs pid = some c)
    (hg : (s.hist c)[s.nreaped c]? = some st) (hn : alookup s.set pid = none) :
    ∃ s', step s (.reapOne t pid st) = some s' ∧ s'.set = s.set ∧ s'.ints = s.ints ∧ s'.thr = s.thr ∧
      s'.posting = none ∧ s'.lock = s.lock ∧ s'.kills = s.kills ∧ Inv s' := Proofs.stranger_harmless h hl hp hc hg hn

/-- regression statement for D1: the loop body as it was before the repair faults exactly on a terminated stranger and is
the present code everywhere else -/
theorem d1_prerepair_faults {s : State} {pid : Pid} {st : Status} (hn : alookup s.set pid = none) (hd : st.dead = true) :
    reapLibD1 s pid st = none := Proofs.d1_prerepair_faults hn hd

theorem d1_prerepair_same_otherwise {s : State} {pid : Pid} {st : Status} (h : alookup s.set pid ≠ none ∨ st.dead = false) :
    reapLibD1 s pid st = some (reapLib s pid st) := Proofs.d1_prerepair_same_otherwise h

/-- KILL NEVER AFTER REAP: for a registered interest the dead flag is clear exactly when its pid is still held by the very
child it was attached to (termination not reaped); the helper passes a pid to kill() only then — flag and pid are read in
the same critical section that the reaper needs to set the flag — and otherwise makes no system call (-ESRCH). -/
theorem kill_never_after_reap {s : State} (h : Reachable s) {w : Wid} (hr : (s.ints w).reg = true) :
    ((s.ints w).dead = false ↔ alookup s.procs (s.ints w).pid = some (s.ints w).cid) ∧
    (∀ p, killTarget s w = some p → p = (s.ints w).pid ∧ alookup s.procs p = some (s.ints w).cid) ∧
    (killTarget s w = none ↔ (s.ints w).dead = true) := Proofs.kill_never_after_reap h hr

theorem kill_step {s s' : State} (h : Reachable s) {t : Tid} {w : Wid} {sig : Nat} (hs : step s (.kill t w sig) = some s') :
    (s'.kills = s.kills ∧ (s.ints w).dead = true ∧ killRet s w = -3) ∨
    (s'.kills = ((s.ints w).pid, sig) :: s.kills ∧ alookup s.procs (s.ints w).pid = some (s.ints w).cid ∧ killRet s w = 0) :=
  Proofs.kill_step h hs

/-! ## Non-vacuity -/

/-- thread 1 spawns through w0; the child exits before fork returns; thread 2 drains SIGCHLD, posts; thread 1 completes:
the handler gets the exit status, the interest is flagged dead and out of the set, kill would make no system call. -/
example : (run State.init
    [.registerSpawn 1 0 500, .childChange 500 (.exited 7), .reapBegin 2, .reapOne 2 500 (.exited 7), .reapPost 2, .reapDone 2,
     .complStart 1 0, .steal 1, .deliver 1, .complEnd 1, .kill 1 0 15]).map
      (fun s => ((s.ints 0).got, (s.ints 0).dead, alookup s.set 500, killTarget s 0, s.kills, alookup s.procs 500)) =
    some ([.exited 7], true, none, none, [], none) := by rfl

/-- pid reuse: w0's child (pid 500) terminates and is reaped; the pid goes to a new child spawned through w1 while w0 is
still registered; the new child's stop is routed to w1 only, w0 keeps exactly its terminating status. Meanwhile a stranger
(pid 7) exits and is reaped without any effect. -/
example : (run State.init
    [.registerSpawn 1 0 500, .fork 7, .childChange 500 (.killed 9), .childChange 7 (.exited 0), .reapBegin 1,
     .reapOne 1 7 (.exited 0), .reapOne 1 500 (.killed 9), .reapPost 1, .reapDone 1,
     .registerSpawn 1 1 500, .childChange 500 (.stopped 19), .reapBegin 1, .reapOne 1 500 (.stopped 19), .reapPost 1, .reapDone 1]).map
      (fun s => ((s.ints 0).queued, (s.ints 1).queued, (s.ints 0).dead, alookup s.set 500, alookup s.procs 7)) =
    some ([.killed 9], [.stopped 19], true, some 1, none) := by rfl

/-- unregister from inside the handler: three statuses stolen, the handler unregisters at the first, the other two are
dropped silently -/
example : (run State.init
    [.registerSpawn 1 0 500, .childChange 500 (.stopped 19), .childChange 500 .continued, .childChange 500 (.exited 0),
     .reapBegin 1, .reapOne 1 500 (.stopped 19), .reapPost 1, .reapOne 1 500 .continued, .reapPost 1,
     .reapOne 1 500 (.exited 0), .reapPost 1, .reapDone 1, .complStart 1 0, .steal 1, .deliver 1, .unregister 1 0,
     .deliver 1, .deliver 1, .complEnd 1]).map
      (fun s => ((s.ints 0).got, (s.ints 0).reg, (s.thr 1).comp)) =
    some ([.stopped 19], false, .idle) := by rfl

/-- the unrepaired loop body faults on the very input of corpus/C11/d1-stranger-child.scn -/
example : reapLibD1 State.init 5001 (.exited 0) = none := by rfl

end Ivy.Props.C11
