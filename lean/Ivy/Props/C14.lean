import Ivy.L2.Lockset
import Ivy.Generated.AccessTable
/-!
# C14 — cross-thread entry points have no unsynchronised conflicting accesses

* `lockset_sound` (+ the easy variants): the generic happens-before theorem, for every execution of any length
  with any number of threads and locks in which locks are mutually exclusive.
* `accesses_comply`: every row of the access table REGENERATED FROM THE CURRENT C SOURCE
  (`Ivy/Generated/AccessTable.lean`, written by `gen/gen_access.py` before this file is built) complies with the
  hand-written `policy`.  This is the theorem that fails when an access leaves its critical section.
* `C14_drf`: consequently, in any well-formed execution, two conflicting accesses to the same memory word that
  are instances of table rows are ordered by happens-before or are both atomic operations (no data race either
  way), unless the word is one of the listed
  idempotent one-way flags, or one of the rows uses a listed exemption (object private to the thread:
  before publication / after unpublication / detached stolen list / refcount-guarded read / no libpthread).

Standing assumption for the one-way / first-initialisation flags (`inited`, `method`, `iv_state_key_allocated`,
`sig_owner_pid`, the feature-detection levels): THE FIRST `iv_init` OF THE PROCESS COMPLETES BEFORE ANY OTHER THREAD
CALLS INTO THE LIBRARY (documented in iv_init(3)); after that every writer stores the value that is already there, or
moves a support level one way.  These locations are exempt from the data-race claim by the property statement.

Assumptions (trusted, see gen/gen_access.py header): the extractor's rows describe the code (`Inst`: the
claimed locks are held, `ctx = owner` rows run in the owning thread, the abstract location and canonical lock
names denote what `Interp` says), and exempted phases are ordered with respect to the rest by publication.
-/
namespace Ivy.Props.C14
open Ivy.L2.Lockset

/-- a common lock orders two events (no bound on trace length, threads, locks) -/
theorem lockset_sound {L X C : Type} [DecidableEq L] (tr : Trace L X C) (wf : WF tr) {i j : Nat} {ei ej : Ev L X C}
    {l : L} (hij : i < j) (hi : tr[i]? = some ei) (hj : tr[j]? = some ej)
    (hli : stateAt tr i l = some ei.tid) (hlj : stateAt tr j l = some ej.tid) : HB tr i j :=
  Ivy.L2.Lockset.lockset_sound tr wf hij hi hj hli hlj

/-- accesses by one thread are ordered -/
theorem same_thread_ordered {L X C : Type} (tr : Trace L X C) {i j : Nat} {ei ej : Ev L X C}
    (hij : i < j) (hi : tr[i]? = some ei) (hj : tr[j]? = some ej) (ht : ei.tid = ej.tid) : HB tr i j :=
  Ivy.L2.Lockset.same_thread_ordered tr hij hi hj ht

/-- what a thread did before creating a child is ordered before everything the child does -/
theorem fork_ordered {L X C : Type} (tr : Trace L X C) {i f j : Nat} {ei ef ej : Ev L X C}
    (hif : i ≤ f) (hfj : f < j) (hi : tr[i]? = some ei) (hf : tr[f]? = some ef) (hj : tr[j]? = some ej)
    (ht : ei.tid = ef.tid) (hop : ef.op = .fork ej.tid) : HB tr i j :=
  Ivy.L2.Lockset.fork_ordered tr hif hfj hi hf hj ht hop

/-- what a thread did is ordered before what its joiner does after the join -/
theorem join_ordered {L X C : Type} (tr : Trace L X C) {i g j : Nat} {ei eg ej : Ev L X C}
    (hig : i < g) (hgj : g ≤ j) (hi : tr[i]? = some ei) (hg : tr[g]? = some eg) (hj : tr[j]? = some ej)
    (hop : eg.op = .join ei.tid) (ht : eg.tid = ej.tid) : HB tr i j :=
  Ivy.L2.Lockset.join_ordered tr hig hgj hi hg hj hop ht

/-- what a poster did before posting is ordered before what the receiver does from the receipt on -/
theorem msg_ordered {L X C : Type} (tr : Trace L X C) {i p r j : Nat} {ei ep er ej : Ev L X C} {c : C}
    (hip : i ≤ p) (hpr : p < r) (hrj : r ≤ j)
    (hi : tr[i]? = some ei) (hp : tr[p]? = some ep) (hr : tr[r]? = some er) (hj : tr[j]? = some ej)
    (t1 : ei.tid = ep.tid) (t2 : er.tid = ej.tid) (o1 : ep.op = .post c) (o2 : er.op = .recv c) : HB tr i j :=
  Ivy.L2.Lockset.msg_ordered tr hip hpr hrj hi hp hr hj t1 t2 o1 o2

/-- every chunk of the generated table complies (one kernel evaluation per chunk of ≤ 80 rows) -/
theorem chunks_comply : ∀ l ∈ Ivy.Generated.accessChunks, compliesAll l = true := by
  decide +kernel

/-- every access extracted from the current source complies with the policy -/
theorem accesses_comply : ∀ a ∈ Ivy.Generated.accesses, complies a = true :=
  compliesAll_flatten chunks_comply

/-- race freedom of everything the table permits -/
theorem C14_drf {L X C : Type} [DecidableEq L] (I : Interp L X) (tr : Trace L X C) (wf : WF tr)
    {i j : Nat} {ei ej : Ev L X C} {x : X} {a b : Access} (hij : i < j)
    (ha : a ∈ Ivy.Generated.accesses) (hb : b ∈ Ivy.Generated.accesses)
    (hi : Inst I tr i ei x a) (hj : Inst I tr j ej x b) (hw : a.kind = .write ∨ b.kind = .write) :
    HB tr i j ∨ (a.atomic = true ∧ b.atomic = true) ∨ isOneWay (I.absRec x) (I.absLoc x) = true ∨
      usesExemption a = true ∨ usesExemption b = true :=
  drf_of_comply Ivy.Generated.accesses accesses_comply I tr wf hij ha hb hi hj hw

/-! ### non-vacuity -/

section examples

private def m : Nat := 7
/-- thread 1 writes `x` under lock 7, then thread 2 reads it under lock 7 -/
private def good : Trace Nat Nat Nat :=
  [⟨1, .acq 7⟩, ⟨1, .wr 0⟩, ⟨1, .rel 7⟩, ⟨2, .acq 7⟩, ⟨2, .rd 0⟩, ⟨2, .rel 7⟩]

private theorem good_wf : WF good := by
  intro n e h
  match n with
  | 0 => simp [good] at h; subst h; simp [stateAt]
  | 1 => simp [good] at h; subst h; simp
  | 2 => simp [good] at h; subst h; simp [stateAt, step, good]
  | 3 => simp [good] at h; subst h; simp [stateAt, step, good]
  | 4 => simp [good] at h; subst h; simp
  | 5 => simp [good] at h; subst h; simp [stateAt, step, good]
  | n + 6 => simp [good] at h

/-- the hypotheses of `lockset_sound` are satisfiable and give the expected edge: the locked write (event 1) happens
before the locked read (event 4) -/
example : HB good 1 4 :=
  lockset_sound (l := 7) (ei := ⟨1, .wr 0⟩) (ej := ⟨2, .rd 0⟩) good good_wf (by decide) (by simp [good]) (by simp [good])
    (by simp [stateAt, step, good]) (by simp [stateAt, step, good])

/-- the shape of the repaired defect D5: thread 2 writes `x` under the lock while thread 1 reads it WITHOUT the lock -/
private def racy : Trace Nat Nat Nat :=
  [⟨2, .acq 7⟩, ⟨1, .rd 0⟩, ⟨2, .wr 0⟩, ⟨2, .rel 7⟩]

/-- … and those two accesses are NOT ordered: `HB` is not trivially true -/
example : ¬ HB racy 1 2 := by
  intro h
  cases h with
  | po _ h1 h2 ht => simp [racy] at h1 h2; subst h1 h2; simp at ht
  | sync _ h1 _ ho _ => simp [racy] at h1; subst h1; simp at ho
  | fork _ h1 _ ho => simp [racy] at h1; subst h1; simp at ho
  | join _ _ h2 ho => simp [racy] at h2; subst h2; simp at ho
  | msg _ h1 _ ho _ => simp [racy] at h1; subst h1; simp at ho
  | trans a b => have := a.lt; have := b.lt; omega

/-- the policy is not the constant "complies": an unlocked read of an event's list linkage outside its
initialisation (the pre-repair `iv_event_unregister`) is rejected, the locked one is accepted -/
example : complies ⟨"iv_event.c", "iv_event_unregister", 128, "iv_event", "iv_event.list", .read, [], .owner, false, false, false⟩ = false := by
  decide
example : complies ⟨"iv_event.c", "iv_event_unregister", 130, "iv_event", "iv_event.list", .read,
    ["event_list_mutex(owner)"], .owner, false, false, false⟩ = true := by
  decide
/-- a foreign-thread write to per-thread loop state is rejected -/
example : complies ⟨"iv_event.c", "iv_event_post", 150, "iv_state", "iv_state.numobjs", .write, [], .foreign, true, false, false⟩ = false := by
  decide
/-- `iv_thread.tid` (repaired defect D8): the child's atomic store complies, a plain store by the child would not -/
example : complies ⟨"iv_thread_posix.c", "iv_thread_handler", 110, "iv_thread", "iv_thread.tid", .write, [], .foreign, true, false, true⟩ = true := by
  decide
example : complies ⟨"iv_thread_posix.c", "iv_thread_handler", 110, "iv_thread", "iv_thread.tid", .write, [], .foreign, true, false, false⟩ = false := by
  decide
/-- a location the policy does not know is rejected (new shared state must be classified) -/
example : complies ⟨"iv_event.c", "iv_event_post", 150, "iv_event", "iv_event.brand_new_field", .read, [], .foreign, true, false, false⟩ = false := by
  decide

end examples

end Ivy.Props.C14
