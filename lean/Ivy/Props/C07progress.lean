import Ivy.L1.Progress
/-!
# C07, progress clause — "every wake-up makes progress instead of polling repeatedly without dispatching anything"

Property-level statements over the L1 loop machine under the FULL kernel contract; definitions
(`wretStrong`, `ExecS`, `idleSeg`, the oracles `idleVerdict` / `srcVerdict`) and proofs live in
`Ivy/L1/Progress.lean`.

* `wretStrong s r` — `wretOk s r`, and for `r = .events l`: every `.fd f ev` has a bit set and its `IN`/`OUT`
  bits are within the mask the kernel was given for `f` (epoll: `s.kint f`; poll: the `pfds` entry;
  `ERR`/`HUP` always allowed); `.kick` only while `s.kickArmed`; `.ktimer` only while `s.ktimer.isSome`.
* "a reported raw descriptor is readable" is the absence of `Ev.inp (.rawRead false)` in the wake-up
  segment (`isRawFail`); a successful raw read is progress (it drains the eventfd that caused the wake-up).
* `ExecS` — `Exec` with `wretStrong` for every wait result and `rawRead true` for every raw read.

1. `wake_progress` / `wake_progress_split`: per wake-up, for every reachable waiting state, every non-empty
   result allowed by `wretStrong` and every continuation.
2. `idle_free`: the source-aware oracle with zero tolerance accepts every `ExecS` trace.
3. `no_spin`: the implementation-side oracle `Mon.C07.spinVerdict` accepts every `ExecS` trace that
   satisfies `srcVerdict`.  The side condition is necessary (`spin_false_positive`): `spinVerdict` counts
   wake-ups that consumed a one-shot wake source (stale kick, stale kernel timer) as "nothing dispatched".
-/
namespace Ivy.Props.C07progress
open Ivy.L1 Ivy.L1.Progress
open Ivy.Heap (TS)

/-- Every wake-up makes progress: from any reachable state blocked in the kernel wait, after any non-empty
wait result allowed by the full kernel contract, and for every continuation `evs` (user inputs and later
kernel answers), either the result consumed a one-shot wake source (armed kick → disarmed, armed kernel
timer → disarmed), or `evs` does not reach the next `Out.wait` / `Out.mainRet` without an `Out.cb _` or a
successful raw read (`idleSeg evs = false`; a failed raw read of a reported descriptor voids the claim). -/
theorem wake_progress (m : Method) (ntimers : Nat) (timerfdAvail pwait2 : Bool) (evs0 : List Ev) (s : St)
    (hreach : Exec (St.init m ntimers timerfdAvail pwait2) evs0 s)
    (abs : Option TS) (km : Bool) (hpc : s.pc = .waiting abs km)
    (l : List WItem) (hl : l ≠ []) (hs : wretStrong s (.events l) = true)
    (evs : List Ev) (s' : St) (hex : Exec s (Ev.inp (.wret (.events l)) :: evs) s') :
    (hasKick l = true ∧ s.kickArmed = true ∧ (afterWait s abs km (.events l)).1.kickArmed = false) ∨
    (hasKtimer l = true ∧ s.ktimer.isSome = true ∧ (afterWait s abs km (.events l)).1.ktimer = none) ∨
    idleSeg evs = false :=
  Ivy.L1.Progress.wake_progress m ntimers timerfdAvail pwait2 evs0 s hreach abs km hpc l hl hs evs s' hex

/-- The same over explicit segments: no trace segment `inp (wret (events l)) :: pre ++ [out (wait …) | out mainRet]`
with `l ≠ []` allowed by the full contract has a `pre` without callback and without successful raw read,
unless `l` reports the kick / the kernel timer, or a raw read of a reported descriptor fails in `pre`. -/
theorem wake_progress_split (m : Method) (ntimers : Nat) (timerfdAvail pwait2 : Bool) (evs0 : List Ev) (s : St)
    (hreach : Exec (St.init m ntimers timerfdAvail pwait2) evs0 s)
    (abs : Option TS) (km : Bool) (hpc : s.pc = .waiting abs km)
    (l : List WItem) (hl : l ≠ []) (hs : wretStrong s (.events l) = true)
    (pre post : List Ev) (o : Out) (s' : St)
    (hex : Exec s (Ev.inp (.wret (.events l)) :: (pre ++ Ev.out o :: post)) s')
    (hstop : isStop (.out o) = true) (hraw : ∀ x ∈ pre, isRawFail x = false) :
    hasKick l = true ∨ hasKtimer l = true ∨ ∃ x ∈ pre, isProgress x = true :=
  Ivy.L1.Progress.wake_progress_split m ntimers timerfdAvail pwait2 evs0 s hreach abs km hpc l hl hs pre post o s'
    hex hstop hraw

/-- No idle wake-up at all: every trace of the machine under the full kernel contract is accepted by the
source-aware oracle (a non-empty result that reports neither kick nor kernel timer is followed by a callback
or a successful raw read before the next wait, before `iv_main` returns, and before the next wait result). -/
theorem idle_free (m : Method) (ntimers : Nat) (timerfdAvail pwait2 : Bool) (evs : List Ev) (s' : St)
    (h : ExecS (St.init m ntimers timerfdAvail pwait2) evs s') : idleVerdict evs = none :=
  Ivy.L1.Progress.idle_free m ntimers timerfdAvail pwait2 evs s' h

/-- The implementation-side oracle accepts every trace of the machine under the full kernel contract on
which no third non-empty wake-up follows two wake-ups that each consumed a one-shot wake source without a
callback in between. -/
theorem no_spin (m : Method) (ntimers : Nat) (timerfdAvail pwait2 : Bool) (evs : List Ev) (s' : St)
    (h : ExecS (St.init m ntimers timerfdAvail pwait2) evs s') (hsrc : srcVerdict evs = none) :
    Ivy.Mon.C07.spinVerdict evs = none :=
  Ivy.L1.Progress.no_spin m ntimers timerfdAvail pwait2 evs s' h hsrc

/-! ## non-vacuity -/

def kin : KEv := ⟨true, false, false, false⟩

/-- descriptor 3 with an input handler; `iv_main` blocks in `epoll_wait` -/
def demoPre : List Input := [.api (.fdRegister 3 true false false), .api .main]
def demoS : St := (runTrace 20 (St.init .epoll 0 true true) demoPre).2
/-- the wait reports descriptor 3 readable; its handler returns; the loop waits again -/
def demoSeg : List Input := [.handlerEnd]
def demoS1 : St := (afterWait demoS none false (.events [.fd 3 kin])).1
def demoEvs : List Ev := (runTrace 20 demoS1 demoSeg).1

theorem demo_reach : Exec (St.init .epoll 0 true true) (runTrace 20 (St.init .epoll 0 true true) demoPre).1 demoS :=
  runTrace_exec _ _ _

theorem demo_cont : Exec demoS (Ev.inp (.wret (.events [.fd 3 kin])) :: demoEvs) (runTrace 20 demoS1 demoSeg).2 :=
  Exec.input (s := demoS) (i := .wret (.events [.fd 3 kin])) (outs := []) (by decide) (by rfl)
    (runTrace_exec 20 demoS1 demoSeg)

/-- the hypotheses of `wake_progress` are satisfiable, the continuation does reach the next wait, and the
callback of descriptor 3 is entered before it -/
example :
    demoS.pc = .waiting none false ∧ wretStrong demoS (.events [.fd 3 kin]) = true ∧
    demoEvs.any isStop = true ∧ demoEvs.any isProgress = true ∧ idleSeg demoEvs = false := by
  refine ⟨rfl, by decide, by decide, by decide, ?_⟩
  have := wake_progress .epoll 0 true true _ demoS demo_reach none false rfl [.fd 3 kin] (by simp)
    (by decide) demoEvs _ demo_cont
  simpa [hasKick, hasKtimer] using this

/-- five rounds of a self-re-registering task put the loop into kernel-timer mode (timerfd armed); a
foreign thread posts event 1 (kick armed); descriptor 3 is reported first and its handler unregisters
event 1; then the kick is reported (nothing pending: no callback), then the kernel timer (nothing due: no
callback), then descriptor 3 again -/
def rnd : List Input := [.api (.taskRegister 1), .handlerEnd, .time ⟨5, 0⟩, .wret (.events [])]
def fpInputs : List Input :=
  [.api (.taskRegister 1), .api (.fdRegister 3 true false false), .api (.evRegister 1 true),
   .api (.evRegister 2 true), .api .main] ++ rnd ++ rnd ++ rnd ++ rnd ++
  [.api (.taskRegister 1), .handlerEnd, .xpost 1,
   .wret (.events [.fd 3 kin]), .api (.evUnregister 1), .handlerEnd, .handlerEnd,
   .wret (.events [.kick]),
   .wret (.events [.ktimer]),
   .wret (.events [.fd 3 kin])]

def fpTrace : List Ev × St := runTraceS 400 (St.init .epollTimerfd 0 true true) fpInputs
theorem fp_exec : ExecS (St.init .epollTimerfd 0 true true) fpTrace.1 fpTrace.2 := runTraceS_exec _ _ _

def isWret : Ev → Bool | .inp (.wret (.events (_ :: _))) => true | _ => false

/-- `no_spin` needs its side condition: this trace of the machine under the full kernel contract consumes
all its inputs (8 wait results, 4 of them non-empty), every wake-up made progress (`idleVerdict` accepts:
two of them by consuming a stale one-shot wake source), and yet the implementation-side oracle rejects it
at the third consecutive non-empty wait result. -/
theorem spin_false_positive :
    ExecS (St.init .epollTimerfd 0 true true) fpTrace.1 fpTrace.2 ∧
    (fpTrace.1.filter isWret).length = 4 ∧
    idleVerdict fpTrace.1 = none ∧
    (Ivy.Mon.C07.spinVerdict fpTrace.1).isSome = true ∧
    (srcVerdict fpTrace.1).isSome = true :=
  ⟨fp_exec, by decide, idle_free _ _ _ _ _ _ fp_exec, by decide, by decide⟩

/-- without the last wait result the side condition holds, and `no_spin` applies: two cb-free wake-ups in a
row are tolerated by the oracle -/
def okTrace : List Ev × St := runTraceS 400 (St.init .epollTimerfd 0 true true) fpInputs.dropLast
theorem ok_exec : ExecS (St.init .epollTimerfd 0 true true) okTrace.1 okTrace.2 := runTraceS_exec _ _ _

example :
    (okTrace.1.filter isWret).length = 3 ∧ srcVerdict okTrace.1 = none ∧
    Ivy.Mon.C07.spinVerdict okTrace.1 = none :=
  ⟨by decide, by decide, no_spin _ _ _ _ _ _ ok_exec (by decide)⟩

end Ivy.Props.C07progress
