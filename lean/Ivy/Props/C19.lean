import Ivy.L3.PopenProofs
/-!
# C19 — iv_popen: the child is wired to the descriptor, always terminated and reaped

Property theorems only; the model is `Ivy/L3/Popen.lean`, definitions used in the statements are in
`Ivy/L3/PopenSpec.lean`, all proofs in `Ivy/L3/PopenProofs.lean`.

`Reach s` quantifies over every sequence of enabled actions from the start: every child behaviour
(`procEvent` at any moment, any answer to each SIGTERM), every timing of `close` relative to the child's
exit, to the collection of its status (`reap`) and to its delivery (`childStatus`), and every timing of
the timer firings (`tick`, `timerFire`).  Constants come from the source (`Ivy/Generated/PopenConsts.lean`).
-/
namespace Ivy.Props.C19
open Ivy.Popen

/-- the constants of the source are the ones the property talks about: five termination requests, five seconds -/
theorem consts_pinned : MAX_SIGTERM_COUNT = 5 ∧ SIGNAL_INTERVAL = 5 ∧ INTERVAL_NS = 5000000000 := by decide

/-- the invariant behind all statements below holds in every reachable state -/
theorem reach_inv {s : St} (h : Reach s) : Inv s := Proofs.reach_inv h

/-- in no reachable state does any action touch the freed record, register the timer twice, unregister an
unregistered timer or use an unregistered interest (no use-after-free, no double unregistration) -/
theorem no_fault {s : St} (h : Reach s) (a : Act) (f : Fault) : step s a ≠ .fault f :=
  Proofs.no_fault (Proofs.reach_inv h) a f

/-- signal_schedule: the kill() system calls made for the pid (oldest first) are exactly the schedule:
none before `close`; the `i`-th is SIGTERM for `i < MAX_SIGTERM_COUNT` and SIGKILL afterwards; the first
not before the close, each later one at least SIGNAL_INTERVAL after its predecessor. -/
theorem signal_schedule {s : St} (h : Reach s) :
    (s.closedAt = none → s.sent = []) ∧
    (∀ i (hi : i < s.sent.length), (s.sent[i]).2 = sigFor i ∧ closeTime s + i * INTERVAL_NS ≤ (s.sent[i]).1) ∧
    (∀ i (hi : i + 1 < s.sent.length), (s.sent[i]).1 + INTERVAL_NS ≤ (s.sent[i + 1]).1) := by
  have hi := Proofs.reach_inv h
  refine ⟨hi.sent_cl, ?_, Proofs.sched_gap _ _ _ hi.sched⟩
  intro i h'
  simpa using Proofs.sched_index _ _ _ hi.sched i h'

/-- ... and when the loop runs the timer exactly at its expiry every time (`punctual`), the `i`-th signal
is sent exactly at close time + i · SIGNAL_INTERVAL: the first at once, then one every interval. -/
theorem signal_schedule_exact {s : St} (h : Reach s) (hp : s.punctual = true) :
    ∀ i (hi : i < s.sent.length), s.sent[i] = (closeTime s + i * INTERVAL_NS, sigFor i) := by
  intro i h'
  simpa using Proofs.schedExact_index _ _ _ ((Proofs.reach_inv h).exact hp) i h'

/-- while the record exists after `close`, the timer is armed for the next signal of the schedule and the
kill count equals the number of signals sent: the signalling goes on until the child is known to have ended;
and a child that is still running has received at most MAX_SIGTERM_COUNT signals (the next one is SIGKILL at the latest) -/
theorem signalling_continues {s : St} (h : Reach s) (hl : s.recSt = .live) (hd : s.attached = false) :
    s.timerReg = true ∧ s.numKills = s.sent.length ∧ s.timerAt = nextDue (closeTime s) s.sent ∧
    (s.alive = true → s.numKills ≤ MAX_SIGTERM_COUNT) :=
  let i := Proofs.reach_inv h
  ⟨(i.det hl hd).1, (i.det hl hd).2.2.2.1, (i.det hl hd).2.2.2.2, i.kills_le hl hd⟩

/-- no_signal_after_reap: no kill() system call was ever made after the terminal status had been collected
(the pid may have been reused), and from a state where it has been collected no step makes one. -/
theorem no_signal_after_reap {s : St} (h : Reach s) :
    s.lateKill = false ∧
    (s.reaped = true → ∀ a s' o, step s a = .ok s' o → s'.sent = s.sent ∧ ∀ sg, Out.sysKill sg ∉ o) :=
  ⟨(Proofs.reach_inv h).late, fun hr _ _ _ hs => Proofs.no_kill_after_reap (Proofs.reach_inv h) hr hs⟩

/-- all_released (safety): the record is freed at most once and only after being allocated (no double free);
when it is freed, the wait interest and the timer are unregistered (the loop's object count is back to
what it was); while it lives nothing has been freed and the interest is registered. -/
theorem all_released {s : St} (h : Reach s) :
    s.frees ≤ s.allocs ∧ s.allocs ≤ 1 ∧ (s.recSt = .freed ↔ s.frees = 1) ∧ (s.recSt = .freed → objs s = 0) ∧
    (s.recSt = .live → s.frees = 0 ∧ s.waitReg = true) :=
  Proofs.released_safety (Proofs.reach_inv h)

/-- all_released (no leak, no zombie): from any reachable state after `close`, whatever the child does (any
spontaneous status change before any round, any answer to each SIGTERM), MAX_SIGTERM_COUNT + 2 rounds of a
fair loop (collect and deliver statuses, then run the timer when due) end with the record freed exactly
once, interest and timer unregistered, and the child's terminal status collected. -/
theorem released_by_fair_loop {s : St} (h : Reach s) (hl : s.recSt = .live) (hd : s.attached = false)
    (envs : List Env) (hn : MAX_SIGTERM_COUNT + 2 ≤ envs.length) : Released (envs.foldl round s) :=
  Proofs.fair_release (Proofs.reach_inv h) hl hd envs hn

/-- a child that has already ended (before or after `close`, status collected or not): collecting and
delivering its status releases everything, without any signal. -/
theorem ended_child_released {s : St} (h : Reach s) (hl : s.recSt = .live) (ha : s.alive = false) :
    Released (collect s) ∧ (collect s).sent = s.sent := by
  refine ⟨Proofs.ended_released (Proofs.reach_inv h) hl ha, ?_⟩
  exact Proofs.collect_sent s

/-- no zombie: whenever the record of a spawned child has been freed (and the kernel never refused a kill()
for the unreaped pid — outside the kernel contract), the terminal status has been collected. -/
theorem no_zombie {s : St} (h : Reach s) (hf : s.recSt = .freed) (hs : s.spawned = true)
    (hk : s.killFailed = false) : s.reaped = true ∧ s.alive = false :=
  let r := Proofs.released_of_freed (Proofs.reach_inv h) hf hs hk
  ⟨r.2.2.2.2.2.2.1, r.2.2.2.2.2.2.2⟩

/-- child_wiring, type "r": with 0/1/2 open in the parent and the kernel handing out unused descriptors,
the child ends with 0 = null device, 1 = pipe write end, 2 = null device, both pipe descriptors and the
extra null descriptor closed, everything else inherited unchanged. -/
theorem child_wiring_r (t : FdTab) (p0 p1 dn : Nat)
    (h0 : (t 0).isSome) (h1 : (t 1).isSome) (h2 : (t 2).isSome)
    (hp0 : t p0 = none) (hp1 : t p1 = none) (hne : p0 ≠ p1)
    (hdn : t dn = none) (hd0 : dn ≠ p0) (hd1 : dn ≠ p1) :
    let c := childSide true (afterPipe t p0 p1) p0 p1 dn
    c 0 = some File.null ∧ c 1 = some File.pipeW ∧ c 2 = some File.null ∧
    c p0 = none ∧ c p1 = none ∧ c dn = none ∧
    ∀ x, 3 ≤ x → x ≠ p0 → x ≠ p1 → x ≠ dn → c x = t x :=
  Proofs.child_wiring_r t p0 p1 dn h0 h1 h2 hp0 hp1 hne hdn hd0 hd1

/-- child_wiring, type "w": 0 = pipe read end, 1 = 2 = null device. -/
theorem child_wiring_w (t : FdTab) (p0 p1 dn : Nat)
    (h0 : (t 0).isSome) (h1 : (t 1).isSome) (h2 : (t 2).isSome)
    (hp0 : t p0 = none) (hp1 : t p1 = none) (hne : p0 ≠ p1)
    (hdn : t dn = none) (hd0 : dn ≠ p0) (hd1 : dn ≠ p1) :
    let c := childSide false (afterPipe t p0 p1) p0 p1 dn
    c 0 = some File.pipeR ∧ c 1 = some File.null ∧ c 2 = some File.null ∧
    c p0 = none ∧ c p1 = none ∧ c dn = none ∧
    ∀ x, 3 ≤ x → x ≠ p0 → x ≠ p1 → x ≠ dn → c x = t x :=
  Proofs.child_wiring_w t p0 p1 dn h0 h1 h2 hp0 hp1 hne hdn hd0 hd1

/-- parent side: the descriptor returned is the end opposite to the child's (read end for "r", write end
for "w"), the parent's copy of the child's end is closed, nothing else changes. -/
theorem parent_wiring (forRead : Bool) (t : FdTab) (p0 p1 : Nat) (hne : p0 ≠ p1) :
    let r := parentSide forRead t p0 p1 true
    r.2 = some (if forRead then p0 else p1) ∧
    r.1 (if forRead then p0 else p1) = some (if forRead then File.pipeR else File.pipeW) ∧
    r.1 (if forRead then p1 else p0) = none ∧
    ∀ x, x ≠ p0 → x ≠ p1 → r.1 x = t x :=
  Proofs.parent_wiring forRead t p0 p1 hne

/-- fork failure: both pipe ends are closed again (the table is what it was) and -1 is returned ... -/
theorem fork_failure_fds (forRead : Bool) (t : FdTab) (p0 p1 : Nat) (hp0 : t p0 = none) (hp1 : t p1 = none) :
    (parentSide forRead t p0 p1 false).2 = none ∧ ∀ x, (parentSide forRead t p0 p1 false).1 x = t x :=
  Proofs.fork_failure_fds forRead t p0 p1 hp0 hp1

/-- ... and after any failed submit (bad type, pipe failure, fork failure) nothing is left registered,
the record is freed exactly once and the request is not open. -/
theorem submit_failure_clean {s s' : St} {o : List Out} {ty : Option Bool} {p f : Bool} (h : Reach s)
    (hs : step s (.submit ty p f) = .ok s' o) (hfail : ty = none ∨ p = false ∨ f = false) :
    s'.recSt = .freed ∧ s'.frees = 1 ∧ s'.allocs = 1 ∧ objs s' = 0 ∧ s'.isOpen = false ∧ s'.spawned = false ∧
    Out.ret none ∈ o ∧ (ty ≠ none → p = true → Out.closeBoth ∈ o) :=
  Proofs.submit_failure_clean (Proofs.reach_inv h) hs hfail

/-- the precondition "0, 1, 2 are open in the parent" of `child_wiring_*` cannot be dropped: with standard
input closed, `pipe()` returns descriptor 0 and the child ends up with NO standard input (reported as an
observation; daemons that closed their standard descriptors must reopen them before using iv_popen). -/
theorem child_wiring_needs_stdio :
    let t : FdTab := fun x => if x = 1 ∨ x = 2 then some File.other else none
    t 0 = none ∧ t 3 = none ∧ t 4 = none ∧ (childSide true (afterPipe t 0 3) 0 3 4) 0 = none :=
  Proofs.child_wiring_needs_stdio

/-- Non-vacuity 1: a child that ignores SIGTERM: close at t = 1000, five SIGTERM and one SIGKILL exactly
5 s apart, the status is collected and delivered, everything is released. -/
example :
    (runActs (St.init 1000)
      [.submit (some true) true true, .close,
       .timerFire true false, .tick INTERVAL_NS, .timerFire true false, .tick INTERVAL_NS, .timerFire true false,
       .tick INTERVAL_NS, .timerFire true false, .tick INTERVAL_NS, .timerFire true false, .tick INTERVAL_NS,
       .timerFire true false, .reap, .childStatus]).map
      (fun s => (s.recSt, s.frees, s.waitReg, s.timerReg, s.reaped, s.sent.map (·.2), s.sent.map (·.1))) =
    some (.freed, 1, false, false, true, [.term, .term, .term, .term, .term, .kill],
          [1000, 5000001000, 10000001000, 15000001000, 20000001000, 25000001000]) := by rfl

/-- Non-vacuity 2: the child exits between two signals and its status is collected but not yet delivered
when the timer fires: the kill helper refuses (no system call), the record is released by the timer. -/
example :
    (runActs (St.init 0)
      [.submit (some false) true true, .close, .timerFire true false, .tick 2000000000, .procEvent 0, .reap,
       .tick 3000000000, .timerFire true false]).map
      (fun s => (s.recSt, s.frees, objs s, s.reaped, s.sent, s.lateKill)) =
    some (.freed, 1, 0, true, [(0, .term)], false) := by rfl

/-- Non-vacuity 3: the child exits before `close`; close then starts nothing. -/
example :
    (runActs (St.init 0) [.submit (some true) true true, .procEvent 256, .reap, .childStatus, .close]).map
      (fun s => (s.recSt, s.frees, objs s, s.reqChild, s.sent)) = some (.freed, 1, 0, false, []) := by rfl

end Ivy.Props.C19
