import Ivy.L0.TimeArithProofs
/-!
# C04 (time arithmetic) — deadlines, relative timeouts, milliseconds, the cached clock

`Ivy/L0/TimeArith.lean` transcribes `timespec_gt`, `to_relative`, `to_msec`
(`/repo/src/iv_private.h`), `iv_validate_now` / `iv_invalidate_now`, the expiry test of
`iv_run_timers`, `iv_get_soonest_timeout` (`/repo/src/iv_timer.c`) and the timerfd value of
`iv_fd_epoll_timerfd_{set,clear}_poll_timeout` (`/repo/src/iv_fd_epoll.c`) statement by statement.

All theorems hold for ALL normalised `struct timespec`s (`Ts.norm`: `0 ≤ tv_nsec < 10^9`) with
unbounded `Int` seconds — negative seconds included.  The C code computes in `time_t` / `long`
(64 bit) and returns `int` (32 bit) from `to_msec`; the theorems `toRelative_no_overflow` /
`toMsec_no_overflow` show that under the side condition `SecBound` (`|tv_sec| < 2^62`) every
intermediate value fits its C type, so the C arithmetic coincides with the `Int` arithmetic here.

`toNs t = t.sec * 10^9 + t.nsec` is the instant in nanoseconds; `remaining now abs =
max 0 (toNs abs - toNs now)`.

Each main theorem is followed by an `example` on concrete non-trivial values (non-vacuity).
Property theorems only; lemmas live in `Ivy/L0/TimeArithProofs.lean`.
-/
namespace Ivy.Props.C04time
open Ivy.TimeArith

/-! ## `timespec_gt`: the strict order of instants -/

/-- `timespec_gt a b` says exactly that instant `a` is later than instant `b` -/
theorem tsGt_iff {a b : Ts} (ha : a.norm) (hb : b.norm) : tsGt a b = true ↔ toNs b < toNs a :=
  tsGt_iff_toNs ha hb

example : tsGt ⟨5, 0⟩ ⟨4, 999999999⟩ = true ∧ toNs ⟨4, 999999999⟩ < toNs ⟨5, 0⟩ ∧
    tsGt ⟨-1, 999999999⟩ ⟨-1, 999999998⟩ = true ∧ tsGt ⟨-2, 999999999⟩ ⟨-1, 0⟩ = false := by decide

/-- irreflexive (needs no normalisation) -/
theorem tsGt_irrefl (a : Ts) : tsGt a a = false := by
  cases h : tsGt a a
  · rfl
  · rw [tsGt_eq] at h; omega

/-- transitive (needs no normalisation: it is the lexicographic order) -/
theorem tsGt_trans {a b c : Ts} (h1 : tsGt a b = true) (h2 : tsGt b c = true) : tsGt a c = true := by
  rw [tsGt_eq] at *; omega

/-- asymmetric -/
theorem tsGt_asymm {a b : Ts} (h : tsGt a b = true) : tsGt b a = false := by
  cases h' : tsGt b a
  · rfl
  · rw [tsGt_eq] at *; omega

/-- total: two values are ordered one way or the other, or are the same `struct timespec` -/
theorem tsGt_total (a b : Ts) : tsGt a b = true ∨ a = b ∨ tsGt b a = true := by
  rw [tsGt_eq, tsGt_eq]
  cases a; cases b; simp; omega

example : tsGt ⟨3, 5⟩ ⟨3, 4⟩ = true ∧ tsGt ⟨3, 4⟩ ⟨2, 999999999⟩ = true ∧ tsGt ⟨3, 5⟩ ⟨2, 999999999⟩ = true ∧
    tsGt ⟨3, 4⟩ ⟨3, 5⟩ = false := by decide

/-- on normalised values the instant determines the `struct timespec` (so `=` above is equality of
instants) -/
theorem toNs_injective {a b : Ts} (ha : a.norm) (hb : b.norm) (h : toNs a = toNs b) : a = b :=
  toNs_inj ha hb h

/-- the expiry test of `iv_run_timers`: the head timer is run iff its deadline is not after the
cached clock value -/
theorem due_iff {now exp : Ts} (hn : now.norm) (he : exp.norm) :
    due now exp = true ↔ toNs exp ≤ toNs now :=
  due_iff_toNs hn he

example : due ⟨10, 500⟩ ⟨10, 500⟩ = true ∧ due ⟨10, 500⟩ ⟨10, 501⟩ = false ∧
    due ⟨10, 0⟩ ⟨9, 999999999⟩ = true := by decide

/-! ## `to_relative` -/

/-- the result is a normalised `struct timespec` -/
theorem toRelative_norm {now abs : Ts} (hn : now.norm) (ha : abs.norm) : (toRelative now abs).norm :=
  Ivy.TimeArith.toRelative_norm hn ha

/-- the result is the remaining time, clamped at zero -/
theorem toRelative_toNs {now abs : Ts} (hn : now.norm) (ha : abs.norm) :
    toNs (toRelative now abs) = max 0 (toNs abs - toNs now) :=
  Ivy.TimeArith.toRelative_toNs hn ha

/-- a borrow, a clamp, a negative clock -/
example : toRelative ⟨7, 999999999⟩ ⟨9, 1⟩ = ⟨1, 2⟩ ∧ toRelative ⟨9, 1⟩ ⟨7, 999999999⟩ = ⟨0, 0⟩ ∧
    toRelative ⟨-3, 999999000⟩ ⟨2, 500⟩ = ⟨4, 1500⟩ ∧
    toNs (toRelative ⟨7, 999999999⟩ ⟨9, 1⟩) = toNs ⟨9, 1⟩ - toNs ⟨7, 999999999⟩ := by decide

/-- never a negative number of seconds -/
theorem toRelative_sec_nonneg {now abs : Ts} (hn : now.norm) (ha : abs.norm) :
    0 ≤ (toRelative now abs).sec :=
  Ivy.TimeArith.toRelative_sec_nonneg hn ha

/-- the relative time is `{0, 0}` exactly when the timer is due -/
theorem toRelative_zero_iff_due {now abs : Ts} (hn : now.norm) (ha : abs.norm) :
    toRelative now abs = ⟨0, 0⟩ ↔ due now abs = true :=
  Ivy.TimeArith.toRelative_zero_iff_due hn ha

example : toRelative ⟨5, 7⟩ ⟨5, 7⟩ = ⟨0, 0⟩ ∧ due ⟨5, 7⟩ ⟨5, 7⟩ = true ∧
    toRelative ⟨5, 7⟩ ⟨5, 8⟩ = ⟨0, 1⟩ ∧ due ⟨5, 7⟩ ⟨5, 8⟩ = false := by decide

/-- NO OVERFLOW in `to_relative`: with `|tv_sec| < 2^62` on both sides every value the C
statements store fits a signed 64-bit `time_t` / `long` -/
theorem toRelative_no_overflow {now abs : Ts} (hn : now.norm) (ha : abs.norm)
    (bn : SecBound now) (ba : SecBound abs) : ∀ x ∈ relIntermediates now abs, I64 x := by
  unfold Ts.norm SecBound at *
  unfold relIntermediates
  intro x hx
  unfold I64
  cases hg : tsGt abs now
  · simp [hg] at hx; omega
  · by_cases hb : abs.nsec - now.nsec < 0 <;> simp [hg, hb] at hx <;> omega

example : relIntermediates ⟨-4611686018427387903, 999999999⟩ ⟨4611686018427387903, 0⟩ =
    [9223372036854775806, -999999999, 9223372036854775805, 1] := by decide

/-! ## `to_msec` -/

/-- no deadline: `-1` (block indefinitely) -/
theorem toMsec_none (now : Ts) : toMsec now none = -1 := rfl

/-- `to_msec` as a function of the remaining time alone -/
theorem toMsec_spec {now abs : Ts} (hn : now.norm) (ha : abs.norm) :
    toMsec now (some abs) =
      if remaining now abs < 86400 * 1000000000 then (remaining now abs + 999999) / 1000000
      else 86400000 :=
  Ivy.TimeArith.toMsec_spec hn ha

/-- with a deadline the result lies in `[0, 86400000]` .. -/
theorem toMsec_range {now abs : Ts} (hn : now.norm) (ha : abs.norm) :
    0 ≤ toMsec now (some abs) ∧ toMsec now (some abs) ≤ 86400000 :=
  Ivy.TimeArith.toMsec_range hn ha

/-- .. so it is never mistaken for "no deadline" .. -/
theorem toMsec_ne_neg_one {now abs : Ts} (hn : now.norm) (ha : abs.norm) :
    toMsec now (some abs) ≠ -1 := by
  have := toMsec_range hn ha; omega

/-- .. and in every case the result is in `[-1, 86400000]` and fits the C `int` -/
theorem toMsec_fits_int {now : Ts} {abs : Option Ts} (hn : now.norm) (ha : ∀ a, abs = some a → a.norm) :
    -1 ≤ toMsec now abs ∧ toMsec now abs ≤ 86400000 ∧ I32 (toMsec now abs) := by
  unfold I32
  cases abs with
  | none => simp [toMsec]
  | some a => have := toMsec_range hn (ha a rfl); omega

example : toMsec ⟨0, 0⟩ (some ⟨0, 1⟩) = 1 ∧ toMsec ⟨100, 0⟩ (some ⟨86499, 999000001⟩) = 86400000 ∧
    toMsec ⟨100, 0⟩ (some ⟨1000000, 0⟩) = 86400000 ∧ toMsec ⟨100, 0⟩ (some ⟨3, 0⟩) = 0 := by decide

/-- NO OVERFLOW in `to_msec`: every intermediate value fits 64 bits and the returned value fits
`int` (given `to_relative` did not overflow: `toRelative_no_overflow`) -/
theorem toMsec_no_overflow {now abs : Ts} (hn : now.norm) (ha : abs.norm) :
    (∀ x ∈ msecIntermediates now abs, I64 x) ∧
    (∀ h : msecIntermediates now abs ≠ [], I32 ((msecIntermediates now abs).getLast h)) ∧
    msecIntermediates now abs ≠ [] := by
  have h1 := Ivy.TimeArith.toRelative_norm hn ha
  have h3 := Ivy.TimeArith.toRelative_sec_nonneg hn ha
  unfold Ts.norm at h1
  unfold msecIntermediates I64 I32
  simp only
  rw [Int.tdiv_eq_ediv_of_nonneg (by omega)]
  generalize (toRelative now abs).sec = s at *
  generalize (toRelative now abs).nsec = n at *
  by_cases hs : s < 86400
  · simp only [if_pos hs]
    refine ⟨?_, ?_, by simp⟩
    · intro x hx; simp at hx; omega
    · intro _; simp; omega
  · simp only [if_neg hs]
    refine ⟨?_, ?_, by simp⟩
    · intro x hx; simp at hx; omega
    · intro _; simp

example : msecIntermediates ⟨0, 0⟩ ⟨86399, 999999999⟩ = [86399000, 1000999998, 1000, 86400000] := by
  decide

/-- BELOW THE CAP the result is the LEAST number of milliseconds that covers the remaining time -/
theorem toMsec_least {now abs : Ts} (hn : now.norm) (ha : abs.norm)
    (hr : toNs abs - toNs now < 86400 * 1000000000) :
    toNs abs - toNs now ≤ toMsec now (some abs) * 1000000 ∧
    ∀ k : Int, 0 ≤ k → toNs abs - toNs now ≤ k * 1000000 → toMsec now (some abs) ≤ k := by
  rw [toMsec_spec hn ha]
  unfold remaining
  rw [if_pos (by omega)]
  refine ⟨by omega, fun k hk hle => by omega⟩

/-- never early: sleeping the returned number of milliseconds reaches the deadline -/
theorem toMsec_never_early {now abs : Ts} (hn : now.norm) (ha : abs.norm)
    (hr : toNs abs - toNs now < 86400 * 1000000000) :
    toNs abs - toNs now ≤ toMsec now (some abs) * 1000000 :=
  (toMsec_least hn ha hr).1

/-- never more than 1 ms late -/
theorem toMsec_late_bound {now abs : Ts} (hn : now.norm) (ha : abs.norm)
    (hr : toNs abs - toNs now < 86400 * 1000000000) :
    toMsec now (some abs) * 1000000 < remaining now abs + 1000000 := by
  rw [toMsec_spec hn ha]
  unfold remaining at *
  rw [if_pos (by omega)]
  omega

/-- 1.000001 ms remaining → 2 ms; exactly 1 ms → 1 ms; 1 ns → 1 ms; the largest uncapped value -/
example : toMsec ⟨7, 999000000⟩ (some ⟨8, 1000001⟩) = 3 ∧ toMsec ⟨7, 999000000⟩ (some ⟨8, 1000000⟩) = 2 ∧
    toMsec ⟨7, 999999999⟩ (some ⟨8, 0⟩) = 1 ∧ toMsec ⟨7, 1⟩ (some ⟨86407, 0⟩) = 86400000 ∧
    toMsec ⟨7, 0⟩ (some ⟨86406, 999000000⟩) = 86399999 := by decide

/-- zero timeout exactly when the timer is due (so a positive remaining time never yields a busy
poll, and a due timer never sleeps) -/
theorem toMsec_zero_iff_due {now abs : Ts} (hn : now.norm) (ha : abs.norm) :
    toMsec now (some abs) = 0 ↔ due now abs = true := by
  rw [due_iff hn ha, toMsec_spec hn ha]
  unfold remaining
  split <;> omega

example : toMsec ⟨5, 0⟩ (some ⟨5, 0⟩) = 0 ∧ due ⟨5, 0⟩ ⟨5, 0⟩ = true ∧
    toMsec ⟨5, 0⟩ (some ⟨5, 1⟩) = 1 ∧ due ⟨5, 0⟩ ⟨5, 1⟩ = false := by decide

/-- monotone in the deadline: a later deadline never gives a shorter sleep.  With the heap handing
out its minimum (`iv_get_soonest_timeout`), the loop's timeout is the smallest over all timers. -/
theorem toMsec_mono {now a b : Ts} (hn : now.norm) (ha : a.norm) (hb : b.norm)
    (h : toNs a ≤ toNs b) : toMsec now (some a) ≤ toMsec now (some b) := by
  rw [toMsec_spec hn ha, toMsec_spec hn hb]
  unfold remaining
  split <;> split <;> omega

example : toMsec ⟨1, 0⟩ (some ⟨1, 5000000⟩) = 5 ∧ toMsec ⟨1, 0⟩ (some ⟨1, 5000001⟩) = 6 ∧
    toMsec ⟨1, 0⟩ (some ⟨90000, 0⟩) = 86400000 := by decide

/-- the cap: a day or more remaining → exactly 86400000 ms -/
theorem toMsec_cap {now abs : Ts} (hn : now.norm) (ha : abs.norm)
    (hr : 86400 * 1000000000 ≤ toNs abs - toNs now) : toMsec now (some abs) = 86400000 := by
  rw [toMsec_spec hn ha]
  unfold remaining
  rw [if_neg (by omega)]

/-- below a day the cap value is not reached unless the last millisecond is rounded up to it -/
theorem toMsec_cap_iff {now abs : Ts} (hn : now.norm) (ha : abs.norm) :
    toMsec now (some abs) = 86400000 ↔ 86399999 * 1000000 < toNs abs - toNs now := by
  rw [toMsec_spec hn ha]
  unfold remaining
  split <;> omega

/-- a capped sleep is never late, only early: the cap never exceeds the remaining time (the loop
wakes up, finds the timer not due, and computes a new timeout) -/
theorem toMsec_cap_not_late {now abs : Ts} (hn : now.norm) (ha : abs.norm)
    (hr : 86400 * 1000000000 ≤ toNs abs - toNs now) :
    toMsec now (some abs) * 1000000 ≤ toNs abs - toNs now := by
  rw [toMsec_cap hn ha hr]; omega

example : toMsec ⟨0, 1⟩ (some ⟨86400, 1⟩) = 86400000 ∧ toMsec ⟨0, 1⟩ (some ⟨86400, 0⟩) = 86400000 ∧
    toMsec ⟨0, 1000001⟩ (some ⟨86400, 0⟩) = 86399999 ∧
    toMsec ⟨-5, 0⟩ (some ⟨31536000, 0⟩) = 86400000 := by decide

/-- in every case (capped or not) the timeout is positive while the timer is not due: the loop
always makes progress in time, it does not spin -/
theorem toMsec_pos_of_not_due {now abs : Ts} (hn : now.norm) (ha : abs.norm)
    (h : due now abs = false) : 0 < toMsec now (some abs) := by
  have h1 := toMsec_range hn ha
  have h2 := toMsec_zero_iff_due hn ha
  have : toMsec now (some abs) ≠ 0 := fun h0 => by rw [h2.1 h0] at h; cases h
  omega

/-! ## agreement of the two wait primitives -/

/-- poll/epoll_wait (`to_msec`) and ppoll/epoll_pwait2 (`to_relative`) sleep the same amount up
to the rounding to the next millisecond: below the cap `to_msec = ceil(to_relative / 1 ms)` .. -/
theorem toMsec_eq_ceil_toRelative {now abs : Ts} (hn : now.norm) (ha : abs.norm)
    (hr : toNs abs - toNs now < 86400 * 1000000000) :
    toMsec now (some abs) = (toNs (toRelative now abs) + 999999) / 1000000 := by
  rw [toMsec_spec hn ha, toRelative_toNs hn ha]
  unfold remaining
  rw [if_pos (by omega)]

/-- .. and in general the minimum of that and the cap -/
theorem toMsec_eq_min_cap {now abs : Ts} (hn : now.norm) (ha : abs.norm) :
    toMsec now (some abs) = min 86400000 ((toNs (toRelative now abs) + 999999) / 1000000) := by
  rw [toMsec_spec hn ha, toRelative_toNs hn ha]
  unfold remaining
  split <;> omega

/-- the millisecond sleep covers the nanosecond sleep and exceeds it by less than 1 ms -/
theorem toMsec_vs_toRelative {now abs : Ts} (hn : now.norm) (ha : abs.norm)
    (hr : toNs abs - toNs now < 86400 * 1000000000) :
    toNs (toRelative now abs) ≤ toMsec now (some abs) * 1000000 ∧
    toMsec now (some abs) * 1000000 < toNs (toRelative now abs) + 1000000 := by
  rw [toMsec_eq_ceil_toRelative hn ha hr]
  omega

example : toRelative ⟨3, 999999999⟩ ⟨4, 2500000⟩ = ⟨0, 2500001⟩ ∧
    toMsec ⟨3, 999999999⟩ (some ⟨4, 2500000⟩) = 3 ∧ (toNs ⟨0, 2500001⟩ + 999999) / 1000000 = 3 := by
  decide

/-! ## progress of the loop -/

/-- a timer never fires early: while the clock is before the deadline it is not due -/
theorem not_due_before {now abs : Ts} (hn : now.norm) (ha : abs.norm) (h : toNs now < toNs abs) :
    due now abs = false := by
  cases hd : due now abs
  · rfl
  · have := (due_iff hn ha).1 hd; omega

/-- PROGRESS (ppoll / epoll_pwait2): once the clock has advanced by at least the relative
timeout, the timer is due — the loop does not have to go round again -/
theorem due_after_toRelative {now now' abs : Ts} (hn : now.norm) (hn' : now'.norm) (ha : abs.norm)
    (h : toNs now + toNs (toRelative now abs) ≤ toNs now') : due now' abs = true := by
  rw [due_iff hn' ha]
  rw [toRelative_toNs hn ha] at h
  omega

/-- PROGRESS (poll / epoll_wait), below the cap: once the clock has advanced by at least the
returned number of milliseconds, the timer is due -/
theorem due_after_toMsec {now now' abs : Ts} (hn : now.norm) (hn' : now'.norm) (ha : abs.norm)
    (hr : toNs abs - toNs now < 86400 * 1000000000)
    (h : toNs now + toMsec now (some abs) * 1000000 ≤ toNs now') : due now' abs = true := by
  rw [due_iff hn' ha]
  have := toMsec_never_early hn ha hr
  omega

/-- at the cap: a full capped sleep leaves strictly less to wait (the distance shrinks by a
day each round, so finitely many rounds reach the uncapped case) -/
theorem remaining_after_cap {now now' abs : Ts} (hn : now.norm) (ha : abs.norm)
    (hr : 86400 * 1000000000 ≤ toNs abs - toNs now)
    (h : toNs now + toMsec now (some abs) * 1000000 ≤ toNs now') :
    remaining now' abs + 86400 * 1000000000 ≤ remaining now abs := by
  rw [toMsec_cap hn ha hr] at h
  unfold remaining; omega

/-- the clock after an exact sleep of the computed length -/
example : toRelative ⟨10, 999000000⟩ ⟨12, 500⟩ = ⟨1, 1000500⟩ ∧
    toNs ⟨10, 999000000⟩ + toNs ⟨1, 1000500⟩ = toNs ⟨12, 500⟩ ∧ due ⟨12, 500⟩ ⟨12, 500⟩ = true ∧
    toMsec ⟨10, 999000000⟩ (some ⟨12, 500⟩) = 1002 ∧
    toNs ⟨10, 999000000⟩ + 1002 * 1000000 = toNs ⟨12, 1000000⟩ ∧ due ⟨12, 1000000⟩ ⟨12, 500⟩ = true ∧
    due ⟨12, 499⟩ ⟨12, 500⟩ = false := by decide

/-! ## the timerfd value (`epoll-timerfd`) -/

/-- the armed value is never `{0, 0}`: `timerfd_settime` with a zero `it_value` DISARMS the timer,
and the loop would then sleep forever on a deadline that is already due -/
theorem armValue_ne_zero (abs : Ts) : armValue abs ≠ ⟨0, 0⟩ := by
  unfold armValue
  split
  · intro h; cases abs; simp at h
  · rename_i hne; intro h; rw [h] at hne; simp at hne

/-- .. in particular it differs from what `clear_poll_timeout` writes -/
theorem armValue_ne_clear (abs : Ts) : armValue abs ≠ clearValue := armValue_ne_zero abs

theorem clearValue_eq : clearValue = ⟨0, 0⟩ := rfl

/-- every other deadline is passed on unchanged -/
theorem armValue_of_ne_zero {abs : Ts} (h : abs ≠ ⟨0, 0⟩) : armValue abs = abs := by
  unfold armValue
  split
  · rename_i h0; exfalso; apply h; cases abs; simp at *; exact h0
  · rfl

/-- the armed value stays normalised -/
theorem armValue_norm {abs : Ts} (ha : abs.norm) : (armValue abs).norm := by
  unfold armValue Ts.norm at *
  split
  · simp
  · exact ha

/-- for a non-negative deadline (CLOCK_MONOTONIC instants are) the armed instant is
`max 1 (deadline)`: the fix-up moves the deadline by at most 1 ns, and only the instant 0 -/
theorem armValue_toNs {abs : Ts} (ha : abs.norm) (h0 : 0 ≤ toNs abs) :
    toNs (armValue abs) = max 1 (toNs abs) := by
  unfold armValue Ts.norm toNs at *
  split
  · rename_i h; simp [h.1, h.2]; omega
  · rename_i h; omega

/-- an already-due deadline arms a timer that fires immediately: once the clock is past the
first nanosecond, the armed value is due whenever the deadline is -/
theorem armValue_due {now abs : Ts} (hn : now.norm) (ha : abs.norm) (h0 : 0 ≤ toNs abs)
    (h1 : 1 ≤ toNs now) (hd : due now abs = true) : due now (armValue abs) = true := by
  rw [due_iff hn (armValue_norm ha), armValue_toNs ha h0]
  have := (due_iff hn ha).1 hd
  omega

example : armValue ⟨0, 0⟩ = ⟨0, 1⟩ ∧ armValue ⟨0, 1⟩ = ⟨0, 1⟩ ∧ armValue ⟨5, 0⟩ = ⟨5, 0⟩ ∧
    armValue ⟨0, 999999999⟩ = ⟨0, 999999999⟩ ∧ armValue ⟨-1, 0⟩ = ⟨-1, 0⟩ ∧
    due ⟨100, 0⟩ (armValue ⟨0, 0⟩) = true := by decide

/-! ## `iv_get_soonest_timeout` -/

/-- no timers → `NULL` → `to_msec` gives `-1` and `to_relative` gives `NULL`, without a clock read -/
theorem getSoonest_none (root : Ts) (src : Nat → Ts) (c : Clock) :
    getSoonest 0 root = none ∧ toMsecC src c (getSoonest 0 root) = (c, -1) ∧
    toRelativeC src c (getSoonest 0 root) = (c, none) := by
  simp [getSoonest, toMsecC, toRelativeC]

theorem getSoonest_some {n : Nat} (h : n ≠ 0) (root : Ts) : getSoonest n root = some root := by
  simp [getSoonest, h]

/-! ## the clock cache -/

/-- after any use the cache is valid -/
theorem validate_valid (src : Nat → Ts) (c : Clock) : (validate src c).timeValid = true :=
  Ivy.TimeArith.validate_valid src c

/-- a valid cache is not touched: no clock read, same time -/
theorem validate_of_valid (src : Nat → Ts) {c : Clock} (h : c.timeValid = true) :
    validate src c = c :=
  Ivy.TimeArith.validate_of_valid src h

/-- an invalid cache reads the clock exactly once and stores what the source returned -/
theorem validate_of_invalid (src : Nat → Ts) {c : Clock} (h : c.timeValid = false) :
    validate src c = { timeValid := true, time := src c.reads, reads := c.reads + 1 } :=
  Ivy.TimeArith.validate_of_invalid src h

/-- after `iv_invalidate_now` the next use re-reads the clock (whatever the state was) -/
theorem validate_after_invalidate (src : Nat → Ts) (c : Clock) :
    validate src (invalidate c) = { timeValid := true, time := src c.reads, reads := c.reads + 1 } := by
  simp [validate, invalidate]

/-- `to_relative`, `to_msec` and `iv_run_timers` all compute with the SAME cached instant, and only
the first of them reads the clock: two consecutive uses -/
theorem uses_share_one_read (src : Nat → Ts) (c : Clock) (a b e : Ts) :
    let c1 := (toRelativeC src c (some a)).1
    c1 = validate src c ∧
    toRelativeC src c (some a) = (c1, some (toRelative c1.time a)) ∧
    toMsecC src c1 (some b) = (c1, toMsec c1.time (some b)) ∧
    runTimersC src c1 (some e) = (c1, due c1.time e) ∧
    c1.reads ≤ c.reads + 1 := by
  simp only [toRelativeC, toMsecC, runTimersC, validate_idem]
  refine ⟨trivial, trivial, trivial, trivial, ?_⟩
  rw [validate_reads]; split <;> omega

/-- the cache invariant holds after every sequence of calls: when valid, the cached time is the
value returned by the most recent clock read -/
theorem cache_holds_last_read (src : Nat → Ts) (ops : List COp) :
    let c := crun src {} ops
    c.timeValid = true → 0 < c.reads ∧ c.time = src (c.reads - 1) :=
  crun_inv src (c := {}) (by unfold Clock.Inv; simp) ops

/-- AT MOST ONE READ WHILE VALID, for every call sequence: the number of clock reads is bounded
by the number of invalidations, plus one if the cache started out invalid -/
theorem reads_bounded (src : Nat → Ts) (c : Clock) (ops : List COp) :
    (crun src c ops).reads + (crun src c ops).pending ≤ c.reads + c.pending + invalidations ops :=
  crun_budget src c ops

/-- .. in particular, without an invalidation a valid cache is never refreshed, however many
timeouts are computed and timers run -/
theorem no_read_while_valid (src : Nat → Ts) {c : Clock} (hv : c.timeValid = true)
    (ops : List COp) (hn : ∀ op ∈ ops, op ≠ .invalidate) : crun src c ops = c :=
  crun_valid_noinval src hv ops hn

/-- reads are only ever added -/
theorem reads_mono (src : Nat → Ts) (c : Clock) (ops : List COp) : c.reads ≤ (crun src c ops).reads :=
  crun_reads_mono src c ops

/-- clock returns 5 s, then 9 s: three uses → one read; invalidate; two uses → one more read -/
example :
    let src : Nat → Ts := fun k => if k = 0 then ⟨5, 0⟩ else ⟨9, 0⟩
    crun src {} [.rel (some ⟨7, 0⟩), .msec (some ⟨6, 0⟩), .runTimers (some ⟨5, 0⟩)] = ⟨true, ⟨5, 0⟩, 1⟩ ∧
    crun src {} [.rel (some ⟨7, 0⟩), .invalidate, .msec none, .runTimers none] = ⟨false, ⟨5, 0⟩, 1⟩ ∧
    crun src {} [.rel (some ⟨7, 0⟩), .invalidate, .msec (some ⟨6, 0⟩), .runTimers (some ⟨5, 0⟩)] = ⟨true, ⟨9, 0⟩, 2⟩ ∧
    (toMsecC src ⟨true, ⟨5, 0⟩, 1⟩ (some ⟨6, 0⟩)).2 = 1000 ∧
    (toMsecC src ⟨false, ⟨5, 0⟩, 1⟩ (some ⟨6, 0⟩)).2 = 0 := by decide

/-! ## NEGATIVE theorems: the statements above have teeth -/

/-- rounding DOWN in `to_msec` (`rel.tv_nsec / 1000000`): the loop wakes up EARLY with the timer not
due, and the next timeout is 0 — it spins until the clock catches up.  1.5 ms remaining: sleeps
1 ms, then 0.5 ms remain and the computed timeout is 0. -/
theorem rounding_down_spins :
    ∃ now abs now' : Ts, now.norm ∧ abs.norm ∧ now'.norm ∧
      toNs now' = toNs now + toMsecDown now (some abs) * 1000000 ∧
      due now' abs = false ∧ toMsecDown now' (some abs) = 0 ∧
      -- the real function on the same input: sleeps long enough, and then the timer is due
      due ⟨now.sec, now.nsec + toMsec now (some abs) * 1000000⟩ abs = true :=
  ⟨⟨3, 0⟩, ⟨3, 1500000⟩, ⟨3, 1000000⟩, by decide⟩

/-- and a sub-millisecond remainder is a zero timeout right away -/
theorem rounding_down_zero_while_not_due :
    ∃ now abs : Ts, now.norm ∧ abs.norm ∧ due now abs = false ∧ toMsecDown now (some abs) = 0 ∧
      toMsec now (some abs) = 1 :=
  ⟨⟨3, 0⟩, ⟨3, 999999⟩, by decide⟩

/-- dropping the borrow in `to_relative` yields a non-normalised value (negative `tv_nsec`:
ppoll / epoll_pwait2 fail with EINVAL) -/
theorem no_borrow_not_norm :
    ∃ now abs : Ts, now.norm ∧ abs.norm ∧ ¬ (toRelativeNoBorrow now abs).norm ∧
      (toRelative now abs).norm ∧ toRelativeNoBorrow now abs = ⟨1, -999999999⟩ ∧
      toRelative now abs = ⟨0, 1⟩ :=
  ⟨⟨4, 999999999⟩, ⟨5, 0⟩, by decide⟩

/-- dropping the clamp in `to_relative` yields a negative relative time for a due timer -/
theorem no_clamp_negative :
    ∃ now abs : Ts, now.norm ∧ abs.norm ∧ due now abs = true ∧ toNs (toRelativeNoClamp now abs) < 0 ∧
      (toRelativeNoClamp now abs).sec < 0 ∧ toRelative now abs = ⟨0, 0⟩ :=
  ⟨⟨5, 0⟩, ⟨4, 999999999⟩, by decide⟩

/-- without the `{0,0}` → `{0,1}` fix-up the value armed for the deadline `{0,0}` would be the
disarm value -/
theorem no_fixup_disarms : (⟨0, 0⟩ : Ts) = clearValue ∧ armValue ⟨0, 0⟩ ≠ clearValue := by decide

/-- C's truncating division matters outside the normalised range only: on a negative dividend it
differs from floor division, on the non-negative ones `to_msec` sees they agree -/
theorem tdiv_vs_floor : Int.tdiv (-1499000001) 1000000 = -1499 ∧ (-1499000001 : Int) / 1000000 = -1500 ∧
    ∀ n : Int, 0 ≤ n → Int.tdiv (n + 999999) 1000000 = (n + 999999) / 1000000 :=
  ⟨by decide, by decide, fun n h => Int.tdiv_eq_ediv_of_nonneg (by omega)⟩

end Ivy.Props.C04time
