import Ivy.L3.WorkProofs
/-!
# C12 — iv_work: every item runs once in a worker, completes once in the owner, and all items finish

Property theorems only; the model is `Ivy/L3/Work.lean` (an LTS whose actions are the critical sections of
`iv_work.c`), the invariant `Inv` is in `Ivy/L3/WorkSpec.lean`, the proofs in `Ivy/L3/WorkProofs.lean`.
`Reach max s`: s is reachable from a fresh pool with `max_threads = max` by *any* sequence of actions, i.e. for
every interleaving of owner, workers and clock, every submission program (bursts, submissions from completions,
continuations from work functions of this pool — `submitc k` — and from any other thread that is not the owner, e.g. a
worker of ANOTHER pool — `submitf`), every timing of idle-timeout expiry.  Environment contract, all of it: no submission
after `iv_work_pool_put` (guard `handle = true` of `submit`/`submitc`/`submitf`), no `put` while a submission is in
progress (a submission is one atomic action).  Model of the code after the D10 repair (see Work.lean, History).  Worker threads and the owner thread
are distinct by construction: `wEnter k`/`wAfter k` are steps of worker thread k, `oComplete` is a step of the owner.
-/
namespace Ivy.Props.C12
open Ivy.Work

/-- A fresh pool satisfies the invariant (any `max_threads ≥ 1`). -/
theorem inv_init (max : Nat) (hm : 1 ≤ max) : Inv (St.init max) := Proofs.inv_init max hm

/-- Every action of every thread keeps the invariant: hence it holds in every reachable state, for all interleavings. -/
theorem inv_step {s s' : St} {a : Act} (h : Inv s) (hs : step s a = some s') : Inv s' := Proofs.inv_step h hs

theorem reach_inv {max : Nat} (hm : 1 ≤ max) {s : St} (hr : Reach max s) : Inv s := Proofs.reach_inv hm hr

/-- Where an item is determines exactly how often its functions have run: queued (on `work_items`, nothing ran),
running (held by exactly the worker recorded for it, work function called once), done (on `work_done` or in the
owner's stolen batch, work function called once, completion not yet), completed (each called exactly once). -/
theorem item_exact {s : St} (h : Inv s) {i : Nat} (hi : i < s.ni) :
    ((s.it i).phase = .queued ↔ i ∈ s.queue) ∧
    ((s.it i).phase = .running → (s.it i).worker < s.nw ∧ (s.w (s.it i).worker).pc = .running i) ∧
    ((s.it i).phase = .done ↔ i ∈ s.done ++ s.owner.batch) ∧
    (s.it i).workRuns = (if (s.it i).phase = .queued then 0 else 1) ∧
    (s.it i).complRuns = (if (s.it i).phase = .completed then 1 else 0) :=
  ⟨(h.items i hi).q_iff, (h.items i hi).r_imp, (h.items i hi).d_iff, (h.items i hi).work_cnt, (h.items i hi).compl_cnt⟩

/-- The order: one step moves an item at most one stage along queued → running → done → completed; it is taken
(work function called) only by a step of a worker thread, which is recorded as its worker; it becomes done only by
that same worker's step after the work function returned; its completion is called only by the owner's
`oComplete`, only when it is done. -/
theorem item_order {s s' : St} {a : Act} (h : Inv s) (hs : step s a = some s') {i : Nat} (hi : i < s.ni) :
    (s'.it i).phase = (s.it i).phase ∨
    ((s.it i).phase = .queued ∧ (s'.it i).phase = .running ∧ ∃ k, (a = .wEnter k ∨ a = .wAfter k) ∧ k < s.nw ∧ (s'.it i).worker = k) ∨
    ((s.it i).phase = .running ∧ (s'.it i).phase = .done ∧ a = .wAfter (s.it i).worker) ∨
    ((s.it i).phase = .done ∧ (s'.it i).phase = .completed ∧ a = .oComplete) :=
  Proofs.item_step h hs hi

/-- Never more work functions running than started threads, never more started threads than `max_threads`. -/
theorem concurrency {s : St} (h : Inv s) : runCount s ≤ s.started ∧ s.started ≤ s.max := Proofs.running_le_started h

/-- WorkOwed (strong form): while work is queued some worker is *responsible*: starting up, inside got_event, or
with its kick owed in a way the idle timeout cannot cancel (not on the idle list, or marked `kicked`); or the pool has
no worker thread at all and `thread_needed` is owed to the owner or being handled by it.
(Statement changed when the foreign submitter was added: the second alternative is new.  The old statement is false in
ANY faithful model with that submitter, e.g. in the state after `submitf` on a fresh pool: an item queued, no worker.
The old statement still holds whenever a worker thread exists: `work_owed_resp_live`.) -/
theorem work_owed_resp {s : St} (h : Inv s) (hq : s.queue ≠ []) :
    (∃ k, k < s.nw ∧ Resp s k) ∨ (s.started = 0 ∧ (s.tnOwed = true ∨ s.owner = .tnPre)) := h.owed hq

/-- The former statement of `work_owed_resp`, valid while at least one worker thread exists. -/
theorem work_owed_resp_live {s : St} (h : Inv s) (hpos : 0 < s.started) (hq : s.queue ≠ []) : ∃ k, k < s.nw ∧ Resp s k :=
  Proofs.owed_live h hpos hq

/-- WorkOwed as stated in the design: `work_items ≠ [] →` some worker is inside got_event, or has its kick owed,
or a thread is starting, or thread_needed is owed — or (new with the foreign submitter: the only thing owed may be
thread_needed, and the flag is cleared when the owner's loop takes the event) its handler has been invoked and has not
yet taken the pool lock. -/
theorem work_owed {s : St} (h : Inv s) (hq : s.queue ≠ []) :
    (∃ k, k < s.nw ∧ ((s.w k).pc = .gotPre ∨ (s.w k).pc.isRunning = true)) ∨
    (∃ k, k < s.nw ∧ (s.w k).kickOwed = true) ∨
    (∃ k, k < s.nw ∧ ((s.w k).pc = .starting ∨ (s.w k).pc = .selfkick)) ∨ s.tnOwed = true ∨ s.owner = .tnPre :=
  Proofs.work_owed_weak h hq

/-- The `iv_fatal` calls of iv_work.c (die on a kicked or still-listed thread) and the timer misuse they guard
against are unreachable. -/
theorem no_fatal {s : St} (h : Inv s) : s.fatal = false := h.nofatal

/-- No lost work: in a state where the library itself can do nothing more (every thread asleep in its loop; only
new submissions, `put`, or an idle timeout could happen), every item ever submitted has completed.  This covers
"all threads busy, none idle, no kick sent" (the worker's self re-kick) and "kick races with the idle timer"
(`kicked`), for every timing of worker start-up, idleness and saturation. -/
theorem no_lost_work {s : St} (h : Inv s) (hst : Stuck s) : ∀ i, i < s.ni → (s.it i).phase = .completed :=
  Proofs.no_lost_work h hst

/-- What `iv_work_pool_submit_continuation` does when called by a thread that is neither the owner nor a worker of
this pool inside a work function (`iv_work_submit_pool` with `called_from_owner_thread = 0`): allowed exactly while the
pool has not been put; the item gets the next number and goes to the tail of `work_items`; no thread is started by the
caller; the first idle worker is marked `kicked` and its kick posted, else below `max_threads` `thread_needed` is
posted, else (at the maximum, nobody idle) nothing is posted. -/
theorem foreign_submit_effect {s s' : St} (h : Inv s) (hs : step s .submitf = some s') :
    s.shut = false ∧ s'.ni = s.ni + 1 ∧ s'.queue = s.queue ++ [s.ni] ∧ (s'.it s.ni).phase = .queued ∧
    (s'.it s.ni).workRuns = 0 ∧ s'.nw = s.nw ∧ s'.started = s.started ∧ s'.freed = false ∧
    ((∃ t rest, s.idle = t :: rest ∧ (s'.w t).kicked = true ∧ (s'.w t).kickOwed = true) ∨
     (s.idle = [] ∧ s.started < s.max ∧ s'.tnOwed = true) ∨
     (s.idle = [] ∧ s.started = s.max ∧ s'.tnOwed = s.tnOwed)) := Proofs.submitf_effect h hs

/-- No lost foreign continuation (same quiescence formulation as `no_lost_work`): an item submitted by a foreign
thread to a pool that has not been put, followed by ANY continuation of the run (`ReachFrom`: every interleaving, more
submissions from any thread, `put` at any later moment, idle timeouts): in every state in which the library can do
nothing more, that item has been run exactly once by a worker and completed exactly once by the owner. -/
theorem foreign_continuation_runs {s s' t : St} (h : Inv s) (hs : step s .submitf = some s')
    (hr : ReachFrom s' t) (hst : Stuck t) :
    s.ni < t.ni ∧ (t.it s.ni).phase = .completed ∧ (t.it s.ni).workRuns = 1 ∧ (t.it s.ni).complRuns = 1 :=
  Proofs.foreign_continuation_runs h hs hr hst

/-- ... and at every moment before that, while the item (any item) is still queued, it is owed a worker: the pool is not
freed, and some worker is responsible for the queue, or no worker thread exists, `thread_needed` is owed to the owner
(or its handler is running) and the handler will find `idle_threads` empty and `started_threads < max_threads`, i.e.
will start a thread. -/
theorem queued_item_owed {s : St} (h : Inv s) {i : Nat} (hi : i < s.ni) (hp : (s.it i).phase = .queued) :
    s.freed = false ∧
    ((∃ k, k < s.nw ∧ Resp s k) ∨
     (s.started = 0 ∧ s.idle = [] ∧ s.started < s.max ∧ (s.tnOwed = true ∨ s.owner = .tnPre))) :=
  Proofs.queued_owed h hi hp

/-- NULL pool: the invariant holds initially and is kept by every action of the thread. -/
theorem null_pool_inv {s : LSt} (hr : LReach s) : LInv s := Proofs.lreach_inv hr

/-- NULL pool: at every moment the calls made are work-then-completion of the items in submission order (each
exactly once, a completion never before its work function), plus possibly the work function of the next item. -/
theorem null_pool_local {s : LSt} (h : LInv s) :
    ∃ m, m ≤ s.n ∧ s.finished = List.range m ∧
      s.log = pairs (List.range m) ++ (if s.inWork then [(m, false)] else []) := Proofs.null_pool_prefix h

/-- NULL pool: when the thread's loop has nothing left to run, all n submitted items have run and completed. -/
theorem null_pool_all {s : LSt} (h : LInv s) (hst : LStuck s) : s.log = pairs (List.range s.n) :=
  Proofs.null_pool_local h hst

/-- Non-vacuity: max_threads = 1, two submissions; the single worker starts, takes both in turn (re-kicking itself
is not needed here), the owner completes both. -/
example :
    (([Act.submit, .submit, .wStart 0, .wSelfKick 0, .wKick 0, .wEnter 0, .wAfter 0, .wAfter 0, .oEv, .oSteal,
       .oComplete, .oComplete, .oFinish] : List Act).foldlM step (St.init 1)).map
      (fun s => s.ni == 2 && (s.it 0).phase == .completed && (s.it 1).phase == .completed && (s.it 0).workRuns == 1 &&
                (s.it 1).complRuns == 1 && s.idle == [0] && s.started == 1) = some true := by decide

/-- Non-vacuity of the saturated case: max_threads = 1, the item is submitted while the only worker is inside a work
function (no idle thread, no new thread, no kick sent): the worker leaves with work pending and re-kicks itself. -/
example :
    (([Act.submit, .wStart 0, .wSelfKick 0, .wKick 0, .wEnter 0, .submit, .wAfter 0] : List Act).foldlM step (St.init 1)).map
      (fun s => s.queue == [1] && (s.w 0).pc == .parked && (s.w 0).kickOwed && s.idle == []) = some true := by decide

/-- Non-vacuity of the foreign submitter: max_threads = 2, a thread that is not the owner submits to a pool without
any worker (only `thread_needed` is posted, no thread started by the caller); the owner's handler starts worker 0, which
runs the item; a second foreign submission while worker 0 is parked idle kicks it (`kicked`), it runs that one too. -/
example :
    (([Act.submitf, .oTn, .oTnRun, .wStart 0, .wSelfKick 0, .wKick 0, .wEnter 0, .wAfter 0, .submitf, .wKick 0, .wEnter 0,
       .wAfter 0, .oEv, .oSteal, .oComplete, .oComplete, .oFinish] : List Act).foldlM step (St.init 2)).map
      (fun s => s.ni == 2 && (s.it 0).phase == .completed && (s.it 1).phase == .completed && (s.it 1).workRuns == 1 &&
                s.nw == 1 && s.started == 1 && s.idle == [0] && !s.tnOwed) = some true := by decide

example :
    (([Act.submitf] : List Act).foldlM step (St.init 2)).map
      (fun s => s.queue == [0] && s.nw == 0 && s.started == 0 && s.tnOwed) = some true := by decide

end Ivy.Props.C12
