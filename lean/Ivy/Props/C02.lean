import Ivy.L1.ProofsC02
import Ivy.L1.TablesAgree
/-!
# C02 — property theorem over the L1 loop machine

Statement: every trace the machine can produce — for every poll method, every configuration of
optional kernel facilities, every user program (any API calls from set-up code and from any handler),
every kernel answer allowed by the kernel contract `envOk` (wait results, EINTR, ENOSYS, clock values,
raw-event reads) and every foreign-thread post at a wait — is accepted by the monitor
`Ivy.Mon.C02`, which states the property over observable records only.  The same monitor is run on the
implementation's logs by the check.  Helper lemmas and invariants live in `Ivy/L1/ProofsC02.lean`.
-/
namespace Ivy.Props.C02
open Ivy.L1

theorem monitor_accepts (m : Method) (ntimers : Nat) (timerfdAvail pwait2 : Bool)
    (evs : List Ev) (s' : St) (h : Exec (St.init m ntimers timerfdAvail pwait2) evs s') :
    Ivy.Mon.C02.verdict evs = none :=
  Ivy.L1.ProofsC02.monitor_accepts m ntimers timerfdAvail pwait2 evs s' h

/-- T-gen (finite tables, re-checked against /repo's current code on every run): `recompute_wanted_flags` is
`wantedOf` on all 16 inputs -/
theorem wanted_table_agrees :
    (∀ r ∈ Ivy.Generated.Tables.wanted,
      Ivy.L1.TablesAgree.Bands.code (wantedOf { registered := r.1, hin := r.2.1, hout := r.2.2.1, herr := r.2.2.2.1 }) = r.2.2.2.2) ∧
    (∀ o : FdObj, (o.registered, o.hin, o.hout, o.herr, Ivy.L1.TablesAgree.Bands.code (wantedOf o)) ∈ Ivy.Generated.Tables.wanted) :=
  Ivy.L1.TablesAgree.wanted_table_agrees

/-- T-gen: iv_fd_epoll.c `bits_to_poll_mask` is `epollMask` on all 8 band sets (and sets no other bit) -/
theorem epoll_mask_table_agrees :
    (∀ r ∈ Ivy.Generated.Tables.epollMask, ∀ b ∈ Ivy.L1.TablesAgree.allBands, Ivy.L1.TablesAgree.Bands.code b = r.1 →
      (epollMask b).i = r.2.1 ∧ (epollMask b).o = r.2.2.1 ∧ (epollMask b).e = false ∧ r.2.2.2 = 0) ∧
    (∀ b : Bands, (Ivy.L1.TablesAgree.Bands.code b, (epollMask b).i, (epollMask b).o, 0) ∈ Ivy.Generated.Tables.epollMask) :=
  Ivy.L1.TablesAgree.epoll_mask_table_agrees

/-- T-gen: iv_fd_poll.c `bits_to_poll_mask` is `pollMaskOf` (what the replay driver renders) on all 8 band sets -/
theorem poll_mask_table_agrees :
    (∀ r ∈ Ivy.Generated.Tables.pollMask, ∀ b ∈ Ivy.L1.TablesAgree.allBands, Ivy.L1.TablesAgree.Bands.code b = r.1 →
      Ivy.L1.TablesAgree.pollMaskOf b = (r.2.1, r.2.2.1, r.2.2.2.1) ∧ r.2.2.2.2 = 0) ∧
    (∀ b : Bands, (Ivy.L1.TablesAgree.Bands.code b, (Ivy.L1.TablesAgree.pollMaskOf b).1, (Ivy.L1.TablesAgree.pollMaskOf b).2.1,
      (Ivy.L1.TablesAgree.pollMaskOf b).2.2, 0) ∈ Ivy.Generated.Tables.pollMask) :=
  Ivy.L1.TablesAgree.poll_mask_table_agrees

end Ivy.Props.C02
