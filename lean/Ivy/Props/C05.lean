import Ivy.L0.HeapProofs
/-!
# C05 — timers run in expiry order and are independent at any population size

Property theorems only; helper lemmas live in `Ivy/L0/HeapProofs.lean`.
No theorem bounds the population: `HeapInv` holds initially and is preserved by
every operation, including the growth / shrink of the radix tree.
-/
namespace Ivy.Props.C05
open Ivy.Heap

theorem init_inv (n : Nat) : HeapInv (Store.init n) := Proofs.init_inv n

/-- Registering an unregistered timer succeeds (no fatal, no fault, for any population),
keeps the invariant, puts exactly that timer on the heap and changes no other timer's
membership or expiry. -/
theorem register_ok (s : Store) (t : Tid) (e : TS) (h : HeapInv s)
    (ht : s.idx[t]? = some (-1)) :
    ∃ s', register s t e = .ok s' ∧ HeapInv s' ∧ onHeap s' t ∧ expOf s' t = e ∧ s'.num = s.num + 1 ∧
      s'.idx.size = s.idx.size ∧
      ∀ u, u ≠ t → (s'.idx[u]? = some (-1) ↔ s.idx[u]? = some (-1)) ∧ (s'.idx[u]? = some 0 ↔ s.idx[u]? = some 0) ∧
        (onHeap s' u ↔ onHeap s u) ∧ expOf s' u = expOf s u :=
  Proofs.register_ok s t e h ht

/-- Unregistering a timer that is on the heap (any slot: root, last, interior) succeeds,
keeps the invariant, removes exactly that timer and changes no other timer. -/
theorem unregister_ok (s : Store) (batch : List Tid) (t : Tid) (h : HeapInv s) (ht : onHeap s t) :
    ∃ s', unregister s batch t = (.ok s', batch) ∧ HeapInv s' ∧ s'.idx[t]? = some (-1) ∧ s'.num + 1 = s.num ∧
      s'.idx.size = s.idx.size ∧
      ∀ u, u ≠ t → (s'.idx[u]? = some (-1) ↔ s.idx[u]? = some (-1)) ∧ (s'.idx[u]? = some 0 ↔ s.idx[u]? = some 0) ∧
        (onHeap s' u ↔ onHeap s u) ∧ expOf s' u = expOf s u :=
  Proofs.unregister_ok s batch t h ht

/-- The root is a minimum: no registered timer expires before `iv_get_soonest_timeout`. -/
theorem soonest_is_min (s : Store) (h : HeapInv s) (t : Tid) (ht : onHeap s t) :
    ∃ m, soonest s = some m ∧ m.le (expOf s t) :=
  Proofs.soonest_is_min s h t ht

/-- `iv_run_timers`' first loop: the batch consists exactly of the registered timers that do
not expire after `now`, in non-decreasing expiry order; everything left on the heap expires
later; no other timer is touched. -/
theorem collect_sorted (s : Store) (now : TS) (h : HeapInv s) :
    ∃ s' batch, runCollect s now = (.ok s', batch) ∧ HeapInv s' ∧
      batch.Pairwise (fun a b => (expOf s a).le (expOf s b)) ∧
      batch.Nodup ∧
      (∀ t, t ∈ batch ↔ (onHeap s t ∧ (expOf s t).le now)) ∧
      (∀ t, onHeap s' t ↔ (onHeap s t ∧ (expOf s t).gt now = true)) ∧
      (∀ t, t ∈ batch → s'.idx[t]? = some 0) ∧
      (∀ t, expOf s' t = expOf s t) ∧
      (∀ t, ¬ onHeap s t → s'.idx[t]? = s.idx[t]?) :=
  Proofs.collect_sorted s now h

end Ivy.Props.C05
