import Ivy.L2.RawProofs
/-!
# C09 — iv_event_raw: posts from threads, signal handlers and children reach the owner

Property theorems only; the model is `Ivy/L2/Raw.lean` (one `iv_event_raw` object as a labelled
transition system over its kernel object, the process-wide `eventfd_in_use` latch, the owner's
progress through `iv_event_raw_got_event` and any number of posters), the invariant and vocabulary are
in `Ivy/L2/RawSpec.lean`, all proofs in `Ivy/L2/RawProofs.lean`.

Every theorem quantifies over every kernel configuration `cfg` (eventfd2 present / only the old
eventfd / neither, hence the pipe fallback; any non-zero pipe capacity) and every `Reachable` state:
every interleaving of any number of posters (a poster is only a `pid`; owner thread, other thread,
signal handler interrupting any thread at any point, forked child holding a copy of the descriptor —
all are interleavings of `postBegin`/`postWrite` with the owner's steps), every kernel answer allowed
by the kernel contract (EINTR any number of times, EAGAIN only when the object holds data), every
number of re-registrations.  "Behaves identically": the same statements hold for both
representations, and both refine one abstract machine (`abs_refines`).
-/
namespace Ivy.Props.C09
open Ivy.Raw

/-- The invariant holds initially and is preserved by every enabled action (hence in every reachable state). -/
theorem inv_reachable (cfg : Cfg) (hwf : cfg.wf) (s : St) (h : Reachable cfg s) : Inv cfg s :=
  Proofs.reachable_inv hwf h

/-- **No lost post.** In any reachable state in which the object is registered, the descriptor is not
readable and the owner is not between its drain and the handler call (in particular: whenever the owner
is blocked, or idle, or still inside the handler), every post completed so far on this registration
ended with a write that was accepted or hit a full (hence readable) descriptor, and the handler was
entered at a time strictly after that write — hence after the post began.  A handler entry that
preceded the write does not count, which is what rules out "drain after the handler". -/
theorem C09_no_lost_post (cfg : Cfg) (hwf : cfg.wf) (s : St) (h : Reachable cfg s) (hr : s.registered = true)
    (hpc : s.pc ≠ .drained) (hc : s.k.readable = false) :
    ∀ p ∈ s.posts, (p.res = .ok ∨ p.res = .eagain) ∧ ∃ t ∈ s.hstarts, p.tb ≤ p.tw ∧ p.tw < t :=
  Proofs.no_lost_post hwf h hr hpc hc

/-- With the loop-side assumption `LoopSpec` (level-triggered dispatch, L1: C02/C03): whenever the
owner is blocked, every completed post has been followed by a handler entry. -/
theorem C09_delivered_when_blocked (cfg : Cfg) (hwf : cfg.wf) (blocked : St → Prop) (L : LoopSpec cfg blocked)
    (s : St) (h : Reachable cfg s) (hb : blocked s) (hr : s.registered = true) :
    ∀ p ∈ s.posts, ∃ t ∈ s.hstarts, p.tb ≤ p.tw ∧ p.tw < t :=
  Proofs.delivered_when_blocked hwf L h hb hr

/-- **Posting never blocks (flags).** While the object is registered, the description posters write
to and the one the owner reads from both have O_NONBLOCK set — for eventfd2 (created with
EFD_NONBLOCK), the old eventfd (set by `iv_fd_register` on the shared description) and the pipe
(write end set explicitly). -/
theorem post_never_blocks (cfg : Cfg) (hwf : cfg.wf) (s : St) (h : Reachable cfg s) (hr : s.registered = true) :
    s.k.nbW = true ∧ s.k.nbR = true :=
  Proofs.nonblocking hwf h hr

/-- **Posting never blocks (progress).** A poster inside `iv_event_raw_post` always has an immediate
kernel answer other than EINTR available: its write either fits or fails with EAGAIN at once. -/
theorem post_write_enabled (cfg : Cfg) (hwf : cfg.wf) (s : St) (h : Reachable cfg s) (pid : Nat) (f : Flight)
    (hf : findFlight s.flights pid = some f) :
    ∃ res, res ≠ WRes.eintr ∧ (step cfg s (.postWrite pid res)).isSome = true :=
  Proofs.post_write_enabled hwf h hf

/-- The owner's drain never blocks either (a spurious wake-up returns through EAGAIN). -/
theorem owner_read_enabled (cfg : Cfg) (hwf : cfg.wf) (s : St) (h : Reachable cfg s) (hr : s.registered = true)
    (hpc : s.pc = .idle) : (step cfg s (.ownerRead false)).isSome = true :=
  Proofs.owner_read_enabled hwf h hr hpc

/-- `iv_fatal` is never reached: the drain never sees 0, EINVAL or another error. -/
theorem never_fatal (cfg : Cfg) (hwf : cfg.wf) (s : St) (h : Reachable cfg s) : s.fatal = false :=
  Proofs.never_fatal hwf h

/-- **Readable ⟺ undrained post.** Content of the descriptor = accepted writes − amount drained; so
it is readable exactly when some accepted write has not been drained yet. -/
theorem readable_iff_undrained (cfg : Cfg) (hwf : cfg.wf) (s : St) (h : Reachable cfg s) (hr : s.registered = true) :
    s.k.content + s.ndrained = s.nok ∧ (s.k.readable = true ↔ s.ndrained < s.nok) :=
  Proofs.readable_iff hwf h hr

/-- Coalescing only: the handler is never entered more often than writes were accepted. -/
theorem no_spurious_handler (cfg : Cfg) (hwf : cfg.wf) (s : St) (h : Reachable cfg s) (hr : s.registered = true) :
    s.hstarts.length ≤ s.nok :=
  Proofs.no_spurious_handler hwf h hr

/-- The representation is the pipe exactly when the kernel offers neither eventfd2 nor eventfd. -/
theorem transport_selection (cfg : Cfg) (hwf : cfg.wf) (s : St) (h : Reachable cfg s) (hr : s.registered = true) :
    s.k.isPipe = (settle cfg == 0) :=
  Proofs.transport_selection hwf h hr

/-- **Behaves identically.** Every step of the concrete machine, in either representation, is a step
of the one-bit abstract machine `AStep` (which does not mention the representation)... -/
theorem abs_refines (cfg : Cfg) (s s' : St) (inv : Inv cfg s) (a : Action) (hs : step cfg s a = some s') :
    AStep (abs s) a (abs s') :=
  Proofs.abs_refines inv a hs

/-- ... in which a completed post on the current registration always leaves the descriptor readable
(its write was accepted, or failed with EAGAIN on an object that holds data; never EINVAL) ... -/
theorem live_post_sets_pending (cfg : Cfg) (s s' : St) (inv : Inv cfg s) (pid : Nat) (res : WRes)
    (hl : liveFlight s pid = true) (hne : res ≠ .eintr) (hs : step cfg s (.postWrite pid res) = some s') :
    s'.k.readable = true ∧ (res = .ok ∨ res = .eagain) :=
  Proofs.live_post_sets_pending inv hl hne hs

/-- ... and the only difference is that a drain of the counter always clears it, whereas a drain of
the pipe may leave data behind (more than 1024 bytes queued), which only causes further handler calls. -/
theorem eventfd_drain_clears (cfg : Cfg) (s s' : St) (inv : Inv cfg s) (hp : s.k.isPipe = false)
    (hs : step cfg s (.ownerRead false) = some s') : s'.k.readable = false :=
  Proofs.eventfd_drain_clears inv hp hs

/-! ### Non-vacuity and strength -/

def cfgEventfd2 : Cfg := { has2 := true, has1 := true, cap := 65536 }
def cfgEventfdOld : Cfg := { has2 := false, has1 := true, cap := 65536 }
def cfgPipe : Cfg := { has2 := false, has1 := false, cap := 4 }

/-- a run with a post during the handler, an EINTR, and a post from a second context -/
def demo : List Action :=
  [.register, .postBegin 1, .postWrite 1 .eintr, .postWrite 1 .ok, .ownerRead false, .handlerStart,
   .postBegin 102, .postWrite 102 .ok, .handlerEnd, .ownerRead false, .handlerStart, .handlerEnd, .ownerRead false]

/-- Non-vacuity: in all three transports the run is an execution, ends registered, idle and not
readable with two completed posts, both covered — the hypotheses of `C09_no_lost_post` are satisfiable
with posts. -/
example : [cfgEventfd2, cfgEventfdOld, cfgPipe].map (fun cfg => (runFrom cfg St.init demo).map observe) =
    List.replicate 3 (some ⟨true, .idle, false, 2, 2, [true, true]⟩) := by decide

/-- Non-vacuity of EAGAIN-on-full: a burst of 6 posts into a pipe of capacity 4 — the last two get
EAGAIN, nobody blocks, one drain takes everything, one handler call covers all six. -/
example : (runFrom cfgPipe St.init
    ([.register] ++ (List.range 4).flatMap (fun i => [.postBegin i, .postWrite i .ok]) ++
     [.postBegin 4, .postWrite 4 .eagain, .postBegin 5, .postWrite 5 .eagain, .ownerRead false, .handlerStart, .handlerEnd])).map observe
    = some ⟨true, .idle, false, 6, 1, List.replicate 6 true⟩ := by decide

/-- EAGAIN is not an execution when the pipe is empty (kernel contract). -/
example : runFrom cfgPipe St.init [.register, .postBegin 1, .postWrite 1 .eagain] = none := by decide

/-- Strength: the statement of `C09_no_lost_post` is FALSE for the mutant "drain after the handler
instead of before" (same kernel, same posters; `Ivy.Raw.Mutant`), in every transport: the witness ends
registered, idle and not readable with a completed post (the most recent one) that no handler entry follows. -/
example : [cfgEventfd2, cfgEventfdOld, cfgPipe].map (fun cfg => (Mutant.witness cfg).map observe) =
    List.replicate 3 (some ⟨true, .idle, false, 2, 1, [false, true]⟩) := by decide

end Ivy.Props.C09
