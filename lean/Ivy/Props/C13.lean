import Ivy.L3.WorkProofs
/-!
# C13 — pool shutdown and iv_thread lifetime: drain, paired hooks, join, release

Property theorems only (same LTS as C12, `Ivy/L3/Work.lean`, plus the `TSt` model of one iv_thread and its creator,
for the code after the repair harness/iv_thread_creator_deinit.patch; the history of the defect is in Work.lean).
The pool LTS includes submissions by threads that are neither the owner nor a worker of the pool (`submitf`, e.g. a
worker of another pool) and is the model of iv_work.c after the D10 repair harness/iv_work_d10.patch (`iv_work_event`
frees a shutting-down pool only when `work_items` is empty too); history and witness in Work.lean and at the end of this file.
-/
namespace Ivy.Props.C13
open Ivy.Work

/-- `iv_work_pool_put` clears the user's handle at once and marks the pool shutting down; queued and finished items
are untouched (nothing is cancelled). -/
theorem put_effect {s s' : St} (hs : step s .put = some s') :
    s'.handle = false ∧ s'.shut = true ∧ s'.queue = s.queue ∧ s'.done = s.done ∧ s'.it = s.it ∧ s'.ni = s.ni :=
  Proofs.put_effect hs

/-- After put, once the library can do nothing more: every item submitted before the put has completed, every worker
thread has been joined, the pool has been freed and the owner's loop holds no object of this pool any more
(both pool events and every `dead` event unregistered), so `iv_main` can return. -/
theorem drained {s : St} (h : Inv s) (hsh : s.shut = true) (hst : Stuck s) :
    (∀ i, i < s.ni → (s.it i).phase = .completed) ∧ (∀ k, k < s.nw → (s.w k).pc = .joined) ∧ s.freed = true ∧
    poolObjs s = 0 := Proofs.drained h hsh hst

/-- thread_start and thread_stop as a function of the worker's life-cycle stage: start called exactly once from
stage 1 on, stop exactly once from stage 3 (died) on, never a stop without a start. -/
theorem hooks_paired {s : St} (h : Inv s) {k : Nat} (hk : k < s.nw) :
    (s.w k).starts = (if 1 ≤ (s.w k).pc.rank then 1 else 0) ∧ (s.w k).stops = (if 3 ≤ (s.w k).pc.rank then 1 else 0) ∧
    (s.w k).stops ≤ (s.w k).starts := Proofs.hooks_paired h hk

/-- A worker only moves forward through its life cycle (not started, thread_start called, serving, thread_stop
called, exited, joined), one stage per step: so each hook is called exactly once, stop after start, then the
thread exits and is joined. -/
theorem lifecycle_step {s s' : St} {a : Act} (hs : step s a = some s') {k : Nat} (hk : k < s.nw) :
    (s.w k).pc.rank ≤ (s'.w k).pc.rank ∧ (s'.w k).pc.rank ≤ (s.w k).pc.rank + 1 := Proofs.rank_step hs hk

/-- The last worker posts the owner: whenever a shutting-down pool has no thread left and is not yet freed, the
owner's event is owed or the owner is already inside iv_work_event — or work is still queued and `thread_needed` is owed
(or being handled), so that a worker WILL be started, and that worker posts the owner when it dies.
(Statement changed: the last alternative is new.  The LTS gained a submitter that can enqueue while `started = 0`
(`submitf`); the repaired `iv_work_event` then declines to free the pool and returns with nothing owed on `ev`: state
after submitf, put, oEv, oSteal, oFinish.  Without queued work the old statement holds verbatim.) -/
theorem owner_owed_when_last_worker_gone {s : St} (h : Inv s) (hsh : s.shut = true) (h0 : s.started = 0)
    (hf : s.freed = false) :
    s.evOwed = true ∨ s.owner = .evPre ∨ (∃ b, s.owner = .compl b) ∨
    (s.queue ≠ [] ∧ (s.tnOwed = true ∨ s.owner = .tnPre)) := h.shut_ev hsh h0 hf

/-- The repaired code cannot hang in that last situation: in every reachable state without a worker thread but with
work queued (shutting down or not), the pool is not freed, `thread_needed` is owed to the owner or its handler has been
invoked (the handler starts the thread inside its critical section: there is no separate "start in progress" state), and
the library is not quiescent: the owner's loop has a handler to run. -/
theorem no_hang_when_last_worker_gone {max : Nat} (hm : 1 ≤ max) {s : St} (hr : Reach max s) (h0 : s.started = 0)
    (hq : s.queue ≠ []) : s.freed = false ∧ (s.tnOwed = true ∨ s.owner = .tnPre) ∧ ¬ Stuck s :=
  Proofs.last_worker_gone_tn (Proofs.reach_inv hm hr) h0 hq

/-- thread_needed is honoured while shutting down — about ALL reachable states, every interleaving:
(1) `iv_work_pool_put` does not cancel an owed `thread_needed`, nor touch the queue or the thread count;
(2) the handler does not look at `shutting_down`: with nobody idle and fewer than `max_threads` threads it starts a
    worker (which finds the queue as it was);
(3) while anything is queued, the pool is not freed, and a worker is responsible for the queue or no thread exists and
    `thread_needed` is owed / being handled in a state where (2) applies (`idle = []`, `started < max`);
(4) hence "freed with a non-empty queue" is unreachable.
The seeded change "skip the start when shutting_down" breaks (2); the pinned code before the D10 repair broke (4). -/
theorem thread_needed_honoured_when_shutting_down {max : Nat} (hm : 1 ≤ max) {s : St} (hr : Reach max s) :
    (∀ s', step s .put = some s' → s'.tnOwed = s.tnOwed ∧ s'.queue = s.queue ∧ s'.started = s.started) ∧
    (∀ s', step s .oTnRun = some s' → s.idle = [] → s.started < s.max →
       s'.nw = s.nw + 1 ∧ s'.started = s.started + 1 ∧ (s'.w s.nw).pc = .starting ∧ s'.queue = s.queue ∧ s'.shut = s.shut) ∧
    (s.queue ≠ [] → s.freed = false ∧
       ((∃ k, k < s.nw ∧ Resp s k) ∨
        (s.started = 0 ∧ s.idle = [] ∧ s.started < s.max ∧ (s.tnOwed = true ∨ s.owner = .tnPre)))) ∧
    (s.freed = true → s.queue = []) :=
  ⟨fun _ hs => Proofs.put_keeps_tn hs, fun _ hs hi hlt => Proofs.tn_starts hs hi hlt,
   fun hq => Proofs.shut_queue_owed (Proofs.reach_inv hm hr) hq,
   fun hf => ((Proofs.reach_inv hm hr).freed_imp hf).2.2.1⟩

/-- The pool's two events are unregistered exactly at the owner's shutting_down test with `started = 0 ∧ done = []`,
never before: at that moment nothing is queued, every item has completed and no worker is alive. -/
theorem free_exact {s s' : St} {a : Act} (h : Inv s) (hs : step s a = some s') (hf : s.freed = false) (hf' : s'.freed = true) :
    a = .oFinish ∧ s.shut = true ∧ s.started = 0 ∧ s.done = [] ∧ s.queue = [] ∧
    (∀ i, i < s.ni → (s.it i).phase = .completed) ∧ (∀ k, k < s.nw → (s.w k).pc.live = false) :=
  Proofs.free_exact h hs hf hf'

/-- While not freed the pool holds the owner's loop open with its two events; each worker's `dead` event is
registered from its creation until its join. -/
theorem loop_objects {s : St} (h : Inv s) :
    (s.freed = false → 2 ≤ poolObjs s) ∧ (∀ k, k < s.nw → ((s.w k).deadReg = true ↔ (s.w k).pc ≠ .joined)) ∧
    (∀ k, k < s.nw → ((s.w k).deadOwed = true ↔ (s.w k).pc = .exited)) :=
  Proofs.loop_objects h

/-- iv_thread, every interleaving of the thread's progress, the creator's loop and the creator deinitialising its
loop at any moment (`TReach` has no restriction), for every way the body ends: nothing freed is ever used (neither
the creator's loop state nor the record); `dead` is registered exactly from create until the join or the creator's
deinit, and owed exactly between the thread's exit and the join while the creator's loop exists; it is posted at most
once; the record is freed at most once, and it has been freed exactly when the thread was joined or the thread has
exited and the creator's loop is gone (by whichever of the two came second). -/
theorem thread_inv {m : ExitMode} {s : TSt} (hr : TReach m s) :
    s.fault = false ∧
    (s.deadReg = true ↔ (s.creatorGone = false ∧ s.pc ≠ .joined)) ∧
    (s.deadOwed = true ↔ (s.creatorGone = false ∧ s.pc = .exited)) ∧
    s.posts = (if s.exited then 1 else 0) ∧
    s.frees = (if s.pc = .joined ∨ (s.creatorGone = true ∧ s.pc = .exited) then 1 else 0) :=
  ⟨(Proofs.treach_inv hr).1.nofault, (Proofs.treach_inv hr).1.dead_reg, (Proofs.treach_inv hr).1.dead_owed,
   (Proofs.treach_inv hr).1.posts_eq, (Proofs.treach_inv hr).1.frees_eq⟩

/-- `dead` is never posted to a deinitialised loop: a post happens only in the exiting thread's destructor, only
while the creator's loop exists, and it is the first and only one. -/
theorem post_only_to_live_loop {m : ExitMode} {s s' : TSt} {a : TAct} (hr : TReach m s) (hs : tstep s a = some s')
    (hp : s'.posts ≠ s.posts) : a = .destruct ∧ s.creatorGone = false ∧ s.posts = 0 ∧ s'.posts = 1 :=
  Proofs.post_only_to_live_loop (Proofs.treach_inv hr).1 hs hp

/-- Whichever way the body ends (return, pthread_exit, with or without iv_deinit, never initialised) and whenever the
creator deinitialises: once neither the thread nor the creator's loop can do anything more, the thread has been
joined, or it has exited and the creator's loop is gone; the record has been freed exactly once, `dead` is
unregistered and not pending, the thread's loop state (if any) was deinitialised exactly once, nothing freed was used. -/
theorem thread_final {m : ExitMode} {s : TSt} (hr : TReach m s) (hst : TStuck s) :
    (s.pc = .joined ∨ (s.pc = .exited ∧ s.creatorGone = true)) ∧ s.frees = 1 ∧ s.deadReg = false ∧ s.deadOwed = false ∧
    s.ivState = false ∧ s.deinits = (if s.mode = .noInit then 0 else 1) ∧ s.fault = false :=
  Proofs.thread_final (Proofs.treach_inv hr).1 hst

/-- While the creator stays in its loop (does not deinitialise), a thread that can make no further step has been
joined: the creator's `iv_main` is held open (registered `dead`) until then. -/
theorem thread_joined {m : ExitMode} {s : TSt} (hr : TReach m s) (hst : TStuck s) (hg : s.creatorGone = false) :
    s.pc = .joined ∧ s.deadReg = false ∧ s.posts = 1 :=
  Proofs.thread_joined (Proofs.treach_inv hr).1 hst hg

/-- Non-vacuity: put while the single worker is parked idle: the worker is kicked, dies (thread_stop), posts the
owner, exits and is joined; the owner frees the pool. -/
example :
    (([Act.submit, .wStart 0, .wSelfKick 0, .wKick 0, .wEnter 0, .wAfter 0, .put, .wKick 0, .wEnter 0, .wExit 0,
       .oEv, .oSteal, .oComplete, .oFinish, .oJoin 0] : List Act).foldlM step (St.init 2)).map
      (fun s => s.freed && !s.handle && (s.w 0).pc == .joined && (s.w 0).starts == 1 && (s.w 0).stops == 1 &&
                poolObjs s == 0 && (s.it 0).phase == .completed) = some true := by decide

/-- Non-vacuity, the scenario of corpus/C13/foreign-continuation-then-put.scn seen from pool p1 (max 2, no worker yet):
a worker of another pool submits a continuation (only `thread_needed` is posted), the owner calls put before its loop
handled it (no thread: `ev` posted); the loop handles `thread_needed` first: worker 0 is started although the pool is
shutting down; `ev` finds a live thread and returns; the worker runs the item, finds the queue empty while shutting
down and dies, posting `ev`; the owner completes the item and frees the pool; the thread is joined. -/
example :
    (([Act.submitf, .put, .oTn, .oTnRun, .oEv, .oSteal, .oFinish, .wStart 0, .wSelfKick 0, .wKick 0, .wEnter 0, .wAfter 0,
       .wExit 0, .oEv, .oSteal, .oComplete, .oFinish, .oJoin 0] : List Act).foldlM step (St.init 2)).map
      (fun s => s.freed && !s.handle && s.queue == [] && (s.it 0).phase == .completed && (s.it 0).workRuns == 1 &&
                (s.it 0).complRuns == 1 && (s.w 0).pc == .joined && (s.w 0).starts == 1 && (s.w 0).stops == 1 &&
                poolObjs s == 0) = some true := by decide

/-- Non-vacuity of the repaired test: the same with `ev` handled BEFORE `thread_needed` (the order in which they were
posted when `ev` was pending already, as in D10): iv_work_event declines to free the pool (item queued), then
`thread_needed` starts the worker and everything drains. -/
example :
    (([Act.submitf, .put, .oEv, .oSteal, .oFinish] : List Act).foldlM step (St.init 2)).map
      (fun s => !s.freed && s.queue == [0] && s.tnOwed && !s.evOwed && s.owner == .idle && s.started == 0) = some true := by decide

example :
    (([Act.submitf, .put, .oEv, .oSteal, .oFinish, .oTn, .oTnRun, .wStart 0, .wSelfKick 0, .wKick 0, .wEnter 0, .wAfter 0,
       .wExit 0, .oEv, .oSteal, .oComplete, .oFinish, .oJoin 0] : List Act).foldlM step (St.init 2)).map
      (fun s => s.freed && (s.it 0).phase == .completed && (s.w 0).pc == .joined && poolObjs s == 0) = some true := by decide

/-- History, defect D10 (corpus/C13/d10-freed-with-queued-continuation.scn): on the LTS of the pinned code BEFORE the
repair (`stepD10`: the free test ignores `work_items`) the pool is freed with item 1 queued and `thread_needed` owed:
the owner did not run its loop for 10 s while `ev` was pending, the only worker idled out, a foreign continuation
arrived, then put.  Item 1 is never run. -/
example :
    (([Act.submit, .wStart 0, .wSelfKick 0, .wKick 0, .wEnter 0, .wAfter 0, .wTimeout 0, .wTimeoutRun 0, .submitf, .put,
       .oEv, .oSteal, .oComplete, .oFinish] : List Act).foldlM stepD10 (St.init 1)).map
      (fun s => s.freed && s.queue == [1] && (s.it 1).phase == .queued && (s.it 1).workRuns == 0 && s.started == 0) = some true := by decide

/-- ... and on the repaired LTS the same schedule ends with the pool alive and `thread_needed` owed. -/
example :
    (([Act.submit, .wStart 0, .wSelfKick 0, .wKick 0, .wEnter 0, .wAfter 0, .wTimeout 0, .wTimeoutRun 0, .submitf, .put,
       .oEv, .oSteal, .oComplete, .oFinish] : List Act).foldlM step (St.init 1)).map
      (fun s => !s.freed && s.queue == [1] && s.tnOwed && s.started == 0) = some true := by decide

/-- Non-vacuity (iv_thread): a body that returns without iv_deinit, joined by the creator's loop. -/
example : (([TAct.run, .leave, .destruct, .died] : List TAct).foldlM tstep { mode := .retNoDeinit }).map
    (fun s => s.pc == .joined && !s.deadReg && s.posts == 1 && s.deinits == 1 && s.frees == 1 && !s.fault) = some true := by decide

/-- Non-vacuity: the creator deinitialises first (the old use-after-free schedule): the thread finds itself orphaned,
does not post, and frees the record. -/
example : (([TAct.run, .creatorDeinit, .deinit, .leave, .destruct] : List TAct).foldlM tstep { mode := .ret }).map
    (fun s => s.pc == .exited && s.orphaned && !s.deadReg && s.posts == 0 && s.frees == 1 && !s.fault) = some true := by decide

/-- Non-vacuity: the thread exits and posts first, the creator deinitialises before its loop ran the handler: the
pending post is dropped with the unregistration and the creator frees the record. -/
example : (([TAct.run, .leave, .destruct, .creatorDeinit] : List TAct).foldlM tstep { mode := .pexitNoDeinit }).map
    (fun s => s.pc == .exited && !s.orphaned && !s.deadReg && !s.deadOwed && s.posts == 1 && s.frees == 1 && !s.fault) = some true := by decide

end Ivy.Props.C13
