import Ivy.L3.WorkProofs
/-!
# C13 — pool shutdown and iv_thread lifetime: drain, paired hooks, join, release

Property theorems only (same LTS as C12, `Ivy/L3/Work.lean`, plus the `TSt` model of one iv_thread).
-/
namespace Ivy.Props.C13
open Ivy.Work

/-- `iv_work_pool_put` clears the user's handle at once and marks the pool shutting down; queued and finished items
are untouched (nothing is cancelled). -/
theorem put_effect {s s' : St} (hs : step s .put = some s') :
    s'.handle = false ∧ s'.shut = true ∧ s'.queue = s.queue ∧ s'.done = s.done ∧ s'.it = s.it ∧ s'.ni = s.ni :=
  Proofs.put_effect hs

/-- After put, once the library can do nothing more: every item submitted before the put has completed, every worker
thread has been joined, the pool has been freed and the owner's loop holds no object of this pool any more
(both pool events and every `dead` event unregistered), so `iv_main` can return. -/
theorem drained {s : St} (h : Inv s) (hsh : s.shut = true) (hst : Stuck s) :
    (∀ i, i < s.ni → (s.it i).phase = .completed) ∧ (∀ k, k < s.nw → (s.w k).pc = .joined) ∧ s.freed = true ∧
    poolObjs s = 0 := Proofs.drained h hsh hst

/-- thread_start and thread_stop as a function of the worker's life-cycle stage: start called exactly once from
stage 1 on, stop exactly once from stage 3 (died) on, never a stop without a start. -/
theorem hooks_paired {s : St} (h : Inv s) {k : Nat} (hk : k < s.nw) :
    (s.w k).starts = (if 1 ≤ (s.w k).pc.rank then 1 else 0) ∧ (s.w k).stops = (if 3 ≤ (s.w k).pc.rank then 1 else 0) ∧
    (s.w k).stops ≤ (s.w k).starts := Proofs.hooks_paired h hk

/-- A worker only moves forward through its life cycle (not started, thread_start called, serving, thread_stop
called, exited, joined), one stage per step: so each hook is called exactly once, stop after start, then the
thread exits and is joined. -/
theorem lifecycle_step {s s' : St} {a : Act} (hs : step s a = some s') {k : Nat} (hk : k < s.nw) :
    (s.w k).pc.rank ≤ (s'.w k).pc.rank ∧ (s'.w k).pc.rank ≤ (s.w k).pc.rank + 1 := Proofs.rank_step hs hk

/-- The last worker posts the owner: whenever a shutting-down pool has no thread left and is not yet freed, the
owner's event is owed or the owner is already inside iv_work_event. -/
theorem owner_owed_when_last_worker_gone {s : St} (h : Inv s) (hsh : s.shut = true) (h0 : s.started = 0)
    (hf : s.freed = false) : s.evOwed = true ∨ s.owner = .evPre ∨ ∃ b, s.owner = .compl b := h.shut_ev hsh h0 hf

/-- The pool's two events are unregistered exactly at the owner's shutting_down test with `started = 0 ∧ done = []`,
never before: at that moment nothing is queued, every item has completed and no worker is alive. -/
theorem free_exact {s s' : St} {a : Act} (h : Inv s) (hs : step s a = some s') (hf : s.freed = false) (hf' : s'.freed = true) :
    a = .oFinish ∧ s.shut = true ∧ s.started = 0 ∧ s.done = [] ∧ s.queue = [] ∧
    (∀ i, i < s.ni → (s.it i).phase = .completed) ∧ (∀ k, k < s.nw → (s.w k).pc.live = false) :=
  Proofs.free_exact h hs hf hf'

/-- While not freed the pool holds the owner's loop open with its two events; each worker's `dead` event is
registered from its creation until its join. -/
theorem loop_objects {s : St} (h : Inv s) :
    (s.freed = false → 2 ≤ poolObjs s) ∧ (∀ k, k < s.nw → ((s.w k).deadReg = true ↔ (s.w k).pc ≠ .joined)) ∧
    (∀ k, k < s.nw → ((s.w k).deadOwed = true ↔ (s.w k).pc = .exited)) :=
  Proofs.loop_objects h

/-- iv_thread: for every way the body ends, in every reachable state: `dead` is registered in the creator from
create until the join, it is owed exactly between the thread's exit (TLS destructor) and the join, and posted at
most once. -/
theorem thread_inv {m : ExitMode} {s : TSt} (hr : TReach m s) :
    (s.deadReg = true ↔ s.pc ≠ .joined) ∧ (s.deadOwed = true ↔ s.pc = .exited) ∧
    s.posts = (if s.pc = .exited ∨ s.pc = .joined then 1 else 0) ∧ s.fault = false :=
  ⟨(Proofs.treach_inv hr).1.dead_reg, (Proofs.treach_inv hr).1.dead_owed, (Proofs.treach_inv hr).1.posts_eq, (Proofs.treach_inv hr).1.nofault⟩

/-- iv_thread: whichever way the body ends (return, pthread_exit, with or without iv_deinit, never initialised),
a thread that can make no further step has been joined, `dead` was posted exactly once and is unregistered, and
its loop state (if any) was deinitialised exactly once. -/
theorem thread_joined {m : ExitMode} {s : TSt} (hr : TReach m s) (hst : TStuck s) :
    s.pc = .joined ∧ s.deadReg = false ∧ s.posts = 1 ∧ s.ivState = false ∧ s.deinits = (if s.mode = .noInit then 0 else 1) ∧
    s.fault = false :=
  Proofs.thread_joined (Proofs.treach_inv hr).1 hst

/-- FINDING (negative result, true of the code as it is).  The statement "a created thread never makes the library
touch freed memory" is false once the creator may leave its loop with `iv_quit` and call `iv_deinit` while the thread
is still alive — a situation `iv_thread_tls_deinit_thread` explicitly provides for by detaching the thread: `dead`
stays registered in the creator's iv_state, that state is freed, and the exiting thread's destructor posts to it.
Witness, for every way the body ends: the thread runs, the creator deinitialises, the body ends, the destructor runs. -/
theorem finding_creator_deinit_uaf (m : ExitMode) :
    ∃ s, ([TAct.run, .creatorDeinit] ++ (if m.deinits then [TAct.deinit] else []) ++ [TAct.leave, .destruct]).foldlM tstep
      { mode := m } = some s ∧ s.fault = true ∧ s.deadReg = true := by
  cases m <;> simp [ExitMode.deinits] <;> decide

/-- Non-vacuity: put while the single worker is parked idle: the worker is kicked, dies (thread_stop), posts the
owner, exits and is joined; the owner frees the pool. -/
example :
    (([Act.submit, .wStart 0, .wSelfKick 0, .wKick 0, .wEnter 0, .wAfter 0, .put, .wKick 0, .wEnter 0, .wExit 0,
       .oEv, .oSteal, .oComplete, .oFinish, .oJoin 0] : List Act).foldlM step (St.init 2)).map
      (fun s => s.freed && !s.handle && (s.w 0).pc == .joined && (s.w 0).starts == 1 && (s.w 0).stops == 1 &&
                poolObjs s == 0 && (s.it 0).phase == .completed) = some true := by decide

/-- Non-vacuity (iv_thread): a body that returns without iv_deinit. -/
example : (([TAct.run, .leave, .destruct, .died] : List TAct).foldlM tstep { mode := .retNoDeinit }).map
    (fun s => s.pc == .joined && !s.deadReg && s.posts == 1 && s.deinits == 1) = some true := by decide

end Ivy.Props.C13
