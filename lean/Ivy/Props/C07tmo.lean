import Ivy.L1.ProofsC07tmo
/-!
# C07, timeout clause — "a wake-up on a timeout dispatches the timer that was waited for; the loop does not poll
repeatedly with a zero timeout"

Model-side soundness of the implementation-side oracle `Ivy.Mon.C07.tmoVerdict` (run on every log of the real
implementation).  Definitions and proofs live in `Ivy/L1/ProofsC07tmo.lean`.

## The timeout contract `tmoContract evs` (a Bool over the trace, `monOk ctrStep {}`)

State `CSt = (last, pend, due)`, all in nanoseconds:
* `Input.time t` sets `last := ns t` (`last = 0` initially, like the machine's `time = ⟨0,0⟩`).  The machine computes
  every timeout from its cached `time`, which is always the last `Input.time` (proved: `Inv.clock`), so `last` is
  "the clock value the machine used to compute the timeout".
* `Out.wait _ to …` sets `pend := last + v` for `to = .ns v`, `last + v·10⁶` for `to = .ms v` (`v > 0`), else `none`.
* `Input.wret (.events [])` sets `due := pend`; any other wait result clears `pend` (and a non-empty result `due`).
* THE ONLY REQUIREMENT: an `Input.time t` while `due = some d` must satisfy `d ≤ ns t` (then `due := none`).
So: after a wait with a finite non-zero timeout came back empty, the next clock reading is at or after
(clock value the timeout was computed from) + (the timeout).  Nothing is assumed after `EINTR`, `ENOSYS`, non-empty
results, unbounded waits or zero-timeout polls.  Clock monotonicity is part of `envOk` already (and not needed).

## What holds

* Part (a) (a timed-out wait is followed by a callback before the next wait) holds EXCEPT when `to_msec` capped the
  timeout at 86 400 000 ms (`poll` / `epoll_wait` with the earliest timer more than 24 h away): the loop then
  legitimately wakes up after 24 h, finds nothing due and waits again — `day_cap_rejected` is that trace, accepted
  by the contract and rejected by `tmoVerdict`.  FULL STATEMENT (false):
  `Exec (St.init …) evs s' → tmoContract evs = true → tmoVerdict evs = none`.
  Proved instead: `tmo_sound_partial` (the same with the scope restriction `noDayCap evs`: no `.ms v` wait with
  `v ≥ 86 400 000`), and `tmo_cap_sound` (no restriction) for the corrected oracle `tmoCapVerdict`, which differs
  from `tmoVerdict` only in treating a millisecond wait at the cap like an unbounded wait (`Ivy.Mon.C07.tmoStepC`, the oracle the checks run; it started as the
  proposed edit of `Mon.C07.tmoStep`).
* Part (b) holds in full: the counter `zeros` never exceeds 2 (`tmo_zeros_le_two`), so the third consecutive empty
  zero-timeout poll never happens.  2 is reached (`zeros_two_reached`), but only through the `ppoll → poll`
  fallback after `ENOSYS`, which re-reads the clock between the two polls; on traces without an `ENOSYS` answer
  the bound is 1 (`tmo_zeros_le_one`).  The tolerance `zeros ≥ 2` of `tmoStep` is therefore exactly right under
  the weak kernel contract `envOk` (which lets `ENOSYS` come at any time).
-/
namespace Ivy.Props.C07tmo
open Ivy.L1 Ivy.L1.ProofsC07tmo
open Ivy.Mon.C07 (TmoSt tmoStep tmoVerdict tmoStepC tmoCapVerdict)

/-- Every trace of the machine from an initial state on which the environment keeps the timeout contract, and on
which no millisecond wait is at the 24 h cap of `to_msec`, is accepted by the timeout-progress oracle. -/
theorem tmo_sound_partial (m : Method) (ntimers : Nat) (timerfdAvail pwait2 : Bool) (evs : List Ev) (s' : St)
    (h : Exec (St.init m ntimers timerfdAvail pwait2) evs s') (hc : tmoContract evs = true)
    (hcap : noDayCap evs = true) : tmoVerdict evs = none :=
  tmo_accepts m ntimers timerfdAvail pwait2 evs s' h hc hcap

/-- On the same traces the oracle's count of consecutive empty zero-timeout polls without a callback never
exceeds 2 (every prefix of a trace is a trace): the tolerance `zeros ≥ 2` of `tmoStep` is exactly what the model
supports. -/
theorem tmo_zeros_le_two (m : Method) (ntimers : Nat) (timerfdAvail pwait2 : Bool) (evs : List Ev) (s' : St)
    (h : Exec (St.init m ntimers timerfdAvail pwait2) evs s') (hc : tmoContract evs = true)
    (hcap : noDayCap evs = true) : ∃ μ : TmoSt, runMon tmoStep {} evs = .ok μ ∧ μ.zeros ≤ 2 :=
  tmo_bound m ntimers timerfdAvail pwait2 evs s' h hc hcap

/-- Without an `ENOSYS` answer to a wait (`noEnosys evs`: no `Ev.inp (.wret .enosys)` record, so no `ppoll → poll`
fallback in the middle of a run) the count never exceeds 1: a second consecutive empty zero-timeout poll without a
callback in between does not happen. -/
theorem tmo_zeros_le_one (m : Method) (ntimers : Nat) (timerfdAvail pwait2 : Bool) (evs : List Ev) (s' : St)
    (h : Exec (St.init m ntimers timerfdAvail pwait2) evs s') (hc : tmoContract evs = true)
    (hcap : noDayCap evs = true) (hne : noEnosys evs = true) :
    ∃ μ : TmoSt, runMon tmoStep {} evs = .ok μ ∧ μ.zeros ≤ 1 :=
  tmo_bound_one m ntimers timerfdAvail pwait2 evs s' h hc hcap hne

/-- The corrected oracle (a millisecond wait at the 24 h cap is not a sleep that owes a callback) accepts every
trace of the machine that keeps the timeout contract — no scope restriction. -/
theorem tmo_cap_sound (m : Method) (ntimers : Nat) (timerfdAvail pwait2 : Bool) (evs : List Ev) (s' : St)
    (h : Exec (St.init m ntimers timerfdAvail pwait2) evs s') (hc : tmoContract evs = true) :
    tmoCapVerdict evs = none :=
  tmo_cap_accepts m ntimers timerfdAvail pwait2 evs s' h hc

/-- The corrected oracle and the oracle as it stands agree on every list of records without a millisecond wait
at the cap (in particular on all logs with timers less than 24 h ahead). -/
theorem tmo_cap_agrees (evs : List Ev) (hcap : noDayCap evs = true) : tmoCapVerdict evs = tmoVerdict evs := by
  unfold tmoCapVerdict tmoVerdict runMon
  rw [tmoFold_eq evs {} hcap]

/-! ## non-vacuity -/

/-- state 0: looking for a wait with a finite non-zero timeout; 1: inside one; 2: it came back empty; `true` when
a timer callback is entered in state 2 -/
def timeoutThenTimerCb : List Ev → Nat → Bool
  | [], _ => false
  | e :: r, st =>
    match st, e with
    | _, .out (.wait _ to ..) => timeoutThenTimerCb r (if toPos to then 1 else 0)
    | 1, .inp (.wret (.events [])) => timeoutThenTimerCb r 2
    | 2, .out (.cb (.timer _)) => true
    | st, _ => timeoutThenTimerCb r st

/-- `poll`: a timer 0.5 ms ahead; the timeout is rounded UP to 1 ms; the wait times out; the clock has advanced
by 1 ms; the timer handler runs; `iv_main` returns -/
def nvPoll : List Input :=
  [.api (.timerRegister 0 ⟨1, 500000⟩), .api .main, .time ⟨1, 0⟩, .wret (.events []), .time ⟨1, 1000000⟩, .handlerEnd]

def nvPollTr : List Ev × St := runTrace 100 (St.init .poll 1) nvPoll

/-- the hypotheses of `tmo_sound_partial` are satisfiable by a trace with a timed-out millisecond wait followed by
the timer callback -/
example :
    Exec (St.init .poll 1) nvPollTr.1 nvPollTr.2 ∧ tmoContract nvPollTr.1 = true ∧ noDayCap nvPollTr.1 = true ∧
    nvPollTr.1.any (fun e => match e with | .out (.wait "poll" (.ms 1) ..) => true | _ => false) = true ∧
    timeoutThenTimerCb nvPollTr.1 0 = true ∧ tmoVerdict nvPollTr.1 = none :=
  ⟨runTrace_exec _ _ _, by decide +kernel, by decide +kernel, by decide +kernel, by decide +kernel,
   tmo_sound_partial _ _ _ _ _ _ (runTrace_exec _ _ _) (by decide +kernel) (by decide +kernel)⟩

/-- `epoll_pwait2`: the same with an exact nanosecond timeout -/
def nvEpoll : List Input :=
  [.api (.timerRegister 0 ⟨1, 500000⟩), .api .main, .time ⟨1, 0⟩, .wret (.events []), .time ⟨1, 500000⟩, .handlerEnd]

def nvEpollTr : List Ev × St := runTrace 100 (St.init .epoll 1) nvEpoll

example :
    Exec (St.init .epoll 1) nvEpollTr.1 nvEpollTr.2 ∧ tmoContract nvEpollTr.1 = true ∧
    nvEpollTr.1.any (fun e => match e with | .out (.wait "epoll_pwait2" (.ns 500000) ..) => true | _ => false) = true ∧
    timeoutThenTimerCb nvEpollTr.1 0 = true ∧ tmoVerdict nvEpollTr.1 = none :=
  ⟨runTrace_exec _ _ _, by decide +kernel, by decide +kernel, by decide +kernel,
   tmo_sound_partial _ _ _ _ _ _ (runTrace_exec _ _ _) (by decide +kernel) (by decide +kernel)⟩

/-- the oracle rejects a loop that rounds its timeout down: 20 ms wait, empty result, and instead of a callback a
zero-timeout poll -/
example : (tmoVerdict
    [.inp (.api (.timerRegister 0 ⟨1, 20500000⟩)), .out (.ret 0), .inp (.api .main), .inp (.time ⟨1, 0⟩),
     .out (.wait "poll" (.ms 20) [] none none), .inp (.wret (.events [])), .inp (.time ⟨1, 20000000⟩),
     .out (.wait "poll" (.ms 0) [] none none)]).isSome = true := by decide

/-- … and a loop that polls three times in a row with a zero timeout without dispatching anything -/
example : (tmoVerdict
    [.out (.wait "epoll_wait" (.ms 0) [] none none), .inp (.wret (.events [])),
     .out (.wait "epoll_wait" (.ms 0) [] none none), .inp (.wret (.events [])),
     .out (.wait "epoll_wait" (.ms 0) [] none none), .inp (.wret (.events []))]).isSome = true := by decide

/-- the contract cannot be dropped: the same machine trace as `nvPoll`, but the clock has not advanced when the
wait times out (a legal environment under `envOk`): nothing is due, the loop waits again, the oracle rejects -/
def lazyClock : List Input :=
  [.api (.timerRegister 0 ⟨1, 500000⟩), .api .main, .time ⟨1, 0⟩, .wret (.events []), .time ⟨1, 0⟩]

def lazyTr : List Ev × St := runTrace 100 (St.init .poll 1) lazyClock

theorem contract_needed :
    Exec (St.init .poll 1) lazyTr.1 lazyTr.2 ∧ noDayCap lazyTr.1 = true ∧ tmoContract lazyTr.1 = false ∧
    (tmoVerdict lazyTr.1).isSome = true :=
  ⟨runTrace_exec _ _ _, by decide +kernel, by decide +kernel, by decide +kernel⟩

/-- the scope restriction cannot be dropped for the oracle as it stands: `poll`, one timer 200 000 s ahead; the
timeout is capped at 86 400 000 ms, the wait times out, the clock has advanced by exactly 24 h, nothing is due and
the loop waits again.  The trace keeps the contract, `tmoVerdict` rejects it, the corrected oracle accepts it. -/
def capInputs : List Input :=
  [.api (.timerRegister 0 ⟨200000, 0⟩), .api .main, .time ⟨0, 0⟩, .wret (.events []), .time ⟨86400, 0⟩]

def capTr : List Ev × St := runTrace 100 (St.init .poll 1) capInputs

theorem day_cap_rejected :
    Exec (St.init .poll 1) capTr.1 capTr.2 ∧ tmoContract capTr.1 = true ∧ noDayCap capTr.1 = false ∧
    (tmoVerdict capTr.1).isSome = true ∧ tmoCapVerdict capTr.1 = none :=
  ⟨runTrace_exec _ _ _, by decide +kernel, by decide +kernel, by decide +kernel,
   tmo_cap_sound _ _ _ _ _ _ (runTrace_exec _ _ _) (by decide +kernel)⟩

/-- the bound 2 of `tmo_zeros_le_two` is reached.  `ppoll`; the handler of event 1 posts event 1 again (task 0 is
queued for the next round) and unregisters it: a zero-timeout `ppoll` comes back empty and task 0 finds nothing
pending (first empty zero poll, no callback); the next `ppoll` (9 s) fails with `ENOSYS`, the loop falls back to
`poll`, reads the clock again — now past the timer's expiry — and polls with 0 ms (second empty zero poll); then the
timer handler runs. -/
def fbInputs : List Input :=
  [.api (.evRegister 1 true), .api (.taskRegister 1), .api (.timerRegister 0 ⟨10, 0⟩), .api .main, .time ⟨1, 0⟩,
   .api (.evPost 1), .handlerEnd,
   .api (.evPost 1), .api (.evUnregister 1), .handlerEnd,
   .wret (.events []), .time ⟨1, 0⟩,
   .wret .enosys, .time ⟨20, 0⟩, .wret (.events []), .time ⟨20, 0⟩, .handlerEnd]

def fbTr : List Ev × St := runTrace 200 (St.init .ppoll 1) fbInputs

def zerosAfter (evs : List Ev) : Option Nat :=
  match runMon tmoStep {} evs with
  | .ok μ => some μ.zeros
  | .error _ => none

theorem zeros_two_reached :
    Exec (St.init .ppoll 1) fbTr.1 fbTr.2 ∧ tmoContract fbTr.1 = true ∧ noDayCap fbTr.1 = true ∧
    (List.range fbTr.1.length).any (fun n => zerosAfter (fbTr.1.take n) == some 2) = true ∧
    fbTr.1.any (fun e => match e with | .out (.cb (.timer 0)) => true | _ => false) = true ∧
    tmoVerdict fbTr.1 = none :=
  ⟨runTrace_exec _ _ _, by decide +kernel, by decide +kernel, by decide +kernel, by decide +kernel,
   tmo_sound_partial _ _ _ _ _ _ (runTrace_exec _ _ _) (by decide +kernel) (by decide +kernel)⟩

/-- the bound 1 of `tmo_zeros_le_one` is reached: the same run cut before the `ENOSYS` answer (one empty
zero-timeout `ppoll` after which task 0 finds nothing pending, then a 9 s `ppoll`) -/
def fb1Tr : List Ev × St := runTrace 200 (St.init .ppoll 1) (fbInputs.take 12)

theorem zeros_one_reached :
    Exec (St.init .ppoll 1) fb1Tr.1 fb1Tr.2 ∧ tmoContract fb1Tr.1 = true ∧ noDayCap fb1Tr.1 = true ∧
    noEnosys fb1Tr.1 = true ∧ zerosAfter fb1Tr.1 = some 1 ∧
    fb1Tr.1.any (fun e => match e with | .out (.wait "ppoll" (.ns 9000000000) ..) => true | _ => false) = true :=
  ⟨runTrace_exec _ _ _, by decide +kernel, by decide +kernel, by decide +kernel, by decide +kernel,
   by decide +kernel⟩

end Ivy.Props.C07tmo
