import Ivy.L3.PumpProofs
/-!
# C17 — iv_fd_pump relays the byte stream intact and reports its state truthfully

Property theorems only; helper lemmas live in `Ivy/L3/PumpProofs.lean`.
All theorems quantify over every state satisfying `Inv` and every event list (every pattern of
partial reads/writes, EAGAIN, EINTR, EOF, errors), in both transfer modes (`s.splice`).
-/
namespace Ivy.Props.C17
open Ivy.Pump

theorem init_inv (sp re : Bool) : Inv (St.init sp re) := Proofs.init_inv sp re

/-- One `iv_fd_pump_pump` call, whatever the kernel answers, keeps the invariant:
`src = sink ++ buf` (no loss, duplication or reordering), byte count exact,
`full ↔ bytes = BUF_SIZE` in read/write mode, drained when done. Also on the error path. -/
theorem pump_inv (s : St) (evs : List Ev) (h : Inv s) {s' o r e} (hp : pump s evs = some (s', o, r, e)) :
    Inv s' := Proofs.pump_inv s evs h hp

/-- The return value: 0 exactly when the pump is done (EOF seen *and* buffer drained),
−1 exactly when an I/O error (or a zero-length write) was consumed, 1 otherwise. -/
theorem ret_spec (s : St) (evs : List Ev) (h : Inv s) {s' o r e} (hp : pump s evs = some (s', o, r, e)) :
    (r = 0 ∨ r = 1 ∨ r = -1) ∧ (r = 0 ↔ s'.sawFin = 2 ∧ ¬ ∃ ev, ev ∈ evs.take (evs.length - e.length) ∧ isErrEv ev = true) ∧
    (r = -1 ↔ ∃ ev, ev ∈ evs.take (evs.length - e.length) ∧ isErrEv ev = true) :=
  Proofs.ret_spec s evs h hp

/-- The bands requested always reflect the state: input while buffer space remains and no EOF was
seen, output while data is buffered; (0,1) while draining after EOF; (0,0) when done. -/
theorem bands_spec (s : St) (evs : List Ev) (h : Inv s) {s' o r e} (hp : pump s evs = some (s', o, r, e)) (hr : r ≠ -1) :
    ∃ o', o = o' ++ [Out.setBands (s'.sawFin = 0 ∧ s'.full = false) (s'.sawFin ≠ 2 ∧ (s'.sawFin = 1 ∨ s'.bytes ≠ 0))] ∧
      ∀ a b, Out.setBands a b ∉ o' :=
  Proofs.bands_spec s evs h hp hr

/-- While draining after EOF there is always something buffered, so "output wanted" is truthful. -/
theorem draining_nonempty (s : St) (evs : List Ev) (h : Inv s) {s' o r e} (hp : pump s evs = some (s', o, r, e))
    (hr : r ≠ -1) (h1 : s'.sawFin = 1) : s'.bytes ≠ 0 :=
  Proofs.draining_nonempty s evs h hp hr h1

/-- `read` is never issued with a zero count in read/write mode (that would fake an EOF), never
after EOF and never when the buffer is full; `write` is never issued with a zero count. -/
theorem calls_sane (s : St) (evs : List Ev) (h : Inv s) {s' o r e} (hp : pump s evs = some (s', o, r, e)) :
    (∀ c, Out.read c ∈ o → 0 < c ∧ s.sawFin = 0 ∧ s.full = false) ∧ (∀ c, Out.write c ∈ o → 0 < c) :=
  Proofs.calls_sane s evs h hp

/-- EOF is relayed (shutdown issued) only at the moment the pump becomes done, with everything
delivered (`sink = src`), only when requested, and exactly once over any run. -/
theorem shutdown_spec (s : St) (evs : List Ev) (h : Inv s) {s' o r e} (hp : pump s evs = some (s', o, r, e)) :
    (Out.shutdown ∈ o ↔ (s.sawFin ≠ 2 ∧ s'.sawFin = 2 ∧ s.relayEof = true)) ∧
    (s'.sawFin = 2 → s'.sink = s'.src) ∧ (o.count Out.shutdown ≤ 1) :=
  Proofs.shutdown_spec s evs h hp

/-- Once done, always done: further calls return 0, perform no I/O and change nothing. -/
theorem done_stays (s : St) (evs : List Ev) (h : Inv s) (hd : s.sawFin = 2) :
    pump s evs = some ({ s with hasBuf := false }, [Out.setBands false false], 0, evs) :=
  Proofs.done_stays s evs h hd

/-- Whole runs (any number of calls, any event lists): the sink is always a prefix of the source,
and when the last call returned 0 the sink equals the source. -/
theorem run_stream (sp re : Bool) (calls : List (List Ev)) {s rs} (hr : run (St.init sp re) calls = some (s, rs)) :
    Inv s ∧ s.sink <+: s.src ∧ (rs.head? = some 0 → s.sink = s.src) :=
  Proofs.run_stream sp re calls hr

/-- Non-vacuity: a concrete run with partial reads and writes, EINTR, EAGAIN and EOF reaches "done". -/
example : (run (St.init false true)
    [[.rdData [1,2,3], .wrN 2], [.rdEintr, .rdEagain, .wrEagain], [.rdData [4], .wrEintr, .wrN 2], [.rdEof]]).map
      (fun p => (p.1.sink, p.1.sawFin, p.2)) = some ([1,2,3,4], 2, [0, 1, 1, 1]) := by decide

end Ivy.Props.C17
