import Ivy.L3.PumpProofs
import Ivy.L3.PumpCacheProofs
/-!
# C17 — iv_fd_pump relays the byte stream intact and reports its state truthfully

Property theorems only; helper lemmas live in `Ivy/L3/PumpProofs.lean`.
All theorems quantify over every state satisfying `Inv` and every event list (every pattern of
partial reads/writes, EAGAIN, EINTR, EOF, errors), in both transfer modes (`s.splice`).

The single-pump model starts every buffer acquisition from an empty buffer.  The thread-level
theorems at the end (`cache_clean` … `deinit_no_leak`) discharge that assumption: they are about
the thread machine of `Ivy/L3/PumpCache.lean` (per-thread buffer cache with the contents of the
cached buffers, several live pumps, `new`/`pump`/`destroy`/`purge` in any order) and quantify over
all operation sequences from the initial thread state, `m` = initial `splice_available`
(`none` = not probed yet, the real initial value).
-/
namespace Ivy.Props.C17
open Ivy.Pump

theorem init_inv (sp re : Bool) : Inv (St.init sp re) := Proofs.init_inv sp re

/-- One `iv_fd_pump_pump` call, whatever the kernel answers, keeps the invariant:
`src = sink ++ buf` (no loss, duplication or reordering), byte count exact,
`full ↔ bytes = BUF_SIZE` in read/write mode, drained when done. Also on the error path. -/
theorem pump_inv (s : St) (evs : List Ev) (h : Inv s) {s' o r e} (hp : pump s evs = some (s', o, r, e)) :
    Inv s' := Proofs.pump_inv s evs h hp

/-- The return value: 0 exactly when the pump is done (EOF seen *and* buffer drained),
−1 exactly when an I/O error (or a zero-length write) was consumed, 1 otherwise. -/
theorem ret_spec (s : St) (evs : List Ev) (h : Inv s) {s' o r e} (hp : pump s evs = some (s', o, r, e)) :
    (r = 0 ∨ r = 1 ∨ r = -1) ∧ (r = 0 ↔ s'.sawFin = 2 ∧ ¬ ∃ ev, ev ∈ evs.take (evs.length - e.length) ∧ isErrEv ev = true) ∧
    (r = -1 ↔ ∃ ev, ev ∈ evs.take (evs.length - e.length) ∧ isErrEv ev = true) :=
  Proofs.ret_spec s evs h hp

/-- The bands requested always reflect the state: input while buffer space remains and no EOF was
seen, output while data is buffered; (0,1) while draining after EOF; (0,0) when done. -/
theorem bands_spec (s : St) (evs : List Ev) (h : Inv s) {s' o r e} (hp : pump s evs = some (s', o, r, e)) (hr : r ≠ -1) :
    ∃ o', o = o' ++ [Out.setBands (s'.sawFin = 0 ∧ s'.full = false) (s'.sawFin ≠ 2 ∧ (s'.sawFin = 1 ∨ s'.bytes ≠ 0))] ∧
      ∀ a b, Out.setBands a b ∉ o' :=
  Proofs.bands_spec s evs h hp hr

/-- While draining after EOF there is always something buffered, so "output wanted" is truthful. -/
theorem draining_nonempty (s : St) (evs : List Ev) (h : Inv s) {s' o r e} (hp : pump s evs = some (s', o, r, e))
    (hr : r ≠ -1) (h1 : s'.sawFin = 1) : s'.bytes ≠ 0 :=
  Proofs.draining_nonempty s evs h hp hr h1

/-- `read` is never issued with a zero count in read/write mode (that would fake an EOF), never
after EOF and never when the buffer is full; `write` is never issued with a zero count. -/
theorem calls_sane (s : St) (evs : List Ev) (h : Inv s) {s' o r e} (hp : pump s evs = some (s', o, r, e)) :
    (∀ c, Out.read c ∈ o → 0 < c ∧ s.sawFin = 0 ∧ s.full = false) ∧ (∀ c, Out.write c ∈ o → 0 < c) :=
  Proofs.calls_sane s evs h hp

/-- EOF is relayed (shutdown issued) only at the moment the pump becomes done, with everything
delivered (`sink = src`), only when requested, and exactly once over any run. -/
theorem shutdown_spec (s : St) (evs : List Ev) (h : Inv s) {s' o r e} (hp : pump s evs = some (s', o, r, e)) :
    (Out.shutdown ∈ o ↔ (s.sawFin ≠ 2 ∧ s'.sawFin = 2 ∧ s.relayEof = true)) ∧
    (s'.sawFin = 2 → s'.sink = s'.src) ∧ (o.count Out.shutdown ≤ 1) :=
  Proofs.shutdown_spec s evs h hp

/-- Once done, always done: further calls return 0, perform no I/O and change nothing. -/
theorem done_stays (s : St) (evs : List Ev) (h : Inv s) (hd : s.sawFin = 2) :
    pump s evs = some ({ s with hasBuf := false }, [Out.setBands false false], 0, evs) :=
  Proofs.done_stays s evs h hd

/-- Whole runs (any number of calls, any event lists): the sink is always a prefix of the source,
and when the last call returned 0 the sink equals the source. -/
theorem run_stream (sp re : Bool) (calls : List (List Ev)) {s rs} (hr : run (St.init sp re) calls = some (s, rs)) :
    Inv s ∧ s.sink <+: s.src ∧ (rs.head? = some 0 → s.sink = s.src) :=
  Proofs.run_stream sp re calls hr

/-- Non-vacuity: a concrete run with partial reads and writes, EINTR, EAGAIN and EOF reaches "done". -/
example : (run (St.init false true)
    [[.rdData [1,2,3], .wrN 2], [.rdEintr, .rdEagain, .wrEagain], [.rdData [4], .wrEintr, .wrN 2], [.rdEof]]).map
      (fun p => (p.1.sink, p.1.sawFin, p.2)) = some ([1,2,3,4], 2, [0, 1, 1, 1]) := by decide

/-! ## Thread level: the buffer cache and several pumps on one thread -/

/-- Every buffer in the per-thread cache is empty (a splice-mode pipe that still holds bytes is
closed, never cached), and the cache never exceeds MAX_CACHED_BUFS. -/
theorem cache_clean (m : Option Bool) (ops : List Op) {t : Thr} (hr : runT (Thr.init m) ops = some t) :
    (∀ c, c ∈ t.cache → c = []) ∧ t.cache.length ≤ Ivy.Generated.PUMP_MAX_CACHED_BUFS :=
  Proofs.cache_clean m ops hr

/-- What the next `buf_get()` returns is an empty buffer; hence, for a pump with nothing buffered,
the generalised pump call (acquired content in front) is exactly `Ivy.Pump.pump`. -/
theorem acquire_empty (m : Option Bool) (ops : List Op) {t : Thr} (hr : runT (Thr.init m) ops = some t) :
    (bufGet t.cache).1 = [] ∧
      ∀ (s : St) (evs : List Ev), s.buf = [] → pumpWith (bufGet t.cache).1 s evs = pump s evs :=
  Proofs.acquire_empty m ops hr

/-- Isolation: every live pump on the thread satisfies `Inv` (`src = sink ++ buf` for its own
source: no byte of another pump's stream ever reaches its sink), whatever other pumps did before
or in between (including ending with an error while holding data), and runs in the thread's
transfer mode; no NULL buffer is ever used. -/
theorem pump_isolation (m : Option Bool) (ops : List Op) {t : Thr} (hr : runT (Thr.init m) ops = some t) :
    t.fault = false ∧ ∀ k p, (k, p) ∈ t.slots → Inv p.st ∧ t.splice = some p.st.splice :=
  Proofs.pump_isolation m ops hr

/-- `run_stream` for every pump of the thread: its sink is a prefix of its own source, and equal to
it when its last pump call returned 0. -/
theorem thread_stream (m : Option Bool) (ops : List Op) {t : Thr} (hr : runT (Thr.init m) ops = some t) :
    ∀ k p, (k, p) ∈ t.slots → p.st.sink <+: p.st.src ∧ (p.last = some 0 → p.st.sink = p.st.src) :=
  Proofs.thread_stream m ops hr

/-- Bookkeeping: buffers in existence (allocated − freed) = live pumps holding one + cached ones. -/
theorem no_buffer_leak (m : Option Bool) (ops : List Op) {t : Thr} (hr : runT (Thr.init m) ops = some t) :
    t.allocs = t.frees + held t.slots + t.cache.length :=
  Proofs.no_buffer_leak m ops hr

/-- Thread deinit: destroying every live pump and then `buf_purge` always succeeds and leaves no
buffer in existence (every allocation freed), no pump and an empty cache. -/
theorem deinit_no_leak (m : Option Bool) (ops : List Op) {t : Thr} (hr : runT (Thr.init m) ops = some t) :
    ∃ t', runT t (t.slots.map (fun kv => Op.destroy kv.1) ++ [Op.purge]) = some t' ∧
      t'.slots = [] ∧ t'.cache = [] ∧ t'.allocs = t'.frees :=
  Proofs.deinit_no_leak m ops hr

/-- Non-vacuity: splice mode chosen by the probe (which leaves two empty pipes cached); pump 0 takes
one, hits a write error with three bytes in its pipe (that pipe is closed, not cached) and is
destroyed; pump 1 then takes the other cached pipe, relays its own data intact in two partial
writes and finishes; its pipe goes back to the cache, which is clean; 2 buffers were allocated,
1 freed, 1 is cached. -/
example : (runT (Thr.init none)
    [.new 0 true true, .pump 0 [.rdData [1,2,3], .wrErr], .destroy 0,
     .new 1 true true, .pump 1 [.rdData [7,8], .wrN 1], .pump 1 [.rdEof, .wrN 1]]).map
      (fun t => t.slots.map (fun kv => (kv.1, kv.2.st.sink, kv.2.st.src, kv.2.last)) == [(1, [7,8], [7,8], some 0)]
                && t.cache == [[]] && t.allocs == 2 && t.frees == 1)
    = some true := by decide

/-- The generalisation is real: from a (not reachable) thread state whose cache holds a pipe with
stale bytes [1,2,3], the next pump delivers the stale bytes [1,2] instead of its own [7,8], reports
done, and the pipe goes back to the cache with [3,7,8] in it — what the real code would do. -/
example : (runT { Thr.init (some true) with cache := [[1,2,3]], allocs := 1 }
    [.new 1 true true, .pump 1 [.rdData [7,8], .wrN 2], .pump 1 [.rdEof]]).map
      (fun t => (t.slots.map (fun kv => (kv.2.st.sink, kv.2.st.src, kv.2.last)), t.cache.head?))
    = some ([([1,2], [7,8], some 0)], some [3,7,8]) := by decide

end Ivy.Props.C17
