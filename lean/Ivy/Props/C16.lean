import Ivy.L0.AvlProofs
/-!
# C16 — the AVL tree stays a correct balanced ordered set under any history

Property theorems only; every helper lemma lives in `Ivy/L0/AvlProofs.lean`.
The model (`Ivy/L0/Avl.lean`) keeps the stored height field and the early stop
of `rebalance_path`, so "stop when the height is unchanged" is proved safe here.
-/
namespace Ivy.Props.C16
open Ivy.Avl

/-- Inserting an absent key succeeds, keeps the invariant (ordered, stored heights
exact, balanced) and adds exactly that key. -/
theorem insert_new (t : Tree) (x : Int) (h : Inv t) (hx : x ∉ toList t) :
    ∃ t', insert x t = some (t', 0) ∧ Inv t' ∧ ∀ y, y ∈ toList t' ↔ (y = x ∨ y ∈ toList t) :=
  Proofs.insert_new t x h hx

/-- Inserting a key already present fails with −1 and leaves the tree identical. -/
theorem insert_dup (t : Tree) (x : Int) (h : Inv t) (hx : x ∈ toList t) :
    insert x t = some (t, -1) :=
  Proofs.insert_dup t x h hx

/-- Deleting a present key never faults, keeps the invariant and removes exactly that key. -/
theorem delete_mem (t : Tree) (x : Int) (h : Inv t) (hx : x ∈ toList t) :
    ∃ t', delete x t = some t' ∧ Inv t' ∧ ∀ y, y ∈ toList t' ↔ (y ≠ x ∧ y ∈ toList t) :=
  Proofs.delete_mem t x h hx

/-- Stored heights are the real heights, and the height is logarithmic in the size. -/
theorem height_exact (t : Tree) (h : Bal t) : height t = realHeight t :=
  Proofs.height_exact t h

theorem height_log (t : Tree) (h : Bal t) : 2 ^ (height t / 2) ≤ size t + 1 :=
  Proofs.height_log t h

/-- Every valid history (any length, any keys, duplicates included) runs without a
fault, ends in a tree satisfying the invariant whose traversal is strictly
increasing and visits exactly the inserted-and-not-deleted keys. -/
theorem history (ops : List Op) (hv : ValidHist ops) :
    ∃ t rcs, runHist ops = some (t, rcs) ∧ Inv t ∧ ∀ y, y ∈ toList t ↔ specMem ops y :=
  Proofs.history ops hv

/-- Non-vacuity: a concrete history with a duplicate insert, interior deletions and
rotations satisfies the hypothesis. -/
example : ValidHist [.del 4, .ins 4, .del 2, .ins 7, .ins 6, .ins 5, .ins 4, .ins 3, .ins 2, .ins 2, .ins 1] := by
  simp [ValidHist, specMem]

end Ivy.Props.C16
