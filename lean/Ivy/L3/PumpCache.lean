import Ivy.L3.PumpSpec
/-!
Thread level of /repo/src/iv_fd_pump.c: the per-thread buffer cache (`buf_get`, `buf_put`,
`buf_purge`, `check_splice_available`) and several pumps living on one thread.

`Ivy/L3/Pump.lean` models one pump and writes `hasBuf := true` when the pump acquires a buffer,
silently assuming that buffer to be empty.  Here that assumption is discharged: the *content* of
every cached buffer is part of the thread state (`cache`, most recently put first, as
`iv_list_add` puts at the head and `__buf_dequeue` takes from the head), and a pump that acquires
a buffer has buffered whatever that buffer contains (`pumpWith`), so that stale
bytes — if the cache ever held a non-empty pipe — really flow to the pump's sink in the model,
exactly as `splice(pipe → to_fd, bytes)` takes the first `bytes` bytes of the kernel pipe.

Content of a buffer: in splice mode the bytes in the kernel pipe.  In read/write mode the memory
of a cached buffer is irrelevant (`ip->bytes` restarts at 0 and only `buf[0..bytes)` is ever
written out), so it is modelled as `[]`.

Not modelled: `malloc`/`pipe2` failure.  API precondition kept from `Ivy.Pump.run`: after a pump
call returned −1 the only call made on that pump is `iv_fd_pump_destroy` (`pumpOp` on a broken
slot is not an execution).
-/
namespace Ivy.Pump
open Ivy.Generated

def MAX_CACHED_BUFS : Nat := PUMP_MAX_CACHED_BUFS

/-- contents of the cached buffers, most recently put first -/
abbrev Cache := List (List Nat)

/-- `buf_get`: (content of the buffer obtained, remaining cache, freshly allocated?) -/
def bufGet : Cache → List Nat × Cache × Bool
  | c :: rest => (c, rest, false)      -- `__buf_dequeue`: head of the list
  | [] => ([], [], true)               -- `buf_alloc`: new buffer / new (empty) pipe

/-- `buf_put(buf, bytes)`: (cache afterwards, was the buffer freed?) -/
def bufPut (splice : Bool) (cache : Cache) (content : List Nat) (bytes : Nat) : Cache × Bool :=
  if splice && bytes != 0 then (cache, true)                           -- pipe still holds data: close it
  else if cache.length < MAX_CACHED_BUFS then (content :: cache, false) -- `iv_list_add`: at the head
  else (cache, true)

/-- does this call of `iv_fd_pump_pump` call `buf_get`?  `iv_fd_pump_try_input` is entered when
`!ip->full && ip->saw_fin == 0`, and it acquires a buffer when `ip->buf == NULL`. -/
def acquires (s : St) : Bool := !s.hasBuf && (!s.full && s.sawFin == 0)

/-- `iv_fd_pump_pump` where the buffer acquired (if one is acquired) holds `content`: a pump that
calls `buf_get` holds no buffer, so what it then has buffered is what the acquired buffer contains
(`St.buf` of a pump without buffer is only a ghost of what was lost with an error). -/
def pumpWith (content : List Nat) (s : St) (evs : List Ev) : Option (St × List Out × Int × List Ev) :=
  pump (if acquires s then { s with buf := content } else s) evs

/-- a live pump on the thread -/
structure Slot where
  st : St
  broken : Bool          -- its last pump call returned −1
  last : Option Int      -- return value of its last pump call
deriving Repr, DecidableEq

structure Thr where
  splice : Option Bool   -- `splice_available`: none = −1 (not probed yet)
  cache : Cache
  slots : List (Nat × Slot)
  allocs : Nat           -- ghost: successful `buf_alloc` calls
  frees : Nat            -- ghost: `__buf_free` calls
  fault : Bool           -- a NULL `ip->buf` was dereferenced
deriving Repr, DecidableEq

def Thr.init (m : Option Bool) : Thr :=
  { splice := m, cache := [], slots := [], allocs := 0, frees := 0, fault := false }

/-- truth value of `splice_available` as the C conditions read it (−1 is true) -/
def Thr.spl (t : Thr) : Bool := t.splice != some false

def getSlot : List (Nat × Slot) → Nat → Option Slot
  | [], _ => none
  | (k', p) :: l, k => if k' = k then some p else getSlot l k

def updSlot : List (Nat × Slot) → Nat → Slot → List (Nat × Slot)
  | [], _, _ => []
  | (k', p) :: l, k, v => if k' = k then (k', v) :: l else (k', p) :: updSlot l k v

def delSlot : List (Nat × Slot) → Nat → List (Nat × Slot)
  | [], _ => []
  | (k', p) :: l, k => if k' = k then l else (k', p) :: delSlot l k

/-- number of live pumps holding a buffer -/
def held : List (Nat × Slot) → Nat
  | [] => 0
  | (_, p) :: l => (if p.st.hasBuf then 1 else 0) + held l

/-- `buf_get()` on the thread state -/
def Thr.get (t : Thr) : List Nat × Thr :=
  let g := bufGet t.cache
  (g.1, { t with cache := g.2.1, allocs := t.allocs + (if g.2.2 then 1 else 0) })

/-- `buf_put(buf, bytes)` on the thread state -/
def Thr.put (t : Thr) (content : List Nat) (bytes : Nat) : Thr :=
  let r := bufPut t.spl t.cache content bytes
  { t with cache := r.1, frees := t.frees + (if r.2 then 1 else 0) }

/-- what a buffer released by a pump in state `s` contains -/
def contentOf (t : Thr) (s : St) : List Nat := if t.spl then s.buf else []

/-- `check_splice_available`; `ok` = the pipe-to-pipe probe splice returned EAGAIN -/
def probe (t : Thr) (ok : Bool) : Thr :=
  let t := { t with splice := some true, allocs := t.allocs + 2 }
  if ok then (t.put [] 0).put [] 0
  else { t with splice := some false, frees := t.frees + 2 }

inductive Op where
  | new (slot : Nat) (relay : Bool) (probeOk : Bool)
  | pump (slot : Nat) (evs : List Ev)
  | destroy (slot : Nat)
  | purge                              -- `buf_purge` (thread deinit)
  | setMode (m : Option Bool)          -- harness only: force `splice_available` on an idle thread
deriving Repr, DecidableEq

/-- a pump just initialised -/
def Slot.fresh (splice relay : Bool) : Slot := { st := St.init splice relay, broken := false, last := none }

/-- `iv_fd_pump_init` -/
def newOp (t : Thr) (k : Nat) (relay probeOk : Bool) : Option (Thr × List Out) :=
  match getSlot t.slots k with
  | some _ => none
  | none =>
    let t1 := if t.splice.isNone then probe t probeOk else t
    some ({ t1 with slots := (k, Slot.fresh (t1.splice == some true) relay) :: t1.slots }, initOuts)

/-- start of `iv_fd_pump_try_input`: `buf_get()` when the pump has no buffer -/
def acquireT (t : Thr) (s : St) : List Nat × Thr := if acquires s then t.get else ([], t)

/-- end of `iv_fd_pump_pump`: `if (ret < 0 || !ip->bytes) { if (buf != NULL) buf_put(buf, ip->bytes); … }`.
`s` is the pump before the call, `s'` after it (`pump` has cleared `hasBuf` when the condition held). -/
def releaseT (t : Thr) (s s' : St) : Thr :=
  if (s.hasBuf || acquires s) && !s'.hasBuf then t.put (contentOf t s') s'.bytes else t

def Thr.setSlot (t : Thr) (k : Nat) (v : Slot) : Thr := { t with slots := updSlot t.slots k v }

/-- `iv_fd_pump_pump` on the pump in slot `k` -/
def pumpOp (t : Thr) (k : Nat) (evs : List Ev) : Option (Thr × List Out × Int) :=
  match getSlot t.slots k with
  | none => none
  | some p =>
    if p.broken then none else
    -- `iv_fd_pump_try_output` with `ip->buf == NULL`
    if !p.st.hasBuf && !acquires p.st && p.st.bytes != 0 then some ({ t with fault := true }, [], -1) else
    match pumpWith (acquireT t p.st).1 p.st evs with
    | some (s', outs, r, []) =>
      some ((releaseT (acquireT t p.st).2 p.st s').setSlot k { st := s', broken := r == -1, last := some r },
            outs, r)
    | _ => none

/-- `iv_fd_pump_destroy` -/
def destroyOp (t : Thr) (k : Nat) : Option (Thr × List Out) :=
  match getSlot t.slots k with
  | none => none
  | some p =>
    let t1 := if p.st.hasBuf then t.put (contentOf t p.st) p.st.bytes else t
    some ({ t1 with slots := delSlot t1.slots k }, (destroy p.st).2)

/-- `buf_purge` -/
def purgeOp (t : Thr) : Thr := { t with cache := [], frees := t.frees + t.cache.length }

def step (t : Thr) : Op → Option (Thr × List Out × Option Int)
  | Op.new k relay ok => if t.fault then none else (newOp t k relay ok).map fun (t', o) => (t', o, none)
  | Op.pump k evs => if t.fault then none else (pumpOp t k evs).map fun (t', o, r) => (t', o, some r)
  | Op.destroy k => if t.fault then none else (destroyOp t k).map fun (t', o) => (t', o, none)
  | Op.purge => if t.fault then none else some (purgeOp t, [], none)
  | Op.setMode m =>
    if t.fault then none else
    if t.slots.isEmpty && t.cache.isEmpty then some ({ t with splice := m }, [], none) else none

def runT (t : Thr) : List Op → Option Thr
  | [] => some t
  | op :: rest =>
    match step t op with
    | some (t', _, _) => runT t' rest
    | none => none

/-- thread invariant -/
structure TInv (t : Thr) : Prop where
  clean : ∀ c, c ∈ t.cache → c = []
  bound : t.cache.length ≤ MAX_CACHED_BUFS
  pumps : ∀ kv, kv ∈ t.slots → Inv kv.2.st
  idle : ∀ kv, kv ∈ t.slots → kv.2.broken = false → kv.2.st.hasBuf = false → kv.2.st.bytes = 0
  last0 : ∀ kv, kv ∈ t.slots → kv.2.last = some 0 → kv.2.st.sawFin = 2
  count : t.allocs = t.frees + held t.slots + t.cache.length
  nofault : t.fault = false
  mode : ∀ kv, kv ∈ t.slots → t.splice = some kv.2.st.splice   -- every pump runs in the thread's transfer mode

end Ivy.Pump
