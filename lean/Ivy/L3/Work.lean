/-
Model of /repo/src/iv_work.c (work pools) and of the part of /repo/src/iv_thread_posix.c it relies on,
as a labelled transition system.

One `St` is one pool instance: the fields the C code keeps under `pool->lock`, one program counter per
worker thread and one for the owner thread, at the granularity of the critical sections of iv_work.c:
every `Act` is one critical section (or one lock-free handler entry) and is atomic because the pool lock
is held for its whole duration; the order of operations inside each action follows the C text.

Events (`iv_event`) are used through their specification (C08): `iv_event_post` on a registered event makes
a later handler run in the owning thread "owed"; a post on an event that is already owed is absorbed; the
flag is cleared when the owner's loop takes the event off its list to run the handler (from then on a post is a
new delivery); `iv_event_unregister` cancels an owed run.  `kickOwed`,
`evOwed`, `tnOwed`, `deadOwed` are these flags for `thr->kick`, `pool->ev`, `pool->thread_needed` and
iv_thread's `dead`.  Timers: `timerReg` = the worker's idle timer is registered; its expiry (10 s without
being unregistered) is the environment action `wTimeout`.

Sequence numbers are `Nat` (the C uses uint32_t and compares by signed difference; the model is exact as
long as fewer than 2^31 items are outstanding).  List removal of a node is `filter (· ≠ k)` (list nodes are
unique).  Where the C would call `iv_fatal` (die on a kicked thread / a thread still on the idle list,
unregistering an unregistered timer, registering a registered timer) or take from an empty list, the model
sets `fatal`.  Thread creation is assumed to succeed.  Work items are numbered in submission order (an
`iv_work_item` structure may be reused once its completion has been called; each submission is a new number).

Submitters.  `iv_work_submit_pool` distinguishes only "called in the owner thread" from "called in any other thread"
(`called_from_owner_thread`).  `submit` is the first, `submitc k` and `submitf` are the second: `submitc k` is the
call made by worker k of this pool from inside a work function, `submitf` ("foreign") is the call made by any other
thread that is not the owner: in practice a worker of ANOTHER pool running one of that pool's work functions, or one
of this pool's workers inside a `thread_start` hook.  Both have the same effect (`enqueue s false`): enqueue under the
pool lock, kick the first idle worker and mark it `kicked`, else below `max_threads` post `thread_needed` to the owner;
a non-owner never starts a thread itself.

Environment contract (valid use, the whole of it): the application does not submit to a pool after it called
`iv_work_pool_put` on it (guard `handle = true` of the three submit actions: `put` clears the user's handle), and does
not call `put` while a submission to that pool is in progress (the caller reads `this->priv` before it takes the pool
lock: a submission is ONE action here, never interleaved with `put`).  Nothing else is assumed about a foreign
submitter: any thread, any moment, any number of times, whatever the pool's workers are doing.

History (defect D10, found when the foreign submitter was added).  The pinned code tests
`!pool->started_threads && iv_list_empty(&pool->work_done)` in `iv_work_event` before it frees a shutting-down pool:
`work_items` is not looked at.  A pool without any worker can have an item queued and only `thread_needed` owed (a
foreign continuation).  The owner's events run in posting order, so a fresh pool is safe (`thread_needed` was posted
before put's `ev`), but when `ev` is already pending (or the owner is inside `iv_work_event`) at the moment the last
worker idles out, the order is ev first: witness on the model of the pinned code (oFinish without the `queue = []`
test), for every max ≥ 1:
  submit, wStart 0, wSelfKick 0, wKick 0, wEnter 0, wAfter 0, wTimeout 0, wTimeoutRun 0, submitf, put, oEv, oSteal,
  oComplete, oFinish   ⟶   freed = true with queue = [1]: item 1 never runs, `thread_needed` is unregistered while owed.
Reproduced on the real code: corpus/C13/d10-freed-with-queued-continuation.scn.  The model below is the code after the
one-condition repair (`&& iv_list_empty(&pool->work_items)` in that test); with it no event ordering has to be assumed.
-/
namespace Ivy.Work

/-- where a worker thread is -/
inductive WPc where
  | starting            -- thread created; iv_init, kick not yet registered, thread_start not yet called
  | selfkick            -- kick registered, thread_start called; the start-up `iv_event_post(&thr->kick)` not yet done
  | parked              -- in its iv_main, outside every handler
  | gotPre              -- iv_work_thread_got_event invoked, pool lock not yet taken
  | running (i : Nat)   -- inside the work function of item i (between the unlock and the re-lock)
  | toPre               -- iv_work_thread_idle_timeout invoked, pool lock not yet taken
  | dying               -- __iv_work_thread_die done (kick unregistered, thr freed); leaving iv_main / iv_deinit
  | exited              -- thread function returned; the TLS destructor posted `dead`
  | joined              -- the owner joined it and unregistered `dead`
deriving DecidableEq, Repr

def WPc.live : WPc → Bool
  | .starting | .selfkick | .parked | .gotPre | .running _ | .toPre => true
  | _ => false

def WPc.isRunning : WPc → Bool
  | .running _ => true
  | _ => false

structure Worker where
  pc       : WPc  := .starting
  kicked   : Bool := false     -- thr->kicked
  kickReg  : Bool := false     -- thr->kick registered
  kickOwed : Bool := false     -- thr->kick posted, handler not yet invoked
  timerReg : Bool := false     -- thr->idle_timer registered
  lastSeq  : Nat  := 0         -- last_seq of the current got_event call
  starts   : Nat  := 0         -- ghost: calls of pool->thread_start in this thread
  stops    : Nat  := 0         -- ghost: calls of pool->thread_stop in this thread
  deadReg  : Bool := true      -- iv_thread: this thread's `dead` event is registered in the owner
  deadOwed : Bool := false     -- iv_thread: `dead` posted, iv_thread_died not yet invoked
deriving DecidableEq, Repr

inductive Phase where
  | queued | running | done | completed
deriving DecidableEq, Repr

def Phase.rank : Phase → Nat
  | .queued => 0 | .running => 1 | .done => 2 | .completed => 3

structure Item where
  phase     : Phase := .queued
  workRuns  : Nat := 0        -- ghost: calls of work->work
  complRuns : Nat := 0        -- ghost: calls of work->completion
  worker    : Nat := 0        -- ghost: the worker that took it
deriving DecidableEq, Repr

/-- where the owner thread is -/
inductive OPc where
  | idle                        -- outside the pool's handlers (its loop, or user code)
  | evPre                       -- iv_work_event invoked, pool lock not yet taken
  | compl (batch : List Nat)    -- iv_work_event: running the completions of the stolen list
  | tnPre                       -- iv_work_thread_needed invoked, pool lock not yet taken
deriving DecidableEq, Repr

/-- user code of the owner runs between handlers or inside a completion callback -/
def OPc.user : OPc → Bool
  | .idle | .compl _ => true
  | _ => false

def OPc.batch : OPc → List Nat
  | .compl b => b
  | _ => []

@[simp] theorem OPc.batch_compl (b : List Nat) : (OPc.compl b).batch = b := rfl
@[simp] theorem OPc.batch_idle : OPc.idle.batch = [] := rfl
@[simp] theorem OPc.batch_evPre : OPc.evPre.batch = [] := rfl
@[simp] theorem OPc.batch_tnPre : OPc.tnPre.batch = [] := rfl

structure St where
  max     : Nat                 -- max_threads
  handle  : Bool := true        -- the user's `this->priv` is non-NULL
  freed   : Bool := false       -- pool freed: pool->ev and pool->thread_needed unregistered
  seqHead : Nat := 0
  seqTail : Nat := 0
  queue   : List Nat := []      -- work_items
  done    : List Nat := []      -- work_done
  idle    : List Nat := []      -- idle_threads (first = list head)
  started : Nat := 0            -- started_threads
  shut    : Bool := false       -- shutting_down
  evOwed  : Bool := false
  tnOwed  : Bool := false
  owner   : OPc := .idle
  nw      : Nat := 0            -- workers ever created
  w       : Nat → Worker := fun _ => {}
  ni      : Nat := 0            -- items ever submitted
  it      : Nat → Item := fun _ => {}
  fatal   : Bool := false

def St.init (max : Nat) : St := { max }

inductive Act where
  | submit                 -- owner: iv_work_pool_submit_work / _continuation called in the owner thread
  | submitc (k : Nat)      -- iv_work_pool_submit_continuation from the work function running in worker k
  | submitf                -- iv_work_pool_submit_continuation from any other non-owner thread (a worker of another pool, ...)
  | put                    -- owner: iv_work_pool_put
  | wStart (k : Nat)       -- iv_work_thread up to and including thread_start
  | wSelfKick (k : Nat)    -- iv_work_thread: iv_event_post(&thr->kick)
  | wKick (k : Nat)        -- the worker's loop invokes iv_work_thread_got_event
  | wEnter (k : Nat)       -- got_event: first critical section
  | wAfter (k : Nat)       -- got_event: critical section after a work function returned
  | wTimeout (k : Nat)     -- the idle timer expires: the worker's loop invokes iv_work_thread_idle_timeout
  | wTimeoutRun (k : Nat)  -- idle_timeout: its critical section
  | wExit (k : Nat)        -- the thread function returns, the iv_thread destructor posts `dead`
  | oEv                    -- the owner's loop invokes iv_work_event
  | oSteal                 -- iv_work_event: steals the done list
  | oComplete              -- iv_work_event: calls the next completion
  | oFinish                -- iv_work_event: the shutting_down test (frees the pool or returns)
  | oTn                    -- the owner's loop invokes iv_work_thread_needed
  | oTnRun                 -- iv_work_thread_needed: its critical section
  | oJoin (k : Nat)        -- the owner's loop invokes iv_thread_died for worker k: join, unregister `dead`
deriving DecidableEq, Repr

def setW (s : St) (k : Nat) (f : Worker → Worker) : St :=
  { s with w := fun j => if j = k then f (s.w j) else s.w j }

def setI (s : St) (i : Nat) (f : Item → Item) : St :=
  { s with it := fun j => if j = i then f (s.it j) else s.it j }

/-- `iv_work_start_thread` (called with the pool lock held, in the owner thread) -/
def startThread (s : St) : St :=
  { s with nw := s.nw + 1, started := s.started + 1, w := fun j => if j = s.nw then {} else s.w j }

/-- `iv_work_submit_pool`: `pool->seq_tail++; iv_list_add_tail(&work->list, &pool->work_items)` (the new item gets number `s.ni`) -/
def enq0 (s : St) : St :=
  { s with ni := s.ni + 1, it := fun j => if j = s.ni then {} else s.it j,
           seqTail := s.seqTail + 1, queue := s.queue ++ [s.ni] }

/-- `iv_work_submit_pool` -/
def enqueue (s : St) (byOwner : Bool) : St :=
  let s := enq0 s
  match s.idle with
  | t :: _ => setW s t (fun w => { w with kicked := true, kickOwed := true })
  | [] =>
    if s.started < s.max then
      if byOwner then startThread s else { s with tnOwed := true }
    else s

/-- `__iv_work_thread_die` (pool lock held) -/
def die (s : St) (k : Nat) : St :=
  if (s.w k).kicked = true ∨ k ∈ s.idle then { s with fatal := true } else
  let s := setW s k (fun w => { w with kickReg := false, kickOwed := false, stops := w.stops + 1, pc := .dying })
  let s := { s with started := s.started - 1 }
  if s.shut = true ∧ s.started = 0 then { s with evOwed := true } else s

/-- the `while` test of got_event and what follows it, up to the next unlock -/
def loopTail (s : St) (k : Nat) : St :=
  if s.seqHead < (s.w k).lastSeq then
    match s.queue with
    | i :: q =>
      let s := { s with seqHead := s.seqHead + 1, queue := q }
      let s := setI s i (fun it => { it with phase := .running, workRuns := it.workRuns + 1, worker := k })
      setW s k (fun w => { w with pc := .running i })
    | [] => { s with fatal := true }
  else if s.seqHead = s.seqTail then
    if s.shut = false then
      if (s.w k).timerReg = true then { s with fatal := true } else
      let s := { s with idle := k :: s.idle }
      setW s k (fun w => { w with timerReg := true, pc := .parked })
    else die s k
  else
    setW s k (fun w => { w with kickOwed := true, pc := .parked })

/-- got_event, from the lock to the loop test: `thr->kicked = 0`; leave the idle list and stop the idle timer if
parked there; `last_seq = pool->seq_tail` -/
def enterPrep (s : St) (k : Nat) : St :=
  let onIdle : Bool := decide (k ∈ s.idle)
  let s := setW s k (fun w => { w with kicked := false, timerReg := (if onIdle then false else w.timerReg), lastSeq := s.seqTail })
  { s with idle := s.idle.filter (· ≠ k) }

/-- got_event after the work function of item i returned, from the re-lock to the loop test:
`if (iv_list_empty(&pool->work_done)) iv_event_post(&pool->ev); iv_list_add_tail(&work->list, &pool->work_done)` -/
def afterPrep (s : St) (k i : Nat) : St :=
  let s := { s with evOwed := s.evOwed || s.done.isEmpty, done := s.done ++ [i] }
  let s := setI s i (fun it => { it with phase := .done })
  setW s k (fun w => { w with pc := .gotPre })

def step (s : St) : Act → Option St
  | .submit =>
    if s.handle = true ∧ s.owner.user = true then some (enqueue s true) else none
  | .submitc k =>
    if s.handle = true ∧ k < s.nw ∧ (s.w k).pc.isRunning = true then some (enqueue s false) else none
  | .submitf =>
    if s.handle = true then some (enqueue s false) else none
  | .put =>
    if s.handle = true ∧ s.owner.user = true then
      let s := { s with handle := false, shut := true }
      if s.started = 0 then some { s with evOwed := true }
      else some { s with w := fun j => if j ∈ s.idle then { s.w j with kickOwed := true } else s.w j }
    else none
  | .wStart k =>
    if k < s.nw ∧ (s.w k).pc = .starting then
      some (setW s k (fun w => { w with kickReg := true, starts := w.starts + 1, pc := .selfkick }))
    else none
  | .wSelfKick k =>
    if k < s.nw ∧ (s.w k).pc = .selfkick then
      some (setW s k (fun w => { w with kickOwed := true, pc := .parked }))
    else none
  | .wKick k =>
    if k < s.nw ∧ (s.w k).pc = .parked ∧ (s.w k).kickOwed = true ∧ (s.w k).kickReg = true then
      some (setW s k (fun w => { w with kickOwed := false, pc := .gotPre }))
    else none
  | .wEnter k =>
    if k < s.nw ∧ (s.w k).pc = .gotPre then
      if k ∈ s.idle ∧ (s.w k).timerReg = false then some { s with fatal := true } else
      some (loopTail (enterPrep s k) k)
    else none
  | .wAfter k =>
    if k < s.nw then
      match (s.w k).pc with
      | .running i => some (loopTail (afterPrep s k i) k)
      | _ => none
    else none
  | .wTimeout k =>
    if k < s.nw ∧ (s.w k).pc = .parked ∧ (s.w k).timerReg = true then
      some (setW s k (fun w => { w with timerReg := false, pc := .toPre }))
    else none
  | .wTimeoutRun k =>
    if k < s.nw ∧ (s.w k).pc = .toPre then
      if (s.w k).kicked = true then
        if (s.w k).timerReg = true then some { s with fatal := true } else
        some (setW s k (fun w => { w with timerReg := true, pc := .parked }))
      else
        some (die { s with idle := s.idle.filter (· ≠ k) } k)
    else none
  | .wExit k =>
    if k < s.nw ∧ (s.w k).pc = .dying then
      some (setW s k (fun w => { w with deadOwed := true, pc := .exited }))
    else none
  | .oEv =>
    if s.owner = .idle ∧ s.evOwed = true ∧ s.freed = false then some { s with evOwed := false, owner := .evPre } else none
  | .oSteal =>
    if s.owner = .evPre then some { s with owner := .compl s.done, done := [] } else none
  | .oComplete =>
    match s.owner with
    | .compl (i :: b) =>
      some (setI { s with owner := .compl b } i (fun it => { it with phase := .completed, complRuns := it.complRuns + 1 }))
    | _ => none
  | .oFinish =>
    if s.owner = .compl [] then
      if s.shut = true ∧ s.started = 0 ∧ s.done = [] ∧ s.queue = [] then
        some { s with freed := true, evOwed := false, tnOwed := false, owner := .idle }
      else some { s with owner := .idle }
    else none
  | .oTn =>
    if s.owner = .idle ∧ s.tnOwed = true ∧ s.freed = false then some { s with tnOwed := false, owner := .tnPre } else none
  | .oTnRun =>
    if s.owner = .tnPre then
      let s := { s with owner := .idle }
      if s.idle = [] ∧ s.started < s.max then some (startThread s) else some s
    else none
  | .oJoin k =>
    if s.owner = .idle ∧ k < s.nw ∧ (s.w k).pc = .exited ∧ (s.w k).deadOwed = true then
      some (setW s k (fun w => { w with deadOwed := false, deadReg := false, pc := .joined }))
    else none

/-- the LTS of the pinned code BEFORE the D10 repair: `iv_work_event` frees a shutting-down pool without looking at
`work_items`.  Only used to keep the witness of the defect checkable (Props/C13.lean); no theorem is about it. -/
def stepD10 (s : St) : Act → Option St
  | .oFinish =>
    if s.owner = .compl [] then
      if s.shut = true ∧ s.started = 0 ∧ s.done = [] then
        some { s with freed := true, evOwed := false, tnOwed := false, owner := .idle }
      else some { s with owner := .idle }
    else none
  | a => step s a

/-- the actions of the user program (and of the clock): everything else is internal to the library -/
def Act.external : Act → Bool
  | .submit | .submitc _ | .submitf | .put | .wTimeout _ => true
  | _ => false

/-! ## NULL pool: `iv_work_submit_local` / `iv_work_handle_local` (one thread, no lock) -/

structure LSt where
  pending : List Nat := []     -- tinfo->work_items
  taskReg : Bool := false      -- tinfo->task registered
  batch   : List Nat := []     -- the stolen list inside iv_work_handle_local
  inWork  : Bool := false      -- between work->work and work->completion of the batch head
  n       : Nat := 0           -- items ever submitted (numbered in submission order)
  finished : List Nat := []    -- ghost: items whose completion has run, in order
  log     : List (Nat × Bool) := []   -- ghost: (i, false) = work->work of i called, (i, true) = work->completion of i called
  fatal   : Bool := false      -- iv_task_register of a registered task

inductive LAct where
  | submit      -- iv_work_submit_local (from user code of this thread, also from inside work/completion)
  | task        -- the loop runs the task: iv_work_handle_local steals the list
  | work        -- calls work->work of the batch head
  | complete    -- calls work->completion of the batch head (already unlinked)
deriving DecidableEq, Repr

def lstep (s : LSt) : LAct → Option LSt
  | .submit =>
    let s1 := if s.pending = [] then (if s.taskReg then { s with fatal := true } else { s with taskReg := true }) else s
    some { s1 with pending := s.pending ++ [s.n], n := s.n + 1 }
  | .task =>
    if s.taskReg = true ∧ s.batch = [] then some { s with taskReg := false, batch := s.pending, pending := [] } else none
  | .work =>
    match s.batch with
    | i :: _ => if s.inWork = false then some { s with inWork := true, log := s.log ++ [(i, false)] } else none
    | [] => none
  | .complete =>
    match s.batch with
    | i :: b => if s.inWork = true then
        some { s with inWork := false, batch := b, finished := s.finished ++ [i], log := s.log ++ [(i, true)] } else none
    | [] => none

/-! ## iv_thread: one created thread and its creator (`iv_thread_posix.c`)

The record `struct iv_thread` is shared by the thread and its creator.  `iv_thread_lock` serialises the thread's exit
(`iv_thread_destructor`: test `orphaned`, set `exited`, post `dead`) against the creator tearing its loop down while
the thread has not been joined (`iv_thread_tls_deinit_thread`: detach, unlink, unregister `dead`, free the record if
`exited`, else set `orphaned`); each is one action here because each runs entirely under that lock.  Whoever comes
second frees the record.

History: before the repair (harness/iv_thread_creator_deinit.patch) `iv_thread_tls_deinit_thread` only detached the
thread; `dead` stayed registered in the creator's iv_state, which `__iv_deinit` then freed, and the destructor posted
into it (heap-use-after-free, and the record leaked).  Witness on the old model, for every exit mode:
run, creatorDeinit, [deinit], leave, destruct.  Scenario: corpus/C13/creator-deinit-live-thread.scn. -/

/-- how the thread function ends -/
inductive ExitMode where
  | ret | pexit | retNoDeinit | pexitNoDeinit | noInit
deriving DecidableEq, Repr

inductive TPc where
  | created       -- iv_thread_create returned in the creator; the thread has not run yet
  | body          -- inside start_routine, iv state initialised (iv_init called)
  | bodyNoState   -- inside start_routine, no iv state (never initialised, or already deinitialised)
  | exiting       -- start_routine returned / pthread_exit called: TLS destructors run
  | exited        -- destructors done, thread terminated
  | joined        -- the creator's iv_thread_died joined it and freed the record
deriving DecidableEq, Repr

structure TSt where
  mode     : ExitMode
  pc       : TPc  := .created
  deadReg  : Bool := true      -- `dead` registered in the creator (a loop object of the creator)
  deadOwed : Bool := false
  ivState  : Bool := false     -- the thread has an iv_state
  deinits  : Nat := 0          -- ghost: __iv_deinit calls in the thread
  posts    : Nat := 0          -- ghost: iv_event_post(&thr->dead) calls
  creatorGone : Bool := false  -- the creator has deinitialised its loop (its iv_state is freed)
  orphaned : Bool := false     -- thr->orphaned
  exited   : Bool := false     -- thr->exited
  frees    : Nat := 0          -- ghost: free(thr) calls
  fault    : Bool := false     -- a freed iv_state or a freed record was used

inductive TAct where
  | run        -- the thread starts: iv_thread_handler sets the TLS key, calls start_routine (which calls iv_init unless noInit)
  | deinit     -- the body calls iv_deinit (modes ret, pexit)
  | leave      -- the body returns or calls pthread_exit
  | destruct   -- TLS destructors: iv_state_destructor (if a state is left), then iv_thread_destructor (under iv_thread_lock)
  | died       -- creator's loop: iv_thread_died: pthread_join, unlink, unregister `dead`, free the record
  | creatorDeinit  -- creator: iv_deinit (after iv_quit, or without ever running iv_main), or its loop-state destructor at
                   -- thread exit: iv_thread_tls_deinit_thread (under iv_thread_lock), then the iv_state is freed
deriving DecidableEq, Repr

def ExitMode.deinits : ExitMode → Bool
  | .ret | .pexit => true
  | _ => false

def tstep (s : TSt) : TAct → Option TSt
  | .run =>
    if s.pc = .created then
      some (if s.mode = .noInit then { s with pc := .bodyNoState } else { s with pc := .body, ivState := true })
    else none
  | .deinit =>
    if s.pc = .body ∧ s.mode.deinits = true then some { s with pc := .bodyNoState, ivState := false, deinits := s.deinits + 1 } else none
  | .leave =>
    if (s.pc = .body ∧ s.mode.deinits = false) ∨ s.pc = .bodyNoState then some { s with pc := .exiting } else none
  | .destruct =>
    if s.pc = .exiting then
      let s := { s with pc := .exited, ivState := false, deinits := if s.ivState then s.deinits + 1 else s.deinits,
                        fault := s.fault || decide (s.frees ≠ 0) }      -- reads thr->orphaned
      if s.orphaned then
        some { s with frees := s.frees + 1 }
      else
        -- iv_event_post(&thr->dead) locks thr->dead.owner->event_list_mutex: a use of the creator's iv_state
        some { s with exited := true, deadOwed := true, posts := s.posts + 1, fault := s.fault || s.creatorGone }
    else none
  | .died =>
    if s.pc = .exited ∧ s.deadOwed = true ∧ s.creatorGone = false then
      some { s with pc := .joined, deadOwed := false, deadReg := false, frees := s.frees + 1,
                    fault := s.fault || decide (s.frees ≠ 0) }
    else none
  | .creatorDeinit =>
    if s.creatorGone = false then
      if s.deadReg then        -- the record is still on the creator's child_threads list
        let s := { s with creatorGone := true, deadReg := false, deadOwed := false, fault := s.fault || decide (s.frees ≠ 0) }
        if s.exited then some { s with frees := s.frees + 1 } else some { s with orphaned := true }
      else some { s with creatorGone := true }
    else none

end Ivy.Work
