import Ivy.L3.InotifySpec
/-! Proofs for C20 (model `Ivy.L3.Inotify`). -/
namespace Ivy.Inotify.Proofs
open Ivy.Inotify

@[simp, grind =] theorem setInst_insts (s : St) (i : Nat) (x : Inst) (k : Nat) :
    (s.setInst i x).insts k = if k = i then some x else s.insts k := rfl
@[simp, grind =] theorem setInst_ws (s : St) (i : Nat) (x : Inst) : (s.setInst i x).ws = s.ws := rfl
@[simp, grind =] theorem setInst_walk (s : St) (i : Nat) (x : Inst) : (s.setInst i x).walk = s.walk := rfl
@[simp, grind =] theorem setW_ws (s : St) (w : Nat) (x : WInfo) (k : Nat) :
    (s.setW w x).ws k = if k = w then some x else s.ws k := rfl
@[simp, grind =] theorem setW_insts (s : St) (w : Nat) (x : WInfo) : (s.setW w x).insts = s.insts := rfl
@[simp, grind =] theorem setW_walk (s : St) (w : Nat) (x : WInfo) : (s.setW w x).walk = s.walk := rfl

/-! ### layout / Chain -/

theorem layout_ge (rs : List Rec) : ∀ off p, p ∈ layout off rs → off ≤ p.1 := by
  induction rs with
  | nil => intro off p h; simp [layout] at h
  | cons r rs ih =>
    intro off p h
    simp only [layout, List.mem_cons] at h
    rcases h with h | h
    · subst h; simp
    · have := ih _ _ h; omega

theorem lookup_layout_lt (rs : List Rec) (off c : Nat) (h : c < off) : (layout off rs).lookup c = none := by
  rw [List.lookup_eq_none_iff]
  intro p hp
  have := layout_ge rs off p hp
  simp; omega

theorem chain_layout (rs : List Rec) : ∀ (pre : Buf) (off : Nat), (∀ p ∈ pre, p.1 < off) →
    Chain (pre ++ layout off rs) off rs (off + size rs) := by
  induction rs with
  | nil => intro pre off _; simp [Chain, size]
  | cons r rs ih =>
    intro pre off hpre
    refine ⟨?_, ?_⟩
    · unfold recAt
      rw [List.lookup_append]
      have : pre.lookup off = none := by
        rw [List.lookup_eq_none_iff]; intro p hp; have := hpre p hp; simp; omega
      simp [this, layout]
    · have h2 := ih (pre ++ [(off, r)]) (off + r.len + EVSZ) (by
        intro p hp; simp at hp; rcases hp with hp | hp
        · have := hpre p hp; omega
        · subst hp; simp [EVSZ]; omega)
      simp only [layout, size]
      have e : off + (r.len + EVSZ + size rs) = off + r.len + EVSZ + size rs := by omega
      rw [e]
      simpa using h2

theorem chain_le (buf : Buf) (rs : List Rec) : ∀ c e, Chain buf c rs e → c + 16 * rs.length ≤ e := by
  induction rs with
  | nil => intro c e h; simp [Chain] at h; simp [h]
  | cons r rs ih =>
    intro c e h
    have := ih _ _ h.2
    simp [EVSZ] at this ⊢; omega


theorem chain_lt (buf : Buf) (r : Rec) (rs : List Rec) (c e : Nat) (h : Chain buf c (r :: rs) e) : c < e := by
  have := chain_le buf (r :: rs) c e h
  simp at this; omega

/-! ### the loop -/

theorem treeAlive_of (s : St) (t : List (Int × Nat))
    (h : ∀ e ∈ t, ∃ wi, s.ws e.2 = some wi ∧ wi.freed = false) : treeAlive s t = true := by
  unfold treeAlive
  rw [List.all_eq_true]
  intro e he
  obtain ⟨wi, h1, h2⟩ := h e he
  simp [h1, h2]

theorem lookup_mem {t : List (Int × Nat)} {wd : Int} {w : Nat} (h : t.lookup wd = some w) : (wd, w) ∈ t := by
  induction t with
  | nil => simp at h
  | cons p t ih =>
    obtain ⟨a, b⟩ := p
    simp only [List.lookup_cons] at h
    split at h
    · rename_i heq; simp at heq h; subst heq; subst h; simp
    · simp [ih h]

/-- What the loop does from its top, on a registered instance whose tree nodes are live: either no
remaining record has a watch and the walk ends (clearing `term`), or it stops at the first record
that has one, drops the watch when required and calls the handler. -/
theorem advance_spec (i : Nat) (x : Inst) (recs : List Rec) : ∀ (fuel : Nat) (s : St) (wk : Walk),
    recs.length < fuel → wk.this = some i → s.insts i = some x → x.registered = true →
    (∀ e ∈ x.tree, ∃ wi, s.ws e.2 = some wi ∧ wi.freed = false) →
    Chain wk.buf wk.curr recs wk.endOff →
    ((∀ r ∈ recs, x.tree.lookup r.wd = none) ∧
      advance fuel s wk = .ok { s.setInst i { x with term := .null } with walk := none } [.walkEnd])
    ∨ (∃ pre r post w wi, recs = pre ++ r :: post ∧ (∀ r' ∈ pre, x.tree.lookup r'.wd = none) ∧
        x.tree.lookup r.wd = some w ∧ s.ws w = some wi ∧ wi.freed = false ∧
        Chain wk.buf (wk.curr + size pre + r.len + EVSZ) post wk.endOff ∧
        advance fuel s wk =
          .ok { s.setInst i { x with tree := if dropCond r.mask wi.mask then treeDel x.tree w else x.tree } with
                walk := some { wk with curr := wk.curr + size pre, len := r.len } }
            [.call w (wk.curr + size pre) r (inTree (if dropCond r.mask wi.mask then treeDel x.tree w else x.tree) w)]) := by
  induction recs with
  | nil =>
    intro fuel s wk hf ht hi hr _ hc
    cases fuel with
    | zero => omega
    | succ fuel =>
      left
      simp only [Chain] at hc
      simp [advance, ht, hi, hr, hc]
  | cons r rs ih =>
    intro fuel s wk hf ht hi hr ha hc
    cases fuel with
    | zero => omega
    | succ fuel =>
      have hlt := chain_lt _ _ _ _ _ hc
      obtain ⟨hrec, hc'⟩ := hc
      have hal := treeAlive_of s x.tree ha
      cases hl : x.tree.lookup r.wd with
      | none =>
        have := ih fuel s { wk with curr := wk.curr + r.len + EVSZ } (by simp at hf; omega) ht hi hr ha hc'
        rcases this with ⟨h1, h2⟩ | ⟨pre, r', post, w, wi, h1, h2, h3, h4, h4', h5, h6⟩
        · left
          refine ⟨?_, ?_⟩
          · intro r' hr'; simp at hr'; rcases hr' with rfl | hr'
            · exact hl
            · exact h1 r' hr'
          · simp only [advance, ht, hi, hr, hlt, hrec, hal, hl]
            simpa [ht, hr] using h2
        · right
          refine ⟨r :: pre, r', post, w, wi, by simp [h1], ?_, h3, h4, h4', ?_, ?_⟩
          · intro r'' hr''; simp at hr''; rcases hr'' with rfl | hr''
            · exact hl
            · exact h2 r'' hr''
          · have e : wk.curr + size (r :: pre) = wk.curr + r.len + EVSZ + size pre := by simp [size]; omega
            rw [e]; exact h5
          · have e : wk.curr + size (r :: pre) = wk.curr + r.len + EVSZ + size pre := by simp [size]; omega
            simp only [advance, ht, hi, hr, hlt, hrec, hal, hl, e]
            simpa [ht, hr] using h6
      | some w =>
        right
        have hm := lookup_mem hl
        obtain ⟨wi, hw1, hw2⟩ := ha _ hm
        refine ⟨[], r, rs, w, wi, rfl, by simp, hl, hw1, hw2, by simpa [size] using hc', ?_⟩
        simp [advance, ht, hi, hr, hlt, hrec, hal, hl, hw1, size]

/-! ### tree helpers -/

theorem inTree_iff (t : List (Int × Nat)) (w : Nat) : inTree t w = true ↔ ∃ e ∈ t, e.2 = w := by
  simp [inTree]

theorem inTree_false_iff (t : List (Int × Nat)) (w : Nat) : inTree t w = false ↔ ∀ e ∈ t, e.2 ≠ w := by
  simp [inTree]

theorem mem_treeDel (t : List (Int × Nat)) (w : Nat) (e : Int × Nat) : e ∈ treeDel t w ↔ e ∈ t ∧ e.2 ≠ w := by
  simp [treeDel]

theorem nodup_treeDel (t : List (Int × Nat)) (w : Nat) (h : (t.map (·.1)).Nodup) : ((treeDel t w).map (·.1)).Nodup := by
  unfold treeDel
  exact List.Nodup.sublist (List.Sublist.map _ List.filter_sublist) h

theorem inTree_treeDel (t : List (Int × Nat)) (w : Nat) : inTree (treeDel t w) w = false := by
  rw [inTree_false_iff]; intro e he; exact ((mem_treeDel t w e).1 he).2

theorem lookup_none_iff (t : List (Int × Nat)) (wd : Int) : t.lookup wd = none ↔ ∀ e ∈ t, e.1 ≠ wd := by
  rw [List.lookup_eq_none_iff]
  constructor
  · intro h e he; have := h e he
    intro heq; rw [heq] at this; simp at this
  · intro h e he; have := h e he
    rw [bne_iff_ne]; exact fun x => this x.symm

theorem isReg_iff (s : St) (w : Nat) : isReg s w = true ↔
    ∃ wi x, s.ws w = some wi ∧ wi.freed = false ∧ s.insts wi.inst = some x ∧ x.registered = true ∧ inTree x.tree w = true := by
  unfold isReg
  split
  · simp_all
  · rename_i wi hw
    split
    · simp_all
    · rename_i x hx
      simp_all

theorem regd_iff (s : St) (i : Nat) : regd s i = true ↔ ∃ x, s.insts i = some x ∧ x.registered = true := by
  unfold regd; split <;> simp_all


/-! ### shape of the user-action steps -/

/-- geometry of the walk frame: everything but `this` -/
def sameFrame (a b : Option Walk) : Prop :=
  match a, b with
  | none, none => True
  | some x, some y => x.inst = y.inst ∧ x.buf = y.buf ∧ x.endOff = y.endOff ∧ x.curr = y.curr ∧ x.len = y.len
  | _, _ => False

def isUser : In → Bool
  | .gotEvent .. => false
  | .handlerEnd => false
  | _ => true

theorem user_step_shape (s : St) (a : In) (hu : isUser a = true) {s' o} (h : step s a = .ok s' o) :
    (∀ x ∈ o, isCall x = false) ∧ sameFrame s.walk s'.walk := by
  cases a <;> simp [isUser] at hu <;> simp only [step] at h
  all_goals (repeat' split at h)
  all_goals (first | cases h | skip)
  all_goals (first | (injection h with h1 h2; subst h1; subst h2) | skip)
  all_goals simp [isCall, sameFrame]
  all_goals (try (cases hw : s.walk <;> simp_all))

/-! ### invariant, per input -/

theorem inv_instRegister (s : St) (i : Nat) (fd : Int) (h : Inv s) (hv : validUse s (.instRegister i fd) = true) :
    ∃ s' o, step s (.instRegister i fd) = .ok s' o ∧ Inv s' := by
  simp only [validUse, Option.isNone_iff_eq_none] at hv
  simp only [step, hv]
  split
  · exact ⟨_, _, rfl, h⟩
  · refine ⟨_, _, rfl, ?_⟩
    obtain ⟨h1, h2, h3, h4, h5, h6⟩ := h
    constructor
    · intro k x hk hr e he
      grind
    · intro k x hk hr
      grind
    · intro k x hk hr ht
      grind
    · intro wk k hw ht
      have := h4 wk k hw ht
      grind
    · intro wk hw ht
      have := h5 wk hw ht
      grind
    · intro wk hw
      exact h6 wk (by simpa using hw)

theorem inv_instUnregister (s : St) (i : Nat) (h : Inv s) (hv : validUse s (.instUnregister i) = true) :
    ∃ s' o, step s (.instUnregister i) = .ok s' o ∧ Inv s' := by
  simp only [validUse, regd_iff] at hv
  obtain ⟨x, hx, hr⟩ := hv
  obtain ⟨h1, h2, h3, h4, h5, h6⟩ := h
  simp only [step, hx, hr]
  cases ht : x.term with
  | null =>
    refine ⟨_, _, rfl, ?_⟩
    constructor
    · intro k y hk hr e he; grind
    · intro k y hk hr; grind
    · intro k y hk hr ht; grind
    · intro wk k hw ht
      have := h4 wk k hw ht
      grind
    · intro wk hw ht
      have := h5 wk hw ht
      grind
    · intro wk hw; exact h6 wk (by simpa using hw)
  | frame =>
    obtain ⟨wk, hw, hth⟩ := h3 i x hx hr ht
    simp only [hw]
    refine ⟨_, _, rfl, ?_⟩
    have h4' := h4 wk i hw hth
    constructor
    · intro k y hk hr e he; grind
    · intro k y hk hr; grind
    · intro k y hk hr ht
      simp at hk
      split at hk
      · grind
      · obtain ⟨wk2, hw2, ht2⟩ := h3 k y hk hr ht
        grind
    · intro wk' k hw' ht'
      simp at hw'; subst hw'; simp at ht'
    · intro wk' hw' ht'
      simp at hw'; subst hw'
      simp
      grind
    · intro wk' hw'
      simp at hw'; subst hw'
      exact h6 wk hw

macro "st_simp" : tactic => `(tactic| simp only [setInst_insts, setInst_ws, setInst_walk, setW_ws, setW_insts, setW_walk] at *)

theorem not_isReg_not_mem (s : St) (h : Inv s) (w : Nat) (hn : isReg s w = false) (k : Nat) (y : Inst)
    (hk : s.insts k = some y) (hr : y.registered = true) (e : Int × Nat) (he : e ∈ y.tree) : e.2 ≠ w := by
  intro heq
  obtain ⟨wi, hw1, hw2, hw3, hw4⟩ := h.tree_ws k y hk hr e he
  have : isReg s w = true := by
    rw [isReg_iff]
    refine ⟨wi, y, by rw [← heq]; exact hw1, hw4, by rw [hw2]; exact hk, hr, ?_⟩
    rw [inTree_iff]; exact ⟨e, he, heq⟩
  rw [hn] at this; cases this

theorem treeAlive_inv (s : St) (h : Inv s) (i : Nat) (x : Inst) (hx : s.insts i = some x) (hr : x.registered = true) :
    treeAlive s x.tree = true := by
  apply treeAlive_of
  intro e he
  obtain ⟨wi, hw1, _, _, hw4⟩ := h.tree_ws i x hx hr e he
  exact ⟨wi, hw1, hw4⟩

theorem inv_watchRegister (s : St) (w i mask : Nat) (wd : Int) (h : Inv s) (hv : validUse s (.watchRegister w i mask wd) = true) :
    ∃ s' o, step s (.watchRegister w i mask wd) = .ok s' o ∧ Inv s' := by
  simp only [validUse, Bool.and_eq_true, regd_iff, Bool.not_eq_true'] at hv
  obtain ⟨⟨⟨x, hx, hr⟩, hnr⟩, hfree⟩ := hv
  have hnm := not_isReg_not_mem s h w hnr
  have hal := treeAlive_inv s h i x hx hr
  obtain ⟨h1, h2, h3, h4, h5, h6⟩ := h
  have inv1 : Inv (s.setW w { inst := i, wd := wd, mask := mask, freed := false }) := by
    constructor
    · intro k y hk hr e he
      have := hnm k y hk hr e he
      have := h1 k y hk hr e he
      (st_simp; grind)
    · intro k y hk hr; exact h2 k y hk hr
    · intro k y hk hr ht; exact h3 k y hk hr ht
    · intro wk k hw ht; exact h4 wk k hw ht
    · intro wk hw ht; exact h5 wk hw ht
    · intro wk hw; exact h6 wk hw
  by_cases hwd : wd = -1
  · exact ⟨s.setW w { inst := i, wd := wd, mask := mask, freed := false }, [.addWatch x.fd mask, .ret (-1)],
      by simp [step, hx, hfree, hnr, hr, hwd], inv1⟩
  · cases hl : x.tree.lookup wd with
    | some w' =>
      exact ⟨s.setW w { inst := i, wd := wd, mask := mask, freed := false }, [.addWatch x.fd mask, .ret (-1)],
        by simp [step, hx, hfree, hnr, hr, hwd, hal, hl], inv1⟩
    | none =>
      refine ⟨(s.setW w { inst := i, wd := wd, mask := mask, freed := false }).setInst i { x with tree := (wd, w) :: x.tree },
        [.addWatch x.fd mask, .ret 0], by simp [step, hx, hfree, hnr, hr, hwd, hal, hl], ?_⟩
      rw [lookup_none_iff] at hl
      constructor
      · intro k y hk hr e he
        simp at hk
        split at hk
        · simp at hk; subst hk; simp at he
          rcases he with rfl | he
          · rename_i hki; subst hki; simp
          · have := hnm i x hx hr e he
            have := h1 i x hx hr e he
            (st_simp; grind)
        · have := hnm k y hk hr e he
          have := h1 k y hk hr e he
          (st_simp; grind)
      · intro k y hk hr
        simp at hk
        split at hk
        · simp at hk; subst hk
          simp
          exact ⟨fun b hb => hl (wd, b) hb rfl, h2 i x hx hr⟩
        · exact h2 k y hk hr
      · intro k y hk hr ht; (st_simp; grind)
      · intro wk k hw ht
        have := h4 wk k hw ht
        (st_simp; grind)
      · intro wk hw ht
        have := h5 wk hw ht
        (st_simp; grind)
      · intro wk hw; exact h6 wk hw

theorem inv_watchUnregister (s : St) (w : Nat) (h : Inv s) (hv : validUse s (.watchUnregister w) = true) :
    ∃ s' o, step s (.watchUnregister w) = .ok s' o ∧ Inv s' := by
  simp only [validUse, isReg_iff] at hv
  obtain ⟨wi, x, hw, hf, hx, hr, hin⟩ := hv
  have hal := treeAlive_inv s h _ x hx hr
  obtain ⟨h1, h2, h3, h4, h5, h6⟩ := h
  refine ⟨s.setInst wi.inst { x with tree := treeDel x.tree w }, [.rmWatch x.fd wi.wd],
    by simp [step, hw, hf, hx, hr, hin, hal], ?_⟩
  constructor
  · intro k y hk hr e he
    simp at hk
    split at hk
    · simp at hk; subst hk; simp at he hr
      rw [mem_treeDel] at he
      have := h1 _ x hx hr e he.1
      (st_simp; grind)
    · have := h1 k y hk hr e he
      (st_simp; grind)
  · intro k y hk hr
    simp at hk
    split at hk
    · simp at hk; subst hk; simp at hr ⊢
      exact nodup_treeDel _ _ (h2 _ x hx hr)
    · exact h2 k y hk hr
  · intro k y hk hr ht; (st_simp; grind)
  · intro wk k hw ht
    have := h4 wk k hw ht
    (st_simp; grind)
  · intro wk hw ht
    have := h5 wk hw ht
    (st_simp; grind)
  · intro wk hw; exact h6 wk hw

theorem inv_watchFree (s : St) (w : Nat) (h : Inv s) (hv : validUse s (.watchFree w) = true) :
    ∃ s' o, step s (.watchFree w) = .ok s' o ∧ Inv s' := by
  simp only [validUse, Bool.and_eq_true, Bool.not_eq_true', Option.isSome_iff_exists] at hv
  obtain ⟨⟨hnr, wi, hw⟩, hf⟩ := hv
  have hnm := not_isReg_not_mem s h w hnr
  simp only [wFreed, hw] at hf
  obtain ⟨h1, h2, h3, h4, h5, h6⟩ := h
  refine ⟨s.setW w { wi with freed := true }, [], by simp [step, hw, hf], ?_⟩
  constructor
  · intro k y hk hr e he
    have := hnm k y hk hr e he
    have := h1 k y hk hr e he
    (st_simp; grind)
  · intro k y hk hr; exact h2 k y hk hr
  · intro k y hk hr ht; exact h3 k y hk hr ht
  · intro wk k hw ht; exact h4 wk k hw ht
  · intro wk hw ht; exact h5 wk hw ht
  · intro wk hw; exact h6 wk hw

/-- what holds at the top of the loop (the walk frame is not part of the state there) -/
structure LoopInv (s : St) (i : Nat) (x : Inst) : Prop where
  hx : s.insts i = some x
  reg : x.registered = true
  tree_ws : ∀ i x, s.insts i = some x → x.registered = true → ∀ e ∈ x.tree,
      ∃ wi, s.ws e.2 = some wi ∧ wi.inst = i ∧ wi.wd = e.1 ∧ wi.freed = false
  tree_nodup : ∀ i x, s.insts i = some x → x.registered = true → (x.tree.map (·.1)).Nodup
  only_frame : ∀ k y, s.insts k = some y → y.registered = true → y.term = .frame → k = i

theorem loop_end_inv {s : St} {i : Nat} {x : Inst} (L : LoopInv s i x) :
    Inv { s.setInst i { x with term := .null } with walk := none } := by
  obtain ⟨hx, hr, h1, h2, h3⟩ := L
  constructor
  · intro k y hk hr e he
    simp at hk
    split at hk
    · simp at hk; subst hk; simp at he hr
      have := h1 _ x hx hr e he
      (st_simp; grind)
    · have := h1 k y hk hr e he
      (st_simp; grind)
  · intro k y hk hr
    simp at hk
    split at hk
    · simp at hk; subst hk; simp at hr ⊢
      exact h2 _ x hx hr
    · exact h2 k y hk hr
  · intro k y hk hr ht
    simp at hk
    split at hk
    · simp at hk; subst hk; simp at ht
    · have := h3 k y hk hr ht
      contradiction
  · intro wk k hw; simp at hw
  · intro wk hw; simp at hw
  · intro wk hw; simp at hw

theorem loop_call_inv {s : St} {i : Nat} {x : Inst} (L : LoopInv s i x) (ht : x.term = .frame) (c : Bool) (w : Nat)
    (wk : Walk) (hinst : wk.inst = i) (hthis : wk.this = some i)
    (hch : ∃ recs, Chain wk.buf (wk.curr + wk.len + EVSZ) recs wk.endOff) :
    Inv { s.setInst i { x with tree := if c then treeDel x.tree w else x.tree } with walk := some wk } := by
  obtain ⟨hx, hr, h1, h2, h3⟩ := L
  have hsub : ∀ e ∈ (if c then treeDel x.tree w else x.tree), e ∈ x.tree := by
    intro e he; split at he
    · exact ((mem_treeDel _ _ _).1 he).1
    · exact he
  constructor
  · intro k y hk hr e he
    simp at hk
    split at hk
    · simp at hk; subst hk; simp at he hr
      have := h1 _ x hx hr e (hsub e he)
      (st_simp; grind)
    · have := h1 k y hk hr e he
      (st_simp; grind)
  · intro k y hk hr
    simp at hk
    split at hk
    · simp at hk; subst hk; simp at hr ⊢
      split
      · exact nodup_treeDel _ _ (h2 _ x hx hr)
      · exact h2 _ x hx hr
    · exact h2 k y hk hr
  · intro k y hk hr ht
    simp at hk
    split at hk
    · rename_i hki; subst hki; exact ⟨wk, rfl, hthis⟩
    · have := h3 k y hk hr ht
      contradiction
  · intro wk' k hw hk
    simp at hw; subst hw
    rw [hthis] at hk; simp at hk; subst hk
    exact ⟨hinst.symm, { x with tree := if c then treeDel x.tree w else x.tree }, by simp, by simpa using hr, by simpa using ht⟩
  · intro wk' hw hn
    simp at hw; subst hw; rw [hthis] at hn; cases hn
  · intro wk' hw
    simp at hw; subst hw; exact hch

/-- state in which `iv_inotify_got_event` returns after the loop ran to the end of the buffer -/
def endState (s : St) (i : Nat) (x : Inst) : St := { s.setInst i { x with term := .null } with walk := none }

/-- state in which the handler of `w` starts running, for the record at `off` -/
def callState (s : St) (i : Nat) (x : Inst) (c : Bool) (w : Nat) (wk : Walk) (off len : Nat) : St :=
  { s.setInst i { x with tree := if c then treeDel x.tree w else x.tree } with
    walk := some { wk with curr := off, len := len } }

theorem loop_spec {s : St} {i : Nat} {x : Inst} (L : LoopInv s i x) (ht : x.term = .frame) (wk : Walk)
    (hinst : wk.inst = i) (hthis : wk.this = some i) (recs : List Rec)
    (hc : Chain wk.buf wk.curr recs wk.endOff) (fuel : Nat) (hf : recs.length < fuel) :
    ((∀ r ∈ recs, x.tree.lookup r.wd = none) ∧ advance fuel s wk = .ok (endState s i x) [.walkEnd] ∧ Inv (endState s i x))
    ∨ (∃ pre r post w wi, recs = pre ++ r :: post ∧ (∀ r' ∈ pre, x.tree.lookup r'.wd = none) ∧
        x.tree.lookup r.wd = some w ∧ s.ws w = some wi ∧ wi.freed = false ∧ wi.inst = i ∧ wi.wd = r.wd ∧
        Chain wk.buf (wk.curr + size pre + r.len + EVSZ) post wk.endOff ∧
        advance fuel s wk = .ok (callState s i x (dropCond r.mask wi.mask) w wk (wk.curr + size pre) r.len)
          [.call w (wk.curr + size pre) r (inTree (if dropCond r.mask wi.mask then treeDel x.tree w else x.tree) w)] ∧
        Inv (callState s i x (dropCond r.mask wi.mask) w wk (wk.curr + size pre) r.len)) := by
  have hal : ∀ e ∈ x.tree, ∃ wi, s.ws e.2 = some wi ∧ wi.freed = false := by
    intro e he
    obtain ⟨wi, h1, _, _, h4⟩ := L.tree_ws i x L.hx L.reg e he
    exact ⟨wi, h1, h4⟩
  rcases advance_spec i x recs fuel s wk hf hthis L.hx L.reg hal hc with ⟨h1, h2⟩ | ⟨pre, r, post, w, wi, h1, h2, h3, h4, h5, h6, h7⟩
  · left; exact ⟨h1, h2, loop_end_inv L⟩
  · right
    have hm := lookup_mem h3
    obtain ⟨wi', hw1, hw2, hw3, _⟩ := L.tree_ws i x L.hx L.reg _ hm
    simp only [h4] at hw1; cases hw1
    refine ⟨pre, r, post, w, wi, h1, h2, h3, h4, h5, hw2, hw3, h6, h7, ?_⟩
    exact loop_call_inv L ht _ w _ hinst hthis ⟨post, h6⟩

theorem size_pos_of_ne_nil (recs : List Rec) (h : recs ≠ []) : size recs ≠ 0 := by
  cases recs with
  | nil => contradiction
  | cons r rs => simp [size, EVSZ]

/-- the first frame of a walk -/
def frame0 (i : Nat) (recs : List Rec) : Walk :=
  { inst := i, this := some i, buf := layout 0 recs, endOff := size recs, curr := 0, len := 0 }

theorem loopInv_gotEvent {s : St} (hi : Inv s) (hw : s.walk = none) {i : Nat} {x : Inst} (hx : s.insts i = some x)
    (hr : x.registered = true) : LoopInv (s.setInst i { x with term := .frame }) i { x with term := .frame } := by
  obtain ⟨h1, h2, h3, h4, h5, h6⟩ := hi
  constructor
  · simp
  · simpa using hr
  · intro k y hk hr e he
    simp at hk
    split at hk
    · simp at hk; subst hk; simp at he hr
      have := h1 _ x hx hr e he
      (st_simp; grind)
    · have := h1 k y hk hr e he
      (st_simp; grind)
  · intro k y hk hr
    simp at hk
    split at hk
    · simp at hk; subst hk; simp at hr ⊢
      exact h2 _ x hx hr
    · exact h2 k y hk hr
  · intro k y hk hr ht
    simp at hk
    split at hk
    · assumption
    · obtain ⟨wk, hwk, _⟩ := h3 k y hk hr ht
      rw [hw] at hwk; cases hwk

theorem gotEvent_eagain (s : St) (i k : Nat) (hv : validUse s (.gotEvent i k .eagain) = true) :
    ∃ x, s.insts i = some x ∧ x.registered = true ∧ s.walk = none ∧
      step s (.gotEvent i k .eagain) = .ok s (List.replicate (k + 1) (.read x.fd) ++ [.walkEnd]) := by
  simp only [validUse, Bool.and_eq_true, regd_iff, Option.isNone_iff_eq_none] at hv
  obtain ⟨⟨hw, x, hx, hr⟩, _⟩ := hv
  exact ⟨x, hx, hr, hw, by simp [step, hw, hx, hr]⟩

theorem gotEvent_data (s : St) (hi : Inv s) (i k : Nat) (recs : List Rec)
    (hv : validUse s (.gotEvent i k (.data recs)) = true) :
    ∃ x, s.insts i = some x ∧ x.registered = true ∧ s.walk = none ∧
      (((∀ r ∈ recs, x.tree.lookup r.wd = none) ∧
        step s (.gotEvent i k (.data recs)) =
          .ok (endState (s.setInst i { x with term := .frame }) i { x with term := .frame })
            (List.replicate (k + 1) (.read x.fd) ++ [.walkEnd]) ∧
        Inv (endState (s.setInst i { x with term := .frame }) i { x with term := .frame }))
      ∨ (∃ pre r post w wi, recs = pre ++ r :: post ∧ (∀ r' ∈ pre, x.tree.lookup r'.wd = none) ∧
        x.tree.lookup r.wd = some w ∧ s.ws w = some wi ∧ wi.freed = false ∧ wi.inst = i ∧ wi.wd = r.wd ∧
        Chain (layout 0 recs) (size pre + r.len + EVSZ) post (size recs) ∧
        step s (.gotEvent i k (.data recs)) =
          .ok (callState (s.setInst i { x with term := .frame }) i { x with term := .frame } (dropCond r.mask wi.mask) w
                (frame0 i recs) (size pre) r.len)
            (List.replicate (k + 1) (.read x.fd) ++
              [.call w (size pre) r (inTree (if dropCond r.mask wi.mask then treeDel x.tree w else x.tree) w)]) ∧
        Inv (callState (s.setInst i { x with term := .frame }) i { x with term := .frame } (dropCond r.mask wi.mask) w
                (frame0 i recs) (size pre) r.len))) := by
  simp only [validUse, Bool.and_eq_true, regd_iff, Option.isNone_iff_eq_none, Bool.not_eq_true', List.isEmpty_eq_false_iff] at hv
  obtain ⟨⟨hw, x, hx, hr⟩, hne⟩ := hv
  refine ⟨x, hx, hr, hw, ?_⟩
  have hsz := size_pos_of_ne_nil recs hne
  have L := loopInv_gotEvent hi hw hx hr
  have hc : Chain (frame0 i recs).buf (frame0 i recs).curr recs (frame0 i recs).endOff := by
    have := chain_layout recs [] 0 (by simp)
    simpa [frame0] using this
  have hf : recs.length < size recs + 1 := by
    have := chain_le _ _ _ _ hc
    simp [frame0] at this; omega
  have hstep : step s (.gotEvent i k (.data recs)) =
      (advance (size recs + 1) (s.setInst i { x with term := .frame }) (frame0 i recs)).prepend
        (List.replicate (k + 1) (.read x.fd)) := by
    simp [step, hw, hx, hr, hsz, frame0]
  rcases loop_spec L rfl (frame0 i recs) rfl rfl recs hc _ hf with ⟨h1, h2, h3⟩ | ⟨pre, r, post, w, wi, h1, h2, h3, h4, h5, h6, h7, h8, h9, h10⟩
  · left
    refine ⟨h1, ?_, h3⟩
    rw [hstep, h2]; rfl
  · right
    refine ⟨pre, r, post, w, wi, h1, h2, h3, by simpa using h4, h5, h6, h7, by simpa [frame0] using h8, ?_, by simpa [frame0] using h10⟩
    rw [hstep, h9]
    simp [frame0, Res.prepend]

theorem loopInv_handlerEnd {s : St} (hi : Inv s) {wk : Walk} (hw : s.walk = some wk) {i : Nat} (ht : wk.this = some i) :
    ∃ x, x.term = .frame ∧ wk.inst = i ∧ LoopInv s i x := by
  obtain ⟨h1, h2, h3, h4, h5, h6⟩ := hi
  obtain ⟨hinst, x, hx, hr, hterm⟩ := h4 wk i hw ht
  refine ⟨x, hterm, hinst.symm, hx, hr, h1, h2, ?_⟩
  intro k y hk hr ht'
  obtain ⟨wk', hw', ht''⟩ := h3 k y hk hr ht'
  rw [hw] at hw'; cases hw'
  rw [ht] at ht''; cases ht''; rfl

theorem handlerEnd_null (s : St) (hi : Inv s) (wk : Walk) (hw : s.walk = some wk) (ht : wk.this = none) :
    step s .handlerEnd = .ok { s with walk := none } [.walkEnd] ∧ Inv { s with walk := none } := by
  refine ⟨by simp [step, hw, advance, ht], ?_⟩
  obtain ⟨h1, h2, h3, h4, h5, h6⟩ := hi
  constructor
  · exact h1
  · exact h2
  · intro k y hk hr ht'
    obtain ⟨wk', hw', ht''⟩ := h3 k y hk hr ht'
    rw [hw] at hw'; cases hw'
    rw [ht] at ht''; cases ht''
  · intro wk' k hw'; cases hw'
  · intro wk' hw'; cases hw'
  · intro wk' hw'; cases hw'

/-- the frame with which the loop is re-entered when a handler returns: `curr += event->len + sizeof(...)` -/
def nextFrame (wk : Walk) : Walk := { wk with curr := wk.curr + wk.len + EVSZ }

theorem handlerEnd_some (s : St) (hi : Inv s) (wk : Walk) (hw : s.walk = some wk) (i : Nat) (ht : wk.this = some i)
    (recs : List Rec) (hc : Chain wk.buf (wk.curr + wk.len + EVSZ) recs wk.endOff) :
    ∃ x, s.insts i = some x ∧ x.registered = true ∧ wk.inst = i ∧
      (((∀ r ∈ recs, x.tree.lookup r.wd = none) ∧ step s .handlerEnd = .ok (endState s i x) [.walkEnd] ∧ Inv (endState s i x))
      ∨ (∃ pre r post w wi, recs = pre ++ r :: post ∧ (∀ r' ∈ pre, x.tree.lookup r'.wd = none) ∧
        x.tree.lookup r.wd = some w ∧ s.ws w = some wi ∧ wi.freed = false ∧ wi.inst = i ∧ wi.wd = r.wd ∧
        Chain wk.buf (wk.curr + wk.len + EVSZ + size pre + r.len + EVSZ) post wk.endOff ∧
        step s .handlerEnd = .ok (callState s i x (dropCond r.mask wi.mask) w (nextFrame wk) (wk.curr + wk.len + EVSZ + size pre) r.len)
          [.call w (wk.curr + wk.len + EVSZ + size pre) r (inTree (if dropCond r.mask wi.mask then treeDel x.tree w else x.tree) w)] ∧
        Inv (callState s i x (dropCond r.mask wi.mask) w (nextFrame wk) (wk.curr + wk.len + EVSZ + size pre) r.len))) := by
  obtain ⟨x, hterm, hinst, L⟩ := loopInv_handlerEnd hi hw ht
  refine ⟨x, L.hx, L.reg, hinst, ?_⟩
  have hf : recs.length < wk.endOff + 1 := by
    have := chain_le _ _ _ _ hc
    omega
  have hstep : step s .handlerEnd = advance (wk.endOff + 1) s (nextFrame wk) := by
    simp [step, hw, nextFrame]
  rw [hstep]
  exact loop_spec L hterm (nextFrame wk) hinst ht recs hc _ hf

theorem init_inv : Inv St.init := by
  constructor <;> simp [St.init]

/-- under valid use every step is an execution (no fault, no fatal, no reject) and keeps the invariant -/
theorem step_ok_inv (s : St) (a : In) (hi : Inv s) (hv : validUse s a = true) :
    ∃ s' o, step s a = .ok s' o ∧ Inv s' := by
  cases a with
  | instRegister i fd => exact inv_instRegister s i fd hi hv
  | instUnregister i => exact inv_instUnregister s i hi hv
  | watchRegister w i mask wd => exact inv_watchRegister s w i mask wd hi hv
  | watchUnregister w => exact inv_watchUnregister s w hi hv
  | watchFree w => exact inv_watchFree s w hi hv
  | gotEvent i k res =>
    cases res with
    | eagain =>
      obtain ⟨x, _, _, _, h⟩ := gotEvent_eagain s i k hv
      exact ⟨_, _, h, hi⟩
    | data recs =>
      obtain ⟨x, _, _, _, h⟩ := gotEvent_data s hi i k recs hv
      rcases h with ⟨_, h2, h3⟩ | ⟨pre, r, post, w, wi, _, _, _, _, _, _, _, _, h9, h10⟩
      · exact ⟨_, _, h2, h3⟩
      · exact ⟨_, _, h9, h10⟩
  | handlerEnd =>
    simp only [validUse, Option.isSome_iff_exists] at hv
    obtain ⟨wk, hw⟩ := hv
    obtain ⟨recs, hc⟩ := hi.walk_chain wk hw
    cases ht : wk.this with
    | none =>
      obtain ⟨h1, h2⟩ := handlerEnd_null s hi wk hw ht
      exact ⟨_, _, h1, h2⟩
    | some i =>
      obtain ⟨x, _, _, _, h⟩ := handlerEnd_some s hi wk hw i ht recs hc
      rcases h with ⟨_, h2, h3⟩ | ⟨pre, r, post, w, wi, _, _, _, _, _, _, _, _, h9, h10⟩
      · exact ⟨_, _, h2, h3⟩
      · exact ⟨_, _, h9, h10⟩

theorem step_inv (s : St) (a : In) (hi : Inv s) (hv : validUse s a = true) {s' o} (h : step s a = .ok s' o) : Inv s' := by
  obtain ⟨s'', o', h', hinv⟩ := step_ok_inv s a hi hv
  rw [h] at h'; cases h'; exact hinv

theorem run_ok_inv (ins : List In) : ∀ (s : St), Inv s → ValidFrom s ins → ∃ s' o, run s ins = .ok s' o ∧ Inv s' := by
  induction ins with
  | nil => intro s hi _; exact ⟨s, [], rfl, hi⟩
  | cons a as ih =>
    intro s hi hv
    obtain ⟨hv1, hv2⟩ := hv
    obtain ⟨s1, o1, h1, hi1⟩ := step_ok_inv s a hi hv1
    rw [h1] at hv2
    obtain ⟨s2, o2, h2, hi2⟩ := ih s1 hi1 hv2
    exact ⟨s2, o1 ++ o2, by simp [run, h1, h2, Res.prepend], hi2⟩


theorem calls_append (a b : List Out) : calls (a ++ b) = calls a ++ calls b := by
  induction a with
  | nil => rfl
  | cons x xs ih => cases x <;> simp [calls, ih]

theorem calls_nil_of (o : List Out) (h : ∀ x ∈ o, isCall x = false) : calls o = [] := by
  induction o with
  | nil => rfl
  | cons x xs ih =>
    have hx := h x (by simp)
    have := ih (fun y hy => h y (by simp [hy]))
    cases x <;> simp_all [calls, isCall]

theorem calls_replicate_read (n : Nat) (fd : Int) : calls (List.replicate n (Out.read fd)) = [] := by
  apply calls_nil_of; intro x hx; rw [List.mem_replicate] at hx; rw [hx.2]; rfl

theorem run_cons {s : St} {a : In} {as : List In} {s' : St} {outs : List Out} (h : run s (a :: as) = .ok s' outs) :
    ∃ s1 o1 o2, step s a = .ok s1 o1 ∧ run s1 as = .ok s' o2 ∧ outs = o1 ++ o2 := by
  simp only [run] at h
  split at h
  · rename_i s1 o1 hs
    cases hr : run s1 as with
    | ok s2 o2 =>
      rw [hr] at h; simp [Res.prepend] at h
      exact ⟨s1, o1, o2, hs, by rw [hr, h.1], h.2.symm⟩
    | fault w => rw [hr] at h; simp [Res.prepend] at h
    | fatal => rw [hr] at h; simp [Res.prepend] at h
    | reject => rw [hr] at h; simp [Res.prepend] at h
  · rename_i hne
    exfalso; exact hne _ _ h

theorem isUser_of (a : In) (h1 : isGotEvent a = false) (h2 : a ≠ .handlerEnd) : isUser a = true := by
  cases a <;> simp_all [isUser, isGotEvent]

/-- outside a walk, and with no new walk started, no handler is called -/
theorem nowalk_calls (ins : List In) : ∀ (s s' : St) (outs : List Out), s.walk = none →
    (∀ a ∈ ins, isGotEvent a = false) → run s ins = .ok s' outs → calls outs = [] := by
  induction ins with
  | nil => intro s s' outs _ _ h; simp [run] at h; rw [h.2]; rfl
  | cons a as ih =>
    intro s s' outs hw hng h
    obtain ⟨s1, o1, o2, h1, h2, rfl⟩ := run_cons h
    by_cases hh : a = .handlerEnd
    · subst hh; simp [step, hw] at h1
    · have hu := isUser_of a (hng a (by simp)) hh
      obtain ⟨hc, hf⟩ := user_step_shape s a hu h1
      have hw1 : s1.walk = none := by
        rw [hw] at hf; cases hs : s1.walk with
        | none => rfl
        | some _ => rw [hs] at hf; simp [sameFrame] at hf
      rw [calls_append, calls_nil_of o1 hc, ih s1 s' o2 hw1 (fun b hb => hng b (by simp [hb])) h2]; rfl

theorem specCalls_unreg (i : Nat) (recs : List Rec) (off : Nat) (s : St) (later : List St) (h : treeOf s i = none) :
    specCalls i off recs s later = [] := by
  cases recs <;> simp [specCalls, h]

theorem specCalls_skip (i : Nat) (s : St) (later : List St) (t : List (Int × Nat)) (ht : treeOf s i = some t)
    (pre : List Rec) : ∀ (off : Nat) (rest : List Rec), (∀ r ∈ pre, t.lookup r.wd = none) →
    specCalls i off (pre ++ rest) s later = specCalls i (off + size pre) rest s later := by
  induction pre with
  | nil => intro off rest _; simp [size]
  | cons r rs ih =>
    intro off rest h
    have h1 := h r (by simp)
    have h2 := ih (off + r.len + EVSZ) rest (fun r' hr' => h r' (by simp [hr']))
    simp only [List.cons_append, specCalls, ht, h1, h2, size]
    congr 1; omega

theorem specCalls_nohit (i : Nat) (s : St) (later : List St) (t : List (Int × Nat)) (ht : treeOf s i = some t)
    (recs : List Rec) (off : Nat) (h : ∀ r ∈ recs, t.lookup r.wd = none) : specCalls i off recs s later = [] := by
  have := specCalls_skip i s later t ht recs off [] h
  simp at this; rw [this]; simp [specCalls]

theorem treeOf_of {s : St} {i : Nat} {x : Inst} (hx : s.insts i = some x) (hr : x.registered = true) :
    treeOf s i = some x.tree := by simp [treeOf, hx, hr]


theorem returnStates_handlerEnd {s s1 : St} {o : List Out} (as : List In) (h : step s .handlerEnd = .ok s1 o) :
    returnStates s (.handlerEnd :: as) = s :: returnStates s1 as := by
  simp [returnStates, h]

theorem returnStates_other {s s1 : St} {o : List Out} {a : In} (as : List In) (h : step s a = .ok s1 o) (hne : a ≠ .handlerEnd) :
    returnStates s (a :: as) = returnStates s1 as := by
  simp [returnStates, h, hne]

theorem validFrom_cons {s s1 : St} {o : List Out} {a : In} {as : List In} (hv : ValidFrom s (a :: as)) (h : step s a = .ok s1 o) :
    validUse s a = true ∧ ValidFrom s1 as := by
  obtain ⟨h1, h2⟩ := hv
  rw [h] at h2; exact ⟨h1, h2⟩

theorem walk_general (i : Nat) (ins : List In) : ∀ (s : St) (wk : Walk) (recs : List Rec) (s' : St) (outs : List Out),
    Inv s → s.walk = some wk → wk.inst = i → Chain wk.buf (wk.curr + wk.len + EVSZ) recs wk.endOff →
    (∀ a ∈ ins, isGotEvent a = false) → ValidFrom s ins → run s ins = .ok s' outs →
    calls outs = match returnStates s ins with
      | [] => []
      | s1 :: later => specCalls i (wk.curr + wk.len + EVSZ) recs s1 later := by
  induction ins with
  | nil =>
    intro s wk recs s' outs _ _ _ _ _ _ h
    simp [run] at h; rw [h.2]; rfl
  | cons a as ih =>
    intro s wk recs s' outs hi hw hinst hc hng hv h
    obtain ⟨s1, o1, o2, h1, h2, rfl⟩ := run_cons h
    obtain ⟨hva, hvas⟩ := validFrom_cons hv h1
    have hng' : ∀ b ∈ as, isGotEvent b = false := fun b hb => hng b (by simp [hb])
    rw [calls_append]
    by_cases hh : a = .handlerEnd
    · subst hh
      rw [returnStates_handlerEnd as h1]
      simp only
      cases ht : wk.this with
      | none =>
        obtain ⟨e1, _⟩ := handlerEnd_null s hi wk hw ht
        rw [e1] at h1; cases h1
        obtain ⟨x, hx, hr⟩ := hi.walk_null wk hw ht
        rw [hinst] at hx
        rw [nowalk_calls as _ s' o2 rfl hng' h2]
        rw [specCalls_unreg]
        · rfl
        · simp [treeOf, hx, hr]
      | some j =>
        obtain ⟨x, hx, hr, hj, hcases⟩ := handlerEnd_some s hi wk hw j ht recs hc
        rw [hinst] at hj; subst hj
        have htree := treeOf_of hx hr
        rcases hcases with ⟨n1, n2, _⟩ | ⟨pre, r, post, w, wi, e1, e2, e3, _, _, _, _, e8, e9, e10⟩
        · rw [n2] at h1; cases h1
          rw [nowalk_calls as _ s' o2 rfl hng' h2, specCalls_nohit i s _ x.tree htree recs _ n1]
          rfl
        · rw [e9] at h1; cases h1
          have := ih _ { nextFrame wk with curr := wk.curr + wk.len + EVSZ + size pre, len := r.len } post s' o2 e10 rfl
            (by simpa [nextFrame] using hinst) (by simpa [nextFrame] using e8) hng' hvas h2
          simp only at this
          rw [this, e1, specCalls_skip i s _ x.tree htree pre _ _ e2]
          generalize returnStates _ as = L
          cases L <;> simp [calls, specCalls, htree, e3]
    · have hu := isUser_of a (hng a (by simp)) hh
      obtain ⟨hcl, hf⟩ := user_step_shape s a hu h1
      rw [returnStates_other as h1 hh, calls_nil_of o1 hcl]
      rw [hw] at hf
      cases hw1 : s1.walk with
      | none => rw [hw1] at hf; simp [sameFrame] at hf
      | some wk1 =>
        rw [hw1] at hf; simp only [sameFrame] at hf
        obtain ⟨f1, f2, f3, f4, f5⟩ := hf
        have := ih s1 wk1 recs s' o2 (step_inv s a hi hva h1) hw1 (by rw [← f1]; exact hinst)
          (by rw [← f2, ← f3, ← f4, ← f5]; exact hc) hng' hvas h2
        rw [← f4, ← f5] at this
        simpa using this


theorem routing_in_order (s : St) (hi : Inv s) (i k : Nat) (recs : List Rec) (ins : List In)
    (hng : ∀ a ∈ ins, isGotEvent a = false) (hv : ValidFrom s (.gotEvent i k (.data recs) :: ins))
    {s' : St} {outs : List Out} (h : run s (.gotEvent i k (.data recs) :: ins) = .ok s' outs) :
    calls outs = specCalls i 0 recs s (returnStates s (.gotEvent i k (.data recs) :: ins)) := by
  obtain ⟨s1, o1, o2, h1, h2, rfl⟩ := run_cons h
  obtain ⟨hva, hvas⟩ := validFrom_cons hv h1
  rw [returnStates_other ins h1 (by simp), calls_append]
  obtain ⟨x, hx, hr, hw, hcases⟩ := gotEvent_data s hi i k recs hva
  have htree := treeOf_of hx hr
  rcases hcases with ⟨n1, n2, _⟩ | ⟨pre, r, post, w, wi, e1, e2, e3, _, _, _, _, e8, e9, e10⟩
  · rw [n2] at h1; cases h1
    rw [nowalk_calls ins _ s' o2 rfl hng h2, specCalls_nohit i s _ x.tree htree recs _ n1]
    simp [calls_append, calls_replicate_read, calls]
  · rw [e9] at h1; cases h1
    have := walk_general i ins _ { frame0 i recs with curr := size pre, len := r.len } post s' o2 e10 rfl
      (by simp [frame0]) (by simpa [frame0] using e8) hng hvas h2
    simp only at this
    rw [this, e1, specCalls_skip i s _ x.tree htree pre _ _ e2]
    generalize returnStates _ ins = L
    cases L <;> simp [calls, specCalls, htree, e3, calls_append, calls_replicate_read]

theorem inTree_of_lookup {t : List (Int × Nat)} {wd : Int} {w : Nat} (h : t.lookup wd = some w) : inTree t w = true := by
  rw [inTree_iff]; exact ⟨(wd, w), lookup_mem h, rfl⟩

theorem inTree_drop (t : List (Int × Nat)) (w : Nat) (c : Bool) (h : inTree t w = true) :
    inTree (if c then treeDel t w else t) w = !c := by
  cases c <;> simp [h, inTree_treeDel]

theorem call_mem_reads {n : Nat} {fd : Int} {x y : Out} (h : x ∈ List.replicate n (Out.read fd) ++ [y]) (hc : isCall x = true) : x = y := by
  simp at h
  rcases h with ⟨_, h⟩ | h
  · subst h; simp [isCall] at hc
  · exact h

theorem callFacts_of_callState {s0 s : St} {i : Nat} {x x0 : Inst} {w : Nat} {wi : WInfo} {r : Rec} {wk : Walk} {off : Nat}
    (hws : s0.ws = s.ws) (hx : s.insts i = some x) (hr : x.registered = true) (hx0r : x0.registered = true) (hx0t : x0.tree = x.tree)
    (hl : x.tree.lookup r.wd = some w) (hw : s.ws w = some wi) (hf : wi.freed = false) (hi : wi.inst = i) (hwd : wi.wd = r.wd)
    (hwk : wk.inst = i) :
    CallFacts s (callState s0 i x0 (dropCond r.mask wi.mask) w wk off r.len) w off r
      (inTree (if dropCond r.mask wi.mask then treeDel x.tree w else x.tree) w) := by
  have hin := inTree_of_lookup hl
  have hb := inTree_drop x.tree w (dropCond r.mask wi.mask) hin
  constructor
  · rw [isReg_iff]; exact ⟨wi, x, hw, hf, by rw [hi]; exact hx, hr, hin⟩
  · refine ⟨wi, hw, hwd, by simp [callState, hws, hw], ⟨_, rfl, by simp [hwk, hi], rfl, rfl⟩, hb⟩
  · rw [hb]
    cases hc : dropCond r.mask wi.mask
    · simp only [Bool.not_false]
      rw [isReg_iff]
      refine ⟨wi, { x0 with tree := x.tree }, by simp [callState, hws, hw], hf, by simp [callState, hi, hx0t], by simpa using hx0r, by simpa using hin⟩
    · simp only [Bool.not_true]
      cases hreg : isReg (callState s0 i x0 true w wk off r.len) w with
      | false => rfl
      | true =>
        rw [isReg_iff] at hreg
        obtain ⟨wi', y, h1, _, h3, _, h5⟩ := hreg
        simp [callState, hws, hw] at h1; subst h1
        simp [callState, hi] at h3; subst h3
        simp [hx0t, inTree_treeDel] at h5


/-- every handler invocation any step emits has the `CallFacts`; a step emits at most one -/
theorem call_spec (s : St) (hi : Inv s) (a : In) (hv : validUse s a = true) {s' : St} {o : List Out}
    (h : step s a = .ok s' o) {w off : Nat} {r : Rec} {b : Bool} (hc : Out.call w off r b ∈ o) :
    CallFacts s s' w off r b ∧ calls o = [(w, off, r)] := by
  by_cases hu : isUser a = true
  · have := (user_step_shape s a hu h).1 _ hc
    simp [isCall] at this
  · cases a with
    | gotEvent i k res =>
      cases res with
      | eagain =>
        obtain ⟨x, _, _, _, h'⟩ := gotEvent_eagain s i k hv
        rw [h'] at h; cases h
        have := call_mem_reads hc rfl
        cases this
      | data recs =>
        obtain ⟨x, hx, hr, hw, hcases⟩ := gotEvent_data s hi i k recs hv
        rcases hcases with ⟨_, n2, _⟩ | ⟨pre, r', post, w', wi, e1, e2, e3, e4, e5, e6, e7, e8, e9, e10⟩
        · rw [n2] at h; cases h
          have := call_mem_reads hc rfl
          cases this
        · rw [e9] at h; cases h
          have := call_mem_reads hc rfl
          cases this
          refine ⟨callFacts_of_callState rfl hx hr (by simpa using hr) rfl e3 e4 e5 e6 e7 rfl, ?_⟩
          simp [calls_append, calls_replicate_read, calls]
    | handlerEnd =>
      simp only [validUse, Option.isSome_iff_exists] at hv
      obtain ⟨wk, hw⟩ := hv
      obtain ⟨recs, hch⟩ := hi.walk_chain wk hw
      cases ht : wk.this with
      | none =>
        obtain ⟨h1, _⟩ := handlerEnd_null s hi wk hw ht
        rw [h1] at h; cases h
        simp at hc
      | some i =>
        obtain ⟨x, hx, hr, hinst, hcases⟩ := handlerEnd_some s hi wk hw i ht recs hch
        rcases hcases with ⟨_, n2, _⟩ | ⟨pre, r', post, w', wi, e1, e2, e3, e4, e5, e6, e7, e8, e9, e10⟩
        · rw [n2] at h; cases h
          simp at hc
        · rw [e9] at h; cases h
          simp at hc
          obtain ⟨rfl, rfl, rfl, rfl⟩ := hc
          refine ⟨callFacts_of_callState rfl hx hr hr rfl e3 e4 e5 e6 e7 (by simpa [nextFrame] using hinst), ?_⟩
          simp [calls]
    | _ => simp [isUser] at hu

theorem isReg_mono {s s' : St} {w : Nat} (h1 : s'.ws w = s.ws w)
    (h2 : ∀ k y', s'.insts k = some y' → y'.registered = true → inTree y'.tree w = true →
      ∃ y, s.insts k = some y ∧ y.registered = true ∧ inTree y.tree w = true)
    (hn : isReg s w = false) : isReg s' w = false := by
  cases hr : isReg s' w with
  | false => rfl
  | true =>
    rw [isReg_iff] at hr
    obtain ⟨wi, y', a1, a2, a3, a4, a5⟩ := hr
    obtain ⟨y, b1, b2, b3⟩ := h2 _ y' a3 a4 a5
    have : isReg s w = true := by
      rw [isReg_iff]; exact ⟨wi, y, by rw [← h1]; exact a1, a2, b1, b2, b3⟩
    rw [hn] at this; cases this

theorem inTree_sub {t t' : List (Int × Nat)} {w : Nat} (h : ∀ e ∈ t', e ∈ t) (hin : inTree t' w = true) : inTree t w = true := by
  rw [inTree_iff] at *
  obtain ⟨e, he, hw⟩ := hin
  exact ⟨e, h e he, hw⟩

theorem drop_sub (t : List (Int × Nat)) (w : Nat) (c : Bool) : ∀ e ∈ (if c then treeDel t w else t), e ∈ t := by
  intro e he; split at he
  · exact ((mem_treeDel _ _ _).1 he).1
  · exact he

theorem notReg_endState {s0 s : St} {i : Nat} {x x0 : Inst} {w : Nat} (hws : s0.ws = s.ws)
    (hins : ∀ k, k ≠ i → s0.insts k = s.insts k) (hx : s.insts i = some x) (hx0r : x0.registered = x.registered)
    (hx0t : x0.tree = x.tree) (hn : isReg s w = false) : isReg (endState s0 i x0) w = false := by
  refine isReg_mono (s := s) ?_ ?_ hn
  · simp [endState, hws]
  · intro k y' hk hr hin
    simp [endState] at hk
    split at hk
    · rename_i hki; subst hki; simp at hk; subst hk
      exact ⟨x, hx, by simpa [hx0r] using hr, by simpa [hx0t] using hin⟩
    · rename_i hki; rw [hins k hki] at hk; exact ⟨y', hk, hr, hin⟩

theorem notReg_callState {s0 s : St} {i : Nat} {x x0 : Inst} {w w' : Nat} {c : Bool} {wk : Walk} {off len : Nat} (hws : s0.ws = s.ws)
    (hins : ∀ k, k ≠ i → s0.insts k = s.insts k) (hx : s.insts i = some x) (hx0r : x0.registered = x.registered)
    (hx0t : x0.tree = x.tree) (hn : isReg s w = false) : isReg (callState s0 i x0 c w' wk off len) w = false := by
  refine isReg_mono (s := s) ?_ ?_ hn
  · simp [callState, hws]
  · intro k y' hk hr hin
    simp [callState] at hk
    split at hk
    · rename_i hki; subst hki; simp at hk; subst hk
      refine ⟨x, hx, by simpa [hx0r] using hr, ?_⟩
      simp only at hin
      rw [hx0t] at hin
      exact inTree_sub (drop_sub x.tree w' c) hin
    · rename_i hki; rw [hins k hki] at hk; exact ⟨y', hk, hr, hin⟩

/-- a watch that is not registered stays unregistered until it is registered again -/
theorem notReg_preserved (s : St) (hi : Inv s) (a : In) (hv : validUse s a = true) {s' : St} {o : List Out}
    (h : step s a = .ok s' o) (w : Nat) (hn : isReg s w = false) (ha : isWatchRegister w a = false) :
    isReg s' w = false := by
  cases a with
  | instRegister i fd =>
    simp only [validUse, Option.isNone_iff_eq_none] at hv
    simp only [step, hv] at h
    split at h
    · cases h; exact hn
    · cases h
      refine isReg_mono (s := s) rfl ?_ hn
      intro k y' hk hr hin
      simp at hk; split at hk
      · simp at hk; subst hk; simp [inTree] at hin
      · exact ⟨y', hk, hr, hin⟩
  | instUnregister i =>
    simp only [validUse, regd_iff] at hv
    obtain ⟨x, hx, hr⟩ := hv
    simp only [step, hx, hr] at h
    have key : ∀ (s1 : St) (y : Inst), s1.ws = s.ws → y.registered = false →
        (∀ k, s1.insts k = if k = i then some y else s.insts k) → isReg s1 w = false := by
      intro s1 y e1 ey e2
      refine isReg_mono (s := s) (by rw [e1]) ?_ hn
      intro k y' hk hr hin
      rw [e2] at hk
      split at hk
      · simp at hk; subst hk; rw [ey] at hr; cases hr
      · exact ⟨y', hk, hr, hin⟩
    cases ht : x.term with
    | null => simp [ht] at h; obtain ⟨rfl, _⟩ := h; exact key _ _ rfl rfl (fun k => rfl)
    | frame =>
      simp only [ht] at h
      cases hw : s.walk with
      | none => simp [hw] at h
      | some wk => simp [hw] at h; obtain ⟨rfl, _⟩ := h; exact key _ _ rfl rfl (fun k => rfl)
  | watchRegister w' i mask wd =>
    simp [isWatchRegister] at ha
    have hs1 : ∀ s1 : St, s1.ws = (s.setW w' { inst := i, wd := wd, mask := mask, freed := false }).ws → s1.insts = s.insts →
        isReg s1 w = false := by
      intro s1 e1 e2
      refine isReg_mono (s := s) (by rw [e1]; simp [Ne.symm ha]) ?_ hn
      intro k y' hk hr hin
      rw [e2] at hk; exact ⟨y', hk, hr, hin⟩
    simp only [step] at h
    repeat' split at h
    all_goals (first | cases h | skip)
    · exact hs1 _ rfl rfl
    · exact hs1 _ rfl rfl
    · rename_i _ x hx _ _ _ _ _ _ _
      refine isReg_mono (s := s) (by simp [Ne.symm ha]) ?_ hn
      intro k y' hk hr hin
      simp at hk; split at hk
      · rename_i hki; subst hki; simp at hk; subst hk
        refine ⟨x, hx, by simpa using hr, ?_⟩
        simp [inTree, ha] at hin
        simpa [inTree] using hin
      · exact ⟨y', hk, hr, hin⟩
  | watchUnregister w' =>
    simp only [step] at h
    repeat' split at h
    all_goals (first | cases h | skip)
    rename_i _ wi hwi _ _ x hx _ _ _
    refine isReg_mono (s := s) rfl ?_ hn
    intro k y' hk hr hin
    simp at hk; split at hk
    · rename_i hki; subst hki; simp at hk; subst hk
      refine ⟨x, hx, by simpa using hr, ?_⟩
      exact inTree_sub (fun e he => ((mem_treeDel _ _ _).1 he).1) hin
    · exact ⟨y', hk, hr, hin⟩
  | watchFree w' =>
    simp only [step] at h
    repeat' split at h
    all_goals (first | cases h | skip)
    rename_i wi hwi _
    by_cases hww : w = w'
    · subst hww
      cases hreg : isReg (s.setW w { wi with freed := true }) w with
      | false => rfl
      | true =>
        rw [isReg_iff] at hreg
        obtain ⟨wi', y, h1, h2, _⟩ := hreg
        simp at h1; subst h1; simp at h2
    · refine isReg_mono (s := s) (by simp [hww]) ?_ hn
      intro k y' hk hr hin; exact ⟨y', hk, hr, hin⟩
  | gotEvent i k res =>
    cases res with
    | eagain =>
      obtain ⟨x, _, _, _, h'⟩ := gotEvent_eagain s i k hv
      rw [h'] at h; cases h; exact hn
    | data recs =>
      obtain ⟨x, hx, hr, hw, hcases⟩ := gotEvent_data s hi i k recs hv
      have hins : ∀ k, k ≠ i → (s.setInst i { x with term := .frame }).insts k = s.insts k := by
        intro k hk; simp [hk]
      rcases hcases with ⟨_, n2, _⟩ | ⟨pre, r', post, w', wi, e1, e2, e3, e4, e5, e6, e7, e8, e9, e10⟩
      · rw [n2] at h; cases h
        exact notReg_endState (s := s) rfl hins hx rfl rfl hn
      · rw [e9] at h; cases h
        exact notReg_callState (s := s) rfl hins hx rfl rfl hn
  | handlerEnd =>
    simp only [validUse, Option.isSome_iff_exists] at hv
    obtain ⟨wk, hw⟩ := hv
    obtain ⟨recs, hch⟩ := hi.walk_chain wk hw
    cases ht : wk.this with
    | none =>
      obtain ⟨h1, _⟩ := handlerEnd_null s hi wk hw ht
      rw [h1] at h; cases h
      exact isReg_mono rfl (fun k y' hk hr hin => ⟨y', hk, hr, hin⟩) hn
    | some i =>
      obtain ⟨x, hx, hr, hinst, hcases⟩ := handlerEnd_some s hi wk hw i ht recs hch
      rcases hcases with ⟨_, n2, _⟩ | ⟨pre, r', post, w', wi, e1, e2, e3, e4, e5, e6, e7, e8, e9, e10⟩
      · rw [n2] at h; cases h
        exact notReg_endState (s := s) rfl (fun _ _ => rfl) hx rfl rfl hn
      · rw [e9] at h; cases h
        exact notReg_callState (s := s) rfl (fun _ _ => rfl) hx rfl rfl hn

theorem isCallTo_mem {w : Nat} {o : List Out} {x : Out} (hx : x ∈ o) (hc : isCallTo w x = true) :
    ∃ off r b, Out.call w off r b ∈ o := by
  cases x <;> simp [isCallTo] at hc
  subst hc; exact ⟨_, _, _, hx⟩

/-- while a watch is not registered (never registered, unregistered, or dropped by the library) no
record is delivered to it, whatever else happens, until it is registered again -/
theorem unregistered_no_call (w : Nat) (ins : List In) : ∀ (s s' : St) (outs : List Out), Inv s → isReg s w = false →
    (∀ a ∈ ins, isWatchRegister w a = false) → ValidFrom s ins → run s ins = .ok s' outs →
    ∀ o ∈ outs, isCallTo w o = false := by
  induction ins with
  | nil => intro s s' outs _ _ _ _ h; simp [run] at h; rw [h.2]; simp
  | cons a as ih =>
    intro s s' outs hi hn hnr hv h
    obtain ⟨s1, o1, o2, h1, h2, rfl⟩ := run_cons h
    obtain ⟨hva, hvas⟩ := validFrom_cons hv h1
    have hn1 := notReg_preserved s hi a hva h1 w hn (hnr a (by simp))
    have ih' := ih s1 s' o2 (step_inv s a hi hva h1) hn1 (fun b hb => hnr b (by simp [hb])) hvas h2
    intro o ho
    rw [List.mem_append] at ho
    rcases ho with ho | ho
    · cases hc : isCallTo w o with
      | false => rfl
      | true =>
        obtain ⟨off, r, b, hm⟩ := isCallTo_mem ho hc
        have := (call_spec s hi a hva h1 hm).1.reg_before
        rw [hn] at this; cases this
    · exact ih' o ho

theorem watchUnregister_notReg (s : St) (hi : Inv s) (w : Nat) (hv : validUse s (.watchUnregister w) = true)
    {s1 : St} {o : List Out} (h : step s (.watchUnregister w) = .ok s1 o) : isReg s1 w = false := by
  simp only [validUse, isReg_iff] at hv
  obtain ⟨wi, x, hw, hf, hx, hr, hin⟩ := hv
  have hal := treeAlive_inv s hi _ x hx hr
  simp [step, hw, hf, hx, hr, hin, hal] at h
  obtain ⟨rfl, _⟩ := h
  cases hreg : isReg (s.setInst wi.inst { x with tree := treeDel x.tree w }) w with
  | false => simpa [hr] using hreg
  | true =>
    rw [isReg_iff] at hreg
    obtain ⟨wi', y, h1, _, h3, _, h5⟩ := hreg
    simp [hw] at h1; subst h1
    simp at h3; subst h3
    simp [inTree_treeDel] at h5

theorem unregister_suppresses (s : St) (hi : Inv s) (w : Nat) (ins : List In)
    (hnr : ∀ a ∈ ins, isWatchRegister w a = false) (hv : ValidFrom s (.watchUnregister w :: ins))
    {s' : St} {outs : List Out} (h : run s (.watchUnregister w :: ins) = .ok s' outs) :
    ∀ o ∈ outs, isCallTo w o = false := by
  obtain ⟨s1, o1, o2, h1, h2, rfl⟩ := run_cons h
  obtain ⟨hva, hvas⟩ := validFrom_cons hv h1
  have hn1 := watchUnregister_notReg s hi w hva h1
  intro o ho
  rw [List.mem_append] at ho
  rcases ho with ho | ho
  · have := (user_step_shape s _ rfl h1).1 o ho
    cases o <;> simp_all [isCall, isCallTo]
  · exact unregistered_no_call w ins s1 s' o2 (step_inv s _ hi hva h1) hn1 hnr hvas h2 o ho

theorem dropped_suppresses (s : St) (hi : Inv s) (a : In) (hv : validUse s a = true) {s1 : St} {o : List Out}
    (h : step s a = .ok s1 o) {w off : Nat} {r : Rec} (hc : Out.call w off r false ∈ o)
    (ins : List In) (hnr : ∀ a ∈ ins, isWatchRegister w a = false) (hvs : ValidFrom s1 ins)
    {s' : St} {outs : List Out} (hrun : run s1 ins = .ok s' outs) :
    ∀ o ∈ outs, isCallTo w o = false :=
  unregistered_no_call w ins s1 s' outs (step_inv s a hi hv h) (call_spec s hi a hv h hc).1.reg_after hnr hvs hrun


/-- once the walk's `this` is NULL, nothing a handler does makes it non-NULL again -/
theorem user_step_null (s : St) (a : In) (hu : isUser a = true) {s' o} (h : step s a = .ok s' o)
    (wk : Walk) (hw : s.walk = some wk) (ht : wk.this = none) : ∃ wk', s'.walk = some wk' ∧ wk'.this = none := by
  cases a <;> simp [isUser] at hu <;> simp only [step] at h
  all_goals (repeat' split at h)
  all_goals (first | cases h | skip)
  all_goals (first | (injection h with h1 h2; subst h1; subst h2) | skip)
  all_goals (first | exact ⟨wk, by simpa using hw, ht⟩ | skip)
  all_goals simp_all

/-- no step modifies (or, by `step_ok_inv`, faults on) an instance that was unregistered -/
theorem dead_untouched (s : St) (hi : Inv s) (a : In) (hv : validUse s a = true) {s' : St} {o : List Out}
    (h : step s a = .ok s' o) (i : Nat) (x : Inst) (hx : s.insts i = some x) (hd : x.registered = false) :
    s'.insts i = some x := by
  cases a with
  | instRegister j fd =>
    simp only [validUse, Option.isNone_iff_eq_none] at hv
    simp only [step, hv] at h
    have : i ≠ j := by intro e; subst e; rw [hv] at hx; cases hx
    split at h <;> cases h <;> simp [this, hx]
  | instUnregister j =>
    simp only [validUse, regd_iff] at hv
    obtain ⟨y, hy, hr⟩ := hv
    have : i ≠ j := by intro e; subst e; rw [hy] at hx; cases hx; rw [hr] at hd; cases hd
    simp only [step, hy, hr] at h
    cases ht : y.term with
    | null => simp [ht] at h; obtain ⟨rfl, _⟩ := h; simp [this, hx]
    | frame =>
      simp only [ht] at h
      cases hw : s.walk with
      | none => simp [hw] at h
      | some wk => simp [hw] at h; obtain ⟨rfl, _⟩ := h; simp [this, hx]
  | watchRegister w j mask wd =>
    simp only [validUse, Bool.and_eq_true, regd_iff] at hv
    obtain ⟨⟨⟨y, hy, hr⟩, _⟩, _⟩ := hv
    have : i ≠ j := by intro e; subst e; rw [hy] at hx; cases hx; rw [hr] at hd; cases hd
    simp only [step] at h
    repeat' split at h
    all_goals (first | cases h | skip)
    all_goals simp_all
  | watchUnregister w =>
    simp only [validUse, isReg_iff] at hv
    obtain ⟨wi, y, hw, hf, hy, hr, hin⟩ := hv
    have : i ≠ wi.inst := by intro e; subst e; rw [hy] at hx; cases hx; rw [hr] at hd; cases hd
    have hal := treeAlive_inv s hi _ y hy hr
    simp [step, hw, hf, hy, hr, hin, hal] at h
    obtain ⟨rfl, _⟩ := h
    simp [this, hx]
  | watchFree w =>
    simp only [step] at h
    repeat' split at h
    all_goals (first | cases h | skip)
    simpa using hx
  | gotEvent j k res =>
    cases res with
    | eagain =>
      obtain ⟨_, _, _, _, h'⟩ := gotEvent_eagain s j k hv
      rw [h'] at h; cases h; exact hx
    | data recs =>
      obtain ⟨y, hy, hr, hw, hcases⟩ := gotEvent_data s hi j k recs hv
      have : i ≠ j := by intro e; subst e; rw [hy] at hx; cases hx; rw [hr] at hd; cases hd
      rcases hcases with ⟨_, n2, _⟩ | ⟨pre, r', post, w', wi, e1, e2, e3, e4, e5, e6, e7, e8, e9, e10⟩
      · rw [n2] at h; cases h; simp [endState, this, hx]
      · rw [e9] at h; cases h; simp [callState, this, hx]
  | handlerEnd =>
    simp only [validUse, Option.isSome_iff_exists] at hv
    obtain ⟨wk, hw⟩ := hv
    obtain ⟨recs, hch⟩ := hi.walk_chain wk hw
    cases ht : wk.this with
    | none =>
      obtain ⟨h1, _⟩ := handlerEnd_null s hi wk hw ht
      rw [h1] at h; cases h; exact hx
    | some j =>
      obtain ⟨y, hy, hr, hinst, hcases⟩ := handlerEnd_some s hi wk hw j ht recs hch
      have : i ≠ j := by intro e; subst e; rw [hy] at hx; cases hx; rw [hr] at hd; cases hd
      rcases hcases with ⟨_, n2, _⟩ | ⟨pre, r', post, w', wi, e1, e2, e3, e4, e5, e6, e7, e8, e9, e10⟩
      · rw [n2] at h; cases h; simp [endState, this, hx]
      · rw [e9] at h; cases h; simp [callState, this, hx]

theorem dead_untouched_run (i : Nat) (x : Inst) (hd : x.registered = false) (ins : List In) : ∀ (s s' : St) (outs : List Out),
    Inv s → s.insts i = some x → ValidFrom s ins → run s ins = .ok s' outs → s'.insts i = some x := by
  induction ins with
  | nil => intro s s' outs _ hx _ h; simp [run] at h; rw [← h.1]; exact hx
  | cons a as ih =>
    intro s s' outs hi hx hv h
    obtain ⟨s1, o1, o2, h1, h2, rfl⟩ := run_cons h
    obtain ⟨hva, hvas⟩ := validFrom_cons hv h1
    exact ih s1 s' o2 (step_inv s a hi hva h1) (dead_untouched s hi a hva h1 i x hx hd) hvas h2

/-- with the walk's `this` NULL (or no walk at all) and no new walk started, no handler is called -/
theorem stopped_no_calls (ins : List In) : ∀ (s s' : St) (outs : List Out), Inv s →
    (∀ wk, s.walk = some wk → wk.this = none) → (∀ a ∈ ins, isGotEvent a = false) → ValidFrom s ins →
    run s ins = .ok s' outs → calls outs = [] := by
  induction ins with
  | nil => intro s s' outs _ _ _ _ h; simp [run] at h; rw [h.2]; rfl
  | cons a as ih =>
    intro s s' outs hi hst hng hv h
    cases hw : s.walk with
    | none => exact nowalk_calls _ s s' outs hw hng h
    | some wk =>
      have ht := hst wk hw
      obtain ⟨s1, o1, o2, h1, h2, rfl⟩ := run_cons h
      obtain ⟨hva, hvas⟩ := validFrom_cons hv h1
      have hng' : ∀ b ∈ as, isGotEvent b = false := fun b hb => hng b (by simp [hb])
      by_cases hh : a = .handlerEnd
      · subst hh
        obtain ⟨e1, _⟩ := handlerEnd_null s hi wk hw ht
        rw [e1] at h1; cases h1
        rw [calls_append, nowalk_calls as _ s' o2 rfl hng' h2]; rfl
      · have hu := isUser_of a (hng a (by simp)) hh
        obtain ⟨wk', hw', ht'⟩ := user_step_null s a hu h1 wk hw ht
        rw [calls_append, calls_nil_of o1 (user_step_shape s a hu h1).1,
          ih s1 s' o2 (step_inv s a hi hva h1) (by intro wk2 hw2; rw [hw'] at hw2; cases hw2; exact ht') hng' hvas h2]
        rfl

/-- unregistering the instance whose walk is running, from inside a handler: the rest of the buffer is
not delivered, the unregistered instance is never touched again, and nothing faults -/
theorem instance_unregister_stops (s : St) (hi : Inv s) (wk : Walk) (hw : s.walk = some wk) (i : Nat) (ht : wk.this = some i)
    (ins : List In) (hng : ∀ a ∈ ins, isGotEvent a = false) (hv : ValidFrom s (.instUnregister i :: ins)) :
    ∃ s' outs x, run s (.instUnregister i :: ins) = .ok s' outs ∧ calls outs = [] ∧
      s.insts i = some x ∧ s'.insts i = some { x with registered := false } := by
  obtain ⟨s', outs, h, _⟩ := run_ok_inv _ s hi hv
  obtain ⟨s1, o1, o2, h1, h2, rfl⟩ := run_cons h
  obtain ⟨hva, hvas⟩ := validFrom_cons hv h1
  obtain ⟨_, x, hx, hr, hterm⟩ := hi.walk_this wk i hw ht
  have e1 : step s (.instUnregister i) = .ok { s.setInst i { x with registered := false } with walk := some { wk with this := none } } [.close x.fd] := by
    simp [step, hx, hr, hterm, hw]
  rw [e1] at h1; cases h1
  have hi1 := step_inv s _ hi hva e1
  refine ⟨s', _, x, h, ?_, hx, ?_⟩
  · rw [calls_append, stopped_no_calls ins _ s' o2 hi1 (by intro wk2 hw2; simp at hw2; subst hw2; rfl) hng hvas h2]; rfl
  · exact dead_untouched_run i _ rfl ins _ s' o2 hi1 (by simp) hvas h2

theorem nodup_fst_unique {t : List (Int × Nat)} (h : (t.map (·.1)).Nodup) {k : Int} {v1 v2 : Nat}
    (h1 : (k, v1) ∈ t) (h2 : (k, v2) ∈ t) : v1 = v2 := by
  induction t with
  | nil => simp at h1
  | cons p t ih =>
    simp only [List.map_cons, List.nodup_cons, List.mem_map, not_exists, not_and] at h
    simp only [List.mem_cons] at h1 h2
    rcases h1 with h1 | h1 <;> rcases h2 with h2 | h2
    · rw [← h1] at h2; simpa using h2.symm
    · subst h1; exact absurd rfl (h.1 (_, v2) h2)
    · subst h2; exact absurd rfl (h.1 (_, v1) h1)
    · exact ih h.2 h1 h2

/-- two registered watches of one instance never carry the same descriptor: a record has one target -/
theorem wd_unique (s : St) (hi : Inv s) (w1 w2 : Nat) (a b : WInfo) (ha : s.ws w1 = some a) (hb : s.ws w2 = some b)
    (r1 : isReg s w1 = true) (r2 : isReg s w2 = true) (hinst : a.inst = b.inst) (hwd : a.wd = b.wd) : w1 = w2 := by
  rw [isReg_iff] at r1 r2
  obtain ⟨a', x, p1, _, p3, p4, p5⟩ := r1
  obtain ⟨b', y, q1, _, q3, q4, q5⟩ := r2
  rw [ha] at p1; cases p1; rw [hb] at q1; cases q1
  rw [← hinst, p3] at q3; cases q3
  rw [inTree_iff] at p5 q5
  obtain ⟨e1, m1, rfl⟩ := p5
  obtain ⟨e2, m2, rfl⟩ := q5
  obtain ⟨c1, u1, _, u3, _⟩ := hi.tree_ws _ x p3 p4 e1 m1
  obtain ⟨c2, v1, _, v3, _⟩ := hi.tree_ws _ x p3 p4 e2 m2
  rw [ha] at u1; cases u1; rw [hb] at v1; cases v1
  have m1' : (a.wd, e1.2) ∈ x.tree := by rw [u3]; exact m1
  have m2' : (a.wd, e2.2) ∈ x.tree := by rw [hwd, v3]; exact m2
  exact nodup_fst_unique (hi.tree_nodup _ x p3 p4) m1' m2'


/-- IN_IGNORED records and one-shot watches: the watch is out of the tree when its handler is entered;
any other delivery leaves it in -/
theorem dropped_before_handler (s : St) (hi : Inv s) (a : In) (hv : validUse s a = true) {s' : St} {o : List Out}
    (h : step s a = .ok s' o) {w off : Nat} {r : Rec} {b : Bool} (hc : Out.call w off r b ∈ o) :
    ∃ wi, s.ws w = some wi ∧ b = !dropCond r.mask wi.mask ∧ isReg s' w = !dropCond r.mask wi.mask := by
  obtain ⟨⟨_, ⟨wi, h1, _, _, _, h5⟩, h6⟩, _⟩ := call_spec s hi a hv h hc
  exact ⟨wi, h1, h5, by rw [h6, h5]⟩

theorem validFromB_iff (ins : List In) : ∀ s, validFromB s ins = true ↔ ValidFrom s ins := by
  induction ins with
  | nil => intro s; simp [validFromB, ValidFrom]
  | cons a as ih =>
    intro s
    simp only [validFromB, ValidFrom, Bool.and_eq_true]
    cases h : step s a <;> simp [ih]

end Ivy.Inotify.Proofs
