import Ivy.L3.PumpSpec
/-!
Proofs for the C17 theorems about the `iv_fd_pump` model (`Ivy/L3/Pump.lean`).

`Stage R s evs s' o r e` is the common postcondition of one stage of `pump` (`tryInput`,
`tryOutput`, or a skipped stage) started in `s` on events `evs`; stages compose (`Stage.trans`),
and `pump_decomp` expresses a whole `pump` call as a composed stage followed by `bands`.
-/
namespace Ivy.Pump.Proofs
open Ivy.Pump
open Ivy.Generated

/-- postcondition of a stage of `pump`; `R` is what a `read` call entitles us to conclude -/
structure Stage (R : Prop) (s : St) (evs : List Ev) (s' : St) (o : List Out) (r : Int)
    (e : List Ev) : Prop where
  inv : Inv s'
  cons : ∃ c, evs = c ++ e ∧ (r = -1 ↔ ∃ ev, ev ∈ c ∧ isErrEv ev = true)
  rc : r = 0 ∨ r = -1
  noBands : ∀ a b, Out.setBands a b ∉ o
  shut : Out.shutdown ∈ o ↔ (s.sawFin ≠ 2 ∧ s'.sawFin = 2 ∧ s.relayEof = true)
  cnt : o.count Out.shutdown ≤ 1
  relay : s'.relayEof = s.relayEof
  mono : s.sawFin = 2 → s'.sawFin = 2
  reads : ∀ c, Out.read c ∈ o → 0 < c ∧ R
  writes : ∀ c, Out.write c ∈ o → 0 < c

theorem Stage.refl {R : Prop} {s : St} (h : Inv s) (evs : List Ev) : Stage R s evs s [] 0 evs where
  inv := h
  cons := ⟨[], by simp⟩
  rc := Or.inl rfl
  noBands := by simp
  shut := by simp; intro h1 h2; exact absurd h2 h1
  cnt := by simp
  relay := rfl
  mono := id
  reads := by simp
  writes := by simp

theorem Stage.trans {R : Prop} {s s1 s2 : St} {evs e1 e2 : List Ev} {o1 o2 : List Out} {r2 : Int}
    (h1 : Stage R s evs s1 o1 0 e1) (h2 : Stage R s1 e1 s2 o2 r2 e2) :
    Stage R s evs s2 (o1 ++ o2) r2 e2 := by
  obtain ⟨c1, hc1, he1⟩ := h1.cons
  obtain ⟨c2, hc2, he2⟩ := h2.cons
  have hno1 : ∀ ev, ev ∈ c1 → isErrEv ev = true → False := by
    intro ev hm he
    have := he1.mpr ⟨ev, hm, he⟩
    omega
  have hs1 := h1.shut
  have hs2 := h2.shut
  have hm1 := h1.mono
  have hm2 := h2.mono
  have hr1 := h1.relay
  refine
    { inv := h2.inv, cons := ⟨c1 ++ c2, by simp [hc1, hc2], ?_⟩, rc := h2.rc, noBands := ?_,
      shut := ?_, cnt := ?_, relay := by rw [h2.relay, h1.relay], mono := fun h => hm2 (hm1 h),
      reads := ?_, writes := ?_ }
  · rw [he2]
    constructor
    · rintro ⟨ev, hm, he⟩
      exact ⟨ev, List.mem_append_right _ hm, he⟩
    · rintro ⟨ev, hm, he⟩
      rcases List.mem_append.mp hm with hm | hm
      · exact (hno1 ev hm he).elim
      · exact ⟨ev, hm, he⟩
  · intro a b hm
    rcases List.mem_append.mp hm with hm | hm
    · exact h1.noBands a b hm
    · exact h2.noBands a b hm
  · rw [List.mem_append, hs1, hs2, hr1]
    constructor
    · rintro (⟨a, b, c⟩ | ⟨a, b, c⟩)
      · exact ⟨a, hm2 b, c⟩
      · exact ⟨fun h => a (hm1 h), b, c⟩
    · rintro ⟨a, b, c⟩
      by_cases h : s1.sawFin = 2
      · exact Or.inl ⟨a, h, c⟩
      · exact Or.inr ⟨h, b, c⟩
  · rw [List.count_append]
    by_cases h : Out.shutdown ∈ o1
    · have h' : Out.shutdown ∉ o2 := by
        rw [hs2]
        intro hh
        exact hh.1 (hs1.mp h).2.1
      have := List.count_eq_zero.mpr h'
      have := h1.cnt
      omega
    · have := List.count_eq_zero.mpr h
      have := h2.cnt
      omega
  · intro c hm
    rcases List.mem_append.mp hm with hm | hm
    · exact h1.reads c hm
    · exact h2.reads c hm
  · intro c hm
    rcases List.mem_append.mp hm with hm | hm
    · exact h1.writes c hm
    · exact h2.writes c hm

/-- an interrupted call: one more non-error event consumed, one more call made, nothing else changes -/
theorem Stage.eintr {R : Prop} {s s' : St} {evs e : List Ev} {o : List Out} {r : Int} {ev : Ev}
    {x : Out} (h : Stage R s evs s' o r e) (hev : isErrEv ev = false)
    (hx : (∃ c, x = Out.read c ∧ 0 < c ∧ R) ∨ (∃ c, x = Out.write c ∧ 0 < c)) :
    Stage R s (ev :: evs) s' (x :: o) r e := by
  obtain ⟨c, hc, he⟩ := h.cons
  have hxs : x ≠ Out.shutdown := by rcases hx with ⟨c, rfl, _⟩ | ⟨c, rfl, _⟩ <;> simp
  refine
    { inv := h.inv, cons := ⟨ev :: c, by simp [hc], ?_⟩, rc := h.rc, noBands := ?_,
      shut := ?_, cnt := ?_, relay := h.relay, mono := h.mono, reads := ?_, writes := ?_ }
  · rw [he]
    constructor
    · rintro ⟨ev', hm, he'⟩
      exact ⟨ev', List.mem_cons_of_mem _ hm, he'⟩
    · rintro ⟨ev', hm, he'⟩
      rcases List.mem_cons.mp hm with rfl | hm
      · rw [hev] at he'; cases he'
      · exact ⟨ev', hm, he'⟩
  · intro a b hm
    rcases List.mem_cons.mp hm with hm | hm
    · rcases hx with ⟨c, rfl, _⟩ | ⟨c, rfl, _⟩ <;> cases hm
    · exact h.noBands a b hm
  · rw [← h.shut, List.mem_cons]
    constructor
    · rintro (hh | hh)
      · exact (hxs hh.symm).elim
      · exact hh
    · exact Or.inr
  · rw [List.count_cons_of_ne hxs]
    exact h.cnt
  · intro c hm
    rcases List.mem_cons.mp hm with hm | hm
    · rcases hx with ⟨c', rfl, h1, h2⟩ | ⟨c', rfl, _⟩
      · cases hm; exact ⟨h1, h2⟩
      · cases hm
    · exact h.reads c hm
  · intro c hm
    rcases List.mem_cons.mp hm with hm | hm
    · rcases hx with ⟨c', rfl, _⟩ | ⟨c', rfl, h1⟩
      · cases hm
      · cases hm; exact h1
    · exact h.writes c hm

theorem inCount_pos {s : St} (h : Inv s) (hf : s.full = false) : 0 < inCount s := by
  unfold inCount
  split
  · simp [PUMP_SPLICE_COUNT]
  · next hs =>
    have hs' : s.splice = false := by simpa using hs
    have h1 := h.le_rw hs'
    have h2 := h.full_rw hs'
    have : s.bytes ≠ BUF_SIZE := fun hb => by rw [h2.mpr hb] at hf; cases hf
    omega

theorem inv_hasBuf {s : St} (h : Inv s) (b : Bool) : Inv { s with hasBuf := b } :=
  ⟨h.stream, h.bytes_eq, h.fin_le, h.full_rw, h.le_rw, h.done_emp, h.shut_iff, h.drain_ne⟩

theorem tryInput_stage (s : St) (h : Inv s) (hf : s.full = false) (h0 : s.sawFin = 0) :
    ∀ (evs : List Ev) {s' o r e}, tryInput s evs = some (s', o, r, e) →
      Stage (s.sawFin = 0 ∧ s.full = false) s evs s' o r e := by
  have hpos := inCount_pos h hf
  have hshut : s.shut = false := by
    cases hs : s.shut
    · rfl
    · have := (h.shut_iff.mp hs).1; omega
  intro evs
  induction evs with
  | nil => intro s' o r e hp; simp [tryInput] at hp
  | cons ev evs ih =>
    intro s' o r e hp
    cases ev with
    | rdEintr =>
      simp only [tryInput] at hp
      cases hrec : tryInput s evs with
      | none => simp [hrec] at hp
      | some p =>
        obtain ⟨s1, o1, r1, e1⟩ := p
        simp only [hrec, Option.some.injEq, Prod.mk.injEq] at hp
        obtain ⟨rfl, rfl, rfl, rfl⟩ := hp
        exact (ih hrec).eintr rfl (Or.inl ⟨_, rfl, hpos, h0, hf⟩)
    | rdErr =>
      simp only [tryInput, Option.some.injEq, Prod.mk.injEq] at hp
      obtain ⟨rfl, rfl, rfl, rfl⟩ := hp
      exact
        { inv := inv_hasBuf h true, cons := ⟨[Ev.rdErr], by simp, by simp [isErrEv]⟩,
          rc := by simp, noBands := by simp, shut := by simp [h0], cnt := by simp, relay := rfl,
          mono := by simp [h0], reads := by simp; exact ⟨hpos, h0, hf⟩, writes := by simp }
    | rdEagain =>
      simp only [tryInput] at hp
      split at hp
      · cases evs with
        | nil => simp at hp
        | cons ev2 evs2 =>
          cases ev2 <;> try (simp at hp; done)
          next v =>
          simp only [Option.some.injEq, Prod.mk.injEq] at hp
          obtain ⟨rfl, rfl, rfl, rfl⟩ := hp
          next hsp =>
          have hsp' : s.splice = true := by
            cases hh : s.splice <;> simp [hh] at hsp ⊢
          exact
            { inv := ⟨h.stream, h.bytes_eq, h.fin_le, by simp [hsp'], by simp [hsp'], h.done_emp,
                      h.shut_iff, h.drain_ne⟩,
              cons := ⟨[Ev.rdEagain, Ev.fion v], by simp, by simp [isErrEv]⟩,
              rc := by simp, noBands := by simp, shut := by simp [h0], cnt := by simp, relay := rfl,
              mono := by simp [h0], reads := by simp; exact ⟨hpos, h0, hf⟩, writes := by simp }
      · simp only [Option.some.injEq, Prod.mk.injEq] at hp
        obtain ⟨rfl, rfl, rfl, rfl⟩ := hp
        exact
          { inv := inv_hasBuf h true, cons := ⟨[Ev.rdEagain], by simp, by simp [isErrEv]⟩,
            rc := by simp, noBands := by simp, shut := by simp [h0], cnt := by simp, relay := rfl,
            mono := by simp [h0], reads := by simp; exact ⟨hpos, h0, hf⟩, writes := by simp }
    | rdEof =>
      simp only [tryInput] at hp
      split at hp
      · next hb =>
        simp only [Option.some.injEq, Prod.mk.injEq] at hp
        obtain ⟨rfl, rfl, rfl, rfl⟩ := hp
        have hbuf : s.buf = [] := by
          have := h.bytes_eq; rw [hb] at this; exact List.length_eq_zero_iff.mp this.symm
        exact
          { inv := ⟨h.stream, h.bytes_eq, by simp, h.full_rw, h.le_rw, fun _ => hbuf,
                    by simp [hshut], by simp⟩,
            cons := ⟨[Ev.rdEof], by simp, by simp [isErrEv]⟩,
            rc := by simp, noBands := by cases s.relayEof <;> simp,
            shut := by cases s.relayEof <;> simp [h0],
            cnt := by cases s.relayEof <;> simp, relay := rfl,
            mono := by simp, reads := by cases s.relayEof <;> simp <;> exact ⟨hpos, h0, hf⟩,
            writes := by cases s.relayEof <;> simp }
      · next hb =>
        simp only [Option.some.injEq, Prod.mk.injEq] at hp
        obtain ⟨rfl, rfl, rfl, rfl⟩ := hp
        exact
          { inv := ⟨h.stream, h.bytes_eq, by simp, h.full_rw, h.le_rw, by simp,
                    by simp [hshut], fun _ => hb⟩,
            cons := ⟨[Ev.rdEof], by simp, by simp [isErrEv]⟩,
            rc := by simp, noBands := by simp, shut := by simp, cnt := by simp, relay := rfl,
            mono := by simp [h0], reads := by simp; exact ⟨hpos, h0, hf⟩, writes := by simp }
    | rdData bs =>
      simp only [tryInput] at hp
      split at hp
      · simp at hp
      · next hlen =>
        simp only [Option.some.injEq, Prod.mk.injEq] at hp
        obtain ⟨rfl, rfl, rfl, rfl⟩ := hp
        have hlen1 : bs.length ≠ 0 := fun hh => hlen (Or.inl hh)
        have hlen2 : bs.length ≤ inCount s := by
          have : ¬ bs.length > inCount s := fun hh => hlen (Or.inr hh)
          omega
        refine
          { inv := ⟨by simp [h.stream], by simp [h.bytes_eq], h.fin_le, ?_, ?_, ?_,
                    h.shut_iff, ?_⟩,
            cons := ⟨[Ev.rdData bs], by simp, by simp [isErrEv]⟩,
            rc := by simp, noBands := by simp, shut := by simp [h0], cnt := by simp, relay := rfl,
            mono := by simp [h0], reads := by simp; exact ⟨hpos, h0, hf⟩, writes := by simp }
        · intro hsp
          have hsp' : s.splice = false := hsp
          simp [hsp', hf]
        · intro hsp
          have hsp' : s.splice = false := hsp
          simp only [inCount, hsp'] at hlen2
          have := h.le_rw hsp'
          simp at hlen2 ⊢
          omega
        · intro h2
          have : s.sawFin = 2 := h2
          omega
        · intro h1
          have : s.sawFin = 1 := h1
          omega
    | fion v => simp [tryInput] at hp
    | wrN n => simp [tryInput] at hp
    | wrZero => simp [tryInput] at hp
    | wrEagain => simp [tryInput] at hp
    | wrEintr => simp [tryInput] at hp
    | wrErr => simp [tryInput] at hp

theorem tryOutput_stage (R : Prop) (s : St) (h : Inv s) (hb : s.bytes ≠ 0) :
    ∀ (evs : List Ev) {s' o r e}, tryOutput s evs = some (s', o, r, e) →
      Stage R s evs s' o r e := by
  have hpos : 0 < s.bytes := Nat.pos_of_ne_zero hb
  have hne2 : s.sawFin ≠ 2 := by
    intro h2
    have := h.done_emp h2
    have := h.bytes_eq
    simp_all
  intro evs
  induction evs with
  | nil => intro s' o r e hp; simp [tryOutput] at hp
  | cons ev evs ih =>
    intro s' o r e hp
    cases ev with
    | wrEintr =>
      simp only [tryOutput] at hp
      cases hrec : tryOutput s evs with
      | none => simp [hrec] at hp
      | some p =>
        obtain ⟨s1, o1, r1, e1⟩ := p
        simp only [hrec, Option.some.injEq, Prod.mk.injEq] at hp
        obtain ⟨rfl, rfl, rfl, rfl⟩ := hp
        exact (ih hrec).eintr rfl (Or.inr ⟨_, rfl, hpos⟩)
    | wrEagain =>
      simp only [tryOutput, Option.some.injEq, Prod.mk.injEq] at hp
      obtain ⟨rfl, rfl, rfl, rfl⟩ := hp
      exact
        { inv := h, cons := ⟨[Ev.wrEagain], by simp, by simp [isErrEv]⟩,
          rc := by simp, noBands := by simp, shut := by simp; omega, cnt := by simp, relay := rfl,
          mono := id, reads := by simp, writes := by simp; exact hpos }
    | wrErr =>
      simp only [tryOutput, Option.some.injEq, Prod.mk.injEq] at hp
      obtain ⟨rfl, rfl, rfl, rfl⟩ := hp
      exact
        { inv := h, cons := ⟨[Ev.wrErr], by simp, by simp [isErrEv]⟩,
          rc := by simp, noBands := by simp, shut := by simp; omega, cnt := by simp, relay := rfl,
          mono := id, reads := by simp, writes := by simp; exact hpos }
    | wrZero =>
      simp only [tryOutput, Option.some.injEq, Prod.mk.injEq] at hp
      obtain ⟨rfl, rfl, rfl, rfl⟩ := hp
      exact
        { inv := h, cons := ⟨[Ev.wrZero], by simp, by simp [isErrEv]⟩,
          rc := by simp, noBands := by simp, shut := by simp; omega, cnt := by simp, relay := rfl,
          mono := id, reads := by simp, writes := by simp; exact hpos }
    | wrN n =>
      simp only [tryOutput] at hp
      split at hp
      · simp at hp
      · next hn =>
        simp only [Option.some.injEq, Prod.mk.injEq] at hp
        obtain ⟨rfl, rfl, rfl, rfl⟩ := hp
        have hn1 : n ≠ 0 := fun hh => hn (Or.inl hh)
        have hn2 : n ≤ s.bytes := by
          have : ¬ n > s.bytes := fun hh => hn (Or.inr hh)
          omega
        have hbe := h.bytes_eq
        have hstream : s.src = s.sink ++ List.take n s.buf ++ List.drop n s.buf := by
          rw [List.append_assoc, List.take_append_drop]; exact h.stream
        have hcons : ∃ c, Ev.wrN n :: evs = c ++ evs ∧
            ((0 : Int) = -1 ↔ ∃ ev, ev ∈ c ∧ isErrEv ev = true) :=
          ⟨[Ev.wrN n], by simp, by simp [isErrEv]⟩
        have hfull : ∀ (sf : Nat) (sh : Bool),
            ({ s with full := false, bytes := s.bytes - n, buf := s.buf.drop n,
                      sink := s.sink ++ s.buf.take n, sawFin := sf, shut := sh } : St).splice = false →
            ((false = true) ↔ s.bytes - n = BUF_SIZE) := by
          intro _ _ hsp
          have := h.le_rw hsp
          constructor
          · intro hh; cases hh
          · intro hh; omega
        by_cases hfin : s.bytes - n = 0 ∧ s.sawFin = 1
        · obtain ⟨hz, h1⟩ := hfin
          have hshut : s.shut = false := by
            cases hs : s.shut
            · rfl
            · have := (h.shut_iff.mp hs).1; omega
          have hdrop : List.drop n s.buf = [] := by
            apply List.drop_eq_nil_of_le; omega
          simp only [hz, h1, beq_self_eq_true, Bool.and_self, Bool.true_and, if_true]
          exact
            { inv := ⟨hstream, by simp; omega, by simp,
                      by intro _; have hB : 0 < BUF_SIZE := by simp [BUF_SIZE, PUMP_BUF_SIZE]
                         simp; omega,
                      by intro _; simp, fun _ => hdrop,
                      by simp [hshut], by simp⟩,
              cons := hcons,
              rc := by simp, noBands := by cases s.relayEof <;> simp,
              shut := by cases s.relayEof <;> simp [h1],
              cnt := by cases s.relayEof <;> simp, relay := rfl,
              mono := by simp, reads := by cases s.relayEof <;> simp,
              writes := by cases s.relayEof <;> simp <;> exact hpos }
        · have hfin' : (s.bytes - n == 0 && s.sawFin == 1) = false := by
            cases hh : (s.bytes - n == 0 && s.sawFin == 1)
            · rfl
            · simp at hh; exact (hfin hh).elim
          simp only [hfin', Bool.false_and, Bool.false_eq_true, if_false]
          exact
            { inv := ⟨hstream, by simp; omega, h.fin_le, hfull _ _,
                      by intro hsp; have := h.le_rw hsp; simp; omega,
                      fun h2 => (hne2 h2).elim, h.shut_iff,
                      fun h1 hle => hfin ⟨hle, h1⟩⟩,
              cons := hcons,
              rc := by simp, noBands := by simp,
              shut := by simp; intro _ h2; exact (hne2 h2).elim,
              cnt := by simp, relay := rfl,
              mono := id, reads := by simp,
              writes := by simp; exact hpos }
    | fion v => simp [tryOutput] at hp
    | rdData n => simp [tryOutput] at hp
    | rdEof => simp [tryOutput] at hp
    | rdEagain => simp [tryOutput] at hp
    | rdEintr => simp [tryOutput] at hp
    | rdErr => simp [tryOutput] at hp

theorem inv_release {s : St} (h : Inv s) :
    Inv (if s.bytes = 0 then { s with hasBuf := false } else s) := by
  split
  · exact inv_hasBuf h false
  · exact h

/-- a `pump` call is a composed stage (input then output) followed by the error exit or `bands` -/
theorem pump_decomp (s : St) (evs : List Ev) (h : Inv s) {s' o r e}
    (hp : pump s evs = some (s', o, r, e)) :
    ∃ s2 o2 r2, Stage (s.sawFin = 0 ∧ s.full = false) s evs s2 o2 r2 e ∧
      ((r2 = -1 ∧ s' = { s2 with hasBuf := false } ∧ o = o2 ∧ r = -1) ∨
       (r2 = 0 ∧ ∃ b, bands s2 = some (b, r) ∧
          s' = (if s2.bytes = 0 then { s2 with hasBuf := false } else s2) ∧ o = o2 ++ [b])) := by
  unfold pump at hp
  dsimp only at hp
  have hst1 : ∀ {s1 o1 r1 e1},
      (if (!s.full && s.sawFin == 0) = true then tryInput s evs else some (s, [], 0, evs))
        = some (s1, o1, r1, e1) → Stage (s.sawFin = 0 ∧ s.full = false) s evs s1 o1 r1 e1 := by
    intro s1 o1 r1 e1 hh
    split at hh
    · next hc =>
      simp at hc
      exact tryInput_stage s h hc.1 hc.2 evs hh
    · simp only [Option.some.injEq, Prod.mk.injEq] at hh
      obtain ⟨rfl, rfl, rfl, rfl⟩ := hh
      exact Stage.refl h evs
  have hst2 : ∀ {s1 : St} {e1 s2 o2 r2 e2}, Inv s1 →
      (if (s1.bytes != 0) = true then tryOutput s1 e1 else some (s1, [], 0, e1))
        = some (s2, o2, r2, e2) → Stage (s.sawFin = 0 ∧ s.full = false) s1 e1 s2 o2 r2 e2 := by
    intro s1 e1 s2 o2 r2 e2 h1 hh
    split at hh
    · next hc =>
      simp at hc
      exact tryOutput_stage _ s1 h1 hc e1 hh
    · simp only [Option.some.injEq, Prod.mk.injEq] at hh
      obtain ⟨rfl, rfl, rfl, rfl⟩ := hh
      exact Stage.refl h1 e1
  generalize hg1 : (if (!s.full && s.sawFin == 0) = true then tryInput s evs
    else some (s, [], 0, evs)) = st1 at hp
  cases st1 with
  | none => simp at hp
  | some p1 =>
    obtain ⟨s1, o1, r1, e1⟩ := p1
    have S1 := hst1 hg1
    dsimp only at hp
    split at hp
    · next hr1 =>
      simp only [Option.some.injEq, Prod.mk.injEq] at hp
      obtain ⟨rfl, rfl, rfl, rfl⟩ := hp
      have : r1 = -1 := by
        rcases S1.rc with h0 | h0
        · simp [h0] at hr1
        · exact h0
      exact ⟨s1, o1, r1, S1, Or.inl ⟨this, rfl, rfl, rfl⟩⟩
    · next hr1 =>
      have hr1' : r1 = 0 := by simpa using hr1
      subst hr1'
      generalize hg2 : (if (s1.bytes != 0) = true then tryOutput s1 e1
        else some (s1, [], 0, e1)) = st2 at hp
      cases st2 with
      | none => simp at hp
      | some p2 =>
        obtain ⟨s2, o2, r2, e2⟩ := p2
        have S2 := hst2 S1.inv hg2
        have S := S1.trans S2
        dsimp only at hp
        split at hp
        · next hr2 =>
          simp only [Option.some.injEq, Prod.mk.injEq] at hp
          obtain ⟨rfl, rfl, rfl, rfl⟩ := hp
          have : r2 = -1 := by
            rcases S2.rc with h0 | h0
            · simp [h0] at hr2
            · exact h0
          exact ⟨s2, o1 ++ o2, r2, S, Or.inl ⟨this, rfl, rfl, rfl⟩⟩
        · next hr2 =>
          have hr2' : r2 = 0 := by simpa using hr2
          subst hr2'
          cases hb : bands s2 with
          | none => simp [hb] at hp
          | some pb =>
            obtain ⟨b, rb⟩ := pb
            simp only [hb, Option.some.injEq, Prod.mk.injEq] at hp
            obtain ⟨rfl, rfl, rfl, rfl⟩ := hp
            exact ⟨s2, o1 ++ o2, 0, S, Or.inr ⟨rfl, b, hb, rfl, rfl⟩⟩

theorem bands_eq {s : St} {b : Out} {r : Int} (hb : bands s = some (b, r)) :
    b = Out.setBands (s.sawFin = 0 ∧ s.full = false) (s.sawFin ≠ 2 ∧ (s.sawFin = 1 ∨ s.bytes ≠ 0)) ∧
      (r = 0 ∨ r = 1) ∧ (r = 0 ↔ s.sawFin = 2) := by
  unfold bands at hb
  split at hb
  · next h0 =>
    simp only [Option.some.injEq, Prod.mk.injEq] at hb
    obtain ⟨rfl, rfl⟩ := hb
    cases hf : s.full <;> simp [h0, bne, BEq.beq]
  · next h1 =>
    simp only [Option.some.injEq, Prod.mk.injEq] at hb
    obtain ⟨rfl, rfl⟩ := hb
    simp [h1]
  · next h2 =>
    simp only [Option.some.injEq, Prod.mk.injEq] at hb
    obtain ⟨rfl, rfl⟩ := hb
    simp [h2]
  · simp at hb

theorem take_consumed {c e evs : List Ev} (h : evs = c ++ e) :
    evs.take (evs.length - e.length) = c := by
  subst h
  simp

theorem init_inv (sp re : Bool) : Inv (St.init sp re) := by
  constructor <;> simp [St.init, BUF_SIZE, PUMP_BUF_SIZE]

theorem pump_inv (s : St) (evs : List Ev) (h : Inv s) {s' o r e}
    (hp : pump s evs = some (s', o, r, e)) : Inv s' := by
  obtain ⟨s2, o2, r2, S, hc⟩ := pump_decomp s evs h hp
  rcases hc with ⟨_, rfl, _, _⟩ | ⟨_, b, _, rfl, _⟩
  · exact inv_hasBuf S.inv false
  · exact inv_release S.inv

theorem ret_spec (s : St) (evs : List Ev) (h : Inv s) {s' o r e}
    (hp : pump s evs = some (s', o, r, e)) :
    (r = 0 ∨ r = 1 ∨ r = -1) ∧
    (r = 0 ↔ s'.sawFin = 2 ∧
      ¬ ∃ ev, ev ∈ evs.take (evs.length - e.length) ∧ isErrEv ev = true) ∧
    (r = -1 ↔ ∃ ev, ev ∈ evs.take (evs.length - e.length) ∧ isErrEv ev = true) := by
  obtain ⟨s2, o2, r2, S, hc⟩ := pump_decomp s evs h hp
  obtain ⟨c, hce, herr⟩ := S.cons
  rw [take_consumed hce]
  rcases hc with ⟨hr2, rfl, _, rfl⟩ | ⟨hr2, b, hb, rfl, _⟩
  · have hex := herr.mp hr2
    refine ⟨Or.inr (Or.inr rfl), ?_, ?_⟩
    · constructor
      · intro hh; cases hh
      · intro hh; exact (hh.2 hex).elim
    · exact ⟨fun _ => hex, fun _ => rfl⟩
  · obtain ⟨_, hr01, hr0⟩ := bands_eq hb
    have hnex : ¬ ∃ ev, ev ∈ c ∧ isErrEv ev = true := by
      intro hh
      have := herr.mpr hh
      omega
    have hsf : (if s2.bytes = 0 then { s2 with hasBuf := false } else s2).sawFin = s2.sawFin := by
      split <;> rfl
    rw [hsf]
    refine ⟨by omega, ?_, ?_⟩
    · rw [hr0]
      exact ⟨fun hh => ⟨hh, hnex⟩, fun hh => hh.1⟩
    · constructor
      · intro hh; omega
      · intro hh; exact (hnex hh).elim

theorem release_fields (s : St) :
    (if s.bytes = 0 then { s with hasBuf := false } else s).sawFin = s.sawFin ∧
    (if s.bytes = 0 then { s with hasBuf := false } else s).full = s.full ∧
    (if s.bytes = 0 then { s with hasBuf := false } else s).bytes = s.bytes := by
  split <;> exact ⟨rfl, rfl, rfl⟩

theorem bands_spec (s : St) (evs : List Ev) (h : Inv s) {s' o r e}
    (hp : pump s evs = some (s', o, r, e)) (hr : r ≠ -1) :
    ∃ o', o = o' ++ [Out.setBands (s'.sawFin = 0 ∧ s'.full = false)
                      (s'.sawFin ≠ 2 ∧ (s'.sawFin = 1 ∨ s'.bytes ≠ 0))] ∧
      ∀ a b, Out.setBands a b ∉ o' := by
  obtain ⟨s2, o2, r2, S, hc⟩ := pump_decomp s evs h hp
  rcases hc with ⟨_, _, _, rfl⟩ | ⟨_, b, hb, rfl, rfl⟩
  · exact (hr rfl).elim
  · obtain ⟨hb', _, _⟩ := bands_eq hb
    obtain ⟨h1, h2, h3⟩ := release_fields s2
    rw [h1, h2, h3]
    exact ⟨o2, by rw [hb'], S.noBands⟩

theorem draining_nonempty (s : St) (evs : List Ev) (h : Inv s) {s' o r e}
    (hp : pump s evs = some (s', o, r, e)) (_hr : r ≠ -1) (h1 : s'.sawFin = 1) : s'.bytes ≠ 0 :=
  (pump_inv s evs h hp).drain_ne h1

theorem calls_sane (s : St) (evs : List Ev) (h : Inv s) {s' o r e}
    (hp : pump s evs = some (s', o, r, e)) :
    (∀ c, Out.read c ∈ o → 0 < c ∧ s.sawFin = 0 ∧ s.full = false) ∧
    (∀ c, Out.write c ∈ o → 0 < c) := by
  obtain ⟨s2, o2, r2, S, hc⟩ := pump_decomp s evs h hp
  rcases hc with ⟨_, _, rfl, _⟩ | ⟨_, b, hb, _, rfl⟩
  · exact ⟨S.reads, S.writes⟩
  · obtain ⟨rfl, _, _⟩ := bands_eq hb
    constructor
    · intro c hm
      rcases List.mem_append.mp hm with hm | hm
      · exact S.reads c hm
      · simp at hm
    · intro c hm
      rcases List.mem_append.mp hm with hm | hm
      · exact S.writes c hm
      · simp at hm

theorem shutdown_spec (s : St) (evs : List Ev) (h : Inv s) {s' o r e}
    (hp : pump s evs = some (s', o, r, e)) :
    (Out.shutdown ∈ o ↔ (s.sawFin ≠ 2 ∧ s'.sawFin = 2 ∧ s.relayEof = true)) ∧
    (s'.sawFin = 2 → s'.sink = s'.src) ∧ (o.count Out.shutdown ≤ 1) := by
  have hi := pump_inv s evs h hp
  have hdone : s'.sawFin = 2 → s'.sink = s'.src := by
    intro h2
    have := hi.stream
    rw [hi.done_emp h2, List.append_nil] at this
    exact this.symm
  obtain ⟨s2, o2, r2, S, hc⟩ := pump_decomp s evs h hp
  rcases hc with ⟨_, rfl, rfl, _⟩ | ⟨_, b, hb, rfl, rfl⟩
  · exact ⟨S.shut, hdone, S.cnt⟩
  · obtain ⟨rfl, _, _⟩ := bands_eq hb
    obtain ⟨h1, _, _⟩ := release_fields s2
    refine ⟨?_, hdone, ?_⟩
    · rw [h1, ← S.shut]
      simp
    · rw [List.count_append]
      have := S.cnt
      simp
      exact this

theorem done_stays (s : St) (evs : List Ev) (h : Inv s) (hd : s.sawFin = 2) :
    pump s evs = some ({ s with hasBuf := false }, [Out.setBands false false], 0, evs) := by
  have hb : s.bytes = 0 := by
    rw [h.bytes_eq, h.done_emp hd]; rfl
  simp [pump, hd, hb, bands]

theorem run_inv : ∀ (calls : List (List Ev)) (s0 : St), Inv s0 → ∀ {s rs},
    run s0 calls = some (s, rs) →
    Inv s ∧ (rs = [] → s = s0) ∧ (rs.head? = some 0 → s.sawFin = 2) := by
  intro calls
  induction calls with
  | nil =>
    intro s0 h0 s rs hr
    simp only [run, Option.some.injEq, Prod.mk.injEq] at hr
    obtain ⟨rfl, rfl⟩ := hr
    exact ⟨h0, fun _ => rfl, by simp⟩
  | cons evs rest ih =>
    intro s0 h0 s rs hr
    simp only [run] at hr
    split at hr
    · next s1 o1 r1 hp =>
      split at hr
      · simp at hr
      · cases hrest : run s1 rest with
        | none => simp [hrest] at hr
        | some p =>
          obtain ⟨s2, rs2⟩ := p
          simp only [hrest, Option.some.injEq, Prod.mk.injEq] at hr
          obtain ⟨rfl, rfl⟩ := hr
          have h1 := pump_inv s0 evs h0 hp
          obtain ⟨hi, hnil, hhead⟩ := ih s1 h1 hrest
          refine ⟨hi, by simp, ?_⟩
          cases rs2 with
          | nil =>
            intro hh
            simp at hh
            subst hh
            rw [hnil rfl]
            exact ((ret_spec s0 evs h0 hp).2.1.mp rfl).1
          | cons a as =>
            intro hh
            exact hhead (by simpa using hh)
    · simp at hr

theorem run_stream (sp re : Bool) (calls : List (List Ev)) {s rs}
    (hr : run (St.init sp re) calls = some (s, rs)) :
    Inv s ∧ s.sink <+: s.src ∧ (rs.head? = some 0 → s.sink = s.src) := by
  obtain ⟨hi, _, hhead⟩ := run_inv calls _ (init_inv sp re) hr
  refine ⟨hi, ?_, ?_⟩
  · rw [hi.stream]
    exact List.prefix_append _ _
  · intro hh
    have := hi.stream
    rw [hi.done_emp (hhead hh), List.append_nil] at this
    exact this.symm

end Ivy.Pump.Proofs
