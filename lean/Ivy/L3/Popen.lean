import Ivy.Generated.PopenConsts
/-
Model of /repo/src/iv_popen.c.

Part A — descriptors.  The child-side sequence of `iv_popen_child` (open the null device, three `dup2`,
three `close`) and the parent-side hand-over of `iv_popen_request_submit`, applied to an abstract
descriptor table.  The descriptor numbers returned by `pipe`/`open` are inputs (the kernel's choice).

Part B — the running-child record (`struct iv_popen_running_child`): one record per successful or failed
`submit`; `parent` (attached/detached), the signalling timer, `num_kills`; the `iv_wait` interest is used
through its interface only (registered flag, the DEAD flag set when the terminal status is collected,
queue of statuses to deliver, `kill` refused once DEAD); the child process itself is environment
(`procEvent`, and whether a SIGTERM ends it).  Where the C code would touch freed memory, re-register a
registered timer or unregister an unregistered one, the model returns `fault`.
-/
namespace Ivy.Popen
open Ivy.Generated

def MAX_SIGTERM_COUNT : Nat := POPEN_MAX_SIGTERM_COUNT
def SIGNAL_INTERVAL : Nat := POPEN_SIGNAL_INTERVAL
/-- the loop clock is in nanoseconds; `expires.tv_sec += SIGNAL_INTERVAL` -/
def INTERVAL_NS : Nat := SIGNAL_INTERVAL * 1000000000

/-! ## Part A: descriptors -/

inductive File where
  | null    -- /dev/null opened O_RDWR
  | pipeR   -- read end of this request's data pipe
  | pipeW   -- write end of this request's data pipe
  | other   -- anything else that was open
deriving Repr, DecidableEq

/-- descriptor table: `none` = closed -/
abbrev FdTab := Nat → Option File

def openAt (t : FdTab) (fd : Nat) (f : File) : FdTab := fun x => if x = fd then some f else t x

/-- `dup2(o, n)`; EBADF (no effect) when `o` is not open; the C code ignores the result -/
def dup2 (t : FdTab) (o n : Nat) : FdTab :=
  match t o with
  | none => t
  | some f => fun x => if x = n then some f else t x

/-- `close(fd)`; EBADF (no effect) when not open -/
def close (t : FdTab) (fd : Nat) : FdTab := fun x => if x = fd then none else t x

/-- `iv_popen_child` on the child's copy `t` of the table: `p0`/`p1` = `data_pipe[0]`/`[1]`,
`dn` = the descriptor `open("/dev/null")` returned. -/
def childSide (forRead : Bool) (t : FdTab) (p0 p1 dn : Nat) : FdTab :=
  let t := openAt t dn File.null
  let t := if forRead then dup2 (dup2 (dup2 t dn 0) p1 1) dn 2
           else dup2 (dup2 (dup2 t p0 0) dn 1) dn 2
  close (close (close t p0) p1) dn

/-- the table after `pipe()` returned (`p0`, `p1`) -/
def afterPipe (t : FdTab) (p0 p1 : Nat) : FdTab := openAt (openAt t p0 File.pipeR) p1 File.pipeW

/-- parent side of `iv_popen_request_submit` after `pipe()` succeeded: table afterwards and the descriptor returned -/
def parentSide (forRead : Bool) (t : FdTab) (p0 p1 : Nat) (forkOk : Bool) : FdTab × Option Nat :=
  let t := afterPipe t p0 p1
  if !forkOk then (close (close t p1) p0, none)
  else if forRead then (close t p1, some p0)
  else (close t p0, some p1)

/-! ## Part B: the running-child record -/

inductive Sig where
  | term | kill
deriving Repr, DecidableEq

def Sig.num : Sig → Nat
  | .term => 15
  | .kill => 9

/-- `WIFEXITED(st) || WIFSIGNALED(st)` for a raw wait status (glibc encoding): everything except
"stopped" (low byte 0x7f) and "continued" (0xffff) -/
def isTerminal (st : Nat) : Bool := st % 128 != 127

inductive RecSt where
  | none | live | freed
deriving Repr, DecidableEq

structure St where
  recSt    : RecSt := .none     -- the malloc'ed record
  reqChild : Bool := false      -- request->child points at this record (the C code never clears it on close)
  attached : Bool := false      -- ch->parent != NULL
  timerReg : Bool := false      -- ch->signal_timer is registered
  timerAt  : Nat := 0           -- its expiry
  numKills : Nat := 0
  forRead  : Bool := false
  -- the iv_wait interest, through its interface
  waitReg  : Bool := false
  dead     : Bool := false      -- IV_WAIT_STATUS_DEAD: terminal status collected while the interest was registered
  pending  : List Nat := []     -- statuses queued for delivery to the handler
  -- the child process and the kernel (environment)
  spawned  : Bool := false
  alive    : Bool := false      -- has not terminated
  kq       : List Nat := []     -- status changes not yet collected by wait4
  reaped   : Bool := false      -- the terminal status has been collected (the pid may be reused from now on)
  now      : Nat := 0           -- loop time (ns)
  -- valid-use ghost: the request was submitted successfully and not yet closed
  isOpen   : Bool := false
  -- ghost accounting
  allocs   : Nat := 0
  frees    : Nat := 0
  sent     : List (Nat × Sig) := []   -- kill() system calls made for the pid, oldest first: (loop time, signal)
  lateKill : Bool := false      -- a kill() system call was made after the terminal status had been collected
  closedAt : Option Nat := none
  punctual : Bool := true       -- every timer firing so far happened exactly at its expiry
  killFailed : Bool := false    -- the kernel refused a kill() for a pid that was not yet reaped (outside the kernel contract)
deriving Repr, DecidableEq

inductive Out where
  | alloc | free
  | spawn (ok : Bool)           -- iv_wait_interest_register_spawn
  | closeBoth                   -- both pipe ends closed (fork failed)
  | ret (e : Option Bool)       -- submit returns: none = -1, some true = the read end, some false = the write end
  | wUnreg                      -- iv_wait_interest_unregister
  | tReg (at_ : Nat)            -- iv_timer_register with this expiry
  | tUnreg
  | killReq (sig : Sig)         -- iv_wait_interest_kill(sig)
  | sysKill (sig : Sig)         -- ... which made the kill() system call
  | detach                      -- ch->parent->child = NULL
deriving Repr, DecidableEq

inductive Fault where
  | useAfterFree | timerTwice | timerNotReg | waitNotReg
deriving Repr, DecidableEq

inductive Res where
  | ok (s : St) (o : List Out)
  | fault (f : Fault)
  | disabled                    -- the action cannot happen in this state (or would be invalid use of the API)
deriving Repr, DecidableEq

inductive Act where
  | submit (ty : Option Bool) (pipeOk forkOk : Bool)   -- ty: some true = "r", some false = "w", none = anything else
  | close
  | reqReset                    -- the user re-initialises / reuses the (closed) request structure
  | tick (d : Nat)              -- loop time advances
  | timerFire (killOk dies : Bool)   -- the loop runs the signalling timer; kernel's answer to kill(); does a SIGTERM end the child
  | procEvent (status : Nat)    -- the child changes state by itself (exits, is killed by someone else, stops, continues)
  | reap                        -- the wait helper collects the next status with wait4
  | childStatus                 -- the wait helper delivers the next queued status to iv_popen_running_child_wait
deriving Repr, DecidableEq

/-- `free(ch)` -/
def freeRec (s : St) : St := { s with recSt := .freed, frees := s.frees + 1 }

/-- `iv_wait_interest_unregister`: the queued statuses are dropped -/
def wUnreg (s : St) : St := { s with waitReg := false, pending := [] }

/-- `iv_popen_request_submit` -/
def doSubmit (s : St) (ty : Option Bool) (pipeOk forkOk : Bool) : Res :=
  if s.recSt ≠ .none ∨ s.isOpen then .disabled else
  let s := { s with allocs := s.allocs + 1, recSt := .live }
  match ty with
  | none => .ok (freeRec s) [.alloc, .free, .ret none]
  | some fr =>
    if !pipeOk then .ok (freeRec s) [.alloc, .free, .ret none]
    else if !forkOk then .ok (freeRec s) [.alloc, .spawn false, .closeBoth, .free, .ret none]
    else .ok { s with waitReg := true, dead := false, pending := [], spawned := true, alive := true,
                      attached := true, reqChild := true, isOpen := true, forRead := fr }
             [.alloc, .spawn true, .ret (some fr)]

/-- `iv_popen_request_close` -/
def doClose (s : St) : Res :=
  if !s.isOpen then .disabled else
  let s := { s with isOpen := false, closedAt := some s.now }
  if !s.reqChild then .ok s [] else
  if s.recSt ≠ .live then .fault .useAfterFree else
  if s.timerReg then .fault .timerTwice else
  .ok { s with attached := false, timerReg := true, timerAt := s.now, numKills := 0 } [.tReg s.now]

/-- `iv_popen_running_child_timer`, called by the loop (which has taken the timer off its heap) -/
def doTimer (s : St) (killOk dies : Bool) : Res :=
  if !s.timerReg then .disabled else
  if s.recSt ≠ .live then .fault .useAfterFree else
  if s.now < s.timerAt then .disabled else
  if !s.waitReg then .fault .waitNotReg else
  let sig := if s.numKills < MAX_SIGTERM_COUNT then Sig.term else Sig.kill
  let s := { s with timerReg := false, numKills := s.numKills + 1, punctual := s.punctual && s.now == s.timerAt }
  if s.dead then
    -- iv_wait_interest_kill refuses: -ESRCH
    .ok (freeRec (wUnreg s)) [.killReq sig, .wUnreg, .free]
  else
    let s := { s with sent := s.sent ++ [(s.now, sig)], lateKill := s.lateKill || s.reaped }
    if !killOk then
      .ok (freeRec (wUnreg { s with killFailed := true })) [.killReq sig, .sysKill sig, .wUnreg, .free]
    else
      -- the signal reaches the process; SIGKILL always ends it, SIGTERM if the child lets it
      let ends := s.alive && (dies || sig == Sig.kill)
      let at_ := s.now + INTERVAL_NS
      .ok { s with alive := s.alive && !ends, kq := if ends then s.kq ++ [sig.num] else s.kq,
                   timerReg := true, timerAt := at_ } [.killReq sig, .sysKill sig, .tReg at_]

/-- `iv_popen_running_child_wait`, called by the wait helper with the oldest queued status -/
def doStatus (s : St) : Res :=
  match s.pending with
  | [] => .disabled
  | st :: rest =>
    if !s.waitReg then .disabled else
    if s.recSt ≠ .live then .fault .useAfterFree else
    let s := { s with pending := rest }
    if !isTerminal st then .ok s [] else
    let s := wUnreg s
    if s.attached then
      .ok (freeRec { s with reqChild := false }) [.wUnreg, .detach, .free]
    else if !s.timerReg then .fault .timerNotReg
    else .ok (freeRec { s with timerReg := false }) [.wUnreg, .tUnreg, .free]

/-- the child changes state by itself -/
def doProc (s : St) (status : Nat) : Res :=
  if !(s.spawned && s.alive) then .disabled else
  .ok { s with kq := s.kq ++ [status], alive := !isTerminal status } []

/-- `iv_wait_got_sigchld`, one `wait4` result -/
def doReap (s : St) : Res :=
  match s.kq with
  | [] => .disabled
  | st :: rest =>
    let inTree := s.waitReg && !s.dead
    let s := { s with kq := rest }
    let s := if inTree then { s with pending := s.pending ++ [st] } else s
    if isTerminal st then .ok { s with reaped := true, dead := s.dead || inTree } []
    else .ok s []

def step (s : St) : Act → Res
  | .submit ty p f => doSubmit s ty p f
  | .close => doClose s
  | .reqReset => if s.isOpen then .disabled else .ok { s with reqChild := false } []
  | .tick d => .ok { s with now := s.now + d } []
  | .timerFire k d => doTimer s k d
  | .procEvent st => doProc s st
  | .reap => doReap s
  | .childStatus => doStatus s

/-- the start: nothing allocated, loop time `t0` -/
def St.init (t0 : Nat) : St := { now := t0 }

/-- which signal the `k`-th firing (0-based) after close sends -/
def sigFor (k : Nat) : Sig := if k < MAX_SIGTERM_COUNT then .term else .kill

/-- number of loop objects the record holds -/
def objs (s : St) : Nat := (if s.waitReg then 1 else 0) + (if s.timerReg then 1 else 0)

end Ivy.Popen
