import Ivy.Generated.Consts
/-
Model of /repo/src/iv_fd_pump.c (`iv_fd_pump_pump` and what it calls).

Every result of `read`/`splice`/`write`/`ioctl(FIONREAD)` is an *input* (`Ev`); every call
the code makes and every `set_bands` is an *output* (`Out`).  The buffered bytes
(user-space buffer in read/write mode, the kernel pipe in splice mode) are the list
`buf`; `src`/`sink` are ghost logs of what was taken from the input descriptor and
given to the output descriptor.  Buffer allocation failure is not modelled.
Event lists that violate the kernel contract (a read returning 0 < n ≤ count bytes, a write
returning 0 < n ≤ count) or that do not match the calls made are rejected (`none`): they are
not executions.
-/
namespace Ivy.Pump
open Ivy.Generated

def BUF_SIZE : Nat := PUMP_BUF_SIZE

inductive Ev where
  | rdData (bs : List Nat)   -- read()/splice-in returned bs.length > 0 bytes
  | rdEof                    -- returned 0
  | rdEagain
  | rdEintr
  | rdErr                    -- any other errno
  | fion (v : Int)           -- value left in `bytes` after ioctl(FIONREAD) (1 if the ioctl failed)
  | wrN (n : Nat)            -- write()/splice-out returned n > 0
  | wrZero                   -- returned 0
  | wrEagain
  | wrEintr
  | wrErr
deriving Repr, DecidableEq

inductive Out where
  | read (count : Nat)       -- read(from_fd, buf + bytes, count)   | splice(from_fd → pipe, count)
  | fionread
  | write (count : Nat)      -- write(to_fd, buf, count)            | splice(pipe → to_fd, count)
  | shutdown
  | setBands (pollin pollout : Bool)
deriving Repr, DecidableEq

structure St where
  splice   : Bool            -- splice_available
  relayEof : Bool            -- flags & IV_FD_PUMP_FLAG_RELAY_EOF
  bytes    : Nat
  full     : Bool
  sawFin   : Nat
  buf      : List Nat
  hasBuf   : Bool            -- ip->buf != NULL
  src      : List Nat        -- ghost: everything read from from_fd
  sink     : List Nat        -- ghost: everything written to to_fd
  shut     : Bool            -- ghost: shutdown(to_fd, SHUT_WR) was issued
deriving Repr, DecidableEq

def St.init (splice relayEof : Bool) : St :=
  { splice, relayEof, bytes := 0, full := false, sawFin := 0, buf := [], hasBuf := false,
    src := [], sink := [], shut := false }

/-- the count passed to read()/splice() on the input side -/
def inCount (s : St) : Nat := if s.splice then PUMP_SPLICE_COUNT else BUF_SIZE - s.bytes

/-- `iv_fd_pump_try_input`. Returns (state, outputs, rc, remaining events); `none` = events exhausted / of the wrong kind. -/
def tryInput (s : St) : List Ev → Option (St × List Out × Int × List Ev)
  | [] => none
  | Ev.rdEintr :: evs =>
    match tryInput s evs with
    | some (s', o, r, e) => some (s', Out.read (inCount s) :: o, r, e)
    | none => none
  | Ev.rdErr :: evs => some ({ s with hasBuf := true }, [Out.read (inCount s)], -1, evs)
  | Ev.rdEagain :: evs =>
    if s.splice && s.bytes != 0 then
      match evs with
      | Ev.fion v :: evs' =>
        some ({ s with hasBuf := true, full := if v > 0 then true else s.full },
              [Out.read (inCount s), Out.fionread], 0, evs')
      | _ => none
    else some ({ s with hasBuf := true }, [Out.read (inCount s)], 0, evs)
  | Ev.rdEof :: evs =>
    if s.bytes = 0 then
      some ({ s with hasBuf := true, sawFin := 2, shut := s.shut || s.relayEof },
            Out.read (inCount s) :: (if s.relayEof then [Out.shutdown] else []), 0, evs)
    else some ({ s with hasBuf := true, sawFin := 1 }, [Out.read (inCount s)], 0, evs)
  | Ev.rdData bs :: evs =>
    -- kernel contract: a successful read returns between 1 and `count` bytes
    if bs.length = 0 ∨ bs.length > inCount s then none else
    let bytes := s.bytes + bs.length
    some ({ s with hasBuf := true, bytes := bytes, buf := s.buf ++ bs, src := s.src ++ bs,
                   full := if !s.splice && bytes == BUF_SIZE then true else s.full },
          [Out.read (inCount s)], 0, evs)
  | _ => none

/-- `iv_fd_pump_try_output` -/
def tryOutput (s : St) : List Ev → Option (St × List Out × Int × List Ev)
  | [] => none
  | Ev.wrEintr :: evs =>
    match tryOutput s evs with
    | some (s', o, r, e) => some (s', Out.write s.bytes :: o, r, e)
    | none => none
  | Ev.wrEagain :: evs => some (s, [Out.write s.bytes], 0, evs)
  | Ev.wrErr :: evs => some (s, [Out.write s.bytes], -1, evs)
  | Ev.wrZero :: evs => some (s, [Out.write s.bytes], -1, evs)
  | Ev.wrN n :: evs =>
    -- kernel contract: a successful write returns between 1 and `count`
    if n = 0 ∨ n > s.bytes then none else
    let bytes := s.bytes - n
    let fin := bytes == 0 && s.sawFin == 1
    some ({ s with full := false, bytes := bytes, buf := s.buf.drop n, sink := s.sink ++ s.buf.take n,
                   sawFin := if fin then 2 else s.sawFin,
                   shut := if fin then s.shut || s.relayEof else s.shut },
          Out.write s.bytes :: (if fin && s.relayEof then [Out.shutdown] else []), 0, evs)
  | _ => none

/-- the final `switch (ip->saw_fin)` of `__iv_fd_pump_pump`; `none` = iv_fatal -/
def bands (s : St) : Option (Out × Int) :=
  match s.sawFin with
  | 0 => some (Out.setBands (!s.full) (s.bytes != 0), 1)
  | 1 => some (Out.setBands false true, 1)
  | 2 => some (Out.setBands false false, 0)
  | _ => none

/-- `iv_fd_pump_pump` (including the buffer release at the end). -/
def pump (s : St) (evs : List Ev) : Option (St × List Out × Int × List Ev) :=
  -- input stage
  let stage1 : Option (St × List Out × Int × List Ev) :=
    if !s.full && s.sawFin == 0 then tryInput s evs else some (s, [], 0, evs)
  match stage1 with
  | none => none
  | some (s1, o1, r1, evs1) =>
    let release (s : St) : St := if s.bytes = 0 then { s with hasBuf := false } else s
    if r1 != 0 then some ({ s1 with hasBuf := false }, o1, -1, evs1)
    else
      let stage2 : Option (St × List Out × Int × List Ev) :=
        if s1.bytes != 0 then tryOutput s1 evs1 else some (s1, [], 0, evs1)
      match stage2 with
      | none => none
      | some (s2, o2, r2, evs2) =>
        if r2 != 0 then some ({ s2 with hasBuf := false }, o1 ++ o2, -1, evs2)
        else
          match bands s2 with
          | none => none
          | some (b, r) => some (release s2, o1 ++ o2 ++ [b], r, evs2)

/-- `iv_fd_pump_init`: the first `set_bands(cookie, 1, 0)` -/
def initOuts : List Out := [Out.setBands true false]

/-- `iv_fd_pump_destroy` -/
def destroy (s : St) : St × List Out :=
  ({ s with hasBuf := false }, if s.sawFin != 2 then [Out.setBands false false] else [])

end Ivy.Pump
