/-
Model of /repo/src/iv_wait.c as a labelled transition system.

Shared state under `iv_wait_lock`: the set of interests keyed by pid (`set`; the C uses an AVL tree — that layer
is C16 — here an association list read through `alookup`, written through cons / `aremove`), and per interest
the `events_pending` queue, the IV_WAIT_STATUS_DEAD flag and the embedded iv_event ("completion owed").
Per thread: the `iv_wait_completion` call in progress (`Comp`) and `tinfo->handled_wait_interest`.
Kernel side (environment): the table of pids in use (`procs`), per child incarnation (`Cid`, ghost: never reused,
unlike the pid) the history of its state changes and how many of them wait4() has handed out.

Granularity: one action = one critical section of `iv_wait_lock` together with the thread-local code around it
(the code outside the lock touches only the calling thread's `tinfo` and an interest that is not, or no longer,
reachable through the set).  The SIGCHLD drain loop is the only critical section spanning several actions
(`reapBegin`; per wait4() result one `reapOne` and, when an interest was found, one `reapPost` — iv_event_post takes the
owner's event-list mutex, the one point inside the loop where another thread can observe anything —; `reapDone`), so
the lock holder is explicit.  `iv_event` delivery is abstracted to the bit `owed` (`reapPost` sets it; the owner's loop
later enters the handler: `complStart`, which clears it); iv_event itself is C08, the SIGCHLD path to the drain loop
(iv_signal) is C10: here any thread may start a drain at any time.

`step` returns `none` when the action is not enabled: the lock is taken, the thread's program counter is
elsewhere, the kernel could not have produced that input, or the call would be invalid use
(registering a registered interest, a second interest for the same pid, a pid that is not an unreaped child,
unregistering from a thread that is not the owner, killing through an unregistered interest).
Ghost fields (`cid`, `base`, `spawned`, `queued`, `got`, `kills`) are written, never read, by the transitions.
-/
namespace Ivy.Wait

abbrev Pid := Nat
abbrev Wid := Nat
abbrev Tid := Nat
abbrev Cid := Nat

inductive Status where
  | exited (code : Nat)
  | killed (sig : Nat)
  | stopped (sig : Nat)
  | continued
deriving Repr, DecidableEq

/-- `iv_wait_status_dead` -/
def Status.dead : Status → Bool
  | .exited _ => true
  | .killed _ => true
  | .stopped _ => false
  | .continued => false

/-- finite maps as association lists (first match wins) -/
def alookup (l : List (Nat × Nat)) (k : Nat) : Option Nat :=
  match l with
  | [] => none
  | (a, b) :: r => if a = k then some b else alookup r k

def aremove (l : List (Nat × Nat)) (k : Nat) : List (Nat × Nat) :=
  l.filter (fun e => e.1 ≠ k)

def upd {α : Type} (f : Nat → α) (k : Nat) (v : α) : Nat → α :=
  fun x => if x = k then v else f x

structure Interest where
  reg     : Bool := false            -- between iv_wait_interest_register[_spawn] and iv_wait_interest_unregister
  owner   : Tid := 0                 -- the registering thread (owner of `ev`)
  pid     : Pid := 0
  pending : List Status := []        -- events_pending
  dead    : Bool := false            -- flags & IV_WAIT_STATUS_DEAD
  owed    : Bool := false            -- `ev` is posted and its handler has not started yet
  -- ghost
  cid     : Cid := 0                 -- the child incarnation the interest was attached to
  base    : Nat := 0                 -- how many statuses of that child had been reaped before the insertion
  spawned : Bool := false            -- registered by iv_wait_interest_register_spawn
  queued  : List Status := []        -- every status appended to `pending` since the insertion
  got     : List Status := []        -- every status handed to the handler since the insertion
deriving Repr

/-- progress of `iv_wait_completion` in a thread -/
inductive Comp where
  | idle
  | started (w : Wid)                            -- the iv_event handler was entered, the queue not yet stolen
  | draining (w : Wid) (inflight : List Status)  -- local list `events`
deriving Repr, DecidableEq

structure Thread where
  comp    : Comp := .idle
  handled : Option Wid := none                   -- tinfo->handled_wait_interest
deriving Repr

structure State where
  set     : List (Pid × Wid) := []               -- iv_wait_interests
  ints    : Wid → Interest := fun _ => {}
  thr     : Tid → Thread := fun _ => {}
  lock    : Option Tid := none                   -- holder of iv_wait_lock inside the SIGCHLD drain loop
  posting : Option Wid := none                   -- drain loop: status appended to this interest, iv_event_post not yet done
  -- kernel
  procs   : List (Pid × Cid) := []               -- pids in use: children whose termination has not been reaped
  hist    : Cid → List Status := fun _ => []     -- all state changes of a child, oldest first
  nreaped : Cid → Nat := fun _ => 0              -- how many of them wait4() has returned
  ncid    : Nat := 0
  -- ghost output
  kills   : List (Pid × Nat) := []               -- kill() system calls made by iv_wait_interest_kill, latest first

def State.init : State := {}

inductive Action where
  | fork (pid : Pid)                         -- environment: a child the library was not told about
  | childChange (pid : Pid) (st : Status)    -- environment: a child stops, continues, exits or is killed
  | reapBegin (t : Tid)                      -- iv_wait_got_sigchld takes the lock
  | reapOne (t : Tid) (pid : Pid) (st : Status)   -- one loop iteration; wait4() returned (pid, st)
  | reapPost (t : Tid)                       -- the iv_event_post of that iteration (takes the owner's event-list mutex)
  | reapDone (t : Tid)                       -- wait4() returned 0 / ECHILD; unlock
  | register (t : Tid) (w : Wid) (pid : Pid)
  | registerSpawn (t : Tid) (w : Wid) (pid : Pid)  -- pid = what fork() returned
  | spawnFail (t : Tid) (w : Wid)            -- iv_wait_interest_register_spawn whose fork() failed: everything is undone
  | unregister (t : Tid) (w : Wid)
  | kill (t : Tid) (w : Wid) (sig : Nat)
  | complStart (t : Tid) (w : Wid)           -- the owner's loop enters iv_wait_completion(w)
  | steal (t : Tid)                          -- lock; __iv_list_steal_elements; unlock; handled_wait_interest = this
  | deliver (t : Tid)                        -- one iteration of the delivery loop
  | complEnd (t : Tid)                       -- list empty: handled_wait_interest = NULL; return
deriving Repr, DecidableEq

/-- the thread is between entering `iv_wait_completion` and its critical section: it can do nothing else -/
def busy (s : State) (t : Tid) : Bool :=
  match (s.thr t).comp with
  | .started _ => true
  | _ => false

/-- kernel: a new child with this pid -/
def kfork (s : State) (pid : Pid) : State :=
  { s with procs := (pid, s.ncid) :: s.procs, ncid := s.ncid + 1 }

/-- library side of one drain-loop iteration, in the order of the C code:
`p = find(pid); if (p != NULL) { add_tail; post } else free(we);`
`if (p != NULL && dead(status)) { tree_delete(p); p->flags = DEAD }`
The post itself (the only point of the iteration where another thread can observe anything: it takes the owner's
event-list mutex) is the separate action `reapPost`; `posting` remembers that it is due. The tree deletion and the
flag are invisible to everybody until the lock is released, so their order relative to the post does not matter. -/
def reapLib (s : State) (pid : Pid) (st : Status) : State :=
  let p := alookup s.set pid
  let s1 : State :=
    match p with
    | some w =>
      let i := s.ints w
      { s with ints := upd s.ints w { i with pending := i.pending ++ [st], queued := i.queued ++ [st] },
               posting := some w }
    | none => s
  match p with
  | some w =>
    if st.dead then
      { s1 with set := aremove s1.set pid, ints := upd s1.ints w { s1.ints w with dead := true } }
    else s1
  | none => s1

/-- the same loop body before the D1 repair (`if (iv_wait_status_dead(status))` without the `p != NULL` test):
`none` = NULL pointer dereference. Kept for the regression statement only. -/
def reapLibD1 (s : State) (pid : Pid) (st : Status) : Option State :=
  match alookup s.set pid with
  | some _ => some (reapLib s pid st)
  | none => if st.dead then none else some s

/-- what `iv_wait_interest_kill` passes to kill(), if it calls it at all -/
def killTarget (s : State) (w : Wid) : Option Pid :=
  if (s.ints w).dead then none else some (s.ints w).pid

/-- return value of `iv_wait_interest_kill` given that the system call succeeds -/
def killRet (s : State) (w : Wid) : Int :=
  if (s.ints w).dead then -3 else 0

def step (s : State) (a : Action) : Option State :=
  match a with
  | .fork pid =>
    if (alookup s.procs pid).isSome then none else some (kfork s pid)
  | .childChange pid st =>
    match alookup s.procs pid with
    | none => none
    | some c =>
      if (s.hist c).any Status.dead then none      -- a terminated child does not change state again
      else some { s with hist := upd s.hist c (s.hist c ++ [st]) }
  | .reapBegin t =>
    if s.lock.isSome || busy s t then none else some { s with lock := some t }
  | .reapOne t pid st =>
    if s.lock ≠ some t || s.posting.isSome then none else
    match alookup s.procs pid with
    | none => none
    | some c =>
      if (s.hist c)[s.nreaped c]? ≠ some st then none else
      let k : State := { s with nreaped := upd s.nreaped c (s.nreaped c + 1),
                                procs := if st.dead then aremove s.procs pid else s.procs }
      some (reapLib k pid st)
  | .reapPost t =>
    if s.lock ≠ some t then none else
    match s.posting with
    | some w => some { s with ints := upd s.ints w { s.ints w with owed := true }, posting := none }
    | none => none
  | .reapDone t =>
    if s.lock ≠ some t || s.posting.isSome then none else
    if s.procs.all (fun pc => (s.hist pc.2).length ≤ s.nreaped pc.2) then some { s with lock := none } else none
  | .register t w pid =>
    if s.lock.isSome || busy s t || (s.ints w).reg then none else
    match alookup s.procs pid with
    | none => none
    | some c =>
      if (alookup s.set pid).isSome then none else
      some { s with set := (pid, w) :: s.set,
                    ints := upd s.ints w { reg := true, owner := t, pid := pid, pending := [], dead := false, owed := false,
                                           cid := c, base := s.nreaped c, spawned := false, queued := [], got := [] } }
  | .registerSpawn t w pid =>
    if s.lock.isSome || busy s t || (s.ints w).reg then none else
    if (alookup s.procs pid).isSome then none else
    let k := kfork s pid
    some { k with set := (pid, w) :: k.set,
                  ints := upd k.ints w { reg := true, owner := t, pid := pid, pending := [], dead := false, owed := false,
                                         cid := s.ncid, base := 0, spawned := true, queued := [], got := [] } }
  | .spawnFail t w =>
    if s.lock.isSome || busy s t || (s.ints w).reg then none else some s
  | .unregister t w =>
    let i := s.ints w
    if s.lock.isSome || busy s t || !i.reg || i.owner ≠ t then none else
    let th := s.thr t
    some { s with set := if i.dead then s.set else aremove s.set i.pid,
                  ints := upd s.ints w { i with reg := false, pending := [], owed := false },
                  thr := upd s.thr t { th with handled := if th.handled = some w then none else th.handled } }
  | .kill t w sig =>
    if s.lock.isSome || busy s t || !(s.ints w).reg then none else
    match killTarget s w with
    | some p => some { s with kills := (p, sig) :: s.kills }
    | none => some s
  | .complStart t w =>
    let i := s.ints w
    match (s.thr t).comp with
    | .idle =>
      if i.reg && i.owed && i.owner = t then
        some { s with ints := upd s.ints w { i with owed := false },
                      thr := upd s.thr t { s.thr t with comp := .started w } }
      else none
    | _ => none
  | .steal t =>
    if s.lock.isSome then none else
    match (s.thr t).comp with
    | .started w =>
      let i := s.ints w
      some { s with ints := upd s.ints w { i with pending := [] },
                    thr := upd s.thr t { comp := .draining w i.pending, handled := some w } }
    | _ => none
  | .deliver t =>
    match (s.thr t).comp with
    | .draining w (st :: rest) =>
      let th := { s.thr t with comp := .draining w rest }
      if (s.thr t).handled.isSome then
        let i := s.ints w
        some { s with ints := upd s.ints w { i with got := i.got ++ [st] }, thr := upd s.thr t th }
      else some { s with thr := upd s.thr t th }          -- free(we) without calling the handler
    | _ => none
  | .complEnd t =>
    match (s.thr t).comp with
    | .draining _ [] => some { s with thr := upd s.thr t { comp := .idle, handled := none } }
    | _ => none

/-- the handler call made by `deliver t`, if any: (interest, status) -/
def deliverCall (s : State) (t : Tid) : Option (Wid × Status) :=
  match (s.thr t).comp with
  | .draining w (st :: _) => if (s.thr t).handled.isSome then some (w, st) else none
  | _ => none

def run (s : State) : List Action → Option State
  | [] => some s
  | a :: as =>
    match step s a with
    | some s' => run s' as
    | none => none

end Ivy.Wait
