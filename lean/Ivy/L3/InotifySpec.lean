import Ivy.L3.Inotify
/-! Invariant, valid use, and the trace-level vocabulary for the C20 theorems. -/
namespace Ivy.Inotify

/-- Kernel contract for what a read returns, as the walk sees it: starting at offset `curr` the
records `recs` follow one another, each `len + sizeof(struct inotify_event)` bytes after the
previous one, and the last one ends exactly at `e`. -/
def Chain (buf : Buf) : Nat → List Rec → Nat → Prop
  | curr, [], e => curr = e
  | curr, r :: rs, e => recAt buf curr = some r ∧ Chain buf (curr + r.len + EVSZ) rs e

structure Inv (s : St) : Prop where
  /-- every node of a registered instance's tree is a live watch structure that points to this
  instance and carries the key it is filed under -/
  tree_ws : ∀ i x, s.insts i = some x → x.registered = true → ∀ e ∈ x.tree,
      ∃ wi, s.ws e.2 = some wi ∧ wi.inst = i ∧ wi.wd = e.1 ∧ wi.freed = false
  /-- a watch descriptor occurs at most once per instance -/
  tree_nodup : ∀ i x, s.insts i = some x → x.registered = true → (x.tree.map (·.1)).Nodup
  /-- `term` is non-NULL only while this instance's walk is running, and then the walk's `this` is it -/
  term_frame : ∀ i x, s.insts i = some x → x.registered = true → x.term = .frame →
      ∃ wk, s.walk = some wk ∧ wk.this = some i
  /-- the walk's `this`, if not NULL, is the instance it started on, still registered, `term` set -/
  walk_this : ∀ wk i, s.walk = some wk → wk.this = some i →
      i = wk.inst ∧ ∃ x, s.insts i = some x ∧ x.registered = true ∧ x.term = .frame
  /-- `this == NULL` only after the instance was unregistered -/
  walk_null : ∀ wk, s.walk = some wk → wk.this = none → ∃ x, s.insts wk.inst = some x ∧ x.registered = false
  /-- what follows the record being handled is a well-formed sequence of records up to the end -/
  walk_chain : ∀ wk, s.walk = some wk → ∃ recs, Chain wk.buf (wk.curr + wk.len + EVSZ) recs wk.endOff

def regd (s : St) (i : Nat) : Bool :=
  match s.insts i with
  | some x => x.registered
  | none => false

/-- Valid use of the API, as a decidable predicate on (state, next input):
register only unused structures; unregister only what is registered (in particular not a watch
the library has dropped); release a watch structure only when it is not registered; the fd
handler runs only for a registered instance, not nested, and a read never returns 0 bytes. -/
def validUse (s : St) : In → Bool
  | .instRegister i _ => (s.insts i).isNone
  | .instUnregister i => regd s i
  | .watchRegister w i _ _ => regd s i && !isReg s w && !wFreed s w
  | .watchUnregister w => isReg s w
  | .watchFree w => !isReg s w && (s.ws w).isSome && !wFreed s w
  | .gotEvent i _ res => s.walk.isNone && regd s i && (match res with | .data recs => !recs.isEmpty | .eagain => true)
  | .handlerEnd => s.walk.isSome

/-- every input of the history is a valid use in the state it meets -/
def ValidFrom : St → List In → Prop
  | _, [] => True
  | s, a :: as => validUse s a = true ∧ match step s a with
    | .ok s' _ => ValidFrom s' as
    | _ => True

/-- `ValidFrom` as a computation (the predicate is decidable) -/
def validFromB : St → List In → Bool
  | _, [] => true
  | s, a :: as => validUse s a && match step s a with
    | .ok s' _ => validFromB s' as
    | _ => true

/-- the handler invocations in a list of outputs: (watch, byte offset of the record, record) -/
def calls : List Out → List (Nat × Nat × Rec)
  | [] => []
  | .call w off r _ :: os => (w, off, r) :: calls os
  | _ :: os => calls os

/-- the states in which the watch handlers returned: pre-states of the `handlerEnd` inputs -/
def returnStates : St → List In → List St
  | _, [] => []
  | s, a :: as =>
    match step s a with
    | .ok s' _ => (if a = .handlerEnd then [s] else []) ++ returnStates s' as
    | _ => []

/-- the set of watches of instance `i` as the API user sees it: none once unregistered -/
def treeOf (s : St) (i : Nat) : Option (List (Int × Nat)) :=
  match s.insts i with
  | some x => if x.registered then some x.tree else none
  | none => none

/-- The deliveries C20 asks for.  `recs` are the records not yet reached, the first one at byte
offset `off`; `s` is the state at the moment the first of them is reached; `later` are the states
at the moments the subsequent handlers return (each is the moment the next record is reached).
A record is delivered iff its wd has a watch in instance `i` at the moment it is reached, to that
watch; nothing is delivered once `i` is unregistered. -/
def specCalls (i : Nat) : Nat → List Rec → St → List St → List (Nat × Nat × Rec)
  | _, [], _, _ => []
  | off, r :: rs, s, later =>
    match treeOf s i with
    | none => []
    | some t =>
      match t.lookup r.wd with
      | none => specCalls i (off + r.len + EVSZ) rs s later
      | some w => (w, off, r) :: match later with
        | [] => []
        | s' :: later' => specCalls i (off + r.len + EVSZ) rs s' later'

/-- What is true when the handler of watch `w` is entered for record `r` at byte offset `off`
(`s`: state when the record was reached, `s'`: state in which the handler starts to run;
`b`: the watch is still a member of its instance's tree). -/
structure CallFacts (s s' : St) (w off : Nat) (r : Rec) (b : Bool) : Prop where
  /-- the watch was registered when the record was reached -/
  reg_before : isReg s w = true
  /-- it is the watch whose descriptor the record carries, on the instance being walked; the walk
  frame points at this record; and `b` is false exactly for kernel-removed / one-shot -/
  target : ∃ wi, s.ws w = some wi ∧ wi.wd = r.wd ∧ s'.ws w = some wi ∧
      (∃ wk, s'.walk = some wk ∧ wk.inst = wi.inst ∧ wk.curr = off ∧ wk.len = r.len) ∧
      b = !dropCond r.mask wi.mask
  /-- dropped BEFORE the handler runs: while the handler runs the watch is registered iff `b` -/
  reg_after : isReg s' w = b

/-- handler invocations of a whole history (`none`: the history is not an execution) -/
def runCalls (s : St) (ins : List In) : Option (List (Nat × Nat × Rec)) :=
  match run s ins with
  | .ok _ o => some (calls o)
  | _ => none

def isGotEvent : In → Bool
  | .gotEvent .. => true
  | _ => false

def isWatchRegister (w : Nat) : In → Bool
  | .watchRegister w' _ _ _ => w' == w
  | _ => false

def isCallTo (w : Nat) : Out → Bool
  | .call w' _ _ _ => w' == w
  | _ => false

def isCall : Out → Bool
  | .call .. => true
  | _ => false

end Ivy.Inotify
