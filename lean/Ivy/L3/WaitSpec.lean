import Ivy.L3.Wait
/-! Invariant, reachability and the derived notions used by the C11 theorems. -/
namespace Ivy.Wait

/-- the part of the owner's local list `events` that will still be offered to w's handler -/
def infl (s : State) (w : Wid) : List Status :=
  match (s.thr (s.ints w).owner).comp with
  | .draining w' l => if w' = w ∧ (s.thr (s.ints w).owner).handled = some w then l else []
  | _ => []

def noDead (l : List Status) : Prop := ∀ st, st ∈ l → st.dead = false

/-- statuses of child incarnation c that wait4() has handed out / not yet handed out -/
def reapedOf (s : State) (c : Cid) : List Status := (s.hist c).take (s.nreaped c)
def unreapedOf (s : State) (c : Cid) : List Status := (s.hist c).drop (s.nreaped c)

/-- kernel side (environment contract, maintained by the kernel actions) -/
structure KInv (s : State) : Prop where
  cid_lt       : ∀ p c, alookup s.procs p = some c → c < s.ncid
  cid_inj      : ∀ p p' c, alookup s.procs p = some c → alookup s.procs p' = some c → p = p'
  reaped_le    : ∀ c, s.nreaped c ≤ (s.hist c).length
  fresh        : ∀ c, s.ncid ≤ c → s.hist c = [] ∧ s.nreaped c = 0
  live_undead  : ∀ p c, alookup s.procs p = some c → noDead (reapedOf s c)      -- pid in use ⇒ termination not reaped
  term_last    : ∀ c, noDead (s.hist c).dropLast                                -- a child changes state no more after terminating

/-- the set of interests against the flags and the process table -/
structure SInv (s : State) : Prop where
  set_sound    : ∀ p w, alookup s.set p = some w →
                   (s.ints w).reg = true ∧ (s.ints w).pid = p ∧ (s.ints w).dead = false ∧ alookup s.procs p = some (s.ints w).cid
  set_complete : ∀ w, (s.ints w).reg = true → (s.ints w).dead = false → alookup s.set (s.ints w).pid = some w
  dead_gone    : ∀ w p, (s.ints w).reg = true → (s.ints w).dead = true → alookup s.procs p ≠ some (s.ints w).cid
  int_cid_lt   : ∀ w, (s.ints w).reg = true → (s.ints w).cid < s.ncid

/-- what was queued to an interest against the history of its child -/
structure QInv (s : State) : Prop where
  base_le      : ∀ w, (s.ints w).reg = true → (s.ints w).base ≤ s.nreaped (s.ints w).cid
  routed       : ∀ w, (s.ints w).reg = true → (s.ints w).queued = (reapedOf s (s.ints w).cid).drop (s.ints w).base
  undead_q     : ∀ w, (s.ints w).reg = true → (s.ints w).dead = false → noDead (s.ints w).queued
  dead_q       : ∀ w, (s.ints w).reg = true → (s.ints w).dead = true →
                   ∃ q d, (s.ints w).queued = q ++ [d] ∧ d.dead = true ∧ noDead q
  spawn_base   : ∀ w, (s.ints w).reg = true → (s.ints w).spawned = true → (s.ints w).base = 0

/-- where the queued statuses are (handed over, in the owner's local list, still pending) and who will move them on -/
structure TInv (s : State) : Prop where
  split        : ∀ w, (s.ints w).reg = true → (s.ints w).queued = (s.ints w).got ++ infl s w ++ (s.ints w).pending
  owed_ok      : ∀ w, (s.ints w).reg = true → (s.ints w).pending ≠ [] →
                   (s.ints w).owed = true ∨ (s.thr (s.ints w).owner).comp = .started w ∨ s.posting = some w
  started_ok   : ∀ t w, (s.thr t).comp = .started w → (s.ints w).reg = true ∧ (s.ints w).owner = t
  handled_ok   : ∀ t w, (s.thr t).handled = some w →
                   (s.ints w).reg = true ∧ (s.ints w).owner = t ∧ ∃ l, (s.thr t).comp = .draining w l
  posting_ok   : ∀ w, s.posting = some w → s.lock.isSome = true

structure Inv (st : State) : Prop where
  k : KInv st
  s : SInv st
  q : QInv st
  t : TInv st

/-- states reachable from the initial one by any sequence of enabled actions: every interleaving of any number of
threads, every history of child state changes, every use of the API allowed by its contract -/
def Reachable (s : State) : Prop := ∃ acts, run State.init acts = some s

end Ivy.Wait
