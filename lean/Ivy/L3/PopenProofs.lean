import Ivy.L3.PopenSpec
namespace Ivy.Popen.Proofs
open Ivy.Popen

theorem nextDue_nil (c : Nat) : nextDue c [] = c := rfl

theorem nextDue_snoc (c : Nat) (l : List (Nat × Sig)) (t : Nat) (sg : Sig) :
    nextDue c (l ++ [(t, sg)]) = t + INTERVAL_NS := by
  simp [nextDue]

theorem sched_snoc (c k : Nat) (l : List (Nat × Sig)) (t : Nat) (sg : Sig) :
    Sched c k (l ++ [(t, sg)]) ↔ Sched c k l ∧ sg = sigFor (k + l.length) ∧ nextDue c l ≤ t := by
  induction l generalizing c k with
  | nil => simp [Sched, nextDue]
  | cons x rest ih =>
    obtain ⟨t0, s0⟩ := x
    have hnd : nextDue c ((t0, s0) :: rest) = nextDue (t0 + INTERVAL_NS) rest := by
      cases rest with
      | nil => simp [nextDue]
      | cons y r =>
        simp only [nextDue, List.getLast?_cons_cons]
        cases h : (y :: r).getLast? with
        | none => simp at h
        | some v => rfl
    simp only [List.cons_append, Sched, ih, hnd, List.length_cons]
    have : k + 1 + rest.length = k + (rest.length + 1) := by omega
    rw [this]
    constructor
    · rintro ⟨a, b, c1, d, e⟩; exact ⟨⟨a, b, c1⟩, d, e⟩
    · rintro ⟨⟨a, b, c1⟩, d, e⟩; exact ⟨a, b, c1, d, e⟩

theorem schedExact_snoc (c k : Nat) (l : List (Nat × Sig)) (t : Nat) (sg : Sig) :
    SchedExact c k (l ++ [(t, sg)]) ↔ SchedExact c k l ∧ sg = sigFor (k + l.length) ∧ t = nextDue c l := by
  induction l generalizing c k with
  | nil => simp [SchedExact, nextDue]
  | cons x rest ih =>
    obtain ⟨t0, s0⟩ := x
    have hnd : nextDue c ((t0, s0) :: rest) = nextDue (t0 + INTERVAL_NS) rest := by
      cases rest with
      | nil => simp [nextDue]
      | cons y r =>
        simp only [nextDue, List.getLast?_cons_cons]
        cases h : (y :: r).getLast? with
        | none => simp at h
        | some v => rfl
    simp only [List.cons_append, SchedExact, ih, hnd, List.length_cons]
    have : k + 1 + rest.length = k + (rest.length + 1) := by omega
    rw [this]
    constructor
    · rintro ⟨a, b, c1, d, e⟩; exact ⟨⟨a, b, c1⟩, d, e⟩
    · rintro ⟨⟨a, b, c1⟩, d, e⟩; exact ⟨a, b, c1, d, e⟩


theorem init_inv (t0 : Nat) : Inv (St.init t0) := by
  constructor <;> simp [St.init, closeTime, Sched, SchedExact]

theorem inv_tick {s : St} (h : Inv s) (d : Nat) : Inv { s with now := s.now + d } := by
  obtain ⟨h1, h2, h3, h4, h5, h6, h7, h8, h9, h10, h11, h12, h13, h14, h15, h16, h17, h18, h19, h20⟩ := h
  constructor <;> first | assumption | grind [closeTime]

theorem inv_reset {s : St} (h : Inv s) (ho : s.isOpen = false) : Inv { s with reqChild := false } := by
  obtain ⟨h1, h2, h3, h4, h5, h6, h7, h8, h9, h10, h11, h12, h13, h14, h15, h16, h17, h18, h19, h20⟩ := h
  constructor <;> first | assumption | grind [closeTime]

theorem inv_submit {s s' : St} {o} {ty p f} (h : Inv s) (hs : doSubmit s ty p f = .ok s' o) : Inv s' := by
  obtain ⟨h1, h2, h3, h4, h5, h6, h7, h8, h9, h10, h11, h12, h13, h14, h15, h16, h17, h18, h19, h20⟩ := h
  unfold doSubmit at hs
  split at hs
  · cases hs
  · rename_i hc
    simp at hc
    have := h1 hc.1
    split at hs
    · cases hs
      constructor <;> first | assumption | grind [freeRec, closeTime, Sched, SchedExact]
    · split at hs
      · cases hs
        constructor <;> first | assumption | grind [freeRec, closeTime, Sched, SchedExact]
      · split at hs
        · cases hs
          constructor <;> first | assumption | grind [freeRec, closeTime, Sched, SchedExact]
        · cases hs
          constructor <;> first | assumption | grind [freeRec, closeTime, Sched, SchedExact]

theorem inv_close {s s' : St} {o} (h : Inv s) (hs : doClose s = .ok s' o) : Inv s' := by
  obtain ⟨h1, h2, h3, h4, h5, h6, h7, h8, h9, h10, h11, h12, h13, h14, h15, h16, h17, h18, h19, h20⟩ := h
  unfold doClose at hs
  try dsimp only at hs
  split at hs
  · cases hs
  · rename_i hopen
    simp at hopen
    have := h6 hopen
    split at hs
    · cases hs
      constructor <;> first | assumption | grind [closeTime, Sched, SchedExact]
    · split at hs
      · cases hs
      · split at hs
        · cases hs
        · cases hs
          constructor <;> first | assumption | grind [closeTime, Sched, SchedExact, nextDue]

theorem inv_proc {s s' : St} {o} {st} (h : Inv s) (hs : doProc s st = .ok s' o) : Inv s' := by
  obtain ⟨h1, h2, h3, h4, h5, h6, h7, h8, h9, h10, h11, h12, h13, h14, h15, h16, h17, h18, h19, h20⟩ := h
  unfold doProc at hs
  try dsimp only at hs
  split at hs
  · cases hs
  · cases hs
    constructor <;> first | assumption | grind [closeTime]

theorem inv_reap {s s' : St} {o} (h : Inv s) (hs : doReap s = .ok s' o) : Inv s' := by
  obtain ⟨h1, h2, h3, h4, h5, h6, h7, h8, h9, h10, h11, h12, h13, h14, h15, h16, h17, h18, h19, h20⟩ := h
  unfold doReap at hs
  try dsimp only at hs
  split at hs
  · cases hs
  · rename_i st rest hk
    split at hs
    · cases hs
      constructor <;> first | assumption | grind [closeTime]
    · cases hs
      constructor <;> first | assumption | grind [closeTime]

theorem inv_status {s s' : St} {o} (h : Inv s) (hs : doStatus s = .ok s' o) : Inv s' := by
  obtain ⟨h1, h2, h3, h4, h5, h6, h7, h8, h9, h10, h11, h12, h13, h14, h15, h16, h17, h18, h19, h20⟩ := h
  unfold doStatus at hs
  try dsimp only at hs
  split at hs
  · cases hs
  · rename_i st rest hk
    split at hs
    · cases hs
    · split at hs
      · cases hs
      · split at hs
        · cases hs
          constructor <;> first | assumption | grind [closeTime]
        · split at hs
          · cases hs
            constructor <;> first | assumption | grind [closeTime, freeRec, wUnreg]
          · split at hs
            · cases hs
            · cases hs
              constructor <;> first | assumption | grind [closeTime, freeRec, wUnreg]

theorem inv_timer {s s' : St} {o} {k d} (h : Inv s) (hs : doTimer s k d = .ok s' o) : Inv s' := by
  obtain ⟨h1, h2, h3, h4, h5, h6, h7, h8, h9, h10, h11, h12, h13, h14, h15, h16, h17, h18, h19, h20⟩ := h
  unfold doTimer at hs
  dsimp only at hs
  split at hs
  · cases hs
  · split at hs
    · cases hs
    · split at hs
      · cases hs
      · split at hs
        · cases hs
        · rename_i ht hl hn hw
          simp at ht hl hn hw
          have hdet : s.attached = false := by grind
          have h4' := h4 hl hdet
          have hsn := sched_snoc (closeTime s) 0 s.sent s.now (if s.numKills < MAX_SIGTERM_COUNT then Sig.term else Sig.kill)
          have hse := schedExact_snoc (closeTime s) 0 s.sent s.now (if s.numKills < MAX_SIGTERM_COUNT then Sig.term else Sig.kill)
          have hnd := nextDue_snoc (closeTime s) s.sent s.now (if s.numKills < MAX_SIGTERM_COUNT then Sig.term else Sig.kill)
          have hterm : ∀ sg : Sig, isTerminal sg.num = true := by intro sg; cases sg <;> decide
          split at hs
          · cases hs
            constructor <;> first | assumption | grind [closeTime, freeRec, wUnreg]
          · split at hs
            · cases hs
              constructor <;> first | assumption | grind [closeTime, freeRec, wUnreg, sigFor]
            · cases hs
              constructor <;> first | assumption | grind [closeTime, freeRec, wUnreg, sigFor]

theorem inv_step {s s' : St} {a : Act} {o : List Out} (h : Inv s) (hs : step s a = .ok s' o) : Inv s' := by
  cases a with
  | submit ty p f => exact inv_submit h hs
  | close => exact inv_close h hs
  | reqReset =>
    simp only [step] at hs
    split at hs
    · cases hs
    · rename_i ho
      cases hs
      exact inv_reset h (by simpa using ho)
  | tick d =>
    simp only [step] at hs
    cases hs
    exact inv_tick h d
  | timerFire k d => exact inv_timer h hs
  | procEvent st => exact inv_proc h hs
  | reap => exact inv_reap h hs
  | childStatus => exact inv_status h hs

theorem reach_inv {s : St} (h : Reach s) : Inv s := by
  induction h with
  | init t0 => exact init_inv t0
  | step _ hs ih => exact inv_step ih hs

/-- no action ever touches freed memory, registers the timer twice or unregisters something unregistered -/
theorem no_fault {s : St} (h : Inv s) (a : Act) (f : Fault) : step s a ≠ .fault f := by
  obtain ⟨h1, h2, h3, h4, h5, h6, h7, h8, h9, h10, h11, h12, h13, h14, h15, h16, h17, h18, h19, h20⟩ := h
  have hcase : s.recSt = .none ∨ s.recSt = .live ∨ s.recSt = .freed := by cases s.recSt <;> simp
  cases a with
  | submit ty p f =>
    simp only [step, doSubmit]
    split
    · simp
    · split
      · simp
      · split
        · simp
        · split <;> simp
  | close =>
    simp only [step, doClose]
    repeat' split
    all_goals first | (simp; done) | grind
  | reqReset => simp only [step]; split <;> simp
  | tick d => simp [step]
  | timerFire k d =>
    simp only [step, doTimer]
    repeat' split
    all_goals first | (simp; done) | grind
  | procEvent st => simp only [step, doProc]; split <;> simp
  | reap =>
    simp only [step, doReap]
    split
    · simp
    · split <;> simp
  | childStatus =>
    simp only [step, doStatus]
    repeat' split
    all_goals first | (simp; done) | grind [wUnreg]


theorem step!_inv {s : St} (h : Inv s) (a : Act) : Inv (step! s a) := by
  unfold step!
  split
  · rename_i s' o hs; exact inv_step h hs
  · exact h

theorem released_of_freed {s : St} (h : Inv s) (hf : s.recSt = .freed) (hs : s.spawned = true)
    (hk : s.killFailed = false) : Released s := by
  obtain ⟨h1, h2, h3, h4, h5, h6, h7, h8, h9, h10, h11, h12, h13, h14, h15, h16, h17, h18, h19, h20⟩ := h
  unfold Released objs
  grind

/-- the part of the state the fair-loop argument follows -/
def core (s : St) := (s.recSt, s.attached, s.timerReg, s.timerAt, s.numKills, s.alive, s.spawned, s.waitReg, s.now, s.killFailed)

theorem released_stable {s : St} (hr : Released s) (a : Act) : Released (step! s a) := by
  obtain ⟨r1, r2, r3, r4, r5, r6, r7, r8⟩ := hr
  unfold step!
  cases a with
  | submit ty p f => simp [step, doSubmit, r1]; unfold Released; grind
  | close =>
    simp only [step, doClose]
    repeat' split
    all_goals first | (unfold Released objs at *; grind) 
  | reqReset => simp only [step]; split <;> (unfold Released objs; grind)
  | tick d => simp only [step]; unfold Released objs; grind
  | timerFire k d => simp [step, doTimer, r5]; unfold Released objs; grind
  | procEvent st => simp [step, doProc, r8]; unfold Released objs; grind
  | reap =>
    simp only [step, doReap]
    repeat' split
    all_goals first | (unfold Released objs at *; grind)
  | childStatus =>
    simp only [step, doStatus]
    repeat' split
    all_goals first | (unfold Released objs at *; grind [wUnreg])


theorem reap_frame (s : St) : core (step! s .reap) = core s ∧ (step! s .reap).kq = s.kq.tail := by
  unfold step! core
  simp only [step, doReap]
  repeat' split
  all_goals grind

theorem reapAll_spec : ∀ (n : Nat) (s : St), Inv s → s.kq.length ≤ n →
    Inv (reapAll s n) ∧ core (reapAll s n) = core s ∧ (reapAll s n).kq = [] := by
  intro n
  induction n with
  | zero => intro s h hl; simp [reapAll]; exact ⟨h, by simpa using hl⟩
  | succ n ih =>
    intro s h hl
    have hf := reap_frame s
    have := ih (step! s .reap) (step!_inv h _) (by rw [hf.2]; simp; omega)
    simp only [reapAll]
    exact ⟨this.1, by rw [this.2.1, hf.1], this.2.2⟩

theorem reapAll_released : ∀ (n : Nat) (s : St), Released s → Released (reapAll s n) := by
  intro n
  induction n with
  | zero => intro s h; exact h
  | succ n ih => intro s h; exact ih _ (released_stable h _)

theorem deliverAll_released : ∀ (n : Nat) (s : St), Released s → Released (deliverAll s n) := by
  intro n
  induction n with
  | zero => intro s h; exact h
  | succ n ih => intro s h; exact ih _ (released_stable h _)

/-- one delivery to a live record: either the record is released, or only the queue moved -/
theorem deliver_live {s : St} (h : Inv s) (hl : s.recSt = .live) :
    (Released (step! s .childStatus) ∧ ∃ st, s.pending.head? = some st ∧ isTerminal st = true) ∨
    (core (step! s .childStatus) = core s ∧ (step! s .childStatus).pending = s.pending.tail ∧
      ∀ st, s.pending.head? = some st → isTerminal st = false) := by
  have hi := step!_inv h .childStatus
  have h2' := h.live_ hl
  cases hp : s.pending with
  | nil =>
    right
    have : step s .childStatus = .disabled := by simp [step, doStatus, hp]
    simp [step!, this, hp]
  | cons st rest =>
    by_cases ht : isTerminal st = true
    · left
      refine ⟨?_, st, by simp, ht⟩
      by_cases ha : s.attached = true
      · have hst : step s .childStatus = .ok (freeRec { wUnreg { s with pending := rest } with reqChild := false }) [.wUnreg, .detach, .free] := by
          simp [step, doStatus, hp, h2', hl, ht, ha, wUnreg]
        rw [step!, hst] at hi
        simp only [step!, hst]
        exact released_of_freed hi (by simp [freeRec]) (by simp [freeRec, wUnreg, h2']) (by simp [freeRec, wUnreg, h2'])
      · have ha' : s.attached = false := by simpa using ha
        have h4' := h.det hl ha'
        have hst : step s .childStatus = .ok (freeRec { wUnreg { s with pending := rest } with timerReg := false }) [.wUnreg, .tUnreg, .free] := by
          simp [step, doStatus, hp, h2', hl, ht, ha', wUnreg, h4']
        rw [step!, hst] at hi
        simp only [step!, hst]
        exact released_of_freed hi (by simp [freeRec]) (by simp [freeRec, wUnreg, h2']) (by simp [freeRec, wUnreg, h2'])
    · right
      have ht' : isTerminal st = false := by simpa using ht
      have hst : step s .childStatus = .ok { s with pending := rest } [] := by
        simp [step, doStatus, hp, h2', hl, ht']
      simp [step!, hst, core, ht']


theorem core_recSt {s s' : St} (h : core s' = core s) : s'.recSt = s.recSt ∧ s'.attached = s.attached ∧
    s'.timerReg = s.timerReg ∧ s'.timerAt = s.timerAt ∧ s'.numKills = s.numKills ∧ s'.alive = s.alive ∧
    s'.spawned = s.spawned ∧ s'.waitReg = s.waitReg ∧ s'.now = s.now ∧ s'.killFailed = s.killFailed := by
  simp only [core, Prod.mk.injEq] at h
  exact h

theorem deliverAll_spec : ∀ (n : Nat) (s : St), Inv s → s.recSt = .live → s.pending.length ≤ n →
    Released (deliverAll s n) ∨
    (Inv (deliverAll s n) ∧ core (deliverAll s n) = core s ∧ ∀ st, st ∈ s.pending → isTerminal st = false) := by
  intro n
  induction n with
  | zero =>
    intro s h hl hn
    right
    have : s.pending = [] := by simpa using hn
    simp [deliverAll, h, this]
  | succ n ih =>
    intro s h hl hn
    simp only [deliverAll]
    rcases deliver_live h hl with ⟨hr, _⟩ | ⟨hc, hp, hh⟩
    · left; exact deliverAll_released _ _ hr
    · have hi := step!_inv h .childStatus
      have hl' : (step! s .childStatus).recSt = .live := by rw [(core_recSt hc).1, hl]
      rcases ih _ hi hl' (by rw [hp]; simp; omega) with hr | ⟨hi2, hc2, hall⟩
      · left; exact hr
      · right
        refine ⟨hi2, by rw [hc2, hc], ?_⟩
        intro st hm
        cases hpp : s.pending with
        | nil => rw [hpp] at hm; cases hm
        | cons a rest =>
          rw [hpp] at hm hp hh
          rcases List.mem_cons.mp hm with rfl | hm
          · exact hh _ (by simp)
          · exact hall _ (by rw [hp]; simpa using hm)

/-- the child has ended (status collected or not): collecting and delivering releases everything -/
theorem ended_released {s : St} (h : Inv s) (hl : s.recSt = .live) (ha : s.alive = false) :
    Released (collect s) := by
  unfold collect
  obtain ⟨hi1, hc1, hk1⟩ := reapAll_spec s.kq.length s h (Nat.le_refl _)
  have c1 := core_recSt hc1
  have hl1 : (reapAll s s.kq.length).recSt = .live := by rw [c1.1, hl]
  rcases deliverAll_spec _ _ hi1 hl1 (Nat.le_refl _) with hr | ⟨_, _, hall⟩
  · exact hr
  · exfalso
    have hlive := hi1.live_ hl1
    have hre : (reapAll s s.kq.length).reaped = true := by
      cases hr : (reapAll s s.kq.length).reaped with
      | true => rfl
      | false =>
        obtain ⟨st, hm, _⟩ := hi1.zombie hlive.2.1 (by rw [c1.2.2.2.2.2.1, ha]) hr
        rw [hk1] at hm; cases hm
    have hd := hi1.reap_dead hre hlive.1
    obtain ⟨st, hm, ht⟩ := hi1.dead_pend hl1 hd
    rw [hall st hm] at ht
    cases ht


/-- rounds still needed at most -/
def pot (s : St) : Nat := (if s.alive then MAX_SIGTERM_COUNT + 1 - s.numKills else 0) + 1

theorem spont_inv {s : St} (h : Inv s) (e : Env) : Inv (spontStep s e) := by
  unfold spontStep; split
  · exact step!_inv h _
  · exact h

theorem collect_inv {s : St} (h : Inv s) : Inv (collect s) := by
  unfold collect
  have h1 := (reapAll_spec s.kq.length s h (Nat.le_refl _)).1
  generalize reapAll s s.kq.length = s1 at h1
  generalize s1.pending.length = n
  induction n generalizing s1 with
  | zero => exact h1
  | succ n ih => exact ih _ (step!_inv h1 _)

theorem fire_inv {s : St} (h : Inv s) (d : Bool) : Inv (fire s d) := by
  unfold fire; split
  · exact step!_inv (step!_inv h _) _
  · exact h

theorem round_inv {s : St} (h : Inv s) (e : Env) : Inv (round s e) :=
  fire_inv (collect_inv (spont_inv h e)) _

theorem round_released {s : St} (h : Released s) (e : Env) : Released (round s e) := by
  have h0 : Released (spontStep s e) := by
    unfold spontStep; split
    · exact released_stable h _
    · exact h
  have h1 : Released (collect (spontStep s e)) :=
    deliverAll_released _ _ (reapAll_released _ _ h0)
  unfold round fire
  split
  · exact released_stable (released_stable h1 _) _
  · exact h1

theorem proc_frame {s : St} (hl : s.recSt = .live) (st : Nat) :
    (step! s (.procEvent st)).recSt = .live ∧ (step! s (.procEvent st)).attached = s.attached ∧
    (step! s (.procEvent st)).numKills = s.numKills ∧ ((step! s (.procEvent st)).alive = true → s.alive = true) := by
  unfold step!
  simp only [step, doProc]
  by_cases hc : (!(s.spawned && s.alive)) = true
  · simp [hc, hl]
  · simp [hc, hl]
    simp at hc
    intro _; exact hc.2

theorem spont_frame {s : St} (hl : s.recSt = .live) (e : Env) :
    (spontStep s e).recSt = .live ∧ (spontStep s e).attached = s.attached ∧
    (spontStep s e).numKills = s.numKills ∧ ((spontStep s e).alive = true → s.alive = true) := by
  unfold spontStep; split
  · exact proc_frame hl _
  · exact ⟨hl, rfl, rfl, id⟩

theorem fire_live {s : St} (h : Inv s) (hl : s.recSt = .live) (hd : s.attached = false) (ha : s.alive = true) (dies : Bool) :
    (fire s dies).recSt = .live ∧ (fire s dies).attached = false ∧ pot (fire s dies) < pot s := by
  have h2 := h.live_ hl
  have h4 := h.det hl hd
  have h9 := h.alive_kq ha
  have hk := h.kills_le hl hd ha
  have hdead : s.dead = false := by
    cases hx : s.dead with
    | false => rfl
    | true => have := h.dead_reap hx; simp_all
  have htick : step! s (.tick (s.timerAt - s.now)) = { s with now := s.now + (s.timerAt - s.now) } := by
    simp [step!, step]
  unfold fire
  rw [if_pos h4.1, htick]
  have hnow : ¬ (s.now + (s.timerAt - s.now) < s.timerAt) := by omega
  have hst : step { s with now := s.now + (s.timerAt - s.now) } (.timerFire true dies) =
      .ok { s with now := s.now + (s.timerAt - s.now), numKills := s.numKills + 1,
                   punctual := s.punctual && (s.now + (s.timerAt - s.now)) == s.timerAt,
                   sent := s.sent ++ [(s.now + (s.timerAt - s.now), if s.numKills < MAX_SIGTERM_COUNT then Sig.term else Sig.kill)],
                   lateKill := s.lateKill || s.reaped,
                   alive := s.alive && !(s.alive && (dies || (if s.numKills < MAX_SIGTERM_COUNT then Sig.term else Sig.kill) == Sig.kill)),
                   kq := if (s.alive && (dies || (if s.numKills < MAX_SIGTERM_COUNT then Sig.term else Sig.kill) == Sig.kill)) = true
                         then s.kq ++ [(if s.numKills < MAX_SIGTERM_COUNT then Sig.term else Sig.kill).num] else s.kq,
                   timerReg := true, timerAt := s.now + (s.timerAt - s.now) + INTERVAL_NS }
          [.killReq (if s.numKills < MAX_SIGTERM_COUNT then Sig.term else Sig.kill),
           .sysKill (if s.numKills < MAX_SIGTERM_COUNT then Sig.term else Sig.kill),
           .tReg (s.now + (s.timerAt - s.now) + INTERVAL_NS)] := by
    simp only [step, doTimer]
    simp [h4.1, hl, h2.1, hdead, hnow]
  simp only [step!, hst]
  refine ⟨hl, hd, ?_⟩
  simp only [pot, ha, Bool.true_and, if_true]
  by_cases hlt : s.numKills < MAX_SIGTERM_COUNT
  · simp only [hlt, if_true]
    cases dies <;> simp <;> omega
  · simp only [hlt, if_false]
    simp
    omega

theorem round_progress {s : St} (h : Inv s) (hl : s.recSt = .live) (hd : s.attached = false) (e : Env) :
    Released (round s e) ∨ ((round s e).recSt = .live ∧ (round s e).attached = false ∧ pot (round s e) < pot s) := by
  have hi0 := spont_inv h e
  obtain ⟨hl0, hd0', hn0, ha0⟩ := spont_frame hl e
  have hd0 : (spontStep s e).attached = false := by rw [hd0', hd]
  unfold round
  generalize spontStep s e = s0 at *
  by_cases hal : s0.alive = true
  · -- still running: nothing terminal to collect, the timer fires
    have hic := collect_inv hi0
    obtain ⟨hi1, hc1, hk1⟩ := reapAll_spec s0.kq.length s0 hi0 (Nat.le_refl _)
    have c1 := core_recSt hc1
    have hl1 : (reapAll s0 s0.kq.length).recSt = .live := by rw [c1.1, hl0]
    have hcol : collect s0 = deliverAll (reapAll s0 s0.kq.length) (reapAll s0 s0.kq.length).pending.length := rfl
    rcases deliverAll_spec _ _ hi1 hl1 (Nat.le_refl _) with hr | ⟨hi2, hc2, _⟩
    · left
      rw [← hcol] at hr
      have : (collect s0).timerReg = false := hr.2.2.2.2.1
      unfold fire
      simp [this]
      exact hr
    · right
      rw [← hcol] at hi2 hc2
      have c2 := core_recSt hc2
      generalize collect s0 = s2 at *
      have hl2 : s2.recSt = .live := by rw [c2.1, hl1]
      have hd2 : s2.attached = false := by rw [c2.2.1, c1.2.1, hd0]
      have ha2 : s2.alive = true := by rw [c2.2.2.2.2.2.1, c1.2.2.2.2.2.1, hal]
      have := fire_live hi2 hl2 hd2 ha2 e.dies
      refine ⟨this.1, this.2.1, Nat.lt_of_lt_of_le this.2.2 ?_⟩
      have hs : s.alive = true := ha0 hal
      simp only [pot, ha2, hs, if_true]
      rw [c2.2.2.2.2.1, c1.2.2.2.2.1, hn0]
      exact Nat.le_refl _
  · left
    have hal' : s0.alive = false := by simpa using hal
    have hr : Released (collect s0) := ended_released hi0 hl0 hal'
    have : (collect s0).timerReg = false := hr.2.2.2.2.1
    unfold fire
    simp [this]
    exact hr

theorem pot_pos (s : St) : 1 ≤ pot s := by
  unfold pot; split <;> omega

theorem pot_le (s : St) : pot s ≤ MAX_SIGTERM_COUNT + 2 := by
  unfold pot; split <;> omega

theorem fold_released : ∀ (l : List Env) (x : St), Released x → Released (l.foldl round x) := by
  intro l
  induction l with
  | nil => intro x hx; exact hx
  | cons e' r ih' => intro x hx; exact ih' _ (round_released hx e')

theorem fair_fold : ∀ (k : Nat) (envs : List Env) (s : St), Inv s → s.recSt = .live → s.attached = false →
    pot s ≤ k → k ≤ envs.length → Released (envs.foldl round s) := by
  intro k
  induction k with
  | zero => intro envs s _ _ _ hp _; have := pot_pos s; omega
  | succ k ih =>
    intro envs s h hl hd hp hlen
    cases envs with
    | nil => simp at hlen
    | cons e rest =>
      simp only [List.foldl_cons]
      rcases round_progress h hl hd e with hr | ⟨hl', hd', hlt⟩
      · exact fold_released _ _ hr
      · exact ih rest _ (round_inv h e) hl' hd' (by omega) (by simpa using hlen)



theorem sched_index : ∀ (l : List (Nat × Sig)) (c k : Nat), Sched c k l →
    ∀ i (h : i < l.length), (l[i]).2 = sigFor (k + i) ∧ c + i * INTERVAL_NS ≤ (l[i]).1 := by
  intro l
  induction l with
  | nil => intro c k _ i h; simp at h
  | cons x rest ih =>
    intro c k hs i h
    obtain ⟨t, sg⟩ := x
    obtain ⟨h1, h2, h3⟩ := hs
    cases i with
    | zero => simp; exact ⟨h1, h2⟩
    | succ j =>
      have := ih (t + INTERVAL_NS) (k + 1) h3 j (by simpa using h)
      simp only [List.getElem_cons_succ]
      refine ⟨by rw [this.1]; congr 1; omega, ?_⟩
      have := this.2
      rw [Nat.add_mul]
      omega

theorem sched_gap : ∀ (l : List (Nat × Sig)) (c k : Nat), Sched c k l →
    ∀ i (h : i + 1 < l.length), (l[i]).1 + INTERVAL_NS ≤ (l[i + 1]).1 := by
  intro l
  induction l with
  | nil => intro c k _ i h; simp at h
  | cons x rest ih =>
    intro c k hs i h
    obtain ⟨t, sg⟩ := x
    obtain ⟨h1, h2, h3⟩ := hs
    cases i with
    | zero =>
      cases rest with
      | nil => simp at h
      | cons y r =>
        obtain ⟨t', sg'⟩ := y
        simp
        exact h3.2.1
    | succ j =>
      simp only [List.getElem_cons_succ]
      exact ih (t + INTERVAL_NS) (k + 1) h3 j (by simpa using h)

theorem schedExact_index : ∀ (l : List (Nat × Sig)) (c k : Nat), SchedExact c k l →
    ∀ i (h : i < l.length), l[i] = (c + i * INTERVAL_NS, sigFor (k + i)) := by
  intro l
  induction l with
  | nil => intro c k _ i h; simp at h
  | cons x rest ih =>
    intro c k hs i h
    obtain ⟨t, sg⟩ := x
    obtain ⟨h1, h2, h3⟩ := hs
    cases i with
    | zero => simp [h1, h2]
    | succ j =>
      have := ih (t + INTERVAL_NS) (k + 1) h3 j (by simpa using h)
      simp only [List.getElem_cons_succ]
      rw [this, h2, Nat.add_mul]
      congr 1
      · omega
      · congr 1; omega

/-- once the terminal status has been collected no step makes another kill() system call -/
theorem no_kill_after_reap {s s' : St} {a : Act} {o : List Out} (h : Inv s) (hr : s.reaped = true)
    (hs : step s a = .ok s' o) : s'.sent = s.sent ∧ ∀ sg, Out.sysKill sg ∉ o := by
  obtain ⟨h1, h2, h3, h4, h5, h6, h7, h8, h9, h10, h11, h12, h13, h14, h15, h16, h17, h18, h19, h20⟩ := h
  have hcase : s.recSt = .none ∨ s.recSt = .live ∨ s.recSt = .freed := by cases s.recSt <;> simp
  cases a with
  | submit ty p f =>
    simp only [step, doSubmit] at hs
    repeat' split at hs
    all_goals first | (cases hs; done) | (cases hs; simp [freeRec])
  | close =>
    simp only [step, doClose] at hs
    repeat' split at hs
    all_goals first | (cases hs; done) | (cases hs; simp)
  | reqReset => simp only [step] at hs; split at hs <;> first | (cases hs; done) | (cases hs; simp)
  | tick d => simp only [step] at hs; cases hs; simp
  | timerFire k d =>
    simp only [step, doTimer] at hs
    repeat' split at hs
    all_goals first | (cases hs; done) | (cases hs; simp [freeRec, wUnreg]; done) | (exfalso; grind)
  | procEvent st => simp only [step, doProc] at hs; split at hs <;> first | (cases hs; done) | (cases hs; simp)
  | reap =>
    simp only [step, doReap] at hs
    repeat' split at hs
    all_goals first | (cases hs; done) | (cases hs; simp; done) | (cases hs; simp; split <;> simp)
  | childStatus =>
    simp only [step, doStatus] at hs
    repeat' split at hs
    all_goals first | (cases hs; done) | (cases hs; simp [freeRec, wUnreg])

/-! ### descriptors -/

theorem dup2_of_some {t : FdTab} {o : Nat} {f : File} (h : t o = some f) (n : Nat) :
    dup2 t o n = fun x => if x = n then some f else t x := by
  simp [dup2, h]

theorem child_wiring_r (t : FdTab) (p0 p1 dn : Nat)
    (h0 : (t 0).isSome) (h1 : (t 1).isSome) (h2 : (t 2).isSome)
    (hp0 : t p0 = none) (hp1 : t p1 = none) (hne : p0 ≠ p1)
    (hdn : t dn = none) (hd0 : dn ≠ p0) (hd1 : dn ≠ p1) :
    let c := childSide true (afterPipe t p0 p1) p0 p1 dn
    c 0 = some File.null ∧ c 1 = some File.pipeW ∧ c 2 = some File.null ∧
    c p0 = none ∧ c p1 = none ∧ c dn = none ∧
    ∀ x, 3 ≤ x → x ≠ p0 → x ≠ p1 → x ≠ dn → c x = t x := by
  have hq : p0 ≠ 0 ∧ p0 ≠ 1 ∧ p0 ≠ 2 ∧ p1 ≠ 0 ∧ p1 ≠ 1 ∧ p1 ≠ 2 ∧ dn ≠ 0 ∧ dn ≠ 1 ∧ dn ≠ 2 := by
    refine ⟨?_, ?_, ?_, ?_, ?_, ?_, ?_, ?_, ?_⟩ <;> (intro h; subst h; simp_all)
  obtain ⟨a0, a1, a2, b0, b1, b2, c0, c1, c2⟩ := hq
  have e1 : dup2 (openAt (afterPipe t p0 p1) dn File.null) dn 0 =
      fun x => if x = 0 then some File.null else openAt (afterPipe t p0 p1) dn File.null x :=
    dup2_of_some (by simp [openAt]) 0
  have e2 : dup2 (fun x => if x = 0 then some File.null else openAt (afterPipe t p0 p1) dn File.null x) p1 1 =
      fun x => if x = 1 then some File.pipeW else (if x = 0 then some File.null else openAt (afterPipe t p0 p1) dn File.null x) :=
    dup2_of_some (by simp [openAt, afterPipe, b0, Ne.symm hd1]) 1
  have e3 : dup2 (fun x => if x = 1 then some File.pipeW else (if x = 0 then some File.null else openAt (afterPipe t p0 p1) dn File.null x)) dn 2 =
      fun x => if x = 2 then some File.null else (if x = 1 then some File.pipeW else (if x = 0 then some File.null else openAt (afterPipe t p0 p1) dn File.null x)) :=
    dup2_of_some (by simp [openAt, c0, c1]) 2
  simp only [childSide, if_true, e1, e2, e3]
  simp only [close, openAt, afterPipe]
  refine ⟨?_, ?_, ?_, ?_, ?_, ?_, ?_⟩
  · simp [Ne.symm c0, Ne.symm b0, Ne.symm a0]
  · simp [Ne.symm c1, Ne.symm b1, Ne.symm a1]
  · simp [Ne.symm c2, Ne.symm b2, Ne.symm a2]
  · simp [Ne.symm hd0, hne]
  · simp [Ne.symm hd1]
  · simp
  · intro x hx n0 n1 nd
    have : x ≠ 0 ∧ x ≠ 1 ∧ x ≠ 2 := by omega
    simp [this, n0, n1, nd]

theorem child_wiring_w (t : FdTab) (p0 p1 dn : Nat)
    (h0 : (t 0).isSome) (h1 : (t 1).isSome) (h2 : (t 2).isSome)
    (hp0 : t p0 = none) (hp1 : t p1 = none) (hne : p0 ≠ p1)
    (hdn : t dn = none) (hd0 : dn ≠ p0) (hd1 : dn ≠ p1) :
    let c := childSide false (afterPipe t p0 p1) p0 p1 dn
    c 0 = some File.pipeR ∧ c 1 = some File.null ∧ c 2 = some File.null ∧
    c p0 = none ∧ c p1 = none ∧ c dn = none ∧
    ∀ x, 3 ≤ x → x ≠ p0 → x ≠ p1 → x ≠ dn → c x = t x := by
  have hq : p0 ≠ 0 ∧ p0 ≠ 1 ∧ p0 ≠ 2 ∧ p1 ≠ 0 ∧ p1 ≠ 1 ∧ p1 ≠ 2 ∧ dn ≠ 0 ∧ dn ≠ 1 ∧ dn ≠ 2 := by
    refine ⟨?_, ?_, ?_, ?_, ?_, ?_, ?_, ?_, ?_⟩ <;> (intro h; subst h; simp_all)
  obtain ⟨a0, a1, a2, b0, b1, b2, c0, c1, c2⟩ := hq
  have e1 : dup2 (openAt (afterPipe t p0 p1) dn File.null) p0 0 =
      fun x => if x = 0 then some File.pipeR else openAt (afterPipe t p0 p1) dn File.null x :=
    dup2_of_some (by simp [openAt, afterPipe, Ne.symm hd0, hne]) 0
  have e2 : dup2 (fun x => if x = 0 then some File.pipeR else openAt (afterPipe t p0 p1) dn File.null x) dn 1 =
      fun x => if x = 1 then some File.null else (if x = 0 then some File.pipeR else openAt (afterPipe t p0 p1) dn File.null x) :=
    dup2_of_some (by simp [openAt, c0]) 1
  have e3 : dup2 (fun x => if x = 1 then some File.null else (if x = 0 then some File.pipeR else openAt (afterPipe t p0 p1) dn File.null x)) dn 2 =
      fun x => if x = 2 then some File.null else (if x = 1 then some File.null else (if x = 0 then some File.pipeR else openAt (afterPipe t p0 p1) dn File.null x)) :=
    dup2_of_some (by simp [openAt, c0, c1]) 2
  simp only [childSide, Bool.false_eq_true, if_false, e1, e2, e3]
  simp only [close, openAt, afterPipe]
  refine ⟨?_, ?_, ?_, ?_, ?_, ?_, ?_⟩
  · simp [Ne.symm c0, Ne.symm b0, Ne.symm a0]
  · simp [Ne.symm c1, Ne.symm b1, Ne.symm a1]
  · simp [Ne.symm c2, Ne.symm b2, Ne.symm a2]
  · simp [Ne.symm hd0, hne]
  · simp [Ne.symm hd1]
  · simp
  · intro x hx n0 n1 nd
    have : x ≠ 0 ∧ x ≠ 1 ∧ x ≠ 2 := by omega
    simp [this, n0, n1, nd]

theorem parent_wiring (forRead : Bool) (t : FdTab) (p0 p1 : Nat) (hne : p0 ≠ p1) :
    let r := parentSide forRead t p0 p1 true
    r.2 = some (if forRead then p0 else p1) ∧
    r.1 (if forRead then p0 else p1) = some (if forRead then File.pipeR else File.pipeW) ∧
    r.1 (if forRead then p1 else p0) = none ∧
    ∀ x, x ≠ p0 → x ≠ p1 → r.1 x = t x := by
  cases forRead <;> simp [parentSide, afterPipe, openAt, close] <;> grind

theorem fork_failure_fds (forRead : Bool) (t : FdTab) (p0 p1 : Nat) (hp0 : t p0 = none) (hp1 : t p1 = none) :
    (parentSide forRead t p0 p1 false).2 = none ∧ ∀ x, (parentSide forRead t p0 p1 false).1 x = t x := by
  simp [parentSide, afterPipe, openAt, close]
  grind

/-- with standard input closed in the parent the kernel hands out descriptor 0 as a pipe end and the
child ends up WITHOUT a standard input: the precondition "0, 1, 2 are open" of `child_wiring_r` is needed -/
theorem child_wiring_needs_stdio :
    let t : FdTab := fun x => if x = 1 ∨ x = 2 then some File.other else none
    t 0 = none ∧ t 3 = none ∧ t 4 = none ∧ (childSide true (afterPipe t 0 3) 0 3 4) 0 = none := by
  simp [childSide, afterPipe, openAt, dup2, close]


/-! ### the statements used by `Ivy/Props/C19.lean` -/

theorem step!_sent_reap (s : St) : (step! s .reap).sent = s.sent := by
  unfold step!; simp only [step, doReap]
  repeat' split
  all_goals grind

theorem step!_sent_status (s : St) : (step! s .childStatus).sent = s.sent := by
  unfold step!; simp only [step, doStatus]
  repeat' split
  all_goals grind [freeRec, wUnreg]

theorem collect_sent (s : St) : (collect s).sent = s.sent := by
  unfold collect
  have h1 : ∀ n (x : St), (reapAll x n).sent = x.sent := by
    intro n; induction n with
    | zero => intro x; rfl
    | succ n ih => intro x; simp only [reapAll]; rw [ih, step!_sent_reap]
  have h2 : ∀ n (x : St), (deliverAll x n).sent = x.sent := by
    intro n; induction n with
    | zero => intro x; rfl
    | succ n ih => intro x; simp only [deliverAll]; rw [ih, step!_sent_status]
  rw [h2, h1]

theorem fair_release {s : St} (h : Inv s) (hl : s.recSt = .live) (hd : s.attached = false) (envs : List Env)
    (hn : MAX_SIGTERM_COUNT + 2 ≤ envs.length) : Released (envs.foldl round s) :=
  fair_fold (MAX_SIGTERM_COUNT + 2) envs s h hl hd (pot_le s) hn

theorem released_safety {s : St} (h : Inv s) :
    s.frees ≤ s.allocs ∧ s.allocs ≤ 1 ∧ (s.recSt = .freed ↔ s.frees = 1) ∧ (s.recSt = .freed → objs s = 0) ∧
    (s.recSt = .live → s.frees = 0 ∧ s.waitReg = true) := by
  obtain ⟨h1, h2, h3, h4, h5, h6, h7, h8, h9, h10, h11, h12, h13, h14, h15, h16, h17, h18, h19, h20⟩ := h
  have hcase : s.recSt = .none ∨ s.recSt = .live ∨ s.recSt = .freed := by cases s.recSt <;> simp
  unfold objs
  grind

theorem submit_failure_clean {s s' : St} {o : List Out} {ty : Option Bool} {p f : Bool} (h : Inv s)
    (hs : step s (.submit ty p f) = .ok s' o) (hfail : ty = none ∨ p = false ∨ f = false) :
    s'.recSt = .freed ∧ s'.frees = 1 ∧ s'.allocs = 1 ∧ objs s' = 0 ∧ s'.isOpen = false ∧ s'.spawned = false ∧
    Out.ret none ∈ o ∧ (ty ≠ none → p = true → Out.closeBoth ∈ o) := by
  obtain ⟨h1, h2, h3, h4, h5, h6, h7, h8, h9, h10, h11, h12, h13, h14, h15, h16, h17, h18, h19, h20⟩ := h
  simp only [step, doSubmit] at hs
  unfold objs
  repeat' split at hs
  all_goals first | (cases hs; done) | (cases hs; simp [freeRec]; grind)

end Ivy.Popen.Proofs
