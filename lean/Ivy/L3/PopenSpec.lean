import Ivy.L3.Popen
/-! Invariant, reachability, the signalling schedule and the canonical fair loop for the C19 theorems. -/
namespace Ivy.Popen

/-- states reachable from the start by any sequence of enabled, non-faulting actions:
every child behaviour and every timing of close / exit / collection / delivery / timer firing. -/
inductive Reach : St → Prop where
  | init (t0 : Nat) : Reach (St.init t0)
  | step {s s' : St} {a : Act} {o : List Out} : Reach s → step s a = .ok s' o → Reach s'

/-- lower bound for the next signal: the close time, or one interval after the last signal -/
def nextDue (c : Nat) (l : List (Nat × Sig)) : Nat :=
  match l.getLast? with
  | none => c
  | some (t, _) => t + INTERVAL_NS

/-- the signals (oldest first) follow the schedule: the `k`-th is `sigFor k`, the first not before `c`,
each following one not before one interval after its predecessor -/
def Sched (c : Nat) (k : Nat) : List (Nat × Sig) → Prop
  | [] => True
  | (t, sg) :: rest => sg = sigFor k ∧ c ≤ t ∧ Sched (t + INTERVAL_NS) (k + 1) rest

/-- the same with exact times: the `k`-th signal at `c + k * INTERVAL_NS` -/
def SchedExact (c : Nat) (k : Nat) : List (Nat × Sig) → Prop
  | [] => True
  | (t, sg) :: rest => sg = sigFor k ∧ t = c ∧ SchedExact (t + INTERVAL_NS) (k + 1) rest

def closeTime (s : St) : Nat := s.closedAt.getD 0

structure Inv (s : St) : Prop where
  none_     : s.recSt = .none → s.allocs = 0 ∧ s.frees = 0 ∧ s.waitReg = false ∧ s.timerReg = false ∧
                s.isOpen = false ∧ s.spawned = false ∧ s.sent = [] ∧ s.reqChild = false
  live_     : s.recSt = .live → s.waitReg = true ∧ s.spawned = true ∧ s.allocs = 1 ∧ s.frees = 0 ∧ s.killFailed = false
  att       : s.recSt = .live → s.attached = true → s.reqChild = true ∧ s.isOpen = true ∧ s.timerReg = false ∧ s.sent = []
  det       : s.recSt = .live → s.attached = false → s.timerReg = true ∧ s.isOpen = false ∧ s.closedAt.isSome = true ∧
                s.numKills = s.sent.length ∧ s.timerAt = nextDue (closeTime s) s.sent
  freed_    : s.recSt = .freed → s.waitReg = false ∧ s.timerReg = false ∧ s.allocs = 1 ∧ s.frees = 1 ∧
                (s.isOpen = true → s.reqChild = false)
  open_     : s.isOpen = true → s.spawned = true ∧ s.sent = []
  dead_reap : s.dead = true → s.reaped = true
  reap_dead : s.reaped = true → s.waitReg = true → s.dead = true
  alive_kq  : s.alive = true → s.spawned = true ∧ s.reaped = false ∧ ∀ st, st ∈ s.kq → isTerminal st = false
  zombie    : s.spawned = true → s.alive = false → s.reaped = false → ∃ st, st ∈ s.kq ∧ isTerminal st = true
  dead_pend : s.recSt = .live → s.dead = true → ∃ st, st ∈ s.pending ∧ isTerminal st = true
  pend_term : ∀ st, st ∈ s.pending → isTerminal st = true → s.reaped = true
  late      : s.lateKill = false
  kills_le  : s.recSt = .live → s.attached = false → s.alive = true → s.numKills ≤ MAX_SIGTERM_COUNT
  sched     : Sched (closeTime s) 0 s.sent
  exact     : s.punctual = true → SchedExact (closeTime s) 0 s.sent
  sent_cl   : s.closedAt = none → s.sent = []
  unspawned : s.spawned = false → s.alive = false ∧ s.kq = [] ∧ s.reaped = false ∧ s.dead = false ∧ s.recSt ≠ .live
  kf        : s.killFailed = true → s.recSt = .freed
  fr_reap   : s.recSt = .freed → s.spawned = true → s.killFailed = false → s.reaped = true

/-- run a list of actions, all of which must be enabled and fault-free -/
def runActs (s : St) : List Act → Option St
  | [] => some s
  | a :: rest =>
    match step s a with
    | .ok s' _ => runActs s' rest
    | _ => none

/-- `step` that leaves the state alone when the action is not possible (used by the fair loop) -/
def step! (s : St) (a : Act) : St :=
  match step s a with
  | .ok s' _ => s'
  | _ => s

/-- collect every status the kernel holds -/
def reapAll (s : St) : Nat → St
  | 0 => s
  | n + 1 => reapAll (step! s .reap) n

/-- deliver every queued status -/
def deliverAll (s : St) : Nat → St
  | 0 => s
  | n + 1 => deliverAll (step! s .childStatus) n

/-- what the environment decides in one round of the loop: an optional spontaneous status change of
the child before the round, and whether a SIGTERM sent in this round ends the child -/
structure Env where
  spont : Option Nat := none
  dies  : Bool := false

/-- the child may change state by itself before a round -/
def spontStep (s : St) (e : Env) : St :=
  match e.spont with
  | some st => step! s (.procEvent st)
  | none => s

/-- the wait helper collects every status the kernel holds and delivers everything queued -/
def collect (s : St) : St :=
  deliverAll (reapAll s s.kq.length) (reapAll s s.kq.length).pending.length

/-- if the signalling timer is registered, the loop sleeps until it is due and runs it -/
def fire (s : St) (dies : Bool) : St :=
  if s.timerReg then step! (step! s (.tick (s.timerAt - s.now))) (.timerFire true dies) else s

/-- one round of a fair loop: (the child may change state), collect and deliver, then the timer. -/
def round (s : St) (e : Env) : St := fire (collect (spontStep s e)) e.dies

/-- everything the record used has been given back and the child's terminal status has been collected -/
def Released (s : St) : Prop :=
  s.recSt = .freed ∧ s.frees = 1 ∧ s.allocs = 1 ∧ s.waitReg = false ∧ s.timerReg = false ∧ objs s = 0 ∧ s.reaped = true ∧ s.alive = false

end Ivy.Popen
