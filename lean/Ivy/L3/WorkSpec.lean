import Ivy.L3.Work
/-! Invariants, reachability and quiescence for the work-pool LTS (C12, C13). -/
namespace Ivy.Work

/-- number of k < n with p k -/
def cnt (p : Nat → Bool) : Nat → Nat
  | 0 => 0
  | n + 1 => cnt p n + (if p n then 1 else 0)

/-- worker threads that exist as far as the pool is concerned (`started_threads` counts these) -/
def liveCount (s : St) : Nat := cnt (fun k => (s.w k).pc.live) s.nw
/-- work functions running right now -/
def runCount (s : St) : Nat := cnt (fun k => (s.w k).pc.isRunning) s.nw
/-- loop objects the pool keeps registered in the owner: its two events and one `dead` event per unjoined worker -/
def poolObjs (s : St) : Nat := (if s.freed then 0 else 2) + cnt (fun k => (s.w k).deadReg) s.nw

/-- worker k is certain to examine the queue again without anybody doing anything for it:
it is starting up (its self-kick is still to come or to be handled), it is inside got_event, or its kick
is owed and cannot be cancelled by the idle timeout (not on the idle list, or marked `kicked`). -/
def Resp (s : St) (k : Nat) : Prop :=
  match (s.w k).pc with
  | .starting | .selfkick | .gotPre | .running _ => True
  | .parked | .toPre => (s.w k).kickOwed = true ∧ (k ∉ s.idle ∨ (s.w k).kicked = true)
  | _ => False

/-- life cycle of a worker thread: not yet started (0), thread_start called (1), serving (2), thread_stop called (3),
thread gone (4), joined (5) -/
def WPc.rank : WPc → Nat
  | .starting => 0 | .selfkick => 1 | .parked | .gotPre | .running _ | .toPre => 2
  | .dying => 3 | .exited => 4 | .joined => 5

structure WInv (s : St) (k : Nat) : Prop where
  idle_pc   : k ∈ s.idle → (s.w k).pc = .parked ∨ (s.w k).pc = .gotPre ∨ (s.w k).pc = .toPre
  timer_iff : (s.w k).timerReg = true ↔ (k ∈ s.idle ∧ (s.w k).pc ≠ .toPre)
  kicked_imp : (s.w k).kicked = true → k ∈ s.idle ∧ ((s.w k).kickOwed = true ∨ (s.w k).pc = .gotPre)
  nonidle   : (s.w k).pc.live = true → k ∉ s.idle →
                (s.w k).pc = .starting ∨ (s.w k).pc = .selfkick ∨ (s.w k).pc = .gotPre ∨ (s.w k).pc.isRunning = true ∨
                ((s.w k).pc = .parked ∧ (s.w k).kickOwed = true)
  kickreg_iff : (s.w k).kickReg = true ↔ ((s.w k).pc.live = true ∧ (s.w k).pc ≠ .starting)
  owed_reg  : (s.w k).kickOwed = true → (s.w k).kickReg = true
  shut_idle : s.shut = true → k ∈ s.idle → (s.w k).kickOwed = true ∨ (s.w k).pc = .gotPre
  run_seq   : (s.w k).pc.isRunning = true → (s.w k).lastSeq ≤ s.seqTail
  run_item  : ∀ i, (s.w k).pc = .running i → i < s.ni ∧ (s.it i).phase = .running ∧ (s.it i).worker = k
  starts_eq : (s.w k).starts = if (s.w k).pc = .starting then 0 else 1
  stops_eq  : (s.w k).stops = if (s.w k).pc.live then 0 else 1
  dead_reg  : (s.w k).deadReg = true ↔ (s.w k).pc ≠ .joined
  dead_owed : (s.w k).deadOwed = true ↔ (s.w k).pc = .exited

structure IInv (s : St) (i : Nat) : Prop where
  q_iff : (s.it i).phase = .queued ↔ i ∈ s.queue
  r_imp : (s.it i).phase = .running → (s.it i).worker < s.nw ∧ (s.w (s.it i).worker).pc = .running i
  d_iff : (s.it i).phase = .done ↔ i ∈ s.done ++ s.owner.batch
  work_cnt  : (s.it i).workRuns = if (s.it i).phase = .queued then 0 else 1
  compl_cnt : (s.it i).complRuns = if (s.it i).phase = .completed then 1 else 0

structure Inv (s : St) : Prop where
  nofatal    : s.fatal = false
  max_pos    : 1 ≤ s.max
  seq        : s.seqTail = s.seqHead + s.queue.length
  idle_nodup : s.idle.Nodup
  idle_lt    : ∀ k ∈ s.idle, k < s.nw
  wk         : ∀ k, k < s.nw → WInv s k
  started_eq : s.started = liveCount s
  started_le : s.started ≤ s.max
  queue_nodup : s.queue.Nodup
  queue_lt   : ∀ i ∈ s.queue, i < s.ni
  done_nodup : (s.done ++ s.owner.batch).Nodup
  done_lt    : ∀ i ∈ s.done ++ s.owner.batch, i < s.ni
  items      : ∀ i, i < s.ni → IInv s i
  owed       : s.queue ≠ [] → (∃ k, k < s.nw ∧ Resp s k) ∨ (s.started = 0 ∧ (s.tnOwed = true ∨ s.owner = .tnPre))
  done_owed  : s.done ≠ [] → s.evOwed = true ∨ s.owner = .evPre
  handle_shut : s.handle = true ↔ s.shut = false
  freed_imp  : s.freed = true → s.shut = true ∧ s.started = 0 ∧ s.queue = [] ∧ s.done = [] ∧ s.owner = .idle ∧
                 s.evOwed = false ∧ s.tnOwed = false
  shut_ev    : s.shut = true → s.started = 0 → s.freed = false →
                 s.evOwed = true ∨ s.owner = .evPre ∨ (∃ b, s.owner = .compl b) ∨
                 (s.queue ≠ [] ∧ (s.tnOwed = true ∨ s.owner = .tnPre))

/-- states reachable from a fresh pool by any interleaving of any actions -/
inductive Reach (max : Nat) : St → Prop where
  | init : Reach max (St.init max)
  | step {s s' : St} {a : Act} : Reach max s → step s a = some s' → Reach max s'

/-- t is reachable from s by any sequence of actions of any threads -/
inductive ReachFrom (s : St) : St → Prop where
  | refl : ReachFrom s s
  | step {t t' : St} {a : Act} : ReachFrom s t → step t a = some t' → ReachFrom s t'

/-- nothing internal to the library can happen any more (user submissions/put and the passage of
time — idle-timeout expiry — are not counted): the situation in which every thread sleeps in its loop -/
def Stuck (s : St) : Prop := ∀ a : Act, a.external = false → step s a = none

/-! NULL pool -/
/-- work then completion of each item of `l`, in order -/
def pairs (l : List Nat) : List (Nat × Bool) := l.flatMap fun i => [(i, false), (i, true)]

structure LInv (s : LSt) : Prop where
  nofatal  : s.fatal = false
  task_iff : s.taskReg = true ↔ s.pending ≠ []
  fifo     : s.finished ++ s.batch ++ s.pending = List.range s.n     -- nothing lost, duplicated or reordered
  inwork   : s.inWork = true → s.batch ≠ []
  log_eq   : s.log = pairs s.finished ++ (if s.inWork then (s.batch.take 1).map (·, false) else [])

/-- the loop of the thread has nothing left to run for the NULL pool -/
def LStuck (s : LSt) : Prop := ∀ a : LAct, a ≠ .submit → lstep s a = none

inductive LReach : LSt → Prop where
  | init : LReach {}
  | step {s s' : LSt} {a : LAct} : LReach s → lstep s a = some s' → LReach s'

/-! iv_thread -/
/-- reachable states of one created thread and its creator, every interleaving of the thread's progress, the
creator's loop, and the creator deinitialising its loop at any moment -/
inductive TReach (m : ExitMode) : TSt → Prop where
  | init : TReach m { mode := m }
  | step {s s' : TSt} {a : TAct} : TReach m s → tstep s a = some s' → TReach m s'

/-- everything about a created thread is a function of how its body ends, how far it got, and whether the creator's
loop is gone and who came first -/
structure TInv (s : TSt) : Prop where
  nofault   : s.fault = false
  dead_reg  : s.deadReg = true ↔ (s.creatorGone = false ∧ s.pc ≠ .joined)
  dead_owed : s.deadOwed = true ↔ (s.creatorGone = false ∧ s.pc = .exited)
  exited_iff : s.exited = true ↔ ((s.pc = .exited ∧ s.orphaned = false) ∨ s.pc = .joined)
  orphan_iff : s.orphaned = true ↔ (s.creatorGone = true ∧ s.pc ≠ .joined ∧ s.exited = false)
  posts_eq  : s.posts = if s.exited then 1 else 0
  frees_eq  : s.frees = if s.pc = .joined ∨ (s.creatorGone = true ∧ s.pc = .exited) then 1 else 0
  state_eq  : s.ivState = (decide (s.pc = .body) || (decide (s.pc = .exiting) && !s.mode.deinits && decide (s.mode ≠ .noInit)))
  deinit_eq : s.deinits = match s.pc with
      | .created | .body => 0
      | .bodyNoState => if s.mode = .noInit then 0 else 1
      | .exiting => if s.mode.deinits then 1 else 0
      | .exited | .joined => if s.mode = .noInit then 0 else 1
  body_mode : s.pc = .body → s.mode ≠ .noInit
  nostate_mode : s.pc = .bodyNoState → (s.mode = .noInit ∨ s.mode.deinits = true)

/-- neither the thread nor the creator's loop can do anything more (the creator deinitialising is a user action) -/
def TStuck (s : TSt) : Prop := ∀ a : TAct, a ≠ .creatorDeinit → tstep s a = none

end Ivy.Work
