import Ivy.L3.WorkSpec
/-! Proofs for C12/C13 (work-pool LTS). -/
namespace Ivy.Work
namespace Proofs

/-! ### counting -/
theorem cnt_congr {p q : Nat → Bool} : ∀ n, (∀ j, j < n → p j = q j) → cnt p n = cnt q n
  | 0, _ => rfl
  | n + 1, h => by
    simp only [cnt]
    rw [cnt_congr n (fun j hj => h j (by omega)), h n (by omega)]

theorem cnt_flip {p q : Nat → Bool} {k : Nat} : ∀ n, k < n → (∀ j, j < n → j ≠ k → p j = q j) → p k = true → q k = false →
    cnt p n = cnt q n + 1
  | 0, hk, _, _, _ => by omega
  | n + 1, hk, h, hp, hq => by
    simp only [cnt]
    by_cases hkn : k = n
    · subst hkn
      rw [cnt_congr k (fun j hj => h j (by omega) (by omega)), hp, hq]; simp
    · rw [cnt_flip n (by omega) (fun j hj hne => h j (by omega) hne) hp hq, h n (by omega) (by omega)]; omega

theorem cnt_le {p q : Nat → Bool} : ∀ n, (∀ j, j < n → p j = true → q j = true) → cnt p n ≤ cnt q n
  | 0, _ => by simp [cnt]
  | n + 1, h => by
    simp only [cnt]
    have := cnt_le n (fun j hj => h j (by omega))
    have := h n (by omega)
    split <;> split <;> simp_all <;> omega

theorem cnt_pos {p : Nat → Bool} : ∀ n, 0 < cnt p n → ∃ k, k < n ∧ p k = true
  | 0, h => by simp [cnt] at h
  | n + 1, h => by
    simp only [cnt] at h
    by_cases hp : p n = true
    · exact ⟨n, by omega, hp⟩
    · simp [hp] at h
      obtain ⟨k, hk, hpk⟩ := cnt_pos n h
      exact ⟨k, by omega, hpk⟩

theorem cnt_zero {p : Nat → Bool} : ∀ n, cnt p n = 0 → ∀ k, k < n → p k = false
  | 0, _, k, hk => by omega
  | n + 1, h, k, hk => by
    simp only [cnt] at h
    by_cases hkn : k = n
    · subst hkn; revert h; cases p k <;> simp
    · exact cnt_zero n (by omega) k (by omega)

theorem cnt_mem_pos {p : Nat → Bool} {n k : Nat} (hk : k < n) (hp : p k = true) : 0 < cnt p n := by
  rcases Nat.eq_zero_or_pos (cnt p n) with h | h
  · have := cnt_zero n h k hk; simp_all
  · exact h


theorem inv_init (max : Nat) (hm : 1 ≤ max) : Inv (St.init max) := by
  constructor <;> simp [St.init, liveCount, cnt] <;> first | omega | skip

/-! ### frames -/
theorem winv_frame' {s s' : St} {j : Nat} (h : WInv s j)
    (hw : s'.w j = s.w j) (hidle : j ∈ s'.idle ↔ j ∈ s.idle)
    (hsi : s'.shut = true → j ∈ s.idle → (s.w j).kickOwed = true ∨ (s.w j).pc = .gotPre)
    (hseq : s.seqTail ≤ s'.seqTail) (hni : s.ni ≤ s'.ni)
    (hit : ∀ i, (s.w j).pc = .running i → s'.it i = s.it i) : WInv s' j := by
  obtain ⟨h1, h2, h3, h4, h5, h6, h7, h8, h9, h10, h11, h12, h13⟩ := h
  constructor <;> (try rw [hw]) <;> (try rw [hidle]) <;> try assumption
  · intro hr; exact Nat.le_trans (h8 hr) hseq
  · intro i hi
    have := h9 i hi
    rw [hit i hi]
    exact ⟨by omega, this.2⟩

theorem winv_frame {s s' : St} {j : Nat} (h : WInv s j)
    (hw : s'.w j = s.w j) (hidle : j ∈ s'.idle ↔ j ∈ s.idle) (hshut : s'.shut = true → s.shut = true)
    (hseq : s.seqTail ≤ s'.seqTail) (hni : s.ni ≤ s'.ni)
    (hit : ∀ i, (s.w j).pc = .running i → s'.it i = s.it i) : WInv s' j :=
  winv_frame' h hw hidle (fun hs => h.shut_idle (hshut hs)) hseq hni hit

theorem iinv_frame {s s' : St} {i : Nat} (h : IInv s i) (hit : s'.it i = s.it i) (hq : i ∈ s'.queue ↔ i ∈ s.queue)
    (hd : i ∈ s'.done ++ s'.owner.batch ↔ i ∈ s.done ++ s.owner.batch)
    (hr : (s.it i).phase = .running → s.nw ≤ s'.nw ∧ (s'.w (s.it i).worker).pc = (s.w (s.it i).worker).pc) : IInv s' i := by
  obtain ⟨h1, h2, h3, h4, h5⟩ := h
  constructor <;> (try rw [hit]) <;> (try rw [hq]) <;> (try rw [hd]) <;> try assumption
  intro hp
  have := h2 hp
  have := hr hp
  exact ⟨by omega, by rw [this.2]; exact (h2 hp).2⟩

theorem resp_frame {s s' : St} {j : Nat} (h : Resp s j) (hw : s'.w j = s.w j) (hidle : j ∈ s'.idle → j ∈ s.idle) : Resp s' j := by
  unfold Resp at *
  rw [hw]
  split <;> simp_all
  all_goals grind

theorem liveCount_congr {s s' : St} (hn : s'.nw = s.nw) (hl : ∀ j, j < s.nw → (s'.w j).pc.live = (s.w j).pc.live) :
    liveCount s' = liveCount s := by
  unfold liveCount
  rw [hn]
  exact cnt_congr _ hl

theorem live_pos {s : St} (h : Inv s) {k : Nat} (hk : k < s.nw) (hl : (s.w k).pc.live = true) : 0 < s.started := by
  rw [h.started_eq]
  exact cnt_mem_pos (p := fun k => (s.w k).pc.live) hk hl

theorem live_not_freed {s : St} (h : Inv s) {k : Nat} (hk : k < s.nw) (hl : (s.w k).pc.live = true) : s.freed = false := by
  have := live_pos h hk hl
  cases hf : s.freed
  · rfl
  · have := (h.freed_imp hf).2.1; omega


theorem inv_setW {s : St} {k : Nat} {f : Worker → Worker} (h : Inv s) (hk : k < s.nw)
    (hlive : (f (s.w k)).pc.live = (s.w k).pc.live)
    (hrun : ∀ i, (s.w k).pc = .running i → (f (s.w k)).pc = .running i)
    (hresp : Resp s k → Resp (setW s k f) k)
    (hw : WInv (setW s k f) k) : Inv (setW s k f) := by
  constructor
  · exact h.nofatal
  · exact h.max_pos
  · exact h.seq
  · exact h.idle_nodup
  · exact h.idle_lt
  · intro j hj
    by_cases hjk : j = k
    · subst hjk; exact hw
    · exact winv_frame (h.wk j hj) (by simp [setW, hjk]) Iff.rfl id (Nat.le_refl _) (Nat.le_refl _) (fun _ _ => rfl)
  · show s.started = _
    rw [h.started_eq]; symm
    apply liveCount_congr (s' := setW s k f) (s := s) rfl
    intro j _
    by_cases hjk : j = k <;> simp [setW, hjk, hlive]
  · exact h.started_le
  · exact h.queue_nodup
  · exact h.queue_lt
  · exact h.done_nodup
  · exact h.done_lt
  · intro i hi
    apply iinv_frame (s' := setW s k f) (h.items i hi) rfl Iff.rfl Iff.rfl
    intro hp
    refine ⟨Nat.le_refl _, ?_⟩
    have := (h.items i hi).r_imp hp
    by_cases hjk : (s.it i).worker = k
    · simp [setW, hjk]; rw [hjk] at this; rw [hrun i this.2, this.2]
    · simp [setW, hjk]
  · intro hq
    rcases h.owed hq with ⟨j, hj, hr⟩ | hr
    · left
      refine ⟨j, hj, ?_⟩
      by_cases hjk : j = k
      · subst hjk; exact hresp hr
      · exact resp_frame hr (by simp [setW, hjk]) id
    · exact Or.inr hr
  · exact h.done_owed
  · exact h.handle_shut
  · exact h.freed_imp
  · exact h.shut_ev

theorem inv_wStart {s s' : St} {k : Nat} (h : Inv s) (hs : step s (.wStart k) = some s') : Inv s' := by
  simp only [step] at hs
  split at hs <;> simp at hs
  subst hs
  rename_i hc
  obtain ⟨hk, hpc⟩ := hc
  have hwk := h.wk k hk
  apply inv_setW h hk
  · simp [hpc, WPc.live]
  · simp [hpc]
  · intro; simp [Resp, setW]
  · obtain ⟨h1, h2, h3, h4, h5, h6, h7, h8, h9, h10, h11, h12, h13⟩ := hwk
    constructor <;> simp [setW, WPc.live, WPc.isRunning] <;> grind [WPc.live, WPc.isRunning]


/-- proves `WInv (setW s k f) k` from the old `WInv s k` when f only touches worker fields -/
macro "winv_self" hwk:ident : tactic => `(tactic|
  (obtain ⟨h1, h2, h3, h4, h5, h6, h7, h8, h9, h10, h11, h12, h13⟩ := $hwk
   constructor <;> simp [setW, WPc.live, WPc.isRunning] <;> grind [WPc.live, WPc.isRunning]))

theorem inv_wSelfKick {s s' : St} {k : Nat} (h : Inv s) (hs : step s (.wSelfKick k) = some s') : Inv s' := by
  simp only [step] at hs
  split at hs <;> simp at hs
  subst hs
  rename_i hc
  obtain ⟨hk, hpc⟩ := hc
  have hwk := h.wk k hk
  apply inv_setW h hk
  · simp [hpc, WPc.live]
  · simp [hpc]
  · intro; have := hwk.idle_pc; simp [Resp, setW]; grind
  · winv_self hwk

theorem inv_wKick {s s' : St} {k : Nat} (h : Inv s) (hs : step s (.wKick k) = some s') : Inv s' := by
  simp only [step] at hs
  split at hs <;> simp at hs
  subst hs
  rename_i hc
  obtain ⟨hk, hpc, ho, hr⟩ := hc
  have hwk := h.wk k hk
  apply inv_setW h hk
  · simp [hpc, WPc.live]
  · simp [hpc]
  · intro; simp [Resp, setW]
  · winv_self hwk

theorem inv_wTimeout {s s' : St} {k : Nat} (h : Inv s) (hs : step s (.wTimeout k) = some s') : Inv s' := by
  simp only [step] at hs
  split at hs <;> simp at hs
  subst hs
  rename_i hc
  obtain ⟨hk, hpc, ht⟩ := hc
  have hwk := h.wk k hk
  apply inv_setW h hk
  · simp [hpc, WPc.live]
  · simp [hpc]
  · simp [Resp, setW, hpc]
  · winv_self hwk

theorem inv_wExit {s s' : St} {k : Nat} (h : Inv s) (hs : step s (.wExit k) = some s') : Inv s' := by
  simp only [step] at hs
  split at hs <;> simp at hs
  subst hs
  rename_i hc
  obtain ⟨hk, hpc⟩ := hc
  have hwk := h.wk k hk
  apply inv_setW h hk
  · simp [hpc, WPc.live]
  · simp [hpc]
  · simp [Resp, setW, hpc]
  · winv_self hwk


theorem inv_oJoin {s s' : St} {k : Nat} (h : Inv s) (hs : step s (.oJoin k) = some s') : Inv s' := by
  simp only [step] at hs
  split at hs <;> simp at hs
  subst hs
  rename_i hc
  obtain ⟨ho, hk, hpc, hd⟩ := hc
  have hwk := h.wk k hk
  apply inv_setW h hk
  · simp [hpc, WPc.live]
  · simp [hpc]
  · simp [Resp, setW, hpc]
  · winv_self hwk

theorem wk_same {s s' : St} (h : Inv s) (hw : s'.w = s.w) (hnw : s'.nw = s.nw) (hidle : s'.idle = s.idle)
    (hshut : s'.shut = s.shut) (hseq : s'.seqTail = s.seqTail) (hni : s'.ni = s.ni) (hit : s'.it = s.it) :
    ∀ k, k < s'.nw → WInv s' k := by
  intro k hk
  exact winv_frame (h.wk k (by omega)) (by rw [hw]) (by rw [hidle]) (by rw [hshut]; exact id) (by omega) (by omega)
    (fun _ _ => by rw [hit])

theorem items_same {s s' : St} (h : Inv s) (hw : s'.w = s.w) (hnw : s'.nw = s.nw) (hni : s'.ni = s.ni) (hit : s'.it = s.it)
    (hq : s'.queue = s.queue) (hd : ∀ i, i ∈ s'.done ++ s'.owner.batch ↔ i ∈ s.done ++ s.owner.batch) :
    ∀ i, i < s'.ni → IInv s' i := by
  intro i hi
  exact iinv_frame (h.items i (by omega)) (by rw [hit]) (by rw [hq]) (hd i) (fun _ => ⟨by omega, by rw [hw]⟩)

theorem owed_same {s s' : St} (h : Inv s) (hw : s'.w = s.w) (hnw : s'.nw = s.nw) (hidle : s'.idle = s.idle)
    (hq : s'.queue = s.queue)
    (htn : s.started = 0 ∧ (s.tnOwed = true ∨ s.owner = .tnPre) → s'.started = 0 ∧ (s'.tnOwed = true ∨ s'.owner = .tnPre)) :
    s'.queue ≠ [] → (∃ k, k < s'.nw ∧ Resp s' k) ∨ (s'.started = 0 ∧ (s'.tnOwed = true ∨ s'.owner = .tnPre)) := by
  intro hne
  rcases h.owed (by rw [← hq]; exact hne) with ⟨k, hk, hr⟩ | hr
  · exact Or.inl ⟨k, by omega, resp_frame hr (by rw [hw]) (by rw [hidle]; exact id)⟩
  · exact Or.inr (htn hr)

/-- while a worker thread is alive, queued work has a responsible worker -/
theorem owed_live {s : St} (h : Inv s) (hpos : 0 < s.started) (hq : s.queue ≠ []) : ∃ k, k < s.nw ∧ Resp s k := by
  rcases h.owed hq with hr | hr
  · exact hr
  · omega

theorem inv_oEv {s s' : St} (h : Inv s) (hs : step s .oEv = some s') : Inv s' := by
  simp only [step] at hs
  split at hs <;> simp at hs
  subst hs
  rename_i hc
  obtain ⟨ho, he, hf⟩ := hc
  have hb : s.owner.batch = [] := by simp [ho]
  constructor
  · exact h.nofatal
  · exact h.max_pos
  · exact h.seq
  · exact h.idle_nodup
  · exact h.idle_lt
  · exact wk_same h rfl rfl rfl rfl rfl rfl rfl
  · exact h.started_eq
  · exact h.started_le
  · exact h.queue_nodup
  · exact h.queue_lt
  · have := h.done_nodup; simp_all
  · have := h.done_lt; simp_all
  · exact items_same h rfl rfl rfl rfl rfl (by intro i; rw [hb]; simp)
  · exact owed_same h rfl rfl rfl rfl (fun hr => ⟨hr.1, Or.inl (hr.2.resolve_right (by simp [ho]))⟩)
  · simp
  · exact h.handle_shut
  · simp [hf]
  · simp

theorem inv_oSteal {s s' : St} (h : Inv s) (hs : step s .oSteal = some s') : Inv s' := by
  simp only [step] at hs
  split at hs <;> simp at hs
  subst hs
  rename_i ho
  have hb : s.owner.batch = [] := by simp [ho]
  have hnf : s.freed = false := by
    cases hf : s.freed
    · rfl
    · have := (h.freed_imp hf).2.2.2.2.1; simp_all
  constructor
  · exact h.nofatal
  · exact h.max_pos
  · exact h.seq
  · exact h.idle_nodup
  · exact h.idle_lt
  · exact wk_same h rfl rfl rfl rfl rfl rfl rfl
  · exact h.started_eq
  · exact h.started_le
  · exact h.queue_nodup
  · exact h.queue_lt
  · have := h.done_nodup; simp_all
  · have := h.done_lt; simp_all
  · exact items_same h rfl rfl rfl rfl rfl (by intro i; rw [hb]; simp)
  · exact owed_same h rfl rfl rfl rfl (fun hr => ⟨hr.1, Or.inl (hr.2.resolve_right (by simp [ho]))⟩)
  · simp
  · exact h.handle_shut
  · simp [hnf]
  · simp

theorem inv_oTn {s s' : St} (h : Inv s) (hs : step s .oTn = some s') : Inv s' := by
  simp only [step] at hs
  split at hs <;> simp at hs
  subst hs
  rename_i hc
  obtain ⟨ho, he, hf⟩ := hc
  have hb : s.owner.batch = [] := by simp [ho]
  constructor
  · exact h.nofatal
  · exact h.max_pos
  · exact h.seq
  · exact h.idle_nodup
  · exact h.idle_lt
  · exact wk_same h rfl rfl rfl rfl rfl rfl rfl
  · exact h.started_eq
  · exact h.started_le
  · exact h.queue_nodup
  · exact h.queue_lt
  · have := h.done_nodup; simp_all
  · have := h.done_lt; simp_all
  · exact items_same h rfl rfl rfl rfl rfl (by intro i; rw [hb]; simp)
  · exact owed_same h rfl rfl rfl rfl (fun hr => ⟨hr.1, Or.inr rfl⟩)
  · have := h.done_owed; simp_all
  · exact h.handle_shut
  · simp [hf]
  · have := h.shut_ev; simp_all


theorem owner_not_idle_not_freed {s : St} (h : Inv s) (ho : s.owner ≠ .idle) : s.freed = false := by
  cases hf : s.freed
  · rfl
  · exact absurd (h.freed_imp hf).2.2.2.2.1 ho

theorem inv_oComplete {s s' : St} (h : Inv s) (hs : step s .oComplete = some s') : Inv s' := by
  simp only [step] at hs
  split at hs <;> simp at hs
  subst hs
  rename_i i b ho
  have hnf := owner_not_idle_not_freed h (by simp [ho])
  have hb : s.owner.batch = i :: b := by simp [ho]
  have hnd := h.done_nodup
  have hlt := h.done_lt
  rw [hb] at hnd hlt
  have hi : i < s.ni := hlt i (by simp)
  have hii := h.items i hi
  have hph : (s.it i).phase = .done := hii.d_iff.2 (by simp [hb])
  have hnotin : i ∉ s.done ++ b := by
    intro hm
    have := List.nodup_append.1 hnd
    simp at hm
    rcases hm with hm | hm
    · exact this.2.2 i hm i (by simp) rfl
    · have := this.2.1; simp_all
  constructor
  · exact h.nofatal
  · exact h.max_pos
  · exact h.seq
  · exact h.idle_nodup
  · exact h.idle_lt
  · intro k hk
    refine winv_frame (h.wk k hk) ?_ ?_ ?_ ?_ ?_ ?_
    · rfl
    · exact Iff.rfl
    · exact id
    · exact Nat.le_refl _
    · exact Nat.le_refl _
    · intro i' hr
      have := ((h.wk k hk).run_item i' hr).2.1
      have hne : i' ≠ i := by intro he; subst he; simp_all
      simp [setI, hne]
  · exact h.started_eq
  · exact h.started_le
  · exact h.queue_nodup
  · exact h.queue_lt
  · exact hnd.sublist (List.Sublist.append_left (List.sublist_cons_self _ _) _)
  · intro x hx
    apply hlt
    simp [setI] at hx ⊢
    rcases hx with hx | hx <;> simp [hx]
  · intro i' hi'
    by_cases he : i' = i
    · subst he
      have h1 := hii.q_iff; have h4 := hii.work_cnt; have h5 := hii.compl_cnt
      constructor
      · simp [setI]; simp_all
      · simp [setI]
      · simp [setI]; simpa using hnotin
      · simp [setI]; simp_all
      · simp [setI]; simp_all
    · refine iinv_frame (h.items i' hi') ?_ ?_ ?_ ?_
      · simp [setI, he]
      · exact Iff.rfl
      · simp [setI, hb, he]
      · intro _; exact ⟨Nat.le_refl _, rfl⟩
  · exact owed_same h rfl rfl rfl rfl (fun hr => ⟨hr.1, Or.inl (hr.2.resolve_right (by simp [ho]))⟩)
  · have := h.done_owed; simp_all [setI]
  · exact h.handle_shut
  · simp [setI, hnf]
  · simp [setI]


theorem resp_live {s : St} {k : Nat} (h : Resp s k) : (s.w k).pc.live = true := by
  unfold Resp at h
  split at h <;> simp_all [WPc.live]

/-- with no started thread, queued work is waiting for `thread_needed` (a continuation from a thread that is not the owner) -/
theorem tn_of_started_zero {s : St} (h : Inv s) (h0 : s.started = 0) (hq : s.queue ≠ []) :
    s.tnOwed = true ∨ s.owner = .tnPre := by
  rcases h.owed hq with ⟨k, hk, hr⟩ | hr
  · have := live_pos h hk (resp_live hr)
    omega
  · exact hr.2

theorem inv_oFinish {s s' : St} (h : Inv s) (hs : step s .oFinish = some s') : Inv s' := by
  simp only [step] at hs
  split at hs <;> try simp at hs
  rename_i ho
  have hb : s.owner.batch = [] := by simp [ho]
  split at hs <;> simp at hs <;> subst hs
  · rename_i hc
    obtain ⟨hsh, hst, hd, hq⟩ := hc
    constructor
    · exact h.nofatal
    · exact h.max_pos
    · exact h.seq
    · exact h.idle_nodup
    · exact h.idle_lt
    · exact wk_same h rfl rfl rfl rfl rfl rfl rfl
    · exact h.started_eq
    · exact h.started_le
    · exact h.queue_nodup
    · exact h.queue_lt
    · have := h.done_nodup; simp_all
    · have := h.done_lt; simp_all
    · exact items_same h rfl rfl rfl rfl rfl (by intro i; rw [hb]; simp)
    · intro hne; exact absurd hq hne
    · simp [hd]
    · exact h.handle_shut
    · simp [hsh, hst, hq, hd]
    · simp
  · rename_i hc
    constructor
    · exact h.nofatal
    · exact h.max_pos
    · exact h.seq
    · exact h.idle_nodup
    · exact h.idle_lt
    · exact wk_same h rfl rfl rfl rfl rfl rfl rfl
    · exact h.started_eq
    · exact h.started_le
    · exact h.queue_nodup
    · exact h.queue_lt
    · have := h.done_nodup; simp_all
    · have := h.done_lt; simp_all
    · exact items_same h rfl rfl rfl rfl rfl (by intro i; rw [hb]; simp)
    · exact owed_same h rfl rfl rfl rfl (fun hr => ⟨hr.1, Or.inl (hr.2.resolve_right (by simp [ho]))⟩)
    · have := h.done_owed; simp_all
    · exact h.handle_shut
    · have := owner_not_idle_not_freed h (by simp [ho]); simp [this]
    · intro hsh hst _
      by_cases hd : s.done = []
      · have hq : s.queue ≠ [] := by intro hq; exact hc ⟨hsh, hst, hd, hq⟩
        have := tn_of_started_zero h hst hq
        simp [ho] at this
        exact Or.inr (Or.inr (Or.inr ⟨hq, Or.inl this⟩))
      · have := h.done_owed hd
        simp_all

theorem liveCount_startThread (s : St) : liveCount (startThread s) = liveCount s + 1 := by
  unfold liveCount startThread
  simp only [cnt]
  rw [cnt_congr (q := fun k => (s.w k).pc.live) s.nw (by intro j hj; simp [Nat.ne_of_lt hj])]
  simp [WPc.live]

/-- `iv_work_start_thread` from the thread_needed handler, with room below the maximum, keeps the invariant -/
theorem inv_startThread {s : St} (h : Inv s) (ho : s.owner = .tnPre) (hlt : s.started < s.max) :
    Inv (startThread { s with owner := .idle }) := by
  have hnotidle : s.nw ∉ s.idle := fun hm => by have := h.idle_lt _ hm; omega
  have hb : s.owner.batch = [] := by simp [ho]
  have hnf : s.freed = false := by
    cases hf : s.freed
    · rfl
    · have := (h.freed_imp hf).2.2.2.2.1; simp [ho] at this
  constructor
  · exact h.nofatal
  · exact h.max_pos
  · exact h.seq
  · exact h.idle_nodup
  · intro k hk; have := h.idle_lt k hk; simp [startThread]; omega
  · intro k hk
    by_cases hkn : k = s.nw
    · subst hkn
      constructor <;> simp [startThread, WPc.live, WPc.isRunning, hnotidle]
    · have hk' : k < s.nw := by simp [startThread] at hk; omega
      refine winv_frame (h.wk k hk') ?_ ?_ ?_ ?_ ?_ ?_
      · simp [startThread, hkn]
      · exact Iff.rfl
      · exact id
      · exact Nat.le_refl _
      · exact Nat.le_refl _
      · intro _ _; rfl
  · have := liveCount_startThread { s with owner := .idle }
    rw [this]
    show s.started + 1 = liveCount s + 1
    rw [← h.started_eq]
  · show s.started + 1 ≤ s.max; omega
  · exact h.queue_nodup
  · exact h.queue_lt
  · have := h.done_nodup; simp_all [startThread]
  · have := h.done_lt; simp_all [startThread]
  · intro i hi
    refine iinv_frame (h.items i hi) rfl Iff.rfl ?_ ?_
    · simp [startThread, hb]
    · intro hp
      have := (h.items i hi).r_imp hp
      refine ⟨by simp [startThread], ?_⟩
      simp [startThread, Nat.ne_of_lt this.1]
  · intro _
    exact Or.inl ⟨s.nw, by simp [startThread], by simp [Resp, startThread]⟩
  · intro hd
    rcases h.done_owed hd with he | he
    · exact Or.inl he
    · simp [ho] at he
  · exact h.handle_shut
  · intro hf; simp [startThread, hnf] at hf
  · intro _ h0; simp [startThread] at h0

theorem inv_oTnRun {s s' : St} (h : Inv s) (hs : step s .oTnRun = some s') : Inv s' := by
  simp only [step] at hs
  split at hs <;> try simp at hs
  rename_i ho
  have hb : s.owner.batch = [] := by simp [ho]
  have hnf := owner_not_idle_not_freed h (by simp [ho])
  split at hs <;> simp at hs <;> subst hs
  · rename_i hc
    exact inv_startThread h ho hc.2
  · rename_i hc
    -- nothing to start: an idle thread exists or the pool is at its maximum, so some thread is alive
    have hpos : 0 < s.started := by
      rcases Nat.eq_zero_or_pos s.started with h0 | h0
      · exfalso
        apply hc
        refine ⟨?_, by have := h.max_pos; omega⟩
        cases hq : s.idle with
        | nil => rfl
        | cons a l =>
          have hm : a ∈ s.idle := by simp [hq]
          have hl : (s.w a).pc.live = true := by
            rcases (h.wk a (h.idle_lt a hm)).idle_pc hm with h | h | h <;> simp [h, WPc.live]
          have := live_pos h (h.idle_lt a hm) hl
          omega
      · exact h0
    constructor
    · exact h.nofatal
    · exact h.max_pos
    · exact h.seq
    · exact h.idle_nodup
    · exact h.idle_lt
    · exact wk_same h rfl rfl rfl rfl rfl rfl rfl
    · exact h.started_eq
    · exact h.started_le
    · exact h.queue_nodup
    · exact h.queue_lt
    · have := h.done_nodup; simp_all
    · have := h.done_lt; simp_all
    · exact items_same h rfl rfl rfl rfl rfl (by intro i; rw [hb]; simp)
    · exact owed_same h rfl rfl rfl rfl (fun hr => by omega)
    · have := h.done_owed; simp_all
    · exact h.handle_shut
    · simp [hnf]
    · intro _ h0; have h0' : s.started = 0 := h0; omega


theorem idle_live {s : St} (h : Inv s) {k : Nat} (hk : k ∈ s.idle) : (s.w k).pc.live = true := by
  have := (h.wk k (h.idle_lt k hk)).idle_pc hk
  rcases this with h | h | h <;> simp [h, WPc.live]

theorem idle_empty_of_started_zero {s : St} (h : Inv s) (h0 : s.started = 0) : s.idle = [] := by
  cases hq : s.idle with
  | nil => rfl
  | cons a l =>
    have hm : a ∈ s.idle := by simp [hq]
    have := live_pos h (h.idle_lt a hm) (idle_live h hm)
    omega

theorem handle_not_freed {s : St} (h : Inv s) (hh : s.handle = true) : s.freed = false := by
  cases hf : s.freed
  · rfl
  · have := (h.freed_imp hf).1; have := h.handle_shut.1 hh; simp_all

theorem inv_put {s s' : St} (h : Inv s) (hs : step s .put = some s') : Inv s' := by
  simp only [step] at hs
  split at hs <;> try simp at hs
  rename_i hc
  obtain ⟨hh, hu⟩ := hc
  have hnf := handle_not_freed h hh
  split at hs <;> simp at hs <;> subst hs
  · rename_i h0
    have hidle := idle_empty_of_started_zero h h0
    constructor
    · exact h.nofatal
    · exact h.max_pos
    · exact h.seq
    · exact h.idle_nodup
    · exact h.idle_lt
    · intro k hk
      refine winv_frame' (h.wk k hk) rfl Iff.rfl ?_ (Nat.le_refl _) (Nat.le_refl _) (fun _ _ => rfl)
      intro _ hm; rw [hidle] at hm; simp at hm
    · exact h.started_eq
    · exact h.started_le
    · exact h.queue_nodup
    · exact h.queue_lt
    · exact h.done_nodup
    · exact h.done_lt
    · exact items_same h rfl rfl rfl rfl rfl (fun _ => Iff.rfl)
    · exact owed_same h rfl rfl rfl rfl id
    · simp
    · simp
    · simp [hnf]
    · simp
  · rename_i h0
    constructor
    · exact h.nofatal
    · exact h.max_pos
    · exact h.seq
    · exact h.idle_nodup
    · exact h.idle_lt
    · intro k hk
      have hwk := h.wk k hk
      by_cases hm : k ∈ s.idle
      · obtain ⟨h1, h2, h3, h4, h5, h6, h7, h8, h9, h10, h11, h12, h13⟩ := hwk
        constructor <;> simp [hm, WPc.live, WPc.isRunning] <;> grind [WPc.live, WPc.isRunning]
      · refine winv_frame' hwk ?_ Iff.rfl ?_ (Nat.le_refl _) (Nat.le_refl _) (fun _ _ => rfl)
        · simp [hm]
        · intro _ hm'; exact absurd hm' hm
    · show s.started = _
      rw [h.started_eq]; symm
      refine liveCount_congr (s := s) rfl ?_
      intro j _; by_cases hm : j ∈ s.idle <;> simp [hm]
    · exact h.started_le
    · exact h.queue_nodup
    · exact h.queue_lt
    · exact h.done_nodup
    · exact h.done_lt
    · intro i hi
      refine iinv_frame (h.items i hi) rfl Iff.rfl Iff.rfl ?_
      intro _
      refine ⟨Nat.le_refl _, ?_⟩
      by_cases hm : (s.it i).worker ∈ s.idle <;> simp [hm]
    · intro hq
      obtain ⟨k, hk, hr⟩ := owed_live h (Nat.pos_of_ne_zero h0) hq
      refine Or.inl ⟨k, hk, ?_⟩
      unfold Resp at *
      by_cases hm : k ∈ s.idle
      · simp [hm] at hr ⊢; split at hr <;> simp_all
      · simp [hm] at hr ⊢; exact hr
    · exact h.done_owed
    · simp
    · simp [hnf]
    · intro _ hst; exact absurd hst h0


theorem die_core {s : St} {k : Nat} (h : Inv s) (hk : k < s.nw)
    (hpc : (s.w k).pc = .gotPre ∨ (s.w k).pc = .toPre)
    (hkick : (s.w k).kicked = false) (ht : (s.w k).timerReg = false)
    (hq : s.queue ≠ [] → ∃ k', k' ≠ k ∧ k' < s.nw ∧ Resp s k')
    (l : List Nat) (hl : l = s.idle.filter (· ≠ k)) : Inv (die { s with idle := l } k) := by
  have hkl : k ∉ l := by rw [hl]; simp
  have hlive : (s.w k).pc.live = true := by rcases hpc with h | h <;> simp [h, WPc.live]
  have hnf := live_not_freed h hk hlive
  have hpos := live_pos h hk hlive
  have hwk := h.wk k hk
  have hmem : ∀ j, j ≠ k → (j ∈ l ↔ j ∈ s.idle) := by intro j hj; rw [hl]; simp [hj]
  have hlc : liveCount s = liveCount (setW s k (fun w => { w with kickReg := false, kickOwed := false, stops := w.stops + 1, pc := .dying })) + 1 := by
    unfold liveCount
    refine cnt_flip (k := k) _ hk ?_ hlive ?_
    · intro j _ hj; simp [setW, hj]
    · simp [setW, WPc.live]
  unfold die
  simp only [hkick, hkl, or_self, Bool.false_eq_true, if_false]
  split <;> rename_i hif
  all_goals
    constructor
    · exact h.nofatal
    · exact h.max_pos
    · exact h.seq
    · show l.Nodup
      rw [hl]; exact h.idle_nodup.filter _
    · intro j hj
      have : j ∈ s.idle := by have : j ∈ l := hj; rw [hl] at this; exact (List.mem_filter.1 this).1
      exact h.idle_lt j this
    · intro j hj
      by_cases hjk : j = k
      · subst hjk
        obtain ⟨h1, h2, h3, h4, h5, h6, h7, h8, h9, h10, h11, h12, h13⟩ := hwk
        constructor <;> simp [setW, WPc.live, WPc.isRunning, hkl] <;> grind [WPc.live, WPc.isRunning]
      · refine winv_frame (h.wk j hj) ?_ ?_ ?_ ?_ ?_ ?_
        · simp [setW, hjk]
        · exact hmem j hjk
        · exact id
        · exact Nat.le_refl _
        · exact Nat.le_refl _
        · intro _ _; rfl
    · show s.started - 1 = _
      rw [h.started_eq, hlc]; simp; rfl
    · show s.started - 1 ≤ s.max
      have := h.started_le; omega
    · exact h.queue_nodup
    · exact h.queue_lt
    · exact h.done_nodup
    · exact h.done_lt
    · intro i hi
      refine iinv_frame (h.items i hi) rfl Iff.rfl Iff.rfl ?_
      intro hp
      have := (h.items i hi).r_imp hp
      refine ⟨Nat.le_refl _, ?_⟩
      have hne : (s.it i).worker ≠ k := by
        intro he; rw [he] at this; rcases hpc with h | h <;> simp [h] at this
      simp [setW, hne]
    · intro hqne
      obtain ⟨k', hne, hk', hr⟩ := hq hqne
      refine Or.inl ⟨k', hk', resp_frame hr (by simp [setW, hne]) ?_⟩
      intro hm; exact (hmem k' hne).1 hm
    · intro hd
      have := h.done_owed hd
      first
        | (left; rfl)
        | exact this
    · exact h.handle_shut
    · intro hf; simp [setW, hnf] at hf
    · intro hsh hst _
      first
        | exact Or.inl rfl
        | exact absurd ⟨hsh, hst⟩ hif


theorem loopTail_inv {s : St} {k : Nat} (h : Inv s) (hk : k < s.nw) (hpc : (s.w k).pc = .gotPre)
    (hni : k ∉ s.idle) (hls : (s.w k).lastSeq ≤ s.seqTail) : Inv (loopTail s k) := by
  have hlive : (s.w k).pc.live = true := by simp [hpc, WPc.live]
  have hnf := live_not_freed h hk hlive
  have hwk := h.wk k hk
  have hkick : (s.w k).kicked = false := by
    cases hc : (s.w k).kicked
    · rfl
    · exact absurd (hwk.kicked_imp hc).1 hni
  have htm : (s.w k).timerReg = false := by
    cases hc : (s.w k).timerReg
    · rfl
    · exact absurd (hwk.timer_iff.1 hc).1 hni
  have hseq := h.seq
  unfold loopTail
  split
  · -- take the next item
    rename_i hlt
    split
    · rename_i i q hq
      have hiq : i ∈ s.queue := by simp [hq]
      have hi : i < s.ni := h.queue_lt i hiq
      have hii := h.items i hi
      have hph : (s.it i).phase = .queued := hii.q_iff.2 hiq
      have hqn := h.queue_nodup
      rw [hq] at hqn
      have hinq : i ∉ q := (List.nodup_cons.1 hqn).1
      have hind : i ∉ s.done ++ s.owner.batch := by
        intro hm; have := hii.d_iff.2 hm; simp_all
      constructor
      · exact h.nofatal
      · exact h.max_pos
      · show s.seqTail = s.seqHead + 1 + q.length
        rw [hseq, hq]; simp; omega
      · exact h.idle_nodup
      · exact h.idle_lt
      · intro j hj
        by_cases hjk : j = k
        · subst hjk
          obtain ⟨h1, h2, h3, h4, h5, h6, h7, h8, h9, h10, h11, h12, h13⟩ := hwk
          constructor <;> simp [setW, setI, WPc.live, WPc.isRunning, hni] <;> grind [WPc.live, WPc.isRunning]
        · refine winv_frame (h.wk j hj) ?_ ?_ ?_ ?_ ?_ ?_
          · simp [setW, setI, hjk]
          · exact Iff.rfl
          · exact id
          · exact Nat.le_refl _
          · exact Nat.le_refl _
          · intro i' hr
            have := ((h.wk j hj).run_item i' hr).2.1
            have hne : i' ≠ i := by intro he; subst he; simp_all
            simp [setW, setI, hne]
      · show s.started = _
        rw [h.started_eq]; symm
        refine liveCount_congr (s := s) rfl ?_
        intro j _; by_cases hjk : j = k <;> simp [setW, setI, hjk, hpc, WPc.live]
      · exact h.started_le
      · exact (List.nodup_cons.1 hqn).2
      · intro x hx; exact h.queue_lt x (by rw [hq]; exact List.mem_cons_of_mem _ hx)
      · exact h.done_nodup
      · exact h.done_lt
      · intro i' hi'
        by_cases he : i' = i
        · subst he
          have h4 := hii.work_cnt; have h5 := hii.compl_cnt
          constructor
          · simp [setW, setI]; exact hinq
          · intro _; simp [setW, setI]; exact hk
          · simp [setW, setI]; simpa using hind
          · simp [setW, setI]; simp_all
          · simp [setW, setI]; simp_all
        · refine iinv_frame (h.items i' hi') ?_ ?_ ?_ ?_
          · simp [setW, setI, he]
          · show i' ∈ q ↔ i' ∈ s.queue
            rw [hq]; simp [he]
          · exact Iff.rfl
          · intro hp
            have := (h.items i' hi').r_imp hp
            refine ⟨Nat.le_refl _, ?_⟩
            have hne : (s.it i').worker ≠ k := by
              intro hek; rw [hek, hpc] at this; simp at this
            simp [setW, setI, hne]
      · intro _
        exact Or.inl ⟨k, hk, by simp [Resp, setW, setI]⟩
      · exact h.done_owed
      · exact h.handle_shut
      · intro hf; simp [setW, setI, hnf] at hf
      · intro _ h0
        have h0' : s.started = 0 := h0
        have := live_pos h hk hlive
        omega
    · -- the list cannot be empty here
      rename_i hq
      rw [hq] at hseq; simp at hseq; omega
  · rename_i hge
    split
    · rename_i heq
      have hq : s.queue = [] := by
        have : s.queue.length = 0 := by omega
        exact List.eq_nil_of_length_eq_zero this
      split
      · -- park on the idle list
        rename_i hsh
        simp only [htm, Bool.false_eq_true, if_false]
        constructor
        · exact h.nofatal
        · exact h.max_pos
        · exact h.seq
        · exact List.nodup_cons.2 ⟨hni, h.idle_nodup⟩
        · intro j hj
          simp [setW] at hj
          rcases hj with rfl | hj
          · exact hk
          · exact h.idle_lt j hj
        · intro j hj
          by_cases hjk : j = k
          · subst hjk
            obtain ⟨h1, h2, h3, h4, h5, h6, h7, h8, h9, h10, h11, h12, h13⟩ := hwk
            constructor <;> simp [setW, WPc.live, WPc.isRunning, hsh] <;> grind [WPc.live, WPc.isRunning]
          · refine winv_frame (h.wk j hj) ?_ ?_ ?_ ?_ ?_ ?_
            · simp [setW, hjk]
            · simp [setW, hjk]
            · exact id
            · exact Nat.le_refl _
            · exact Nat.le_refl _
            · intro _ _; rfl
        · show s.started = _
          rw [h.started_eq]; symm
          refine liveCount_congr (s := s) rfl ?_
          intro j _; by_cases hjk : j = k <;> simp [setW, hjk, hpc, WPc.live]
        · exact h.started_le
        · exact h.queue_nodup
        · exact h.queue_lt
        · exact h.done_nodup
        · exact h.done_lt
        · intro i hi
          refine iinv_frame (h.items i hi) rfl Iff.rfl Iff.rfl ?_
          intro hp
          have := (h.items i hi).r_imp hp
          refine ⟨Nat.le_refl _, ?_⟩
          have hne : (s.it i).worker ≠ k := by
            intro hek; rw [hek, hpc] at this; simp at this
          simp [setW, hne]
        · intro hqne; exact absurd hq hqne
        · exact h.done_owed
        · exact h.handle_shut
        · intro hf; simp [setW, hnf] at hf
        · intro hs; simp [setW, hsh] at hs
      · -- shutting down: die
        have : s.idle = s.idle.filter (· ≠ k) := by
          symm; apply List.filter_eq_self.2; intro a ha; simp; intro he; subst he; exact hni ha
        exact die_core h hk (Or.inl hpc) hkick htm (fun hqne => absurd hq hqne) s.idle this
    · -- work left that this call may not take: re-kick ourselves
      apply inv_setW h hk
      · simp [hpc, WPc.live]
      · simp [hpc]
      · intro; simp [Resp, setW, hni]
      · winv_self hwk


theorem enterPrep_inv {s : St} {k : Nat} (h : Inv s) (hk : k < s.nw) (hpc : (s.w k).pc = .gotPre) :
    Inv (enterPrep s k) := by
  have hwk := h.wk k hk
  have hlive : (s.w k).pc.live = true := by simp [hpc, WPc.live]
  have hnf := live_not_freed h hk hlive
  have hmem : ∀ j, j ≠ k → (j ∈ s.idle.filter (· ≠ k) ↔ j ∈ s.idle) := by intro j hj; simp [hj]
  unfold enterPrep
  constructor
  · exact h.nofatal
  · exact h.max_pos
  · exact h.seq
  · exact h.idle_nodup.filter _
  · intro j hj; exact h.idle_lt j (List.mem_filter.1 hj).1
  · intro j hj
    by_cases hjk : j = k
    · subst hjk
      obtain ⟨h1, h2, h3, h4, h5, h6, h7, h8, h9, h10, h11, h12, h13⟩ := hwk
      constructor <;> simp [setW, WPc.live, WPc.isRunning, hpc] <;> grind [WPc.live, WPc.isRunning]
    · refine winv_frame (h.wk j hj) ?_ ?_ ?_ ?_ ?_ ?_
      · simp [setW, hjk]
      · exact hmem j hjk
      · exact id
      · exact Nat.le_refl _
      · exact Nat.le_refl _
      · intro _ _; rfl
  · show s.started = _
    rw [h.started_eq]; symm
    refine liveCount_congr (s := s) rfl ?_
    intro j _; by_cases hjk : j = k <;> simp [setW, hjk]
  · exact h.started_le
  · exact h.queue_nodup
  · exact h.queue_lt
  · exact h.done_nodup
  · exact h.done_lt
  · intro i hi
    refine iinv_frame (h.items i hi) rfl Iff.rfl Iff.rfl ?_
    intro hp
    refine ⟨Nat.le_refl _, ?_⟩
    by_cases hne : (s.it i).worker = k <;> simp [setW, hne]
  · intro hq
    obtain ⟨j, hj, hr⟩ := owed_live h (live_pos h hk hlive) hq
    by_cases hjk : j = k
    · exact Or.inl ⟨k, hk, by simp [Resp, setW, hpc]⟩
    · exact Or.inl ⟨j, hj, resp_frame hr (by simp [setW, hjk]) (fun hm => (hmem j hjk).1 hm)⟩
  · exact h.done_owed
  · exact h.handle_shut
  · intro hf; simp [setW, hnf] at hf
  · intro _ h0
    have h0' : s.started = 0 := h0
    have := live_pos h hk hlive
    omega

theorem inv_wEnter {s s' : St} {k : Nat} (h : Inv s) (hs : step s (.wEnter k) = some s') : Inv s' := by
  simp only [step] at hs
  split at hs <;> try simp at hs
  rename_i hc
  obtain ⟨hk, hpc⟩ := hc
  have hwk := h.wk k hk
  split at hs
  · rename_i hbad
    have := hwk.timer_iff.2 ⟨hbad.1, by simp [hpc]⟩
    simp [hbad.2] at this
  · simp only [Option.some.injEq] at hs
    subst hs
    refine loopTail_inv (enterPrep_inv h hk hpc) ?_ ?_ ?_ ?_
    · exact hk
    · simp [enterPrep, setW, hpc]
    · simp [enterPrep]
    · simp [enterPrep, setW]

theorem afterPrep_inv {s : St} {k i : Nat} (h : Inv s) (hk : k < s.nw) (hpc : (s.w k).pc = .running i) :
    Inv (afterPrep s k i) := by
  have hwk := h.wk k hk
  have hlive : (s.w k).pc.live = true := by simp [hpc, WPc.live]
  have hnf := live_not_freed h hk hlive
  have hnotidle : k ∉ s.idle := by
    intro hm; have := hwk.idle_pc hm; simp [hpc] at this
  obtain ⟨hi, hph, hwi⟩ := hwk.run_item i hpc
  have hii := h.items i hi
  have hind : i ∉ s.done ++ s.owner.batch := by
    intro hm; have := hii.d_iff.2 hm; simp_all
  have hinq : i ∉ s.queue := by
    intro hm; have := hii.q_iff.2 hm; simp_all
  unfold afterPrep
  constructor
  · exact h.nofatal
  · exact h.max_pos
  · exact h.seq
  · exact h.idle_nodup
  · exact h.idle_lt
  · intro j hj
    by_cases hjk : j = k
    · subst hjk
      obtain ⟨h1, h2, h3, h4, h5, h6, h7, h8, h9, h10, h11, h12, h13⟩ := hwk
      constructor <;> simp [setW, setI, WPc.live, WPc.isRunning, hnotidle] <;> grind [WPc.live, WPc.isRunning]
    · refine winv_frame (h.wk j hj) ?_ ?_ ?_ ?_ ?_ ?_
      · simp [setW, setI, hjk]
      · exact Iff.rfl
      · exact id
      · exact Nat.le_refl _
      · exact Nat.le_refl _
      · intro i' hr
        have := ((h.wk j hj).run_item i' hr).2.2
        have hne : i' ≠ i := by intro he; subst he; omega
        simp [setW, setI, hne]
  · show s.started = _
    rw [h.started_eq]; symm
    refine liveCount_congr (s := s) rfl ?_
    intro j _; by_cases hjk : j = k <;> simp [setW, setI, hjk, hpc, WPc.live]
  · exact h.started_le
  · exact h.queue_nodup
  · exact h.queue_lt
  · show ((s.done ++ [i]) ++ s.owner.batch).Nodup
    have := h.done_nodup
    simp only [List.append_assoc, List.singleton_append]
    rw [List.nodup_append] at this ⊢
    refine ⟨this.1, ?_, ?_⟩
    · refine List.nodup_cons.2 ⟨?_, this.2.1⟩
      intro hm; exact hind (by simp [hm])
    · intro a ha b hb
      simp at hb
      rcases hb with rfl | hb
      · intro he; subst he; exact hind (by simp [ha])
      · exact this.2.2 a ha b hb
  · intro x hx
    have hx' : x ∈ (s.done ++ [i]) ++ s.owner.batch := hx
    simp at hx'
    rcases hx' with hx' | rfl | hx'
    · exact h.done_lt x (by simp [hx'])
    · exact hi
    · exact h.done_lt x (by simp [hx'])
  · intro i' hi'
    by_cases he : i' = i
    · subst he
      have h4 := hii.work_cnt; have h5 := hii.compl_cnt
      constructor
      · simp [setW, setI]; exact hinq
      · simp [setW, setI]
      · simp [setW, setI]
      · simp [setW, setI]; simp_all
      · simp [setW, setI]; simp_all
    · refine iinv_frame (h.items i' hi') ?_ ?_ ?_ ?_
      · simp [setW, setI, he]
      · exact Iff.rfl
      · show i' ∈ (s.done ++ [i]) ++ s.owner.batch ↔ _
        simp [he]
      · intro hp
        have := (h.items i' hi').r_imp hp
        refine ⟨Nat.le_refl _, ?_⟩
        have hne : (s.it i').worker ≠ k := by
          intro hek; rw [hek, hpc] at this; simp at this; exact he this.2.symm
        simp [setW, setI, hne]
  · intro hq
    exact Or.inl ⟨k, hk, by simp [Resp, setW, setI]⟩
  · intro _
    show (s.evOwed || s.done.isEmpty) = true ∨ s.owner = .evPre
    cases hd : s.done with
    | nil => simp
    | cons a l =>
      rcases h.done_owed (by simp [hd]) with h | h
      · simp [h]
      · exact Or.inr h
  · exact h.handle_shut
  · intro hf; simp [setW, setI, hnf] at hf
  · intro _ h0
    have h0' : s.started = 0 := h0
    have := live_pos h hk hlive
    omega

theorem inv_wAfter {s s' : St} {k : Nat} (h : Inv s) (hs : step s (.wAfter k) = some s') : Inv s' := by
  simp only [step] at hs
  split at hs <;> try simp at hs
  rename_i hk
  split at hs <;> simp only [Option.some.injEq, reduceCtorEq] at hs
  subst hs
  rename_i i hpc
  have hwk := h.wk k hk
  have hnotidle : k ∉ s.idle := by
    intro hm; have := hwk.idle_pc hm; simp [hpc] at this
  refine loopTail_inv (afterPrep_inv h hk hpc) ?_ ?_ ?_ ?_
  · exact hk
  · simp [afterPrep, setW, setI]
  · exact hnotidle
  · simp [afterPrep, setW, setI]; exact hwk.run_seq (by simp [hpc, WPc.isRunning])

theorem inv_wTimeoutRun {s s' : St} {k : Nat} (h : Inv s) (hs : step s (.wTimeoutRun k) = some s') : Inv s' := by
  simp only [step] at hs
  split at hs <;> try simp at hs
  rename_i hc
  obtain ⟨hk, hpc⟩ := hc
  have hwk := h.wk k hk
  have htm : (s.w k).timerReg = false := by
    cases hc : (s.w k).timerReg
    · rfl
    · have := (hwk.timer_iff.1 hc).2; simp [hpc] at this
  split at hs
  · rename_i hkick
    simp [htm] at hs
    subst hs
    apply inv_setW h hk
    · simp [hpc, WPc.live]
    · simp [hpc]
    · simp [Resp, setW, hpc]
    · winv_self hwk
  · rename_i hkick
    simp only [Option.some.injEq] at hs
    subst hs
    refine die_core h hk (Or.inr hpc) (by simpa using hkick) htm ?_ _ (by simp)
    intro hq
    obtain ⟨j, hj, hr⟩ := owed_live h (live_pos h hk (by simp [hpc, WPc.live])) hq
    refine ⟨j, ?_, hj, hr⟩
    intro he; subst he
    simp [Resp, hpc] at hr
    have hkf : (s.w j).kicked = false := by simpa using hkick
    rcases hr.2 with hni | hkt
    · have := hwk.nonidle (by simp [hpc, WPc.live]) hni
      simp [hpc, WPc.isRunning] at this
    · simp [hkf] at hkt


/-- the states `enqueue` can produce: the item appended, and some change to the workers / thread count / thread_needed -/
def enqWith (s : St) (w' : Nat → Worker) (nw' st' : Nat) (tn' : Bool) : St :=
  { enq0 s with w := w', nw := nw', started := st', tnOwed := tn' }

theorem inv_enq {s : St} (h : Inv s) (hh : s.handle = true)
    (w' : Nat → Worker) (nw' st' : Nat) (tn' : Bool)
    (hnw : s.nw ≤ nw')
    (hpc : ∀ j, j < s.nw → (w' j).pc = (s.w j).pc)
    (hwk : ∀ k, k < nw' → WInv (enqWith s w' nw' st' tn') k)
    (hst : st' = liveCount (enqWith s w' nw' st' tn')) (hle : st' ≤ s.max)
    (howed : (∃ k, k < nw' ∧ Resp (enqWith s w' nw' st' tn') k) ∨ (st' = 0 ∧ tn' = true)) : Inv (enqWith s w' nw' st' tn') := by
  have hnf := handle_not_freed h hh
  have hsh := h.handle_shut.1 hh
  have hniq : s.ni ∉ s.queue := fun hm => by have := h.queue_lt _ hm; omega
  have hnid : s.ni ∉ s.done ++ s.owner.batch := fun hm => by have := h.done_lt _ hm; omega
  constructor
  · exact h.nofatal
  · exact h.max_pos
  · show s.seqTail + 1 = s.seqHead + (s.queue ++ [s.ni]).length
    have := h.seq; simp; omega
  · exact h.idle_nodup
  · intro k hk; have := h.idle_lt k hk; show k < nw'; omega
  · exact hwk
  · exact hst
  · exact hle
  · show (s.queue ++ [s.ni]).Nodup
    rw [List.nodup_append]
    refine ⟨h.queue_nodup, by simp, ?_⟩
    intro a ha b hb; simp at hb; subst hb; intro he; subst he; exact hniq ha
  · intro i hi
    have hi' : i ∈ s.queue ++ [s.ni] := hi
    simp at hi'
    show i < s.ni + 1
    rcases hi' with hi' | rfl
    · have := h.queue_lt i hi'; omega
    · omega
  · exact h.done_nodup
  · intro i hi; have := h.done_lt i hi; show i < s.ni + 1; omega
  · intro i hi
    have hi' : i < s.ni + 1 := hi
    by_cases he : i = s.ni
    · subst he
      constructor
      · simp [enqWith, enq0]
      · simp [enqWith, enq0]
      · simp [enqWith, enq0]; simpa using hnid
      · simp [enqWith, enq0]
      · simp [enqWith, enq0]
    · have hlt : i < s.ni := by omega
      refine iinv_frame (h.items i hlt) ?_ ?_ ?_ ?_
      · simp [enqWith, enq0, he]
      · show i ∈ s.queue ++ [s.ni] ↔ _
        simp [he]
      · exact Iff.rfl
      · intro hp
        have := (h.items i hlt).r_imp hp
        exact ⟨hnw, hpc _ this.1⟩
  · intro _
    rcases howed with hr | hr
    · exact Or.inl hr
    · exact Or.inr ⟨hr.1, Or.inl hr.2⟩
  · exact h.done_owed
  · exact h.handle_shut
  · intro hf; simp [enqWith, enq0, hnf] at hf
  · intro hs; simp [enqWith, enq0, hsh] at hs

/-- existing workers untouched by an enqueue keep their invariant -/
theorem winv_enq_frame {s : St} (h : Inv s) {w' : Nat → Worker} {nw' st' : Nat} {tn' : Bool} {j : Nat} (hj : j < s.nw)
    (hw : w' j = s.w j) : WInv (enqWith s w' nw' st' tn') j := by
  refine winv_frame (h.wk j hj) hw Iff.rfl id ?_ ?_ ?_
  · show s.seqTail ≤ s.seqTail + 1; omega
  · show s.ni ≤ s.ni + 1; omega
  · intro i hr
    have := ((h.wk j hj).run_item i hr).1
    simp [enqWith, enq0, Nat.ne_of_lt this]

/-- a live worker that is not on the idle list is responsible -/
theorem resp_of_live_nonidle {s : St} (h : Inv s) {k : Nat} (hk : k < s.nw) (hl : (s.w k).pc.live = true)
    (hni : k ∉ s.idle) : Resp s k := by
  have := (h.wk k hk).nonidle hl hni
  unfold Resp
  rcases this with hp | hp | hp | hp | hp
  · simp [hp]
  · simp [hp]
  · simp [hp]
  · revert hp; cases (s.w k).pc <;> simp [WPc.isRunning]
  · simp [hp.1, hp.2, hni]

theorem enqueue_inv {s : St} (h : Inv s) (hh : s.handle = true) (b : Bool) : Inv (enqueue s b) := by
  unfold enqueue
  have hidle0 : (enq0 s).idle = s.idle := rfl
  simp only [hidle0]
  split
  · -- an idle thread exists: mark it kicked and post its kick
    rename_i t rest hidle
    have htm : t ∈ s.idle := by rw [hidle]; simp
    have ht : t < s.nw := h.idle_lt t htm
    have hwt := h.wk t ht
    show Inv (enqWith s (fun j => if j = t then { s.w j with kicked := true, kickOwed := true } else s.w j) s.nw s.started s.tnOwed)
    refine inv_enq h hh _ _ _ _ (Nat.le_refl _) ?_ ?_ ?_ h.started_le ?_
    · intro j _; by_cases hjt : j = t <;> simp [hjt]
    · intro k hk
      by_cases hkt : k = t
      · subst hkt
        obtain ⟨h1, h2, h3, h4, h5, h6, h7, h8, h9, h10, h11, h12, h13⟩ := hwt
        have hlt := fun i hr => (h9 i hr).1
        constructor <;> simp [enqWith, enq0, WPc.live, WPc.isRunning, htm] <;> grind [WPc.live, WPc.isRunning]
      · exact winv_enq_frame h hk (by simp [hkt])
    · rw [h.started_eq]; symm
      refine liveCount_congr (s := s) rfl ?_
      intro j _; by_cases hjt : j = t <;> simp [enqWith, enq0, hjt]
    · refine Or.inl ⟨t, ht, ?_⟩
      have := hwt.idle_pc htm
      simp only [Resp, enqWith, enq0]
      rcases this with hp | hp | hp <;> simp [hp]
  · rename_i hidle
    split
    · rename_i hlt
      have hlt : s.started < s.max := hlt
      split
      · -- the owner starts a thread
        show Inv (enqWith s (fun j => if j = s.nw then {} else s.w j) (s.nw + 1) (s.started + 1) s.tnOwed)
        have hnotidle : s.nw ∉ s.idle := by rw [hidle]; simp
        refine inv_enq h hh _ _ _ _ (Nat.le_succ _) ?_ ?_ ?_ (by omega) ?_
        · intro j hj; simp [Nat.ne_of_lt hj]
        · intro k hk
          by_cases hkn : k = s.nw
          · subst hkn
            constructor <;> simp [enqWith, enq0, WPc.live, WPc.isRunning, hnotidle]
          · exact winv_enq_frame h (by omega) (by simp [hkn])
        · have := liveCount_startThread s
          rw [h.started_eq, ← this]; rfl
        · exact Or.inl ⟨s.nw, by omega, by simp [Resp, enqWith, enq0]⟩
      · -- a thread that is not the owner asks the owner for a thread: with no thread at all the request is what is
        -- owed; otherwise a live thread exists, nobody is idle, so that thread is responsible
        rename_i hb
        show Inv (enqWith s s.w s.nw s.started true)
        refine inv_enq h hh _ _ _ _ (Nat.le_refl _) (fun _ _ => rfl) ?_ ?_ h.started_le ?_
        · intro k hk; exact winv_enq_frame h hk rfl
        · rw [h.started_eq]; rfl
        · rcases Nat.eq_zero_or_pos s.started with h0 | hpos
          · exact Or.inr ⟨h0, rfl⟩
          · rw [h.started_eq] at hpos
            obtain ⟨k, hk, hl⟩ := cnt_pos _ hpos
            have hr := resp_of_live_nonidle h hk hl (by rw [hidle]; simp)
            exact Or.inl ⟨k, hk, resp_frame (s' := enqWith s s.w s.nw s.started true) hr rfl id⟩
    · -- at the maximum, nobody idle: a live worker that is not idle is responsible
      rename_i hge
      have hge : ¬ s.started < s.max := hge
      show Inv (enqWith s s.w s.nw s.started s.tnOwed)
      refine inv_enq h hh _ _ _ _ (Nat.le_refl _) (fun _ _ => rfl) ?_ ?_ h.started_le ?_
      · intro k hk; exact winv_enq_frame h hk rfl
      · rw [h.started_eq]; rfl
      · have hpos : 0 < liveCount s := by rw [← h.started_eq]; have := h.max_pos; omega
        obtain ⟨k, hk, hl⟩ := cnt_pos _ hpos
        have hr := resp_of_live_nonidle h hk hl (by rw [hidle]; simp)
        exact Or.inl ⟨k, hk, resp_frame (s' := enqWith s s.w s.nw s.started s.tnOwed) hr rfl id⟩

theorem inv_submit {s s' : St} (h : Inv s) (hs : step s .submit = some s') : Inv s' := by
  simp only [step] at hs
  split at hs <;> simp only [Option.some.injEq, reduceCtorEq] at hs
  subst hs
  rename_i hc
  exact enqueue_inv h hc.1 true

theorem inv_submitc {s s' : St} {k : Nat} (h : Inv s) (hs : step s (.submitc k) = some s') : Inv s' := by
  simp only [step] at hs
  split at hs <;> simp only [Option.some.injEq, reduceCtorEq] at hs
  subst hs
  rename_i hc
  exact enqueue_inv h hc.1 false

theorem inv_submitf {s s' : St} (h : Inv s) (hs : step s .submitf = some s') : Inv s' := by
  simp only [step] at hs
  split at hs <;> simp only [Option.some.injEq, reduceCtorEq] at hs
  subst hs
  rename_i hc
  exact enqueue_inv h hc false

theorem inv_step {s s' : St} {a : Act} (h : Inv s) (hs : step s a = some s') : Inv s' := by
  cases a with
  | submit => exact inv_submit h hs
  | submitc k => exact inv_submitc h hs
  | submitf => exact inv_submitf h hs
  | put => exact inv_put h hs
  | wStart k => exact inv_wStart h hs
  | wSelfKick k => exact inv_wSelfKick h hs
  | wKick k => exact inv_wKick h hs
  | wEnter k => exact inv_wEnter h hs
  | wAfter k => exact inv_wAfter h hs
  | wTimeout k => exact inv_wTimeout h hs
  | wTimeoutRun k => exact inv_wTimeoutRun h hs
  | wExit k => exact inv_wExit h hs
  | oEv => exact inv_oEv h hs
  | oSteal => exact inv_oSteal h hs
  | oComplete => exact inv_oComplete h hs
  | oFinish => exact inv_oFinish h hs
  | oTn => exact inv_oTn h hs
  | oTnRun => exact inv_oTnRun h hs
  | oJoin k => exact inv_oJoin h hs

theorem reach_inv {max : Nat} (hm : 1 ≤ max) {s : St} (hr : Reach max s) : Inv s := by
  induction hr with
  | init => exact inv_init max hm
  | step _ hs ih => exact inv_step ih hs


/-! ### consequences -/

theorem running_le_started {s : St} (h : Inv s) : runCount s ≤ s.started ∧ s.started ≤ s.max := by
  refine ⟨?_, h.started_le⟩
  rw [h.started_eq]
  unfold runCount liveCount
  apply cnt_le
  intro j _
  cases (s.w j).pc <;> simp [WPc.isRunning, WPc.live]

/-- a worker in any of these places can take its next step on its own -/
theorem worker_moves {s : St} (hst : Stuck s) {k : Nat} (hk : k < s.nw) :
    (s.w k).pc ≠ .starting ∧ (s.w k).pc ≠ .selfkick ∧ (s.w k).pc ≠ .gotPre ∧ (s.w k).pc.isRunning = false ∧
    (s.w k).pc ≠ .toPre ∧ (s.w k).pc ≠ .dying ∧
    ¬ ((s.w k).pc = .parked ∧ (s.w k).kickOwed = true ∧ (s.w k).kickReg = true) := by
  refine ⟨?_, ?_, ?_, ?_, ?_, ?_, ?_⟩
  · intro hp; have := hst (.wStart k) rfl; simp [step, hk, hp] at this
  · intro hp; have := hst (.wSelfKick k) rfl; simp [step, hk, hp] at this
  · intro hp; have := hst (.wEnter k) rfl; simp [step, hk, hp] at this; split at this <;> simp at this
  · cases hp : (s.w k).pc <;> simp [WPc.isRunning]
    have := hst (.wAfter k) rfl; simp [step, hk, hp] at this
  · intro hp; have := hst (.wTimeoutRun k) rfl; simp [step, hk, hp] at this
    split at this
    · split at this <;> simp at this
    · simp at this
  · intro hp; have := hst (.wExit k) rfl; simp [step, hk, hp] at this
  · intro hp; have := hst (.wKick k) rfl; simp [step, hk, hp] at this

theorem owner_moves {s : St} (hst : Stuck s) : s.owner = .idle := by
  cases ho : s.owner with
  | idle => rfl
  | evPre => have := hst .oSteal rfl; simp [step, ho] at this
  | tnPre => have := hst .oTnRun rfl; simp [step, ho] at this; split at this <;> simp at this
  | compl b =>
    cases b with
    | nil => have := hst .oFinish rfl; simp [step, ho] at this; split at this <;> simp at this
    | cons i b => have := hst .oComplete rfl; simp [step, ho] at this

theorem resp_moves {s : St} (h : Inv s) (hst : Stuck s) {k : Nat} (hk : k < s.nw) : ¬ Resp s k := by
  intro hr
  have hm := worker_moves hst hk
  have hwk := h.wk k hk
  unfold Resp at hr
  split at hr
  · rename_i hp; exact hm.1 hp
  · rename_i hp; exact hm.2.1 hp
  · rename_i hp; exact hm.2.2.1 hp
  · rename_i i hp; have := hm.2.2.2.1; simp [hp, WPc.isRunning] at this
  · rename_i hp; exact hm.2.2.2.2.2.2 ⟨hp, hr.1, hwk.owed_reg hr.1⟩
  · rename_i hp; exact hm.2.2.2.2.1 hp
  · exact hr

theorem no_lost_work {s : St} (h : Inv s) (hst : Stuck s) : ∀ i, i < s.ni → (s.it i).phase = .completed := by
  intro i hi
  have hii := h.items i hi
  have ho := owner_moves hst
  cases hp : (s.it i).phase with
  | completed => rfl
  | queued =>
    have hq : s.queue ≠ [] := by intro he; have := hii.q_iff.1 hp; simp [he] at this
    rcases h.owed hq with ⟨k, hk, hr⟩ | hr
    · exact absurd hr (resp_moves h hst hk)
    · -- no thread at all: the owner's loop still has thread_needed to handle
      have hnf : s.freed = false := by
        cases hf : s.freed
        · rfl
        · exact absurd (h.freed_imp hf).2.2.1 hq
      rcases hr.2 with ht | ht
      · have := hst .oTn rfl; simp [step, ho, ht, hnf] at this
      · simp [ho] at ht
  | running =>
    have := hii.r_imp hp
    have hm := (worker_moves hst this.1).2.2.2.1
    simp [this.2, WPc.isRunning] at hm
  | done =>
    have hm := hii.d_iff.1 hp
    simp [ho] at hm
    have hd : s.done ≠ [] := by intro he; simp [he] at hm
    have hnf : s.freed = false := by
      cases hf : s.freed
      · rfl
      · exact absurd (h.freed_imp hf).2.2.2.1 hd
    rcases h.done_owed hd with he | he
    · have := hst .oEv rfl; simp [step, ho, he, hnf] at this
    · simp [ho] at he

/-- after `put`, a quiescent pool is completely gone -/
theorem drained {s : St} (h : Inv s) (hsh : s.shut = true) (hst : Stuck s) :
    (∀ i, i < s.ni → (s.it i).phase = .completed) ∧ (∀ k, k < s.nw → (s.w k).pc = .joined) ∧ s.freed = true ∧
    poolObjs s = 0 := by
  have ho := owner_moves hst
  have hj : ∀ k, k < s.nw → (s.w k).pc = .joined := by
    intro k hk
    have hm := worker_moves hst hk
    have hwk := h.wk k hk
    cases hp : (s.w k).pc with
    | joined => rfl
    | starting => exact absurd hp hm.1
    | selfkick => exact absurd hp hm.2.1
    | gotPre => exact absurd hp hm.2.2.1
    | running i => have := hm.2.2.2.1; simp [hp, WPc.isRunning] at this
    | toPre => exact absurd hp hm.2.2.2.2.1
    | dying => exact absurd hp hm.2.2.2.2.2.1
    | parked =>
      exfalso
      have hko : (s.w k).kickOwed = true := by
        by_cases hi : k ∈ s.idle
        · rcases hwk.shut_idle hsh hi with h | h
          · exact h
          · simp [hp] at h
        · have := hwk.nonidle (by simp [hp, WPc.live]) hi
          simp [hp, WPc.isRunning] at this
          exact this
      exact hm.2.2.2.2.2.2 ⟨hp, hko, hwk.owed_reg hko⟩
    | exited =>
      exfalso
      have hd := hwk.dead_owed.2 hp
      have := hst (.oJoin k) rfl
      simp [step, ho, hk, hp, hd] at this
  have hst0 : s.started = 0 := by
    rw [h.started_eq]
    unfold liveCount
    rcases Nat.eq_zero_or_pos (cnt (fun k => (s.w k).pc.live) s.nw) with h0 | h0
    · exact h0
    · obtain ⟨k, hk, hl⟩ := cnt_pos _ h0
      simp [hj k hk, WPc.live] at hl
  have hfr : s.freed = true := by
    cases hf : s.freed
    · rcases h.shut_ev hsh hst0 hf with he | he | ⟨b, he⟩ | ⟨hq, _⟩
      · have := hst .oEv rfl; simp [step, ho, he, hf] at this
      · simp [ho] at he
      · simp [ho] at he
      · exfalso
        cases hqq : s.queue with
        | nil => exact hq hqq
        | cons a l =>
          have ha : a ∈ s.queue := by simp [hqq]
          have hlt := h.queue_lt a ha
          have := (h.items a hlt).q_iff.2 ha
          have hc := no_lost_work h hst a hlt
          rw [this] at hc; simp at hc
    · rfl
  refine ⟨no_lost_work h hst, hj, hfr, ?_⟩
  unfold poolObjs
  simp [hfr]
  rcases Nat.eq_zero_or_pos (cnt (fun k => (s.w k).deadReg) s.nw) with h0 | h0
  · exact h0
  · obtain ⟨k, hk, hl⟩ := cnt_pos _ h0
    have := (h.wk k hk).dead_reg.1 hl
    exact absurd (hj k hk) this


/-! ### what each action does to an item -/

theorem die_it (s : St) (k : Nat) : (die s k).it = s.it := by
  unfold die; split
  · rfl
  · simp only []; split <;> rfl

theorem enqueue_it (s : St) (b : Bool) {i : Nat} (hi : i < s.ni) : (enqueue s b).it i = s.it i := by
  have : (enq0 s).it i = s.it i := by simp [enq0, Nat.ne_of_lt hi]
  unfold enqueue
  simp only []
  split
  · simpa [setW] using this
  · split
    · split
      · simpa [startThread] using this
      · simpa using this
    · exact this

theorem loopTail_it (s : St) (k i : Nat) :
    (loopTail s k).it i = s.it i ∨
    (s.queue.head? = some i ∧ (loopTail s k).it i = { s.it i with phase := .running, workRuns := (s.it i).workRuns + 1, worker := k }) := by
  unfold loopTail
  split
  · split
    · rename_i i' q hq
      by_cases he : i = i'
      · subst he; right; simp [hq, setW, setI]
      · left; simp [setW, setI, he]
    · left; rfl
  · split
    · split
      · split
        · left; rfl
        · left; rfl
      · left; rw [die_it]
    · left; rfl

theorem item_step {s s' : St} {a : Act} (h : Inv s) (hs : step s a = some s') {i : Nat} (hi : i < s.ni) :
    (s'.it i).phase = (s.it i).phase ∨
    ((s.it i).phase = .queued ∧ (s'.it i).phase = .running ∧ ∃ k, (a = .wEnter k ∨ a = .wAfter k) ∧ k < s.nw ∧ (s'.it i).worker = k) ∨
    ((s.it i).phase = .running ∧ (s'.it i).phase = .done ∧ a = .wAfter (s.it i).worker) ∨
    ((s.it i).phase = .done ∧ (s'.it i).phase = .completed ∧ a = .oComplete) := by
  cases a with
  | submit =>
    simp only [step] at hs; split at hs <;> simp only [Option.some.injEq, reduceCtorEq] at hs
    subst hs; left; rw [enqueue_it s true hi]
  | submitc k =>
    simp only [step] at hs; split at hs <;> simp only [Option.some.injEq, reduceCtorEq] at hs
    subst hs; left; rw [enqueue_it s false hi]
  | submitf =>
    simp only [step] at hs; split at hs <;> simp only [Option.some.injEq, reduceCtorEq] at hs
    subst hs; left; rw [enqueue_it s false hi]
  | put =>
    simp only [step] at hs; split at hs <;> try simp at hs
    split at hs <;> simp at hs <;> subst hs <;> left <;> rfl
  | wStart k => simp only [step] at hs; split at hs <;> simp at hs; subst hs; left; rfl
  | wSelfKick k => simp only [step] at hs; split at hs <;> simp at hs; subst hs; left; rfl
  | wKick k => simp only [step] at hs; split at hs <;> simp at hs; subst hs; left; rfl
  | wTimeout k => simp only [step] at hs; split at hs <;> simp at hs; subst hs; left; rfl
  | wExit k => simp only [step] at hs; split at hs <;> simp at hs; subst hs; left; rfl
  | oJoin k => simp only [step] at hs; split at hs <;> simp at hs; subst hs; left; rfl
  | oEv => simp only [step] at hs; split at hs <;> simp at hs; subst hs; left; rfl
  | oSteal => simp only [step] at hs; split at hs <;> simp at hs; subst hs; left; rfl
  | oTn => simp only [step] at hs; split at hs <;> simp at hs; subst hs; left; rfl
  | oFinish =>
    simp only [step] at hs; split at hs <;> try simp at hs
    split at hs <;> simp at hs <;> subst hs <;> left <;> rfl
  | oTnRun =>
    simp only [step] at hs; split at hs <;> try simp at hs
    split at hs <;> simp at hs <;> subst hs <;> left <;> rfl
  | wTimeoutRun k =>
    simp only [step] at hs; split at hs <;> try simp at hs
    split at hs
    · split at hs <;> simp at hs <;> subst hs <;> left <;> rfl
    · simp only [Option.some.injEq] at hs; subst hs; left; rw [die_it]
  | oComplete =>
    simp only [step] at hs
    split at hs <;> simp only [Option.some.injEq, reduceCtorEq] at hs
    subst hs
    rename_i i' b ho
    by_cases he : i = i'
    · subst he
      right; right; right
      have := (h.items i hi).d_iff.2 (by simp [ho])
      exact ⟨this, by simp [setI], rfl⟩
    · left; simp [setI, he]
  | wEnter k =>
    simp only [step] at hs; split at hs <;> try simp at hs
    rename_i hc
    split at hs
    · simp at hs; subst hs; left; rfl
    · simp only [Option.some.injEq] at hs; subst hs
      have hmid : (enterPrep s k).it = s.it := rfl
      have hq : (enterPrep s k).queue = s.queue := rfl
      rcases loopTail_it (enterPrep s k) k i with hl | ⟨hh, hl⟩
      · left; rw [hl, hmid]
      · right; left
        rw [hq] at hh
        have hm : i ∈ s.queue := by cases hqq : s.queue <;> simp_all
        exact ⟨(h.items i hi).q_iff.2 hm, by rw [hl], k, Or.inl rfl, hc.1, by rw [hl]⟩
  | wAfter k =>
    simp only [step] at hs; split at hs <;> try simp at hs
    rename_i hk
    split at hs <;> simp only [Option.some.injEq, reduceCtorEq] at hs
    subst hs
    rename_i i0 hpc
    obtain ⟨hi0, hph0, hw0⟩ := (h.wk k hk).run_item i0 hpc
    have hq : (afterPrep s k i0).queue = s.queue := rfl
    by_cases he : i = i0
    · subst he
      right; right; left
      have hmid : ((afterPrep s k i).it i).phase = .done := by simp [afterPrep, setW, setI]
      rcases loopTail_it (afterPrep s k i) k i with hl | ⟨hh, hl⟩
      · exact ⟨hph0, by rw [hl, hmid], by rw [hw0]⟩
      · exfalso
        rw [hq] at hh
        have hm : i ∈ s.queue := by cases hqq : s.queue <;> simp_all
        have := (h.items i hi).q_iff.2 hm
        simp [hph0] at this
    · have hmid : (afterPrep s k i0).it i = s.it i := by simp [afterPrep, setW, setI, he]
      rcases loopTail_it (afterPrep s k i0) k i with hl | ⟨hh, hl⟩
      · left; rw [hl, hmid]
      · right; left
        rw [hq] at hh
        have hm : i ∈ s.queue := by cases hqq : s.queue <;> simp_all
        exact ⟨(h.items i hi).q_iff.2 hm, by rw [hl], k, Or.inr rfl, hk, by rw [hl]⟩


/-! ### what each action does to a worker's place in its life cycle -/

@[simp] theorem rank_starting : WPc.starting.rank = 0 := rfl
@[simp] theorem rank_selfkick : WPc.selfkick.rank = 1 := rfl
@[simp] theorem rank_parked : WPc.parked.rank = 2 := rfl
@[simp] theorem rank_gotPre : WPc.gotPre.rank = 2 := rfl
@[simp] theorem rank_running (i : Nat) : (WPc.running i).rank = 2 := rfl
@[simp] theorem rank_toPre : WPc.toPre.rank = 2 := rfl
@[simp] theorem rank_dying : WPc.dying.rank = 3 := rfl
@[simp] theorem rank_exited : WPc.exited.rank = 4 := rfl
@[simp] theorem rank_joined : WPc.joined.rank = 5 := rfl

theorem die_rank (s : St) (k j : Nat) (hj : (s.w j).pc.rank = 2 ∨ j ≠ k) :
    (s.w j).pc.rank ≤ ((die s k).w j).pc.rank ∧ ((die s k).w j).pc.rank ≤ (s.w j).pc.rank + 1 := by
  by_cases hjk : j = k
  · subst hjk
    have h2 : (s.w j).pc.rank = 2 := by rcases hj with h | h; exact h; exact absurd rfl h
    unfold die; split
    · simp
    · simp only []; split <;> simp [setW, h2]
  · unfold die; split
    · simp
    · simp only []; split <;> simp [setW, hjk]

theorem enqueue_pc (s : St) (b : Bool) {j : Nat} (hj : j < s.nw) : ((enqueue s b).w j).pc = (s.w j).pc := by
  unfold enqueue
  simp only []
  split
  · rename_i t _ _; by_cases hjt : j = t <;> simp [setW, enq0, hjt]
  · split
    · split
      · simp [startThread, enq0, Nat.ne_of_lt hj]
      · rfl
    · rfl

theorem loopTail_rank (s : St) (k j : Nat) (hj : (s.w j).pc.rank = 2 ∨ j ≠ k) :
    (s.w j).pc.rank ≤ ((loopTail s k).w j).pc.rank ∧ ((loopTail s k).w j).pc.rank ≤ (s.w j).pc.rank + 1 := by
  by_cases hjk : j = k
  · subst hjk
    have h2 : (s.w j).pc.rank = 2 := by rcases hj with h | h; exact h; exact absurd rfl h
    unfold loopTail
    split
    · split
      · simp [setW, setI, h2]
      · simp
    · split
      · split
        · split
          · simp
          · simp [setW, h2]
        · exact die_rank s j j hj
      · simp [setW, h2]
  · unfold loopTail
    split
    · split
      · simp [setW, setI, hjk]
      · simp
    · split
      · split
        · split
          · simp
          · simp [setW, hjk]
        · exact die_rank s k j hj
      · simp [setW, hjk]

/-- a worker only ever moves forward in its life cycle, one stage at a time -/
theorem rank_step {s s' : St} {a : Act} (hs : step s a = some s') {j : Nat} (hj : j < s.nw) :
    (s.w j).pc.rank ≤ (s'.w j).pc.rank ∧ (s'.w j).pc.rank ≤ (s.w j).pc.rank + 1 := by
  cases a with
  | submit =>
    simp only [step] at hs; split at hs <;> simp only [Option.some.injEq, reduceCtorEq] at hs
    subst hs; rw [enqueue_pc s true hj]; omega
  | submitc k =>
    simp only [step] at hs; split at hs <;> simp only [Option.some.injEq, reduceCtorEq] at hs
    subst hs; rw [enqueue_pc s false hj]; omega
  | submitf =>
    simp only [step] at hs; split at hs <;> simp only [Option.some.injEq, reduceCtorEq] at hs
    subst hs; rw [enqueue_pc s false hj]; omega
  | put =>
    simp only [step] at hs; split at hs <;> try simp at hs
    split at hs <;> simp at hs <;> subst hs
    · simp
    · by_cases hm : j ∈ s.idle <;> simp [hm]
  | wStart k =>
    simp only [step] at hs; split at hs <;> simp at hs; subst hs
    rename_i hc; by_cases hjk : j = k <;> simp [setW, hjk]; simp [hc.2]
  | wSelfKick k =>
    simp only [step] at hs; split at hs <;> simp at hs; subst hs
    rename_i hc; by_cases hjk : j = k <;> simp [setW, hjk]; simp [hc.2]
  | wKick k =>
    simp only [step] at hs; split at hs <;> simp at hs; subst hs
    rename_i hc; by_cases hjk : j = k <;> simp [setW, hjk]; simp [hc.2.1]
  | wTimeout k =>
    simp only [step] at hs; split at hs <;> simp at hs; subst hs
    rename_i hc; by_cases hjk : j = k <;> simp [setW, hjk]; simp [hc.2.1]
  | wExit k =>
    simp only [step] at hs; split at hs <;> simp at hs; subst hs
    rename_i hc; by_cases hjk : j = k <;> simp [setW, hjk]; simp [hc.2]
  | oJoin k =>
    simp only [step] at hs; split at hs <;> simp at hs; subst hs
    rename_i hc; by_cases hjk : j = k <;> simp [setW, hjk]; simp [hc.2.2.1]
  | oEv => simp only [step] at hs; split at hs <;> simp at hs; subst hs; simp
  | oSteal => simp only [step] at hs; split at hs <;> simp at hs; subst hs; simp
  | oTn => simp only [step] at hs; split at hs <;> simp at hs; subst hs; simp
  | oComplete =>
    simp only [step] at hs
    split at hs <;> simp only [Option.some.injEq, reduceCtorEq] at hs
    subst hs; simp [setI]
  | oFinish =>
    simp only [step] at hs; split at hs <;> try simp at hs
    split at hs <;> simp at hs <;> subst hs <;> simp
  | oTnRun =>
    simp only [step] at hs; split at hs <;> try simp at hs
    split at hs <;> simp at hs <;> subst hs
    · simp [startThread, Nat.ne_of_lt hj]
    · simp
  | wTimeoutRun k =>
    simp only [step] at hs; split at hs <;> try simp at hs
    rename_i hc
    split at hs
    · split at hs <;> simp at hs <;> subst hs
      · simp
      · by_cases hjk : j = k <;> simp [setW, hjk]; simp [hc.2]
    · simp only [Option.some.injEq] at hs; subst hs
      have hh : (s.w j).pc.rank = 2 ∨ j ≠ k := by
        by_cases hjk : j = k
        · subst hjk; left; simp [hc.2]
        · right; exact hjk
      exact die_rank { s with idle := List.filter (fun x => !decide (x = k)) s.idle } k j hh
  | wEnter k =>
    simp only [step] at hs; split at hs <;> try simp at hs
    rename_i hc
    split at hs
    · simp at hs; subst hs; simp
    · simp only [Option.some.injEq] at hs; subst hs
      have hmid : ((enterPrep s k).w j).pc = (s.w j).pc := by
        by_cases hjk : j = k <;> simp [enterPrep, setW, hjk]
      have := loopTail_rank (enterPrep s k) k j (by
        by_cases hjk : j = k
        · subst hjk; left; rw [hmid, hc.2]; simp
        · right; exact hjk)
      rw [hmid] at this; exact this
  | wAfter k =>
    simp only [step] at hs; split at hs <;> try simp at hs
    rename_i hk
    split at hs <;> simp only [Option.some.injEq, reduceCtorEq] at hs
    subst hs
    rename_i i0 hpc
    have hmid : ((afterPrep s k i0).w j).pc.rank = (s.w j).pc.rank := by
      by_cases hjk : j = k
      · subst hjk; simp [afterPrep, setW, setI, hpc]
      · simp [afterPrep, setW, setI, hjk]
    have := loopTail_rank (afterPrep s k i0) k j (by
      by_cases hjk : j = k
      · subst hjk; left; rw [hmid, hpc]; simp
      · right; exact hjk)
    rw [hmid] at this; exact this


/-! ### shutdown details -/

theorem put_effect {s s' : St} (hs : step s .put = some s') :
    s'.handle = false ∧ s'.shut = true ∧ s'.queue = s.queue ∧ s'.done = s.done ∧ s'.it = s.it ∧ s'.ni = s.ni := by
  simp only [step] at hs; split at hs <;> try simp at hs
  split at hs <;> simp at hs <;> subst hs <;> simp

theorem die_freed (s : St) (k : Nat) : (die s k).freed = s.freed := by
  unfold die; split
  · rfl
  · simp only []; split <;> rfl

theorem loopTail_freed (s : St) (k : Nat) : (loopTail s k).freed = s.freed := by
  unfold loopTail
  split
  · split <;> rfl
  · split
    · split
      · split <;> rfl
      · rw [die_freed]
    · rfl

theorem enqueue_freed (s : St) (b : Bool) : (enqueue s b).freed = s.freed := by
  unfold enqueue
  simp only []
  split
  · rfl
  · split
    · split <;> rfl
    · rfl

/-- the pool's two events are unregistered (the pool freed) only by the owner's shutting_down test, and only when no
thread is left, nothing is queued or awaiting completion and every item ever submitted has completed -/
theorem free_exact {s s' : St} {a : Act} (h : Inv s) (hs : step s a = some s') (hf : s.freed = false) (hf' : s'.freed = true) :
    a = .oFinish ∧ s.shut = true ∧ s.started = 0 ∧ s.done = [] ∧ s.queue = [] ∧
    (∀ i, i < s.ni → (s.it i).phase = .completed) ∧ (∀ k, k < s.nw → (s.w k).pc.live = false) := by
  have key : a = .oFinish := by
    cases a <;> try rfl
    all_goals (exfalso; simp only [step] at hs)
    case submit => split at hs <;> simp only [Option.some.injEq, reduceCtorEq] at hs; subst hs; rw [enqueue_freed] at hf'; simp_all
    case submitc => split at hs <;> simp only [Option.some.injEq, reduceCtorEq] at hs; subst hs; rw [enqueue_freed] at hf'; simp_all
    case submitf => split at hs <;> simp only [Option.some.injEq, reduceCtorEq] at hs; subst hs; rw [enqueue_freed] at hf'; simp_all
    case put => split at hs <;> try simp at hs
                split at hs <;> simp at hs <;> subst hs <;> simp_all
    case wStart => split at hs <;> simp at hs; subst hs; simp_all [setW]
    case wSelfKick => split at hs <;> simp at hs; subst hs; simp_all [setW]
    case wKick => split at hs <;> simp at hs; subst hs; simp_all [setW]
    case wTimeout => split at hs <;> simp at hs; subst hs; simp_all [setW]
    case wExit => split at hs <;> simp at hs; subst hs; simp_all [setW]
    case oJoin => split at hs <;> simp at hs; subst hs; simp_all [setW]
    case oEv => split at hs <;> simp at hs; subst hs; simp_all
    case oSteal => split at hs <;> simp at hs; subst hs; simp_all
    case oTn => split at hs <;> simp at hs; subst hs; simp_all
    case oComplete => split at hs <;> simp only [Option.some.injEq, reduceCtorEq] at hs; subst hs; simp_all [setI]
    case oTnRun => split at hs <;> try simp at hs
                   split at hs <;> simp at hs <;> subst hs <;> simp_all [startThread]
    case wTimeoutRun =>
      split at hs <;> try simp at hs
      split at hs
      · split at hs <;> simp at hs <;> subst hs <;> simp_all [setW]
      · simp only [Option.some.injEq] at hs; subst hs; rw [die_freed] at hf'; simp_all
    case wEnter =>
      split at hs <;> try simp at hs
      split at hs
      · simp at hs; subst hs; simp_all
      · simp only [Option.some.injEq] at hs; subst hs; rw [loopTail_freed] at hf'
        simp [enterPrep, setW] at hf'; simp_all
    case wAfter =>
      split at hs <;> try simp at hs
      split at hs <;> simp only [Option.some.injEq, reduceCtorEq] at hs
      subst hs; rw [loopTail_freed] at hf'
      simp [afterPrep, setW, setI] at hf'; simp_all
  subst key
  simp only [step] at hs
  split at hs <;> try simp at hs
  rename_i ho
  split at hs <;> simp at hs <;> subst hs
  · rename_i hc
    obtain ⟨hsh, hst, hd, hq⟩ := hc
    have hlive : ∀ k, k < s.nw → (s.w k).pc.live = false := by
      intro k hk
      cases hl : (s.w k).pc.live
      · rfl
      · have := live_pos h hk hl; omega
    refine ⟨rfl, hsh, hst, hd, hq, ?_, hlive⟩
    intro i hi
    have hii := h.items i hi
    cases hp : (s.it i).phase with
    | completed => rfl
    | queued => have := hii.q_iff.1 hp; simp [hq] at this
    | running => have := hii.r_imp hp; have := hlive _ this.1; simp_all [WPc.live]
    | done => have := hii.d_iff.1 hp; simp [hd, ho] at this
  · simp_all

/-- thread_start / thread_stop pairing, as a function of where the worker is in its life cycle -/
theorem hooks_paired {s : St} (h : Inv s) {k : Nat} (hk : k < s.nw) :
    (s.w k).starts = (if 1 ≤ (s.w k).pc.rank then 1 else 0) ∧ (s.w k).stops = (if 3 ≤ (s.w k).pc.rank then 1 else 0) ∧
    (s.w k).stops ≤ (s.w k).starts := by
  have hw := h.wk k hk
  have h1 := hw.starts_eq
  have h2 := hw.stops_eq
  cases hp : (s.w k).pc <;> simp_all [WPc.live]

/-! ### NULL pool -/

theorem linv_init : LInv {} := by
  constructor <;> simp [pairs]

theorem pairs_append (a b : List Nat) : pairs (a ++ b) = pairs a ++ pairs b := by
  simp [pairs]

theorem linv_step {s s' : LSt} {a : LAct} (h : LInv s) (hs : lstep s a = some s') : LInv s' := by
  obtain ⟨h1, h2, h3, h4, h5⟩ := h
  cases a with
  | submit =>
    simp only [lstep, Option.some.injEq] at hs
    subst hs
    by_cases hp : s.pending = []
    · have ht : s.taskReg = false := by
        cases hc : s.taskReg
        · rfl
        · exact absurd hp (h2.1 hc)
      simp only [hp, ht]
      constructor
      · simp [h1]
      · simp
      · simp [List.range_succ, ← h3, hp]
      · simpa using h4
      · simpa using h5
    · have ht : s.taskReg = true := h2.2 hp
      simp only [hp, if_false]
      constructor
      · simp [h1]
      · simp [ht]
      · show s.finished ++ s.batch ++ (s.pending ++ [s.n]) = List.range (s.n + 1)
        rw [List.range_succ, ← h3]; simp
      · simpa using h4
      · simpa using h5
  | task =>
    simp only [lstep] at hs
    split at hs <;> simp at hs
    subst hs
    rename_i hc
    have hiw : s.inWork = false := by
      cases hi : s.inWork
      · rfl
      · exact absurd hc.2 (h4 hi)
    constructor
    · exact h1
    · simp
    · simp [← h3, hc.2]
    · simp [hiw]
    · simp [h5, hiw]
  | work =>
    simp only [lstep] at hs
    split at hs <;> try simp at hs
    rename_i i b hb
    obtain ⟨hiw, hs⟩ := hs
    subst hs
    constructor
    · exact h1
    · exact h2
    · exact h3
    · simp [hb]
    · simp [h5, hiw, hb]
  | complete =>
    simp only [lstep] at hs
    split at hs <;> try simp at hs
    rename_i i b hb
    obtain ⟨hiw, hs⟩ := hs
    subst hs
    constructor
    · exact h1
    · exact h2
    · simp [← h3, hb]
    · simp
    · simp [h5, hiw, hb, pairs]

theorem lreach_inv {s : LSt} (hr : LReach s) : LInv s := by
  induction hr with
  | init => exact linv_init
  | step _ hs ih => exact linv_step ih hs

/-- when the thread has nothing left to run, every locally submitted item had its work function and then its
completion called exactly once, in submission order, and nothing else was called -/
theorem null_pool_local {s : LSt} (h : LInv s) (hst : LStuck s) : s.log = pairs (List.range s.n) := by
  have hb : s.batch = [] := by
    cases hb : s.batch with
    | nil => rfl
    | cons i b =>
      exfalso
      cases hi : s.inWork
      · have := hst .work (by simp); simp [lstep, hb, hi] at this
      · have := hst .complete (by simp); simp [lstep, hb, hi] at this
  have hp : s.pending = [] := by
    cases hp : s.pending with
    | nil => rfl
    | cons i b =>
      exfalso
      have ht := h.task_iff.2 (by simp [hp])
      have := hst .task (by simp); simp [lstep, hb, ht] at this
  have hiw : s.inWork = false := by
    cases hi : s.inWork
    · rfl
    · exact absurd hb (h.inwork hi)
  have := h.fifo
  rw [hb, hp] at this
  simp at this
  rw [h.log_eq, hiw, this]; simp

/-- at every moment: the calls made so far are exactly work+completion of the finished items, in submission order,
plus possibly the work function of the next one; in particular a completion never precedes its work function and
nothing runs twice -/
theorem null_pool_prefix {s : LSt} (h : LInv s) :
    ∃ m, m ≤ s.n ∧ s.finished = List.range m ∧
      s.log = pairs (List.range m) ++ (if s.inWork then [(m, false)] else []) := by
  refine ⟨s.finished.length, ?_, ?_, ?_⟩
  · have := congrArg List.length h.fifo; simp at this; omega
  · have := h.fifo
    have h2 : s.finished = (List.range s.n).take s.finished.length := by
      rw [← this]; simp [List.append_assoc]
    have hl : s.finished.length ≤ s.n := by
      have := congrArg List.length this; simp at this; omega
    rw [List.take_range, Nat.min_eq_left hl] at h2
    exact h2
  · rw [h.log_eq]
    have hfin : s.finished = List.range s.finished.length := by
      have := h.fifo
      have h2 : s.finished = (List.range s.n).take s.finished.length := by
        rw [← this]; simp [List.append_assoc]
      have hl : s.finished.length ≤ s.n := by
        have := congrArg List.length this; simp at this; omega
      rw [List.take_range, Nat.min_eq_left hl] at h2
      exact h2
    cases hiw : s.inWork
    · simp; rw [← hfin]
    · have hne := h.inwork hiw
      cases hb : s.batch with
      | nil => exact absurd hb hne
      | cons i b =>
        have hf := h.fifo
        have hget := congrArg (fun l => l[s.finished.length]?) hf
        simp [hb] at hget
        have hlt : s.finished.length < s.n := by
          have := congrArg List.length hf; simp [hb] at this; omega
        rw [List.getElem?_range hlt] at hget
        simp at hget
        subst hget
        simp; rw [← hfin]



/-! ### iv_thread -/

theorem tinv_init (m : ExitMode) : TInv { mode := m } := by
  constructor <;> simp

theorem tstep_mode {s s' : TSt} {a : TAct} (hs : tstep s a = some s') : s'.mode = s.mode := by
  cases a <;> simp only [tstep] at hs
  case run => split at hs <;> simp at hs; subst hs; split <;> rfl
  case deinit => split at hs <;> simp at hs; subst hs; rfl
  case leave => split at hs <;> simp at hs; subst hs; rfl
  case destruct =>
    split at hs <;> try simp at hs
    split at hs <;> simp only [Option.some.injEq] at hs <;> subst hs <;> rfl
  case died => split at hs <;> simp at hs; subst hs; rfl
  case creatorDeinit =>
    split at hs <;> try simp at hs
    split at hs
    · split at hs <;> simp only [Option.some.injEq] at hs <;> subst hs <;> rfl
    · simp only [Option.some.injEq] at hs; subst hs; rfl

theorem tinv_step {s s' : TSt} {a : TAct} (h : TInv s) (hs : tstep s a = some s') : TInv s' := by
  obtain ⟨h1, h2, h3, h4, h5, h6, h7, h8, h9, h10, h11⟩ := h
  cases a <;> simp only [tstep] at hs
  case run =>
    split at hs <;> simp at hs; subst hs
    rename_i hp
    split <;> (constructor <;> simp_all [ExitMode.deinits])
    all_goals (cases hm : s.mode <;> simp_all [ExitMode.deinits])
  case deinit =>
    split at hs <;> simp at hs; subst hs
    rename_i hc
    constructor <;> simp_all
    all_goals (intro hm; simp [hm, ExitMode.deinits] at hc)
  case leave =>
    split at hs <;> simp at hs; subst hs
    rename_i hc
    rcases hc with hc | hc
    · constructor <;> simp_all
    · constructor <;> simp_all
      all_goals (cases hm : s.mode <;> simp_all [ExitMode.deinits])
  case destruct =>
    split at hs <;> try simp at hs
    rename_i hp
    have hf : s.frees = 0 := by simp_all
    split at hs <;> simp only [Option.some.injEq] at hs <;> subst hs
    · constructor <;> simp_all
      all_goals (cases hm : s.mode <;> simp_all [ExitMode.deinits])
    · constructor <;> simp_all
      all_goals (cases hg : s.creatorGone <;> cases hm : s.mode <;> simp_all [ExitMode.deinits])
  case died =>
    split at hs <;> simp at hs; subst hs
    rename_i hc
    constructor <;> simp_all
  case creatorDeinit =>
    split at hs <;> try simp at hs
    rename_i hg
    split at hs
    · rename_i hr
      have hpj : s.pc ≠ .joined := (h2.1 hr).2
      split at hs <;> simp only [Option.some.injEq] at hs <;> subst hs
      · rename_i he
        have hpe : s.pc = .exited := by simp_all
        constructor <;> simp_all
      · rename_i he
        have hpe : s.pc ≠ .exited := by intro hp; simp_all
        constructor <;> simp_all
    · rename_i hr
      simp only [Option.some.injEq] at hs; subst hs
      have hpj : s.pc = .joined := by
        cases hp : s.pc <;> simp_all
      constructor <;> simp_all

theorem treach_inv {m : ExitMode} {s : TSt} (hr : TReach m s) : TInv s ∧ s.mode = m := by
  induction hr with
  | init => exact ⟨tinv_init m, rfl⟩
  | step _ hs ih => exact ⟨tinv_step ih.1 hs, by rw [tstep_mode hs, ih.2]⟩

/-- whichever way the body ends and whenever the creator deinitialises its loop: once neither side can do anything
more, the thread has either been joined, or the creator's loop is gone and the thread has exited; in both cases
the record has been freed exactly once, `dead` is unregistered and not pending, nothing freed was used -/
theorem thread_final {s : TSt} (h : TInv s) (hst : TStuck s) :
    (s.pc = .joined ∨ (s.pc = .exited ∧ s.creatorGone = true)) ∧ s.frees = 1 ∧ s.deadReg = false ∧ s.deadOwed = false ∧
    s.ivState = false ∧ s.deinits = (if s.mode = .noInit then 0 else 1) ∧ s.fault = false := by
  obtain ⟨h1, h2, h3, h4, h5, h6, h7, h8, h9, h10, h11⟩ := h
  have hpc : s.pc = .joined ∨ (s.pc = .exited ∧ s.creatorGone = true) := by
    cases hp : s.pc with
    | joined => exact Or.inl rfl
    | created => have := hst .run (by simp); simp [tstep, hp] at this
    | body =>
      cases hd : s.mode.deinits
      · have := hst .leave (by simp); simp [tstep, hp, hd] at this
      · have := hst .deinit (by simp); simp [tstep, hp, hd] at this
    | bodyNoState => have := hst .leave (by simp); simp [tstep, hp] at this
    | exiting =>
      have := hst .destruct (by simp); simp [tstep, hp] at this
      split at this <;> simp at this
    | exited =>
      cases hg : s.creatorGone
      · have := hst .died (by simp); simp [tstep, hp, h3.2 ⟨hg, hp⟩, hg] at this
      · exact Or.inr ⟨rfl, rfl⟩
  rcases hpc with hp | ⟨hp, hg⟩
  · refine ⟨Or.inl hp, ?_⟩; simp_all
  · refine ⟨Or.inr ⟨hp, hg⟩, ?_⟩; simp_all

theorem thread_joined {s : TSt} (h : TInv s) (hst : TStuck s) (hg : s.creatorGone = false) :
    s.pc = .joined ∧ s.deadReg = false ∧ s.posts = 1 := by
  have hf := thread_final h hst
  obtain ⟨h1, h2, h3, h4, h5, h6, h7, h8, h9, h10, h11⟩ := h
  rcases hf.1 with hp | ⟨_, hg'⟩
  · refine ⟨hp, hf.2.2.1, ?_⟩; simp_all
  · simp [hg] at hg'

/-- `dead` is posted only by the exiting thread's destructor, only while the creator's loop exists, and at most once -/
theorem post_only_to_live_loop {s s' : TSt} {a : TAct} (h : TInv s) (hs : tstep s a = some s') (hp : s'.posts ≠ s.posts) :
    a = .destruct ∧ s.creatorGone = false ∧ s.posts = 0 ∧ s'.posts = 1 := by
  have h' := tinv_step h hs
  obtain ⟨h1, h2, h3, h4, h5, h6, h7, h8, h9, h10, h11⟩ := h
  cases a <;> simp only [tstep] at hs
  case run => split at hs <;> simp at hs; subst hs; split at hp <;> simp at hp
  case deinit => split at hs <;> simp at hs; subst hs; simp at hp
  case leave => split at hs <;> simp at hs; subst hs; simp at hp
  case died => split at hs <;> simp at hs; subst hs; simp at hp
  case creatorDeinit =>
    split at hs <;> try simp at hs
    split at hs
    · split at hs <;> simp only [Option.some.injEq] at hs <;> subst hs <;> simp at hp
    · simp only [Option.some.injEq] at hs; subst hs; simp at hp
  case destruct =>
    split at hs <;> try simp at hs
    rename_i hpc
    split at hs <;> simp only [Option.some.injEq] at hs <;> subst hs
    · simp at hp
    · rename_i ho
      have hg : s.creatorGone = false := by
        cases hg : s.creatorGone
        · rfl
        · exfalso; simp_all
      refine ⟨rfl, hg, ?_, ?_⟩ <;> simp_all

theorem work_owed_weak {s : St} (h : Inv s) (hq : s.queue ≠ []) :
    (∃ k, k < s.nw ∧ ((s.w k).pc = .gotPre ∨ (s.w k).pc.isRunning = true)) ∨
    (∃ k, k < s.nw ∧ (s.w k).kickOwed = true) ∨
    (∃ k, k < s.nw ∧ ((s.w k).pc = .starting ∨ (s.w k).pc = .selfkick)) ∨ s.tnOwed = true ∨ s.owner = .tnPre := by
  rcases h.owed hq with ⟨k, hk, hr⟩ | hr
  case inr => exact Or.inr (Or.inr (Or.inr hr.2))
  unfold Resp at hr
  split at hr
  · rename_i hp; exact Or.inr (Or.inr (Or.inl ⟨k, hk, Or.inl hp⟩))
  · rename_i hp; exact Or.inr (Or.inr (Or.inl ⟨k, hk, Or.inr hp⟩))
  · rename_i hp; exact Or.inl ⟨k, hk, Or.inl hp⟩
  · rename_i i hp; exact Or.inl ⟨k, hk, Or.inr (by simp [hp, WPc.isRunning])⟩
  · exact Or.inr (Or.inl ⟨k, hk, hr.1⟩)
  · exact Or.inr (Or.inl ⟨k, hk, hr.1⟩)
  · exact absurd hr id

theorem loop_objects {s : St} (h : Inv s) :
    (s.freed = false → 2 ≤ poolObjs s) ∧ (∀ k, k < s.nw → ((s.w k).deadReg = true ↔ (s.w k).pc ≠ .joined)) ∧
    (∀ k, k < s.nw → ((s.w k).deadOwed = true ↔ (s.w k).pc = .exited)) := by
  refine ⟨?_, fun k hk => (h.wk k hk).dead_reg, fun k hk => (h.wk k hk).dead_owed⟩
  intro hf; simp [poolObjs, hf]


/-! ### a submitter that is neither the owner nor one of the pool's workers (`submitf`) -/

theorem die_ni (s : St) (k : Nat) : (die s k).ni = s.ni := by
  unfold die; split
  · rfl
  · simp only []; split <;> rfl

theorem loopTail_ni (s : St) (k : Nat) : (loopTail s k).ni = s.ni := by
  unfold loopTail
  split
  · split <;> rfl
  · split
    · split
      · split <;> rfl
      · rw [die_ni]
    · rfl

theorem enqueue_ni (s : St) (b : Bool) : (enqueue s b).ni = s.ni + 1 := by
  unfold enqueue
  simp only []
  split
  · rfl
  · split
    · split <;> rfl
    · rfl

theorem enqueue_queue (s : St) (b : Bool) : (enqueue s b).queue = s.queue ++ [s.ni] := by
  unfold enqueue
  simp only []
  split
  · rfl
  · split
    · split <;> rfl
    · rfl

theorem enqueue_new (s : St) (b : Bool) : (enqueue s b).it s.ni = {} := by
  have : (enq0 s).it s.ni = {} := by simp [enq0]
  unfold enqueue
  simp only []
  split
  · exact this
  · split
    · split
      · exact this
      · exact this
    · exact this

/-- items are numbered in submission order and a number is never taken back -/
theorem step_ni_le {s s' : St} {a : Act} (hs : step s a = some s') : s.ni ≤ s'.ni := by
  cases a <;> simp only [step] at hs
  case submit => split at hs <;> simp only [Option.some.injEq, reduceCtorEq] at hs; subst hs; rw [enqueue_ni]; omega
  case submitc => split at hs <;> simp only [Option.some.injEq, reduceCtorEq] at hs; subst hs; rw [enqueue_ni]; omega
  case submitf => split at hs <;> simp only [Option.some.injEq, reduceCtorEq] at hs; subst hs; rw [enqueue_ni]; omega
  case put => split at hs <;> try simp at hs
              split at hs <;> simp at hs <;> subst hs <;> exact Nat.le_refl _
  case wStart => split at hs <;> simp at hs; subst hs; exact Nat.le_refl _
  case wSelfKick => split at hs <;> simp at hs; subst hs; exact Nat.le_refl _
  case wKick => split at hs <;> simp at hs; subst hs; exact Nat.le_refl _
  case wTimeout => split at hs <;> simp at hs; subst hs; exact Nat.le_refl _
  case wExit => split at hs <;> simp at hs; subst hs; exact Nat.le_refl _
  case oJoin => split at hs <;> simp at hs; subst hs; exact Nat.le_refl _
  case oEv => split at hs <;> simp at hs; subst hs; exact Nat.le_refl _
  case oSteal => split at hs <;> simp at hs; subst hs; exact Nat.le_refl _
  case oTn => split at hs <;> simp at hs; subst hs; exact Nat.le_refl _
  case oComplete => split at hs <;> simp only [Option.some.injEq, reduceCtorEq] at hs; subst hs; exact Nat.le_refl _
  case oFinish => split at hs <;> try simp at hs
                  split at hs <;> simp at hs <;> subst hs <;> exact Nat.le_refl _
  case oTnRun => split at hs <;> try simp at hs
                 split at hs <;> simp at hs <;> subst hs <;> exact Nat.le_refl _
  case wTimeoutRun =>
    split at hs <;> try simp at hs
    split at hs
    · split at hs <;> simp at hs <;> subst hs <;> exact Nat.le_refl _
    · simp only [Option.some.injEq] at hs; subst hs; rw [die_ni]; exact Nat.le_refl _
  case wEnter =>
    split at hs <;> try simp at hs
    split at hs
    · simp at hs; subst hs; exact Nat.le_refl _
    · simp only [Option.some.injEq] at hs; subst hs; rw [loopTail_ni]; exact Nat.le_refl _
  case wAfter =>
    split at hs <;> try simp at hs
    split at hs <;> simp only [Option.some.injEq, reduceCtorEq] at hs
    subst hs; rw [loopTail_ni]; exact Nat.le_refl _

theorem reachFrom_inv {s t : St} (h : Inv s) (hr : ReachFrom s t) : Inv t := by
  induction hr with
  | refl => exact h
  | step _ hs ih => exact inv_step ih hs

theorem reachFrom_ni_le {s t : St} (hr : ReachFrom s t) : s.ni ≤ t.ni := by
  induction hr with
  | refl => exact Nat.le_refl _
  | step _ hs ih => exact Nat.le_trans ih (step_ni_le hs)

/-- what a submission from a foreign thread does: the item gets the next number and is appended to `work_items`;
nothing else about the items changes; the pool is still usable (not freed), and either an idle worker was kicked and
marked `kicked`, or `thread_needed` is now owed, or the pool is at `max_threads` with nobody idle -/
theorem submitf_effect {s s' : St} (h : Inv s) (hs : step s .submitf = some s') :
    s.shut = false ∧ s'.ni = s.ni + 1 ∧ s'.queue = s.queue ++ [s.ni] ∧ (s'.it s.ni).phase = .queued ∧
    (s'.it s.ni).workRuns = 0 ∧ s'.nw = s.nw ∧ s'.started = s.started ∧ s'.freed = false ∧
    ((∃ t rest, s.idle = t :: rest ∧ (s'.w t).kicked = true ∧ (s'.w t).kickOwed = true) ∨
     (s.idle = [] ∧ s.started < s.max ∧ s'.tnOwed = true) ∨
     (s.idle = [] ∧ s.started = s.max ∧ s'.tnOwed = s.tnOwed)) := by
  simp only [step] at hs
  split at hs <;> simp only [Option.some.injEq, reduceCtorEq] at hs
  subst hs
  rename_i hh
  have hnf := handle_not_freed h hh
  have hsh : s.shut = false := by
    cases hc : s.shut
    · rfl
    · have := h.handle_shut.1 hh; simp_all
  refine ⟨hsh, enqueue_ni s false, enqueue_queue s false, by rw [enqueue_new], by rw [enqueue_new], ?_, ?_,
    by rw [enqueue_freed]; exact hnf, ?_⟩
  all_goals
    unfold enqueue
    have hidle0 : (enq0 s).idle = s.idle := rfl
    simp only [hidle0]
    split
  · rfl
  · split
    · rfl
    · rfl
  · rfl
  · split
    · rfl
    · rfl
  · rename_i t rest hidle
    exact Or.inl ⟨t, rest, hidle, by simp [setW], by simp [setW]⟩
  · rename_i hidle
    have hidle' : s.idle = [] := hidle
    split
    · rename_i hlt
      exact Or.inr (Or.inl ⟨hidle', hlt, rfl⟩)
    · rename_i hge
      have hle := h.started_le
      have hge' : ¬ s.started < s.max := hge
      exact Or.inr (Or.inr ⟨hidle', by omega, rfl⟩)

/-- an item that is still queued is never forgotten: the pool has not been freed, and a worker is responsible for the
queue, or no worker thread exists and `thread_needed` is owed to (or being handled by) the owner, in which case the
handler will find `idle_threads` empty and `started_threads < max_threads`, i.e. it will start a thread -/
theorem queued_owed {s : St} (h : Inv s) {i : Nat} (hi : i < s.ni) (hp : (s.it i).phase = .queued) :
    s.freed = false ∧
    ((∃ k, k < s.nw ∧ Resp s k) ∨
     (s.started = 0 ∧ s.idle = [] ∧ s.started < s.max ∧ (s.tnOwed = true ∨ s.owner = .tnPre))) := by
  have hm := (h.items i hi).q_iff.1 hp
  have hq : s.queue ≠ [] := by intro he; simp [he] at hm
  have hnf : s.freed = false := by
    cases hf : s.freed
    · rfl
    · exact absurd (h.freed_imp hf).2.2.1 hq
  refine ⟨hnf, ?_⟩
  rcases h.owed hq with hr | hr
  · exact Or.inl hr
  · exact Or.inr ⟨hr.1, idle_empty_of_started_zero h hr.1, by have := h.max_pos; omega, hr.2⟩

/-- no lost foreign continuation: whatever happens after the submission (any interleaving, further submissions, put),
once the library can do nothing more the item has been run once by a worker and completed once by the owner -/
theorem foreign_continuation_runs {s s' t : St} (h : Inv s) (hs : step s .submitf = some s')
    (hr : ReachFrom s' t) (hst : Stuck t) :
    s.ni < t.ni ∧ (t.it s.ni).phase = .completed ∧ (t.it s.ni).workRuns = 1 ∧ (t.it s.ni).complRuns = 1 := by
  have h' := inv_step h hs
  have ht := reachFrom_inv h' hr
  have hni : s'.ni = s.ni + 1 := (submitf_effect h hs).2.1
  have hle := reachFrom_ni_le hr
  have hlt : s.ni < t.ni := by omega
  have hc := no_lost_work ht hst s.ni hlt
  have hii := ht.items s.ni hlt
  refine ⟨hlt, hc, ?_, ?_⟩
  · rw [hii.work_cnt, hc]; simp
  · rw [hii.compl_cnt, hc]; simp

/-- `iv_work_pool_put` leaves an owed `thread_needed` alone -/
theorem put_keeps_tn {s s' : St} (hs : step s .put = some s') : s'.tnOwed = s.tnOwed ∧ s'.queue = s.queue ∧ s'.started = s.started := by
  simp only [step] at hs
  split at hs <;> try simp at hs
  split at hs <;> simp at hs <;> subst hs <;> exact ⟨rfl, rfl, rfl⟩

/-- `iv_work_thread_needed` does not look at `shutting_down`: with nobody idle and room below the maximum it starts a thread -/
theorem tn_starts {s s' : St} (hs : step s .oTnRun = some s') (hi : s.idle = []) (hlt : s.started < s.max) :
    s'.nw = s.nw + 1 ∧ s'.started = s.started + 1 ∧ (s'.w s.nw).pc = .starting ∧ s'.queue = s.queue ∧ s'.shut = s.shut := by
  simp only [step] at hs
  split at hs <;> try simp at hs
  split at hs <;> simp at hs
  · subst hs; simp [startThread]
  · rename_i hc; exact absurd ⟨hi, hlt⟩ hc

theorem shut_queue_owed {s : St} (h : Inv s) (hq : s.queue ≠ []) :
    s.freed = false ∧
    ((∃ k, k < s.nw ∧ Resp s k) ∨
     (s.started = 0 ∧ s.idle = [] ∧ s.started < s.max ∧ (s.tnOwed = true ∨ s.owner = .tnPre))) := by
  cases hqq : s.queue with
  | nil => exact absurd hqq hq
  | cons a l =>
    have ha : a ∈ s.queue := by simp [hqq]
    have hlt := h.queue_lt a ha
    exact queued_owed h hlt ((h.items a hlt).q_iff.2 ha)

/-- no worker thread left but work queued (only a submitter that is not the owner can produce this): the pool is not
freed, `thread_needed` is owed or its handler is running, and the owner's loop has something to do -/
theorem last_worker_gone_tn {s : St} (h : Inv s) (h0 : s.started = 0) (hq : s.queue ≠ []) :
    s.freed = false ∧ (s.tnOwed = true ∨ s.owner = .tnPre) ∧ ¬ Stuck s := by
  have hnf : s.freed = false := (shut_queue_owed h hq).1
  have htn := tn_of_started_zero h h0 hq
  refine ⟨hnf, htn, ?_⟩
  intro hst
  have ho := owner_moves hst
  rcases htn with ht | ht
  · have := hst .oTn rfl; simp [step, ho, ht, hnf] at this
  · simp [ho] at ht

end Proofs
end Ivy.Work
