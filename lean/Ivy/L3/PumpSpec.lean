import Ivy.L3.Pump
/-! Invariant for the C17 theorems. -/
namespace Ivy.Pump

structure Inv (s : St) : Prop where
  stream   : s.src = s.sink ++ s.buf          -- nothing lost, duplicated or reordered
  bytes_eq : s.bytes = s.buf.length
  fin_le   : s.sawFin ≤ 2
  full_rw  : s.splice = false → (s.full = true ↔ s.bytes = BUF_SIZE)
  le_rw    : s.splice = false → s.bytes ≤ BUF_SIZE
  done_emp : s.sawFin = 2 → s.buf = []
  shut_iff : s.shut = true ↔ (s.sawFin = 2 ∧ s.relayEof = true)
  drain_ne : s.sawFin = 1 → s.bytes ≠ 0       -- "EOF seen, still draining" only while something is buffered

/-- a run: the state after a sequence of `pump` calls, each with its own event list, all
returning ≥ 0 (a run ends at the first −1); also the return codes, most recent first. -/
def run (s : St) : List (List Ev) → Option (St × List Int)
  | [] => some (s, [])
  | evs :: rest =>
    match pump s evs with
    | some (s', _, r, []) => if r < 0 then none else
        match run s' rest with
        | some (s'', rs) => some (s'', rs ++ [r])
        | none => none
    | _ => none

def isErrEv : Ev → Bool
  | Ev.rdErr | Ev.wrErr | Ev.wrZero => true
  | _ => false

end Ivy.Pump
