import Ivy.L3.WaitSpec
/-! Proofs for C11 (iv_wait). -/
set_option linter.unusedSimpArgs false
set_option linter.unusedVariables false
namespace Ivy.Wait.Proofs
open Ivy.Wait

/-! ### finite maps -/
@[simp] theorem upd_same {α} (f : Nat → α) (k : Nat) (v : α) : upd f k v k = v := by simp [upd]
@[simp] theorem upd_other {α} (f : Nat → α) (k x : Nat) (v : α) (h : x ≠ k) : upd f k v x = f x := by simp [upd, h]
theorem upd_apply {α} (f : Nat → α) (k x : Nat) (v : α) : upd f k v x = if x = k then v else f x := rfl

@[simp] theorem alookup_nil (k : Nat) : alookup [] k = none := rfl
@[simp] theorem alookup_cons (a b k : Nat) (l : List (Nat × Nat)) :
    alookup ((a, b) :: l) k = if a = k then some b else alookup l k := rfl

@[simp] theorem alookup_aremove (l : List (Nat × Nat)) (k k' : Nat) :
    alookup (aremove l k) k' = if k' = k then none else alookup l k' := by
  induction l with
  | nil => simp [aremove]
  | cons e r ih =>
    obtain ⟨a, b⟩ := e
    unfold aremove at ih ⊢
    simp only [List.filter_cons]
    by_cases hak : a = k <;> by_cases hk : k' = k <;> by_cases h2 : a = k' <;> simp_all

theorem noDead_nil : noDead [] := by intro st h; simp at h
theorem noDead_append {a b : List Status} : noDead (a ++ b) ↔ noDead a ∧ noDead b := by
  simp [noDead, List.mem_append]; constructor
  · intro h; exact ⟨fun st hs => h st (Or.inl hs), fun st hs => h st (Or.inr hs)⟩
  · rintro ⟨h1, h2⟩ st (hs | hs); exact h1 st hs; exact h2 st hs

theorem noDead_single {st : Status} : noDead [st] ↔ st.dead = false := by simp [noDead]

theorem init_inv : Inv State.init := by
  refine ⟨?_, ?_, ?_, ?_⟩ <;> constructor <;> simp [State.init, reapedOf, infl, noDead]

/-! ### frame lemmas: a group of the invariant only reads some components of the state -/
theorem KInv.congr {s s' : State} (h : KInv s) (e1 : s'.procs = s.procs) (e2 : s'.hist = s.hist)
    (e3 : s'.nreaped = s.nreaped) (e4 : s'.ncid = s.ncid) : KInv s' := by
  constructor <;> simp only [reapedOf, e1, e2, e3, e4]
  · exact h.cid_lt
  · exact h.cid_inj
  · exact h.reaped_le
  · exact h.fresh
  · exact h.live_undead
  · exact h.term_last

theorem SInv.congr {s s' : State} (h : SInv s) (e1 : s'.set = s.set) (e2 : s'.procs = s.procs) (e3 : s'.ncid = s.ncid)
    (ei : ∀ w, (s'.ints w).reg = (s.ints w).reg ∧ (s'.ints w).pid = (s.ints w).pid ∧ (s'.ints w).dead = (s.ints w).dead ∧
      (s'.ints w).cid = (s.ints w).cid) : SInv s' := by
  constructor
  · intro p w; simp only [e1, e2, ei w]; exact h.set_sound p w
  · intro w; simp only [e1, ei w]; exact h.set_complete w
  · intro w p; simp only [e2, ei w]; exact h.dead_gone w p
  · intro w; simp only [e3, ei w]; exact h.int_cid_lt w

theorem QInv.congr {s s' : State} (h : QInv s) (e1 : s'.hist = s.hist) (e2 : s'.nreaped = s.nreaped)
    (ei : ∀ w, (s'.ints w).reg = (s.ints w).reg ∧ (s'.ints w).base = (s.ints w).base ∧ (s'.ints w).cid = (s.ints w).cid ∧
      (s'.ints w).queued = (s.ints w).queued ∧ (s'.ints w).dead = (s.ints w).dead ∧ (s'.ints w).spawned = (s.ints w).spawned) :
    QInv s' := by
  constructor
  · intro w; simp only [e2, ei w]; exact h.base_le w
  · intro w; simp only [reapedOf, e1, e2, ei w]; exact h.routed w
  · intro w; simp only [ei w]; exact h.undead_q w
  · intro w; simp only [ei w]; exact h.dead_q w
  · intro w; simp only [ei w]; exact h.spawn_base w

theorem TInv.congr {s s' : State} (h : TInv s) (e1 : s'.ints = s.ints) (e2 : s'.thr = s.thr) (e3 : s'.posting = s.posting)
    (e4 : ∀ w, s'.posting = some w → s'.lock.isSome = true) : TInv s' := by
  constructor
  · simp only [infl, e1, e2]; exact h.split
  · simp only [e1, e2, e3]; exact h.owed_ok
  · simp only [e1, e2]; exact h.started_ok
  · simp only [e1, e2]; exact h.handled_ok
  · exact e4

/-! ### the environment's actions -/
theorem kinv_fork {s : State} (h : KInv s) (pid : Pid) : KInv (kfork s pid) := by
  have ⟨h1, h2, h3, h4, h5, h6⟩ := h
  constructor <;> simp only [kfork, reapedOf, alookup_cons] at *
  · grind
  · grind
  · exact h3
  · grind
  · intro p c; split
    · intro e; have := h4 c (by grind); grind [noDead]
    · exact h5 p c
  · exact h6

theorem sinv_fork {s : State} (h : SInv s) (pid : Pid) (hp : alookup s.procs pid = none) : SInv (kfork s pid) := by
  have ⟨h1, h2, h3, h4⟩ := h
  constructor <;> simp only [kfork, alookup_cons] at *
  · grind
  · exact h2
  · grind
  · grind

theorem inv_fork {s : State} (h : Inv s) (pid : Pid) (hp : alookup s.procs pid = none) : Inv (kfork s pid) :=
  ⟨kinv_fork h.k pid, sinv_fork h.s pid hp, QInv.congr h.q rfl rfl (fun _ => ⟨rfl, rfl, rfl, rfl, rfl, rfl⟩),
   TInv.congr h.t rfl rfl rfl h.t.posting_ok⟩

theorem noDead_of_any {l : List Status} (h : l.any Status.dead = false) : noDead l := by
  intro st hs
  cases hd : st.dead with
  | false => rfl
  | true => have : l.any Status.dead = true := List.any_eq_true.mpr ⟨st, hs, hd⟩; simp [h] at this

theorem inv_childChange {s : State} (h : Inv s) (pid : Pid) (st : Status) (c : Cid) (hc : alookup s.procs pid = some c)
    (hd : (s.hist c).any Status.dead = false) : Inv { s with hist := upd s.hist c (s.hist c ++ [st]) } := by
  have hk := h.k
  have hle := hk.reaped_le c
  refine ⟨?_, ?_, ?_, ?_⟩
  · constructor <;> simp only [reapedOf]
    · exact hk.cid_lt
    · exact hk.cid_inj
    · intro c'; simp only [upd_apply]; split
      · subst c'; simp; omega
      · exact hk.reaped_le c'
    · intro c' hc'
      have := hk.cid_lt pid c hc
      have hne : c' ≠ c := by omega
      simp only [upd_other _ _ _ _ hne]; exact hk.fresh c' hc'
    · intro p c' hp; simp only [upd_apply]; split
      · subst c'; rw [List.take_append_of_le_length hle]; exact hk.live_undead p c hp
      · exact hk.live_undead p c' hp
    · intro c'; simp only [upd_apply]; split
      · subst c'; simp; exact noDead_of_any hd
      · exact hk.term_last c'
  · exact SInv.congr h.s rfl rfl rfl (fun _ => ⟨rfl, rfl, rfl, rfl⟩)
  · have hq := h.q
    constructor
    · exact hq.base_le
    · intro w hr; simp only [reapedOf, upd_apply]; split
      · rename_i e; rw [e, List.take_append_of_le_length hle]; have := hq.routed w hr; simp only [reapedOf, e] at this; exact this
      · exact hq.routed w hr
    · exact hq.undead_q
    · exact hq.dead_q
    · exact hq.spawn_base
  · exact TInv.congr h.t rfl rfl rfl h.t.posting_ok

/-! ### actions that only move things between an interest's queue, its owner's local list and the handler -/

/-- the three groups that do not look at `thr`, `lock`, `posting`, `pending`, `got`, `owed` -/
theorem ksq_congr {s s' : State} (h : Inv s) (e1 : s'.procs = s.procs) (e2 : s'.hist = s.hist) (e3 : s'.nreaped = s.nreaped)
    (e4 : s'.ncid = s.ncid) (e5 : s'.set = s.set)
    (ei : ∀ w, (s'.ints w).reg = (s.ints w).reg ∧ (s'.ints w).pid = (s.ints w).pid ∧ (s'.ints w).dead = (s.ints w).dead ∧
      (s'.ints w).cid = (s.ints w).cid ∧ (s'.ints w).base = (s.ints w).base ∧ (s'.ints w).queued = (s.ints w).queued ∧
      (s'.ints w).spawned = (s.ints w).spawned) (ht : TInv s') : Inv s' :=
  ⟨KInv.congr h.k e1 e2 e3 e4,
   SInv.congr h.s e5 e1 e4 (fun w => ⟨(ei w).1, (ei w).2.1, (ei w).2.2.1, (ei w).2.2.2.1⟩),
   QInv.congr h.q e2 e3 (fun w => ⟨(ei w).1, (ei w).2.2.2.2.1, (ei w).2.2.2.1, (ei w).2.2.2.2.2.1, (ei w).2.2.1, (ei w).2.2.2.2.2.2⟩),
   ht⟩

theorem inv_reapBegin {s : State} (h : Inv s) (t : Tid) : Inv { s with lock := some t } :=
  ksq_congr h rfl rfl rfl rfl rfl (fun _ => ⟨rfl, rfl, rfl, rfl, rfl, rfl, rfl⟩)
    (TInv.congr h.t rfl rfl rfl (fun _ _ => rfl))

theorem inv_reapDone {s : State} (h : Inv s) (hp : s.posting = none) : Inv { s with lock := none } :=
  ksq_congr h rfl rfl rfl rfl rfl (fun _ => ⟨rfl, rfl, rfl, rfl, rfl, rfl, rfl⟩)
    (TInv.congr h.t rfl rfl rfl (fun w hw => by simp [hp] at hw))

theorem inv_kill {s : State} (h : Inv s) (k : List (Pid × Nat)) : Inv { s with kills := k } :=
  ksq_congr h rfl rfl rfl rfl rfl (fun _ => ⟨rfl, rfl, rfl, rfl, rfl, rfl, rfl⟩)
    (TInv.congr h.t rfl rfl rfl h.t.posting_ok)

theorem inv_reapPost {s : State} (h : Inv s) (w : Wid) (hp : s.posting = some w) :
    Inv { s with ints := upd s.ints w { s.ints w with owed := true }, posting := none } := by
  refine ksq_congr h rfl rfl rfl rfl rfl ?_ ?_
  · intro x; simp only [upd_apply]; split <;> simp_all
  · have ⟨t1, t2, t3, t4, t5⟩ := h.t
    constructor
    · intro x; have := t1 x; simp only [infl, upd_apply] at *; split <;> simp_all
    · intro x; have := t2 x; simp only [upd_apply]; grind
    · intro t x; have := t3 t x; simp only [upd_apply] at *; split <;> simp_all
    · intro t x; have := t4 t x; simp only [upd_apply] at *; split <;> simp_all
    · simp

theorem inv_complStart {s : State} (h : Inv s) (t : Tid) (w : Wid) (hc : (s.thr t).comp = .idle)
    (hr : (s.ints w).reg = true) (ho : (s.ints w).owner = t) :
    Inv { s with ints := upd s.ints w { s.ints w with owed := false },
                 thr := upd s.thr t { s.thr t with comp := .started w } } := by
  refine ksq_congr h rfl rfl rfl rfl rfl ?_ ?_
  · intro x; simp only [upd_apply]; split <;> simp_all
  · have ⟨t1, t2, t3, t4, t5⟩ := h.t
    constructor
    · intro x; have := t1 x; simp only [infl, upd_apply] at *; grind
    · intro x; have := t2 x; simp only [upd_apply] at *; grind
    · intro t' x; have := t3 t' x; simp only [upd_apply] at *; grind
    · intro t' x; have := t4 t' x; simp only [upd_apply] at *; grind
    · exact t5


theorem inv_steal {s : State} (h : Inv s) (t : Tid) (w : Wid) (hc : (s.thr t).comp = .started w) :
    Inv { s with ints := upd s.ints w { s.ints w with pending := [] },
                 thr := upd s.thr t { comp := .draining w (s.ints w).pending, handled := some w } } := by
  have ⟨t1, t2, t3, t4, t5⟩ := h.t
  have hw := t3 t w hc
  refine ksq_congr h rfl rfl rfl rfl rfl ?_ ?_
  · intro x; simp only [upd_apply]; split <;> simp_all
  · constructor
    · intro x; have := t1 x; have := t1 w; simp only [infl, upd_apply] at *; grind
    · intro x; have := t2 x; have := t5 x; simp only [upd_apply] at *; grind
    · intro t' x; have := t3 t' x; simp only [upd_apply] at *; grind
    · intro t' x; have := t4 t' x; simp only [upd_apply] at *; grind
    · exact t5

theorem inv_deliver_call {s : State} (h : Inv s) (t : Tid) (w : Wid) (st : Status) (rest : List Status)
    (hc : (s.thr t).comp = .draining w (st :: rest)) (hh : (s.thr t).handled.isSome = true) :
    Inv { s with ints := upd s.ints w { s.ints w with got := (s.ints w).got ++ [st] },
                 thr := upd s.thr t { s.thr t with comp := .draining w rest } } := by
  have ⟨t1, t2, t3, t4, t5⟩ := h.t
  obtain ⟨w', hw'⟩ := Option.isSome_iff_exists.mp hh
  have hw := t4 t w' hw'
  have e : w' = w := by grind
  subst e
  refine ksq_congr h rfl rfl rfl rfl rfl ?_ ?_
  · intro x; simp only [upd_apply]; split <;> simp_all
  · constructor
    · intro x; have := t1 x; simp only [infl, upd_apply] at *; grind
    · intro x; have := t2 x; simp only [upd_apply] at *; grind
    · intro t' x; have := t3 t' x; simp only [upd_apply] at *; grind
    · intro t' x; have := t4 t' x; simp only [upd_apply] at *; grind
    · exact t5

theorem inv_deliver_drop {s : State} (h : Inv s) (t : Tid) (w : Wid) (st : Status) (rest : List Status)
    (hc : (s.thr t).comp = .draining w (st :: rest)) (hh : (s.thr t).handled.isSome = false) :
    Inv { s with thr := upd s.thr t { s.thr t with comp := .draining w rest } } := by
  have ⟨t1, t2, t3, t4, t5⟩ := h.t
  have hn : (s.thr t).handled = none := by simpa using hh
  refine ksq_congr h rfl rfl rfl rfl rfl (fun _ => ⟨rfl, rfl, rfl, rfl, rfl, rfl, rfl⟩) ?_
  constructor
  · intro x; have := t1 x; simp only [infl, upd_apply] at *; grind
  · intro x; have := t2 x; simp only [upd_apply] at *; grind
  · intro t' x; have := t3 t' x; simp only [upd_apply] at *; grind
  · intro t' x; have := t4 t' x; simp only [upd_apply] at *; grind
  · exact t5

theorem inv_complEnd {s : State} (h : Inv s) (t : Tid) (w : Wid) (hc : (s.thr t).comp = .draining w []) :
    Inv { s with thr := upd s.thr t { comp := .idle, handled := none } } := by
  have ⟨t1, t2, t3, t4, t5⟩ := h.t
  refine ksq_congr h rfl rfl rfl rfl rfl (fun _ => ⟨rfl, rfl, rfl, rfl, rfl, rfl, rfl⟩) ?_
  constructor
  · intro x; have := t1 x; simp only [infl, upd_apply] at *; grind
  · intro x; have := t2 x; simp only [upd_apply] at *; grind
  · intro t' x; have := t3 t' x; simp only [upd_apply] at *; grind
  · intro t' x; have := t4 t' x; simp only [upd_apply] at *; grind
  · exact t5

/-! ### the API calls -/

theorem inv_register {s : State} (h : Inv s) (t : Tid) (w : Wid) (pid : Pid) (c : Cid)
    (hr : (s.ints w).reg = false) (hc : alookup s.procs pid = some c) (hs : alookup s.set pid = none) :
    Inv { s with set := (pid, w) :: s.set,
                 ints := upd s.ints w { reg := true, owner := t, pid := pid, pending := [], dead := false, owed := false,
                                        cid := c, base := s.nreaped c, spawned := false, queued := [], got := [] } } := by
  have hk := h.k
  refine ⟨KInv.congr hk rfl rfl rfl rfl, ?_, ?_, ?_⟩
  · have ⟨s1, s2, s3, s4⟩ := h.s
    have := hk.cid_lt pid c hc
    constructor
    · intro p x; have := s1 p x; simp only [alookup_cons, upd_apply]; grind
    · intro x; have := s2 x; simp only [alookup_cons, upd_apply]; grind
    · intro x p; have := s3 x p; simp only [upd_apply]; grind
    · intro x; have := s4 x; simp only [upd_apply]; grind
  · have ⟨q1, q2, q3, q4, q5⟩ := h.q
    constructor
    · intro x; have := q1 x; simp only [upd_apply]; grind
    · intro x; have := q2 x; simp only [reapedOf, upd_apply] at *; split
      · simp
      · exact this
    · intro x; have := q3 x; simp only [upd_apply]; split
      · intros; exact noDead_nil
      · exact this
    · intro x; have := q4 x; simp only [upd_apply]; split
      · simp
      · exact this
    · intro x; have := q5 x; simp only [upd_apply]; split
      · simp
      · exact this
  · have ⟨t1, t2, t3, t4, t5⟩ := h.t
    constructor
    · intro x; have := t1 x; have := t4 t w; simp only [infl, upd_apply] at *; grind
    · intro x; have := t2 x; simp only [upd_apply] at *; grind
    · intro t' x; have := t3 t' x; simp only [upd_apply] at *; grind
    · intro t' x; have := t4 t' x; simp only [upd_apply] at *; grind
    · exact t5


theorem inv_registerSpawn {s : State} (h : Inv s) (t : Tid) (w : Wid) (pid : Pid)
    (hr : (s.ints w).reg = false) (hc : alookup s.procs pid = none) :
    Inv { kfork s pid with
            set := (pid, w) :: (kfork s pid).set,
            ints := upd (kfork s pid).ints w { reg := true, owner := t, pid := pid, pending := [], dead := false, owed := false,
                                               cid := s.ncid, base := 0, spawned := true, queued := [], got := [] } } := by
  have hk := h.k
  have hf := hk.fresh s.ncid (Nat.le_refl _)
  refine ⟨KInv.congr (kinv_fork hk pid) rfl rfl rfl rfl, ?_, ?_, ?_⟩
  · have ⟨s1, s2, s3, s4⟩ := h.s
    constructor
    · intro p x; have := s1 p x; have := s4 x; simp only [kfork, alookup_cons, upd_apply]; grind
    · intro x; have := s2 x; have := s1 pid x; simp only [kfork, alookup_cons, upd_apply]; grind
    · intro x p; have := s3 x p; have := s4 x; simp only [kfork, alookup_cons, upd_apply]; grind
    · intro x; have := s4 x; simp only [kfork, upd_apply]; grind
  · have ⟨q1, q2, q3, q4, q5⟩ := h.q
    constructor
    · intro x; have := q1 x; simp only [kfork, upd_apply]; grind
    · intro x; have := q2 x; simp only [kfork, reapedOf, upd_apply] at *; split
      · simp [hf]
      · exact this
    · intro x; have := q3 x; simp only [kfork, upd_apply]; split
      · intros; exact noDead_nil
      · exact this
    · intro x; have := q4 x; simp only [kfork, upd_apply]; split
      · simp
      · exact this
    · intro x; have := q5 x; simp only [kfork, upd_apply]; split
      · simp
      · exact this
  · have ⟨t1, t2, t3, t4, t5⟩ := h.t
    constructor
    · intro x; have := t1 x; have := t4 t w; simp only [kfork, infl, upd_apply] at *; grind
    · intro x; have := t2 x; simp only [kfork, upd_apply] at *; grind
    · intro t' x; have := t3 t' x; simp only [kfork, upd_apply] at *; grind
    · intro t' x; have := t4 t' x; simp only [kfork, upd_apply] at *; grind
    · exact t5

theorem inv_unregister {s : State} (h : Inv s) (t : Tid) (w : Wid)
    (hr : (s.ints w).reg = true) (ho : (s.ints w).owner = t) (hb : busy s t = false) :
    Inv { s with set := if (s.ints w).dead then s.set else aremove s.set (s.ints w).pid,
                 ints := upd s.ints w { s.ints w with reg := false, pending := [], owed := false },
                 thr := upd s.thr t { s.thr t with handled := if (s.thr t).handled = some w then none else (s.thr t).handled } } := by
  refine ⟨KInv.congr h.k rfl rfl rfl rfl, ?_, ?_, ?_⟩
  · have ⟨s1, s2, s3, s4⟩ := h.s
    constructor
    · intro p x; have := s1 p x; have := s1 p w; have := s2 w
      cases hd : (s.ints w).dead <;> simp only [hd, Bool.false_eq_true, ↓reduceIte, upd_apply, alookup_aremove] <;> grind
    · intro x; have := s2 x; have := s1 (s.ints x).pid w; have := s1 (s.ints x).pid x
      cases hd : (s.ints w).dead <;> simp only [hd, Bool.false_eq_true, ↓reduceIte, upd_apply, alookup_aremove] <;> grind
    · intro x p; have := s3 x p; simp only [upd_apply]; grind
    · intro x; have := s4 x; simp only [upd_apply]; grind
  · have ⟨q1, q2, q3, q4, q5⟩ := h.q
    constructor
    · intro x; have := q1 x; simp only [upd_apply]; grind
    · intro x; have := q2 x; simp only [reapedOf, upd_apply] at *; grind
    · intro x; have := q3 x; simp only [upd_apply]; grind
    · intro x; have := q4 x; simp only [upd_apply]; grind
    · intro x; have := q5 x; simp only [upd_apply]; grind
  · have ⟨t1, t2, t3, t4, t5⟩ := h.t
    simp only [busy] at hb
    constructor
    · intro x; have := t1 x; have := t4 t x; simp only [infl, upd_apply] at *; grind
    · intro x; have := t2 x; simp only [upd_apply] at *; grind
    · intro t' x; have := t3 t' x; simp only [upd_apply] at *; grind
    · intro t' x; have := t4 t' x; simp only [upd_apply] at *; grind
    · exact t5

/-! ### the SIGCHLD drain loop -/

theorem upd_upd {α} (f : Nat → α) (k : Nat) (a b : α) : upd (upd f k a) k b = upd f k b := by
  funext x; simp only [upd]; split <;> rfl

theorem reapLib_none {s : State} {pid : Pid} {st : Status} (h : alookup s.set pid = none) : reapLib s pid st = s := by
  simp [reapLib, h]

theorem reapLib_some {s : State} {pid : Pid} {st : Status} {w : Wid} (h : alookup s.set pid = some w) :
    reapLib s pid st =
      { s with set := if st.dead then aremove s.set pid else s.set,
               ints := upd s.ints w { s.ints w with pending := (s.ints w).pending ++ [st], queued := (s.ints w).queued ++ [st],
                                                    dead := if st.dead then true else (s.ints w).dead },
               posting := some w } := by
  cases hd : st.dead <;> simp [reapLib, h, hd, upd_upd]

/-- a registered interest attached to a child whose pid is still in use is the one the set holds for that pid -/
theorem set_of_cid {s : State} (h : Inv s) {pid : Pid} {c : Cid} {x : Wid} (hc : alookup s.procs pid = some c)
    (hr : (s.ints x).reg = true) (he : (s.ints x).cid = c) : alookup s.set pid = some x := by
  cases hd : (s.ints x).dead with
  | true => exact absurd (he ▸ hc) (h.s.dead_gone x pid hr hd)
  | false =>
    have h1 := h.s.set_complete x hr hd
    have h2 := (h.s.set_sound _ _ h1).2.2.2
    have : (s.ints x).pid = pid := h.k.cid_inj _ _ c (he ▸ h2) hc
    rw [← this]; exact h1

theorem take_succ_get {l : List Status} {n : Nat} {st : Status} (h : l[n]? = some st) : l.take (n + 1) = l.take n ++ [st] := by
  rw [List.take_add_one, h]; rfl

/-- kernel half of a reap: the status is consumed, a terminal one frees the pid -/
def kreap (s : State) (pid : Pid) (c : Cid) (st : Status) : State :=
  { s with nreaped := upd s.nreaped c (s.nreaped c + 1), procs := if st.dead then aremove s.procs pid else s.procs }

theorem kinv_kreap {s : State} (h : KInv s) {pid : Pid} {c : Cid} {st : Status} (hc : alookup s.procs pid = some c)
    (hg : (s.hist c)[s.nreaped c]? = some st) : KInv (kreap s pid c st) := by
  have ⟨h1, h2, h3, h4, h5, h6⟩ := h
  have hlt : s.nreaped c < (s.hist c).length := by
    have := List.getElem?_eq_some_iff.mp hg; obtain ⟨hl, _⟩ := this; exact hl
  have hcl := h1 pid c hc
  constructor
  · intro p c'; have := h1 p c'; cases hd : st.dead <;> simp only [kreap, hd, Bool.false_eq_true, ↓reduceIte, alookup_aremove] <;> grind
  · intro p p' c'; have := h2 p p' c'; cases hd : st.dead <;> simp only [kreap, hd, Bool.false_eq_true, ↓reduceIte, alookup_aremove] <;> grind
  · intro c'; have := h3 c'; simp only [kreap, upd_apply]; grind
  · intro c' hc'; have := h4 c' hc'; simp only [kreap, upd_apply] at *; grind
  · intro p c'
    have h5' := h5 p c'
    have hinj := h2 p pid c'
    cases hd : st.dead <;> simp only [kreap, reapedOf, hd, Bool.false_eq_true, ↓reduceIte, alookup_aremove, upd_apply] at h5' ⊢
    · intro hp
      split
      · rename_i e; subst e
        rw [take_succ_get hg, noDead_append]
        exact ⟨h5' hp, noDead_single.mpr hd⟩
      · exact h5' hp
    · split
      · intro hp; simp at hp
      · intro hp
        have hne : c' ≠ c := by
          intro e; subst e; exact absurd (hinj hp hc) (by assumption)
        simp only [hne, ↓reduceIte]; exact h5' hp
  · exact h6


theorem inv_reap_stranger {s : State} (h : Inv s) {pid : Pid} {c : Cid} {st : Status} (hc : alookup s.procs pid = some c)
    (hg : (s.hist c)[s.nreaped c]? = some st) (hn : alookup s.set pid = none) : Inv (kreap s pid c st) := by
  have hnone : ∀ x, (s.ints x).reg = true → (s.ints x).cid ≠ c := by
    intro x hr he; have := set_of_cid h hc hr he; simp [hn] at this
  refine ⟨kinv_kreap h.k hc hg, ?_, ?_, TInv.congr h.t rfl rfl rfl h.t.posting_ok⟩
  · have ⟨s1, s2, s3, s4⟩ := h.s
    constructor
    · intro p x; have := s1 p x; cases hd : st.dead <;> simp only [kreap, hd, Bool.false_eq_true, ↓reduceIte, alookup_aremove] <;> grind
    · exact s2
    · intro x p; have := s3 x p; cases hd : st.dead <;> simp only [kreap, hd, Bool.false_eq_true, ↓reduceIte, alookup_aremove] <;> grind
    · exact s4
  · have ⟨q1, q2, q3, q4, q5⟩ := h.q
    constructor
    · intro x hr; have := q1 x hr; have := hnone x hr; simp only [kreap, upd_apply]; grind
    · intro x hr; have := q2 x hr; have := hnone x hr; simp only [kreap, reapedOf, upd_apply] at *; grind
    · exact q3
    · exact q4
    · exact q5


theorem inv_reap_interest {s : State} (h : Inv s) {pid : Pid} {c : Cid} {st : Status} {w : Wid} {t : Tid}
    (hc : alookup s.procs pid = some c) (hg : (s.hist c)[s.nreaped c]? = some st) (hw : alookup s.set pid = some w)
    (hl : s.lock = some t) (hp : s.posting = none) :
    Inv { kreap s pid c st with
            set := if st.dead then aremove s.set pid else s.set,
            ints := upd s.ints w { s.ints w with pending := (s.ints w).pending ++ [st], queued := (s.ints w).queued ++ [st],
                                                 dead := if st.dead then true else (s.ints w).dead },
            posting := some w } := by
  have ⟨w1, w2, w3, w4⟩ := h.s.set_sound pid w hw
  have hcw : (s.ints w).cid = c := by rw [hc] at w4; exact (Option.some.inj w4).symm
  have honly : ∀ x, (s.ints x).reg = true → (s.ints x).cid = c → x = w := by
    intro x hr he; have := set_of_cid h hc hr he; rw [hw] at this; exact (Option.some.inj this).symm
  have hlt : s.nreaped c < (s.hist c).length := (List.getElem?_eq_some_iff.mp hg).1
  have hinj := h.k.cid_inj
  refine ⟨KInv.congr (kinv_kreap h.k hc hg) rfl rfl rfl rfl, ?_, ?_, ?_⟩
  · have ⟨s1, s2, s3, s4⟩ := h.s
    constructor
    · intro p x; have := s1 p x; have := s1 p w
      cases hd : st.dead <;> simp only [kreap, hd, Bool.false_eq_true, ↓reduceIte, alookup_aremove, upd_apply] <;> grind
    · intro x; have := s2 x; have := s1 (s.ints x).pid x
      cases hd : st.dead <;> simp only [kreap, hd, Bool.false_eq_true, ↓reduceIte, alookup_aremove, upd_apply] <;> grind
    · intro x p; have := s3 x p; have := hinj p pid c
      cases hd : st.dead <;> simp only [kreap, hd, Bool.false_eq_true, ↓reduceIte, alookup_aremove, upd_apply] <;> grind
    · intro x; have := s4 x; simp only [kreap, upd_apply]; grind
  · have ⟨q1, q2, q3, q4, q5⟩ := h.q
    constructor
    · intro x; have := q1 x; have := honly x; simp only [kreap, upd_apply]; grind
    · intro x hr
      simp only [kreap, reapedOf, upd_apply] at hr ⊢
      by_cases hx : x = w
      · subst hx
        have hq := q2 x w1; have hb := q1 x w1
        simp only [reapedOf, hcw] at hq hb
        simp only [↓reduceIte, hcw, take_succ_get hg, hq]
        rw [List.drop_append_of_le_length (by rw [List.length_take]; omega)]
      · have hr' : (s.ints x).reg = true := by simpa [hx] using hr
        have hne : (s.ints x).cid ≠ c := fun he => hx (honly x hr' he)
        have := q2 x hr'
        simp only [reapedOf] at this
        simp only [hx, ↓reduceIte, hne]; exact this
    · intro x; have := q3 x; have := q3 w w1 w3
      cases hd : st.dead <;> simp only [kreap, hd, Bool.false_eq_true, ↓reduceIte, upd_apply]
      · split
        · intro _ _; rw [noDead_append]; exact ⟨by assumption, noDead_single.mpr hd⟩
        · assumption
      · split
        · intro _ hh; simp at hh
        · assumption
    · intro x; have := q4 x; have hu := q3 w w1 w3
      cases hd : st.dead <;> simp only [kreap, hd, Bool.false_eq_true, ↓reduceIte, upd_apply]
      · split
        · intro _ hh; rw [w3] at hh; simp at hh
        · assumption
      · split
        · intro _ _; exact ⟨_, st, rfl, hd, hu⟩
        · assumption
    · intro x; have := q5 x; simp only [kreap, upd_apply]; grind
  · have ⟨t1, t2, t3, t4, t5⟩ := h.t
    constructor
    · intro x; have := t1 x; simp only [kreap, infl, upd_apply] at *; grind
    · intro x; have := t2 x; simp only [kreap, upd_apply] at *; grind
    · intro t' x; have := t3 t' x; simp only [kreap, upd_apply] at *; grind
    · intro t' x; have := t4 t' x; simp only [kreap, upd_apply] at *; grind
    · intro x _; simp [kreap, hl]

/-! ### every enabled action preserves the invariant -/
theorem step_inv {s s' : State} (a : Action) (h : Inv s) (hs : step s a = some s') : Inv s' := by
  cases a with
  | fork pid =>
    simp only [step] at hs
    split at hs
    · simp at hs
    · rename_i hn; injection hs with hs; subst hs
      exact inv_fork h pid (by simpa using hn)
  | childChange pid st =>
    simp only [step] at hs
    split at hs
    · simp at hs
    · rename_i c hc
      split at hs
      · simp at hs
      · rename_i hd; injection hs with hs; subst hs
        exact inv_childChange h pid st c hc (by simpa using hd)
  | reapBegin t =>
    simp only [step] at hs
    split at hs
    · simp at hs
    · injection hs with hs; subst hs; exact inv_reapBegin h t
  | reapOne t pid st =>
    simp only [step] at hs
    split at hs
    · simp at hs
    · rename_i hg
      simp only [Bool.or_eq_true, decide_eq_true_eq, not_or] at hg
      obtain ⟨hl, hp⟩ := hg
      split at hs
      · simp at hs
      · rename_i c hc
        split at hs
        · simp at hs
        · rename_i hget
          have hget : (s.hist c)[s.nreaped c]? = some st := by simpa using hget
          have hl : s.lock = some t := by simpa using hl
          have hp : s.posting = none := by simpa using hp
          injection hs with hs; subst hs
          cases hw : alookup s.set pid with
          | none =>
            have : alookup (kreap s pid c st).set pid = none := hw
            rw [show ({ s with nreaped := upd s.nreaped c (s.nreaped c + 1), procs := if st.dead then aremove s.procs pid else s.procs } : State) = kreap s pid c st from rfl, reapLib_none this]
            exact inv_reap_stranger h hc hget hw
          | some w =>
            have : alookup (kreap s pid c st).set pid = some w := hw
            rw [show ({ s with nreaped := upd s.nreaped c (s.nreaped c + 1), procs := if st.dead then aremove s.procs pid else s.procs } : State) = kreap s pid c st from rfl, reapLib_some this]
            exact inv_reap_interest h hc hget hw hl hp
  | reapPost t =>
    simp only [step] at hs
    split at hs
    · simp at hs
    · split at hs
      · rename_i w hw; injection hs with hs; subst hs; exact inv_reapPost h w hw
      · simp at hs
  | reapDone t =>
    simp only [step] at hs
    split at hs
    · simp at hs
    · rename_i hg
      simp only [Bool.or_eq_true, decide_eq_true_eq, not_or] at hg
      split at hs
      · injection hs with hs; subst hs; exact inv_reapDone h (by simpa using hg.2)
      · simp at hs
  | register t w pid =>
    simp only [step] at hs
    split at hs
    · simp at hs
    · rename_i hg
      simp only [Bool.or_eq_true, not_or] at hg
      split at hs
      · simp at hs
      · rename_i c hc
        split at hs
        · simp at hs
        · rename_i hn; injection hs with hs; subst hs
          exact inv_register h t w pid c (by simpa using hg.2) hc (by simpa using hn)
  | registerSpawn t w pid =>
    simp only [step] at hs
    split at hs
    · simp at hs
    · rename_i hg
      simp only [Bool.or_eq_true, not_or] at hg
      split at hs
      · simp at hs
      · rename_i hn; injection hs with hs; subst hs
        exact inv_registerSpawn h t w pid (by simpa using hg.2) (by simpa using hn)
  | spawnFail t w =>
    simp only [step] at hs
    split at hs
    · simp at hs
    · injection hs with hs; subst hs; exact h
  | unregister t w =>
    simp only [step] at hs
    split at hs
    · simp at hs
    · rename_i hg
      simp only [Bool.or_eq_true, not_or, decide_eq_true_eq, Bool.not_eq_true'] at hg
      injection hs with hs; subst hs
      exact inv_unregister h t w (by simpa using hg.1.2) (by simpa using hg.2) (by simpa using hg.1.1.2)
  | kill t w sig =>
    simp only [step] at hs
    split at hs
    · simp at hs
    · split at hs
      · injection hs with hs; subst hs; exact inv_kill h _
      · injection hs with hs; subst hs; exact h
  | complStart t w =>
    simp only [step] at hs
    split at hs
    · rename_i hc
      split at hs
      · rename_i hg
        simp only [Bool.and_eq_true, decide_eq_true_eq] at hg
        injection hs with hs; subst hs
        exact inv_complStart h t w hc hg.1.1 hg.2
      · simp at hs
    · simp at hs
  | steal t =>
    simp only [step] at hs
    split at hs
    · simp at hs
    · split at hs
      · rename_i w hc; injection hs with hs; subst hs; exact inv_steal h t w hc
      · simp at hs
  | deliver t =>
    simp only [step] at hs
    split at hs
    · rename_i w st rest hc
      split at hs
      · rename_i hh; injection hs with hs; subst hs; exact inv_deliver_call h t w st rest hc hh
      · rename_i hh; injection hs with hs; subst hs; exact inv_deliver_drop h t w st rest hc (by simpa using hh)
    · simp at hs
  | complEnd t =>
    simp only [step] at hs
    split at hs
    · rename_i w hc; injection hs with hs; subst hs; exact inv_complEnd h t w hc
    · simp at hs

/-! ### all interleavings -/
theorem run_inv {s s' : State} (acts : List Action) (h : Inv s) (hr : run s acts = some s') : Inv s' := by
  induction acts generalizing s with
  | nil => simp [run] at hr; subst hr; exact h
  | cons a as ih =>
    simp only [run] at hr
    split at hr
    · rename_i s1 h1; exact ih (step_inv a h h1) hr
    · simp at hr

theorem reachable_inv {s : State} (h : Reachable s) : Inv s := by
  obtain ⟨acts, hr⟩ := h; exact run_inv acts init_inv hr

theorem reachable_step {s s' : State} (a : Action) (h : Reachable s) (hs : step s a = some s') : Reachable s' := by
  obtain ⟨acts, hr⟩ := h
  refine ⟨acts ++ [a], ?_⟩
  have : ∀ (s0 : State) (l : List Action), run s0 l = some s → run s0 (l ++ [a]) = some s' := by
    intro s0 l
    induction l generalizing s0 with
    | nil => intro h0; simp only [run] at h0; injection h0 with h0; subst h0; simp [run, hs]
    | cons b bs ih =>
      intro h0
      cases hb : step s0 b with
      | none => simp [run, hb] at h0
      | some s1 =>
        simp only [run, hb, List.cons_append] at h0 ⊢
        exact ih s1 h0
  exact this _ _ hr

/-! ### C11: routing -/
theorem routing_step {s s' : State} {t : Tid} {pid : Pid} {st : Status} {w : Wid}
    (hs : step s (.reapOne t pid st) = some s') (hw : alookup s.set pid = some w) :
    (s'.ints w).pending = (s.ints w).pending ++ [st] ∧ (s'.ints w).queued = (s.ints w).queued ++ [st] ∧
    s'.posting = some w ∧ (∀ x, x ≠ w → s'.ints x = s.ints x) ∧ s'.thr = s.thr := by
  simp only [step] at hs
  split at hs
  · simp at hs
  · split at hs
    · simp at hs
    · rename_i c hc
      split at hs
      · simp at hs
      · injection hs with hs; subst hs
        have : alookup ({ s with nreaped := upd s.nreaped c (s.nreaped c + 1), procs := if st.dead then aremove s.procs pid else s.procs } : State).set pid = some w := hw
        rw [reapLib_some this]
        refine ⟨by simp, by simp, rfl, ?_, rfl⟩
        intro x hx; simp [upd_apply, hx]

theorem queue_is_history {s : State} (h : Reachable s) {w : Wid} (hr : (s.ints w).reg = true) :
    (s.ints w).queued = (reapedOf s (s.ints w).cid).drop (s.ints w).base ∧
    (s.ints w).queued = (s.ints w).got ++ infl s w ++ (s.ints w).pending :=
  ⟨(reachable_inv h).q.routed w hr, (reachable_inv h).t.split w hr⟩

theorem delivered_in_order {s : State} (h : Reachable s) {w : Wid} (hr : (s.ints w).reg = true) :
    (s.ints w).got <+: (s.hist (s.ints w).cid).drop (s.ints w).base := by
  have ⟨h1, h2⟩ := queue_is_history h hr
  have p1 : (s.ints w).got <+: (s.ints w).queued := by
    rw [h2, List.append_assoc]; exact List.prefix_append _ _
  have p2 : (s.ints w).queued <+: (s.hist (s.ints w).cid).drop (s.ints w).base := by
    rw [h1, reapedOf, List.drop_take]; exact List.take_prefix _ _
  exact p1.trans p2

theorem deliver_owner {s : State} (h : Reachable s) {t : Tid} {w : Wid} {st : Status} (hd : deliverCall s t = some (w, st)) :
    (s.ints w).reg = true ∧ (s.ints w).owner = t ∧ ∃ rest, infl s w = st :: rest := by
  have ht := (reachable_inv h).t
  simp only [deliverCall] at hd
  split at hd
  · rename_i w' st' rest hc
    split at hd
    · rename_i hh
      obtain ⟨x, hx⟩ := Option.isSome_iff_exists.mp hh
      have ⟨a, b, l, c⟩ := ht.handled_ok t x hx
      have e : x = w' := by rw [hc] at c; injection c with c1 c2; exact c1.symm
      subst e
      injection hd with hd; injection hd with e1 e2; subst e1; subst e2
      refine ⟨a, b, rest, ?_⟩
      simp [infl, b, hc, hx]
    · simp at hd
  · simp at hd

theorem deliver_step {s s' : State} {t : Tid} {w : Wid} {st : Status} (hd : deliverCall s t = some (w, st))
    (hs : step s (.deliver t) = some s') : (s'.ints w).got = (s.ints w).got ++ [st] ∧ ∀ x, x ≠ w → s'.ints x = s.ints x := by
  simp only [deliverCall] at hd
  simp only [step] at hs
  split at hd
  · rename_i w' st' rest hc
    rw [hc] at hs
    split at hd
    · rename_i hh
      injection hd with hd; injection hd with e1 e2; subst e1; subst e2
      simp only [hh, ↓reduceIte] at hs
      injection hs with hs; subst hs
      refine ⟨by simp, fun x hx => by simp [upd_apply, hx]⟩
    · simp at hd
  · simp at hd

theorem silent_deliver {s s' : State} {t : Tid} (hd : deliverCall s t = none) (hs : step s (.deliver t) = some s') :
    s'.ints = s.ints := by
  simp only [deliverCall] at hd
  simp only [step] at hs
  split at hs
  · rename_i w st rest hc
    simp only [hc] at hd
    split at hs
    · rename_i hh; simp [hh] at hd
    · injection hs with hs; subst hs; rfl
  · simp at hs

/-! ### C11: the terminating status once and last -/
theorem noDead_dropLast_of_prefix {a b : List Status} (hp : a <+: b) (hb : noDead b.dropLast) : noDead a.dropLast := by
  obtain ⟨r, rfl⟩ := hp
  cases r with
  | nil => simpa using hb
  | cons x xs =>
    rw [List.dropLast_append_of_ne_nil (by simp)] at hb
    intro st hs
    exact hb st (List.mem_append_left _ (List.dropLast_subset _ hs))

theorem terminal_once_last {s : State} (h : Reachable s) {w : Wid} (hr : (s.ints w).reg = true) :
    noDead (s.ints w).queued.dropLast ∧ noDead (s.ints w).got.dropLast ∧
    ((s.ints w).dead = true ↔ ∃ d, (s.ints w).queued.getLast? = some d ∧ d.dead = true) ∧
    ((s.ints w).dead = true → ∀ p, alookup s.set p ≠ some w) := by
  have hi := reachable_inv h
  have hq : noDead (s.ints w).queued.dropLast ∧
      ((s.ints w).dead = true ↔ ∃ d, (s.ints w).queued.getLast? = some d ∧ d.dead = true) := by
    cases hd : (s.ints w).dead with
    | false =>
      have := hi.q.undead_q w hr hd
      refine ⟨fun st hs => this st (List.dropLast_subset _ hs), ?_⟩
      simp only [Bool.false_eq_true, false_iff, not_exists, not_and]
      intro d hl; have := this d (List.mem_of_getLast? hl); simp [this]
    | true =>
      obtain ⟨q, d, e, dd, nq⟩ := hi.q.dead_q w hr hd
      rw [e]
      refine ⟨by simpa using nq, ?_⟩
      simp [dd]
  refine ⟨hq.1, ?_, hq.2, ?_⟩
  · have p1 : (s.ints w).got <+: (s.ints w).queued := by
      rw [(queue_is_history h hr).2, List.append_assoc]; exact List.prefix_append _ _
    exact noDead_dropLast_of_prefix p1 hq.1
  · intro hd p hp
    have := (hi.s.set_sound p w hp).2.2.1
    rw [hd] at this; simp at this

/-! ### C11: a child spawned through the library is never missed -/
theorem spawn_never_missed {s : State} (h : Reachable s) {w : Wid} (hr : (s.ints w).reg = true)
    (hsp : (s.ints w).spawned = true) :
    s.hist (s.ints w).cid = (s.ints w).queued ++ unreapedOf s (s.ints w).cid ∧
    (s.ints w).queued = (s.ints w).got ++ infl s w ++ (s.ints w).pending ∧
    ((s.ints w).pending ≠ [] → (s.ints w).owed = true ∨ (s.thr (s.ints w).owner).comp = .started w ∨ s.posting = some w) := by
  have hi := reachable_inv h
  have hb := hi.q.spawn_base w hr hsp
  have h1 := hi.q.routed w hr
  rw [hb, List.drop_zero] at h1
  refine ⟨?_, hi.t.split w hr, hi.t.owed_ok w hr⟩
  rw [h1, reapedOf, unreapedOf, List.take_append_drop]

theorem spawn_atomic {s s' : State} (h : Reachable s) {t : Tid} {w : Wid} {pid : Pid}
    (hs : step s (.registerSpawn t w pid) = some s') :
    alookup s'.set pid = some w ∧ alookup s'.procs pid = some (s'.ints w).cid ∧ s'.hist (s'.ints w).cid = [] ∧
    (s'.ints w).reg = true ∧ (s'.ints w).spawned = true ∧ (s'.ints w).owner = t ∧ (s'.ints w).pid = pid := by
  have hf := (reachable_inv h).k.fresh s.ncid (Nat.le_refl _)
  simp only [step] at hs
  split at hs
  · simp at hs
  · split at hs
    · simp at hs
    · injection hs with hs; subst hs
      simp [kfork, hf]

/-! ### C11: children nobody is interested in -/
theorem stranger_harmless {s : State} (h : Reachable s) {t : Tid} {pid : Pid} {c : Cid} {st : Status}
    (hl : s.lock = some t) (hp : s.posting = none) (hc : alookup s.procs pid = some c)
    (hg : (s.hist c)[s.nreaped c]? = some st) (hn : alookup s.set pid = none) :
    ∃ s', step s (.reapOne t pid st) = some s' ∧ s'.set = s.set ∧ s'.ints = s.ints ∧ s'.thr = s.thr ∧
      s'.posting = none ∧ s'.lock = s.lock ∧ s'.kills = s.kills ∧ Inv s' := by
  have hstep : step s (.reapOne t pid st) = some (kreap s pid c st) := by
    have hk : alookup (kreap s pid c st).set pid = none := hn
    simp only [step]
    split
    · rename_i h0; simp [hl, hp] at h0
    · split
      · rename_i h0; rw [hc] at h0; simp at h0
      · rename_i c' hc'
        have e : c' = c := by rw [hc] at hc'; injection hc' with e; exact e.symm
        subst e
        split
        · rename_i h0; exact absurd hg h0
        · exact congrArg some (reapLib_none hk)
  exact ⟨_, hstep, rfl, rfl, rfl, hp, rfl, rfl, inv_reap_stranger (reachable_inv h) hc hg hn⟩

theorem d1_prerepair_faults {s : State} {pid : Pid} {st : Status} (hn : alookup s.set pid = none) (hd : st.dead = true) :
    reapLibD1 s pid st = none := by simp [reapLibD1, hn, hd]

theorem d1_prerepair_same_otherwise {s : State} {pid : Pid} {st : Status} (h : alookup s.set pid ≠ none ∨ st.dead = false) :
    reapLibD1 s pid st = some (reapLib s pid st) := by
  cases hw : alookup s.set pid with
  | some w => simp [reapLibD1, hw]
  | none =>
    cases h with
    | inl h => exact absurd hw h
    | inr h => simp [reapLibD1, hw, h, reapLib_none hw]

/-! ### C11: the kill helper -/
theorem kill_never_after_reap {s : State} (h : Reachable s) {w : Wid} (hr : (s.ints w).reg = true) :
    ((s.ints w).dead = false ↔ alookup s.procs (s.ints w).pid = some (s.ints w).cid) ∧
    (∀ p, killTarget s w = some p → p = (s.ints w).pid ∧ alookup s.procs p = some (s.ints w).cid) ∧
    (killTarget s w = none ↔ (s.ints w).dead = true) := by
  have hi := reachable_inv h
  have key : (s.ints w).dead = false → alookup s.procs (s.ints w).pid = some (s.ints w).cid := fun hd =>
    (hi.s.set_sound _ _ (hi.s.set_complete w hr hd)).2.2.2
  refine ⟨⟨key, ?_⟩, ?_, ?_⟩
  · intro hp
    cases hd : (s.ints w).dead with
    | false => rfl
    | true => exact absurd hp (hi.s.dead_gone w _ hr hd)
  · intro p hk
    simp only [killTarget] at hk
    split at hk
    · simp at hk
    · rename_i hd; injection hk with hk; subst hk
      exact ⟨rfl, key (by simpa using hd)⟩
  · simp only [killTarget]; split <;> simp_all

theorem kill_step {s s' : State} (h : Reachable s) {t : Tid} {w : Wid} {sig : Nat} (hs : step s (.kill t w sig) = some s') :
    (s'.kills = s.kills ∧ (s.ints w).dead = true ∧ killRet s w = -3) ∨
    (s'.kills = ((s.ints w).pid, sig) :: s.kills ∧ alookup s.procs (s.ints w).pid = some (s.ints w).cid ∧ killRet s w = 0) := by
  simp only [step] at hs
  split at hs
  · simp at hs
  · rename_i hg
    simp only [Bool.or_eq_true, not_or, Bool.not_eq_true'] at hg
    have hr : (s.ints w).reg = true := by simpa using hg.2
    have hk := kill_never_after_reap h hr
    split at hs
    · rename_i p hp
      injection hs with hs; subst hs
      have := hk.2.1 p hp
      right
      refine ⟨by rw [this.1], by rw [← this.1]; exact this.2, ?_⟩
      have hd : (s.ints w).dead = false := by
        cases hd : (s.ints w).dead with
        | false => rfl
        | true => have := hk.2.2.mpr hd; rw [hp] at this; simp at this
      simp [killRet, hd]
    · rename_i hp
      injection hs with hs; subst hs
      left
      have hd := hk.2.2.mp hp
      exact ⟨rfl, hd, by simp [killRet, hd]⟩

end Ivy.Wait.Proofs
