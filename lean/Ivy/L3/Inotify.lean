/-
Model of /repo/src/iv_inotify.c.

Memory objects (the user's `struct iv_inotify` / `struct iv_inotify_watch`) are named by
natural numbers; a name is never reused for a new object.  The per-instance AVL tree
`watches` (ordered by watch descriptor; the AVL layer itself is C16) is the association
list `tree : List (wd × watch)`, in which a descriptor occurs at most once.

`iv_inotify_got_event` is small-step: the input `gotEvent` performs the reads and walks the
buffer up to the first record that has a watch; the handler call is the output `call`;
whatever the handler does arrives as further inputs (`watchRegister`, `watchUnregister`,
`instUnregister`, …); `handlerEnd` resumes the walk.  The buffer is indexed by BYTE OFFSET
(`Buf`), and the walk advances by `event->len + sizeof(struct inotify_event)` exactly as
the C does: the model has no other way to find the next record.  The C's
`this->term = &this` / `*this->term = NULL` mechanism is `Inst.term` / `Walk.this`;
`iv_inotify_register` sets `term = NULL` (since /repo 86799af; before that it was left
uninitialised, defect D6, regression scenario corpus/C20/d6-uninit-term.ops).

Where the C would touch freed memory, store through a garbage pointer, hand a node that is
not in the tree to `iv_avl_tree_delete`, or interpret name bytes as a record header, the
model returns `Res.fault`.  The user's structures are released as early as the API permits:
an instance counts as freed as soon as `iv_inotify_unregister` returns (`registered = false`).

Not modelled: the iv_fd layer underneath (C01–C04), nested invocations of the fd handler
from inside a watch handler, a handler that overwrites the event buffer it is given.
-/
namespace Ivy.Inotify

/-- sizeof(struct inotify_event), IN_IGNORED, IN_ONESHOT; the harness prints the values of the
build (`CONST` line) and the driver compares. -/
def EVSZ : Nat := 16
def IN_IGNORED : Nat := 0x8000
def IN_ONESHOT : Nat := 0x80000000

/-- header of one `struct inotify_event`; `len` bytes of name follow it -/
structure Rec where
  wd : Int
  mask : Nat
  cookie : Nat
  len : Nat
deriving Repr, DecidableEq

/-- what a read returned: the record header that starts at a given byte offset -/
abbrev Buf := List (Nat × Rec)

def recAt (b : Buf) (off : Nat) : Option Rec := b.lookup off

/-- the kernel's layout of a sequence of records starting at byte offset `off` -/
def layout (off : Nat) : List Rec → Buf
  | [] => []
  | r :: rs => (off, r) :: layout (off + r.len + EVSZ) rs

def size : List Rec → Nat
  | [] => 0
  | r :: rs => r.len + EVSZ + size rs

/-- `this->term` -/
inductive Term where
  | null
  | frame    -- points to the local `this` of the running `iv_inotify_got_event`
deriving Repr, DecidableEq

structure WInfo where
  inst : Nat          -- w->inotify
  wd : Int
  mask : Nat
  freed : Bool
deriving Repr, DecidableEq

structure Inst where
  fd : Int
  registered : Bool   -- false: unregistered, memory released
  tree : List (Int × Nat)
  term : Term
deriving Repr, DecidableEq

/-- the frame of `iv_inotify_got_event` while a watch handler runs -/
structure Walk where
  inst : Nat              -- ghost: the instance the walk started on
  this : Option Nat       -- the local `this`; `none` = NULL
  buf : Buf
  endOff : Nat
  curr : Nat              -- offset of the record whose handler is running
  len : Nat               -- its `len` field
deriving Repr, DecidableEq

structure St where
  insts : Nat → Option Inst
  ws : Nat → Option WInfo
  walk : Option Walk

def St.init : St := { insts := fun _ => none, ws := fun _ => none, walk := none }

def St.setInst (s : St) (i : Nat) (x : Inst) : St :=
  { s with insts := fun k => if k = i then some x else s.insts k }

def St.setW (s : St) (w : Nat) (x : WInfo) : St :=
  { s with ws := fun k => if k = w then some x else s.ws k }

inductive ReadRes where
  | eagain
  | data (recs : List Rec)     -- the read returned `size recs` bytes: these records, laid out by the kernel
deriving Repr, DecidableEq

inductive In where
  | instRegister (i : Nat) (fd : Int)                    -- `fd`: result of inotify_init()
  | instUnregister (i : Nat)
  | watchRegister (w i : Nat) (mask : Nat) (wd : Int)    -- `wd`: result of inotify_add_watch()
  | watchUnregister (w : Nat)
  | watchFree (w : Nat)                                  -- the user releases the watch structure
  | gotEvent (i : Nat) (eintr : Nat) (res : ReadRes)     -- fd readable: `eintr` EINTR results, then `res`
  | handlerEnd                                           -- the running watch handler returns
deriving Repr, DecidableEq

inductive Out where
  | init
  | addWatch (fd : Int) (mask : Nat)
  | rmWatch (fd : Int) (wd : Int)
  | close (fd : Int)
  | read (fd : Int)
  | ret (r : Int)
  | call (w : Nat) (off : Nat) (r : Rec) (inTree : Bool)   -- w->handler(w->cookie, event at `off`); is w still in the tree?
  | walkEnd                                                -- iv_inotify_got_event returns
deriving Repr, DecidableEq

inductive Res where
  | ok (s : St) (outs : List Out)
  | fault (why : String)     -- use of freed memory / wild store / tree corruption / misparse
  | fatal                    -- iv_fatal
  | reject                   -- not an execution: the input cannot occur in this state

/-- put outputs that were produced earlier in front -/
def Res.prepend (o : List Out) : Res → Res
  | .ok s o' => .ok s (o ++ o')
  | r => r

/-- every node of the tree is live memory (lookups, inserts and deletes walk over the nodes) -/
def treeAlive (s : St) (t : List (Int × Nat)) : Bool :=
  t.all fun e => match s.ws e.2 with
    | some wi => !wi.freed
    | none => false

def inTree (t : List (Int × Nat)) (w : Nat) : Bool := t.any (·.2 == w)

/-- `iv_avl_tree_delete(&this->watches, &w->an)` -/
def treeDel (t : List (Int × Nat)) (w : Nat) : List (Int × Nat) := t.filter (·.2 != w)

/-- `event->mask & IN_IGNORED || w->mask & IN_ONESHOT` -/
def dropCond (rmask wmask : Nat) : Bool := (rmask &&& IN_IGNORED != 0) || (wmask &&& IN_ONESHOT != 0)

/-- The `while (curr < end)` loop, entered at its top with the next record at `wk.curr`, run
until a handler is called or the loop is left.  `fuel` bounds the iterations. -/
def advance : Nat → St → Walk → Res
  | 0, _, _ => .reject
  | fuel + 1, s, wk =>
    match wk.this with
    | none => .ok { s with walk := none } [.walkEnd]          -- `if (this == NULL) break;` … `if (this != NULL)` not taken
    | some i =>
      match s.insts i with
      | none => .reject
      | some x =>
        if !x.registered then .fault "the walk touches an instance that was unregistered and released" else
        if wk.curr < wk.endOff then
          match recAt wk.buf wk.curr with
          | none => .fault "no record starts at this offset: name bytes would be read as a header"
          | some r =>
            if !treeAlive s x.tree then .fault "lookup walks over a freed watch" else
            match x.tree.lookup r.wd with
            | none => advance fuel s { wk with curr := wk.curr + r.len + EVSZ }
            | some w =>
              match s.ws w with
              | none => .reject
              | some wi =>
                let tree' := if dropCond r.mask wi.mask then treeDel x.tree w else x.tree
                .ok { s.setInst i { x with tree := tree' } with walk := some { wk with len := r.len } }
                    [.call w wk.curr r (inTree tree' w)]
        else .ok { s.setInst i { x with term := .null } with walk := none } [.walkEnd]

/-- the watch structure named `w` exists and has been released -/
def wFreed (s : St) (w : Nat) : Bool :=
  match s.ws w with
  | some wi => wi.freed
  | none => false

def isReg (s : St) (w : Nat) : Bool :=
  match s.ws w with
  | none => false
  | some wi => !wi.freed && match s.insts wi.inst with
    | none => false
    | some x => x.registered && inTree x.tree w

def step (s : St) : In → Res
  | .instRegister i fd =>
    match s.insts i with
    | some _ => .reject                                       -- names of memory objects are not reused
    | none =>
      if fd == -1 then .ok s [.init, .ret (-1)] else
      .ok (s.setInst i { fd, registered := true, tree := [], term := .null }) [.init, .ret 0]
  | .instUnregister i =>
    match s.insts i with
    | none => .reject
    | some x =>
      if !x.registered then .fault "iv_inotify_unregister on released memory" else
      match x.term with
      | .null => .ok (s.setInst i { x with registered := false }) [.close x.fd]
      | .frame =>
        match s.walk with
        | none => .fault "term points into a dead stack frame"
        | some wk => .ok { s.setInst i { x with registered := false } with walk := some { wk with this := none } } [.close x.fd]
  | .watchRegister w i mask wd =>
    match s.insts i with
    | none => .reject
    | some x =>
      if wFreed s w then .fault "watch structure was released" else
      if isReg s w then .fault "node is already in a tree" else
      if !x.registered then .fault "iv_inotify_watch_register on a released instance" else
      let s1 := s.setW w { inst := i, wd, mask, freed := false }
      if wd == -1 then .ok s1 [.addWatch x.fd mask, .ret (-1)] else
      if !treeAlive s x.tree then .fault "insert walks over a freed watch" else
      match x.tree.lookup wd with
      | some _ => .ok s1 [.addWatch x.fd mask, .ret (-1)]
      | none => .ok (s1.setInst i { x with tree := (wd, w) :: x.tree }) [.addWatch x.fd mask, .ret 0]
  | .watchUnregister w =>
    match s.ws w with
    | none => .reject
    | some wi =>
      if wi.freed then .fault "watch structure was released" else
      match s.insts wi.inst with
      | none => .reject
      | some x =>
        if !x.registered then .fault "iv_inotify_watch_unregister touches a released instance" else
        if !inTree x.tree w then .fault "iv_avl_tree_delete of a node that is not in the tree" else
        if !treeAlive s x.tree then .fault "delete walks over a freed watch" else
        .ok (s.setInst wi.inst { x with tree := treeDel x.tree w }) [.rmWatch x.fd wi.wd]
  | .watchFree w =>
    match s.ws w with
    | none => .reject
    | some wi => if wi.freed then .fault "double free" else .ok (s.setW w { wi with freed := true }) []
  | .gotEvent i eintr res =>
    match s.walk with
    | some _ => .reject                                       -- nested walks are not modelled
    | none =>
      match s.insts i with
      | none => .reject
      | some x =>
        if !x.registered then .reject else                    -- the fd is unregistered: its handler is not called
        let reads := List.replicate (eintr + 1) (Out.read x.fd)
        match res with
        | .eagain => .ok s (reads ++ [.walkEnd])
        | .data recs =>
          if size recs = 0 then .fatal else                   -- read returned 0
          (advance (size recs + 1) (s.setInst i { x with term := .frame })
              { inst := i, this := some i, buf := layout 0 recs, endOff := size recs, curr := 0, len := 0 }).prepend reads
  | .handlerEnd =>
    match s.walk with
    | none => .reject
    | some wk => advance (wk.endOff + 1) s { wk with curr := wk.curr + wk.len + EVSZ }

/-- a whole history; stops at the first step that is not `ok` -/
def run : St → List In → Res
  | s, [] => .ok s []
  | s, a :: as =>
    match step s a with
    | .ok s' o => (run s' as).prepend o
    | r => r

end Ivy.Inotify
