import Ivy.L3.PumpCache
import Ivy.L3.PumpProofs
/-!
Proofs for the thread-level C17 theorems (`Ivy/L3/PumpCache.lean`): the buffer cache only ever
holds empty buffers, so the "acquired buffer is empty" assumption built into `Ivy.Pump.pump` holds
in every reachable thread state, and the single-pump theorems lift to every pump on the thread.
-/
namespace Ivy.Pump.Proofs
open Ivy.Pump
open Ivy.Generated

theorem tryInput_hasBuf (s : St) : ∀ (evs : List Ev) {s' o r e},
    tryInput s evs = some (s', o, r, e) → s'.hasBuf = true ∧ s'.splice = s.splice := by
  intro evs
  induction evs with
  | nil => intro s' o r e hp; simp [tryInput] at hp
  | cons ev evs ih =>
    intro s' o r e hp
    cases ev with
    | rdEintr =>
      simp only [tryInput] at hp
      cases hrec : tryInput s evs with
      | none => simp [hrec] at hp
      | some p =>
        obtain ⟨s1, o1, r1, e1⟩ := p
        simp only [hrec, Option.some.injEq, Prod.mk.injEq] at hp
        obtain ⟨rfl, rfl, rfl, rfl⟩ := hp
        exact ih hrec
    | rdErr =>
      simp only [tryInput, Option.some.injEq, Prod.mk.injEq] at hp
      obtain ⟨rfl, rfl, rfl, rfl⟩ := hp
      exact ⟨rfl, rfl⟩
    | rdEagain =>
      simp only [tryInput] at hp
      split at hp
      · cases evs with
        | nil => simp at hp
        | cons ev2 evs2 =>
          cases ev2 <;> try (simp at hp; done)
          simp only [Option.some.injEq, Prod.mk.injEq] at hp
          obtain ⟨rfl, rfl, rfl, rfl⟩ := hp
          exact ⟨rfl, rfl⟩
      · simp only [Option.some.injEq, Prod.mk.injEq] at hp
        obtain ⟨rfl, rfl, rfl, rfl⟩ := hp
        exact ⟨rfl, rfl⟩
    | rdEof =>
      simp only [tryInput] at hp
      split at hp <;>
      · simp only [Option.some.injEq, Prod.mk.injEq] at hp
        obtain ⟨rfl, rfl, rfl, rfl⟩ := hp
        exact ⟨rfl, rfl⟩
    | rdData bs =>
      simp only [tryInput] at hp
      split at hp
      · simp at hp
      · simp only [Option.some.injEq, Prod.mk.injEq] at hp
        obtain ⟨rfl, rfl, rfl, rfl⟩ := hp
        exact ⟨rfl, rfl⟩
    | fion v => simp [tryInput] at hp
    | wrN n => simp [tryInput] at hp
    | wrZero => simp [tryInput] at hp
    | wrEagain => simp [tryInput] at hp
    | wrEintr => simp [tryInput] at hp
    | wrErr => simp [tryInput] at hp

theorem tryOutput_hasBuf (s : St) : ∀ (evs : List Ev) {s' o r e},
    tryOutput s evs = some (s', o, r, e) → s'.hasBuf = s.hasBuf ∧ s'.splice = s.splice := by
  intro evs
  induction evs with
  | nil => intro s' o r e hp; simp [tryOutput] at hp
  | cons ev evs ih =>
    intro s' o r e hp
    cases ev with
    | wrEintr =>
      simp only [tryOutput] at hp
      cases hrec : tryOutput s evs with
      | none => simp [hrec] at hp
      | some p =>
        obtain ⟨s1, o1, r1, e1⟩ := p
        simp only [hrec, Option.some.injEq, Prod.mk.injEq] at hp
        obtain ⟨rfl, rfl, rfl, rfl⟩ := hp
        exact ih hrec
    | wrEagain =>
      simp only [tryOutput, Option.some.injEq, Prod.mk.injEq] at hp
      obtain ⟨rfl, rfl, rfl, rfl⟩ := hp
      exact ⟨rfl, rfl⟩
    | wrErr =>
      simp only [tryOutput, Option.some.injEq, Prod.mk.injEq] at hp
      obtain ⟨rfl, rfl, rfl, rfl⟩ := hp
      exact ⟨rfl, rfl⟩
    | wrZero =>
      simp only [tryOutput, Option.some.injEq, Prod.mk.injEq] at hp
      obtain ⟨rfl, rfl, rfl, rfl⟩ := hp
      exact ⟨rfl, rfl⟩
    | wrN n =>
      simp only [tryOutput] at hp
      split at hp
      · simp at hp
      · simp only [Option.some.injEq, Prod.mk.injEq] at hp
        obtain ⟨rfl, rfl, rfl, rfl⟩ := hp
        exact ⟨rfl, rfl⟩
    | fion v => simp [tryOutput] at hp
    | rdData n => simp [tryOutput] at hp
    | rdEof => simp [tryOutput] at hp
    | rdEagain => simp [tryOutput] at hp
    | rdEintr => simp [tryOutput] at hp
    | rdErr => simp [tryOutput] at hp

theorem bands_ne {s : St} {b : Out} {r : Int} (hb : bands s = some (b, r)) : r ≠ -1 := by
  unfold bands at hb
  split at hb <;> simp at hb <;> omega

/-- who holds a buffer after a pump call, and the mode field is untouched (no invariant needed) -/
theorem pump_hasBuf {s : St} {evs : List Ev} {s' o r e} (hp : pump s evs = some (s', o, r, e)) :
    s'.hasBuf = ((s.hasBuf || (!s.full && s.sawFin == 0)) && r != -1 && s'.bytes != 0) ∧
      s'.splice = s.splice := by
  unfold pump at hp
  dsimp only at hp
  generalize hg1 : (if (!s.full && s.sawFin == 0) = true then tryInput s evs
    else some (s, [], 0, evs)) = st1 at hp
  cases st1 with
  | none => simp at hp
  | some p1 =>
    obtain ⟨s1, o1, r1, e1⟩ := p1
    have h1 : s1.hasBuf = (s.hasBuf || (!s.full && s.sawFin == 0)) ∧ s1.splice = s.splice := by
      split at hg1
      · next hc =>
        obtain ⟨ha, hb⟩ := tryInput_hasBuf s evs hg1
        rw [ha, hc]; simp [hb]
      · next hc =>
        simp only [Option.some.injEq, Prod.mk.injEq] at hg1
        obtain ⟨rfl, rfl, rfl, rfl⟩ := hg1
        refine ⟨?_, rfl⟩
        simp at hc ⊢
        cases hh : s.hasBuf <;> simp
        intro hf; exact hc hf
    obtain ⟨h1, hs1⟩ := h1
    dsimp only at hp
    split at hp
    · simp only [Option.some.injEq, Prod.mk.injEq] at hp
      obtain ⟨rfl, rfl, rfl, rfl⟩ := hp
      simp [hs1]
    · generalize hg2 : (if (s1.bytes != 0) = true then tryOutput s1 e1
        else some (s1, [], 0, e1)) = st2 at hp
      cases st2 with
      | none => simp at hp
      | some p2 =>
        obtain ⟨s2, o2, r2, e2⟩ := p2
        have h2 : s2.hasBuf = s1.hasBuf ∧ s2.splice = s1.splice := by
          split at hg2
          · exact tryOutput_hasBuf s1 e1 hg2
          · simp only [Option.some.injEq, Prod.mk.injEq] at hg2
            obtain ⟨rfl, rfl, rfl, rfl⟩ := hg2
            exact ⟨rfl, rfl⟩
        obtain ⟨h2, hs2⟩ := h2
        dsimp only at hp
        split at hp
        · simp only [Option.some.injEq, Prod.mk.injEq] at hp
          obtain ⟨rfl, rfl, rfl, rfl⟩ := hp
          simp [hs1, hs2]
        · cases hb : bands s2 with
          | none => simp [hb] at hp
          | some pb =>
            obtain ⟨b, rb⟩ := pb
            simp only [hb, Option.some.injEq, Prod.mk.injEq] at hp
            obtain ⟨rfl, rfl, rfl, rfl⟩ := hp
            have hne := bands_ne hb
            have hne' : (rb != -1) = true := by simpa using hne
            rw [hne', ← h1, ← h2, ← hs1, ← hs2]
            split
            · next hz => simp [hz]
            · next hz => simp [hz]

/-- a call that neither reads (full or past EOF) nor has anything buffered moves no data -/
theorem pump_skip {s : St} {evs : List Ev} {s' o r e} (hc : (!s.full && s.sawFin == 0) = false)
    (hb : s.bytes = 0) (hp : pump s evs = some (s', o, r, e)) : s'.bytes = 0 := by
  unfold pump at hp
  simp only [hc] at hp
  simp [hb] at hp
  cases hbd : bands s with
  | none => simp [hbd] at hp
  | some pb =>
    obtain ⟨b, rb⟩ := pb
    simp [hbd] at hp
    obtain ⟨rfl, _⟩ := hp
    rfl


/-! ### slots -/

theorem getSlot_mem : ∀ {l : List (Nat × Slot)} {k : Nat} {p : Slot}, getSlot l k = some p → (k, p) ∈ l := by
  intro l
  induction l with
  | nil => intro k p h; simp [getSlot] at h
  | cons a l ih =>
    intro k p h
    obtain ⟨k', q⟩ := a
    simp only [getSlot] at h
    split at h
    · next hk => simp at h; subst hk; subst h; simp
    · exact List.mem_cons_of_mem _ (ih h)

theorem mem_updSlot : ∀ {l : List (Nat × Slot)} {k : Nat} {v : Slot} {kv : Nat × Slot},
    kv ∈ updSlot l k v → kv ∈ l ∨ kv.2 = v := by
  intro l
  induction l with
  | nil => intro k v kv h; simp [updSlot] at h
  | cons a l ih =>
    intro k v kv h
    obtain ⟨k', q⟩ := a
    simp only [updSlot] at h
    split at h
    · rcases List.mem_cons.mp h with h | h
      · right; rw [h]
      · left; exact List.mem_cons_of_mem _ h
    · rcases List.mem_cons.mp h with h | h
      · left; rw [h]; simp
      · rcases ih h with h | h
        · left; exact List.mem_cons_of_mem _ h
        · right; exact h

theorem mem_delSlot : ∀ {l : List (Nat × Slot)} {k : Nat} {kv : Nat × Slot},
    kv ∈ delSlot l k → kv ∈ l := by
  intro l
  induction l with
  | nil => intro k kv h; simp [delSlot] at h
  | cons a l ih =>
    intro k kv h
    obtain ⟨k', q⟩ := a
    simp only [delSlot] at h
    split at h
    · exact List.mem_cons_of_mem _ h
    · rcases List.mem_cons.mp h with h | h
      · rw [h]; simp
      · exact List.mem_cons_of_mem _ (ih h)

def b2n (b : Bool) : Nat := if b then 1 else 0

theorem held_cons (k : Nat) (p : Slot) (l : List (Nat × Slot)) :
    held ((k, p) :: l) = b2n p.st.hasBuf + held l := rfl

theorem held_upd : ∀ {l : List (Nat × Slot)} {k : Nat} {p v : Slot}, getSlot l k = some p →
    held (updSlot l k v) + b2n p.st.hasBuf = held l + b2n v.st.hasBuf := by
  intro l
  induction l with
  | nil => intro k p v h; simp [getSlot] at h
  | cons a l ih =>
    intro k p v h
    obtain ⟨k', q⟩ := a
    simp only [getSlot] at h
    simp only [updSlot]
    split at h
    · next hk =>
      simp at h; subst h
      simp only [hk, if_true, held_cons]
      omega
    · next hk =>
      simp only [hk, if_false, held_cons]
      have := ih (v := v) h
      omega

theorem held_del : ∀ {l : List (Nat × Slot)} {k : Nat} {p : Slot}, getSlot l k = some p →
    held (delSlot l k) + b2n p.st.hasBuf = held l := by
  intro l
  induction l with
  | nil => intro k p h; simp [getSlot] at h
  | cons a l ih =>
    intro k p h
    obtain ⟨k', q⟩ := a
    simp only [getSlot] at h
    simp only [delSlot]
    split at h
    · next hk =>
      simp at h; subst h
      simp only [hk, if_true, held_cons]
      omega
    · next hk =>
      simp only [hk, if_false, held_cons]
      have := ih h
      omega

/-! ### the cache -/

/-- cache part of the thread invariant, with `n` buffers outside the cache -/
structure BInv (t : Thr) (n : Nat) : Prop where
  clean : ∀ c, c ∈ t.cache → c = []
  bound : t.cache.length ≤ MAX_CACHED_BUFS
  count : t.allocs = t.frees + n + t.cache.length

/-- fields `buf_get`/`buf_put` do not touch -/
def Same (t t' : Thr) : Prop := t'.slots = t.slots ∧ t'.splice = t.splice ∧ t'.fault = t.fault

theorem get_spec {t : Thr} {n : Nat} (h : BInv t n) : t.get.1 = [] ∧ BInv t.get.2 (n + 1) ∧ Same t t.get.2 := by
  obtain ⟨hc, hb, hn⟩ := h
  cases hcache : t.cache with
  | nil =>
    refine ⟨by simp [Thr.get, bufGet, hcache], ⟨?_, ?_, ?_⟩, rfl, rfl, rfl⟩
    · simp [Thr.get, bufGet, hcache]
    · simp [Thr.get, bufGet, hcache]
    · simp [hcache] at hn
      simp [Thr.get, bufGet, hcache]
      omega
  | cons c rest =>
    rw [hcache] at hc hb hn
    refine ⟨?_, ⟨?_, ?_, ?_⟩, rfl, rfl, rfl⟩
    · simp only [Thr.get, bufGet, hcache]
      exact hc c (by simp)
    · simp only [Thr.get, bufGet, hcache]
      exact fun c' hm => hc c' (List.mem_cons_of_mem _ hm)
    · simp [Thr.get, bufGet, hcache] at hb ⊢; omega
    · simp [Thr.get, bufGet, hcache] at hn ⊢; omega

theorem put_spec {t : Thr} {n : Nat} (h : BInv t (n + 1)) (content : List Nat) (bytes : Nat)
    (hcont : t.spl = true → bytes = 0 → content = []) (hrw : t.spl = false → content = []) :
    BInv (t.put content bytes) n ∧ Same t (t.put content bytes) := by
  obtain ⟨hc, hb, hn⟩ := h
  refine ⟨?_, rfl, rfl, rfl⟩
  by_cases hd : (t.spl && bytes != 0) = true
  · have e : bufPut t.spl t.cache content bytes = (t.cache, true) := by simp only [bufPut, hd, if_true]
    refine ⟨?_, ?_, ?_⟩
    · simp only [Thr.put, e]; exact hc
    · simp only [Thr.put, e]; exact hb
    · simp only [Thr.put, e]; simp; omega
  · by_cases hl : t.cache.length < MAX_CACHED_BUFS
    · have e : bufPut t.spl t.cache content bytes = (content :: t.cache, false) := by
        simp only [bufPut, hd, hl, if_true]; simp
      have hcontent : content = [] := by
        cases hs : t.spl
        · exact hrw hs
        · simp [hs] at hd; exact hcont hs hd
      refine ⟨?_, ?_, ?_⟩
      · simp only [Thr.put, e]
        intro c hm
        rcases List.mem_cons.mp hm with hm | hm
        · rw [hm, hcontent]
        · exact hc c hm
      · simp only [Thr.put, e]; simp; omega
      · simp only [Thr.put, e]; simp; omega
    · have e : bufPut t.spl t.cache content bytes = (t.cache, true) := by
        simp only [bufPut, hd, hl, if_false]; simp
      refine ⟨?_, ?_, ?_⟩
      · simp only [Thr.put, e]; exact hc
      · simp only [Thr.put, e]; exact hb
      · simp only [Thr.put, e]; simp; omega


/-! ### thread steps -/

theorem tinv_toB {t : Thr} (h : TInv t) : BInv t (held t.slots) := ⟨h.clean, h.bound, h.count⟩

theorem pumpWith_eq {content : List Nat} {s : St} {evs : List Ev}
    (h : acquires s = true → content = [] ∧ s.buf = []) : pumpWith content s evs = pump s evs := by
  unfold pumpWith
  split
  · next ha =>
    obtain ⟨rfl, hb⟩ := h ha
    have : ({ s with buf := [] } : St) = s := by
      cases s; simp_all
    rw [this]
  · rfl

theorem inv_buf_nil {s : St} (h : Inv s) (hb : s.bytes = 0) : s.buf = [] := by
  have := h.bytes_eq
  rw [hb] at this
  exact List.length_eq_zero_iff.mp this.symm

theorem contentOf_ok (t : Thr) {s : St} (h : Inv s) :
    (t.spl = true → s.bytes = 0 → contentOf t s = []) ∧ (t.spl = false → contentOf t s = []) := by
  constructor
  · intro hs hb
    simp [contentOf, hs, inv_buf_nil h hb]
  · intro hs
    simp [contentOf, hs]

theorem acquireT_spec {t : Thr} {n : Nat} (h : BInv t n) (s : St) :
    (acquireT t s).1 = [] ∧ BInv (acquireT t s).2 (n + b2n (acquires s)) ∧ Same t (acquireT t s).2 := by
  unfold acquireT
  cases ha : acquires s
  · exact ⟨rfl, h, rfl, rfl, rfl⟩
  · exact get_spec h

theorem releaseT_spec {t : Thr} {n : Nat} {s s' : St}
    (h : BInv t (n + b2n ((s.hasBuf || acquires s) && !s'.hasBuf))) (hI : Inv s') :
    BInv (releaseT t s s') n ∧ Same t (releaseT t s s') := by
  unfold releaseT
  cases hc : ((s.hasBuf || acquires s) && !s'.hasBuf)
  · rw [hc] at h
    exact ⟨h, rfl, rfl, rfl⟩
  · rw [hc] at h
    obtain ⟨h1, h2⟩ := contentOf_ok t hI
    exact put_spec h _ _ h1 h2

theorem bool_key (h0 c x y : Bool) :
    b2n (!h0 && c) + b2n h0 =
      b2n ((h0 || c) && x && y) + b2n ((h0 || (!h0 && c)) && !((h0 || c) && x && y)) := by
  cases h0 <;> cases c <;> cases x <;> cases y <;> rfl

theorem pumpOp_inv {t : Thr} (h : TInv t) {k : Nat} {evs : List Ev} {t' o r}
    (hp : pumpOp t k evs = some (t', o, r)) : TInv t' := by
  unfold pumpOp at hp
  cases hg : getSlot t.slots k with
  | none => simp [hg] at hp
  | some p =>
    simp only [hg] at hp
    have hmem := getSlot_mem hg
    have hI : Inv p.st := h.pumps _ hmem
    cases hbr : p.broken with
    | true => simp [hbr] at hp
    | false =>
      simp only [hbr] at hp
      have hidle : p.st.hasBuf = false → p.st.bytes = 0 := h.idle _ hmem hbr
      split at hp
      · cases hp
      split at hp
      · next hf =>
        -- NULL buffer in try_output: excluded by the invariant
        simp [acquires] at hf
        exact absurd (hidle hf.1.1) hf.2
      · next hf =>
        obtain ⟨hcont, hB1, hS1⟩ := acquireT_spec (tinv_toB h) p.st
        generalize hacq : acquireT t p.st = acq at hp hcont hB1 hS1
        have heq : pumpWith acq.1 p.st evs = pump p.st evs := by
          apply pumpWith_eq
          intro ha
          simp [acquires] at ha
          exact ⟨hcont, inv_buf_nil hI (hidle ha.1)⟩
        rw [heq] at hp
        split at hp
        · next s' outs r' hpump =>
          simp only [Option.some.injEq, Prod.mk.injEq] at hp
          obtain ⟨rfl, rfl, rfl⟩ := hp
          have hI' := pump_inv p.st evs hI hpump
          obtain ⟨hhb, hspl⟩ := pump_hasBuf hpump
          have hret := ret_spec p.st evs hI hpump
          have hupd := held_upd (v := { st := s', broken := r' == -1, last := some r' }) hg
          -- buffers outside the cache before the release: the pumps' + the one in this call's hands
          have hkey := bool_key p.st.hasBuf (!p.st.full && p.st.sawFin == 0) (r' != -1) (s'.bytes != 0)
          rw [← hhb] at hkey
          have hacqs : acquires p.st = (!p.st.hasBuf && (!p.st.full && p.st.sawFin == 0)) := rfl
          rw [← hacqs] at hkey
          have hB1' : BInv acq.2 (held (updSlot t.slots k { st := s', broken := r' == -1, last := some r' })
              + b2n ((p.st.hasBuf || acquires p.st) && !s'.hasBuf)) := by
            have e : held t.slots + b2n (acquires p.st) =
                held (updSlot t.slots k { st := s', broken := r' == -1, last := some r' })
                  + b2n ((p.st.hasBuf || acquires p.st) && !s'.hasBuf) := by
              simp only at hupd
              omega
            rw [← e]; exact hB1
          obtain ⟨hB2, hS2⟩ := releaseT_spec hB1' hI'
          generalize releaseT acq.2 p.st s' = t2 at hB2 hS2
          obtain ⟨hs1, hm1, hf1⟩ := hS1
          obtain ⟨hs2, hm2, hf2⟩ := hS2
          have hslots : t2.slots = t.slots := by rw [hs2, hs1]
          have hmemNew : ∀ kv, kv ∈ (t2.setSlot k { st := s', broken := r' == -1, last := some r' }).slots →
              kv ∈ t.slots ∨ kv.2 = { st := s', broken := r' == -1, last := some r' } := by
            intro kv hm
            simp only [Thr.setSlot, hslots] at hm
            exact mem_updSlot hm
          refine
            { clean := hB2.clean, bound := hB2.bound, pumps := ?_, idle := ?_, last0 := ?_, count := ?_,
              nofault := ?_, mode := ?_ }
          · intro kv hm
            rcases hmemNew kv hm with hm | hm
            · exact h.pumps kv hm
            · rw [hm]; exact hI'
          · intro kv hm
            rcases hmemNew kv hm with hm | hm
            · exact h.idle kv hm
            · rw [hm]
              intro hbr' hnb
              simp only at hbr' hnb
              have hr : (r' != -1) = true := by
                cases hh : (r' != -1)
                · simp at hh; rw [hh] at hbr'; simp at hbr'
                · rfl
              rw [hnb, hr] at hhb
              by_cases hz : s'.bytes = 0
              · exact hz
              · have hz' : (s'.bytes != 0) = true := by simpa using hz
                rw [hz'] at hhb
                simp at hhb
                have hc : (!p.st.full && p.st.sawFin == 0) = false := by
                  cases hh : (!p.st.full && p.st.sawFin == 0)
                  · rfl
                  · simp at hh; exact absurd hh.2 (hhb.2 hh.1)
                exact pump_skip hc (hidle hhb.1) hpump
          · intro kv hm
            rcases hmemNew kv hm with hm | hm
            · exact h.last0 kv hm
            · rw [hm]
              intro hl
              simp only [Option.some.injEq] at hl
              exact (hret.2.1.mp hl).1
          · have := hB2.count
            simp only [Thr.setSlot, hslots]
            exact this
          · simp only [Thr.setSlot]
            rw [hf2, hf1]; exact h.nofault
          · intro kv hm
            have hsp : (t2.setSlot k { st := s', broken := r' == -1, last := some r' }).splice = t.splice := by
              simp only [Thr.setSlot]; rw [hm2, hm1]
            rw [hsp]
            rcases hmemNew kv hm with hm | hm
            · exact h.mode kv hm
            · rw [hm]
              simp only
              rw [hspl]
              exact h.mode _ hmem
        · cases hp


theorem destroyOp_inv {t : Thr} (h : TInv t) {k : Nat} {t' o}
    (hp : destroyOp t k = some (t', o)) : TInv t' := by
  unfold destroyOp at hp
  cases hg : getSlot t.slots k with
  | none => simp [hg] at hp
  | some p =>
    simp only [hg, Option.some.injEq, Prod.mk.injEq] at hp
    obtain ⟨rfl, _⟩ := hp
    have hmem := getSlot_mem hg
    have hI : Inv p.st := h.pumps _ hmem
    have hdel := held_del hg
    have hB : BInv t (held (delSlot t.slots k) + b2n p.st.hasBuf) := by
      rw [hdel]; exact tinv_toB h
    have hstep : ∃ t1, t1 = (if p.st.hasBuf = true then t.put (contentOf t p.st) p.st.bytes else t) ∧
        BInv t1 (held (delSlot t.slots k)) ∧ Same t t1 := by
      refine ⟨_, rfl, ?_⟩
      cases hh : p.st.hasBuf
      · rw [hh] at hB
        exact ⟨hB, rfl, rfl, rfl⟩
      · rw [hh] at hB
        obtain ⟨h1, h2⟩ := contentOf_ok t hI
        exact put_spec hB _ _ h1 h2
    obtain ⟨t1, ht1, hB1, hs1, hm1, hf1⟩ := hstep
    rw [← ht1]
    have hmemNew : ∀ kv, kv ∈ delSlot t1.slots k → kv ∈ t.slots := by
      intro kv hm
      rw [hs1] at hm
      exact mem_delSlot hm
    exact
      { clean := hB1.clean, bound := hB1.bound,
        pumps := fun kv hm => h.pumps kv (hmemNew kv hm),
        idle := fun kv hm => h.idle kv (hmemNew kv hm),
        last0 := fun kv hm => h.last0 kv (hmemNew kv hm),
        count := by have := hB1.count; simp only [hs1]; exact this,
        nofault := by simp only [hf1]; exact h.nofault,
        mode := fun kv hm => by simp only [hm1]; exact h.mode kv (hmemNew kv hm) }

theorem probe_spec {t : Thr} {n : Nat} (h : BInv t n) (ok : Bool) :
    BInv (probe t ok) n ∧ (probe t ok).slots = t.slots ∧ (probe t ok).fault = t.fault ∧
      (probe t ok).splice = some ok := by
  obtain ⟨hc, hb, hn⟩ := h
  unfold probe
  cases ok
  · exact ⟨⟨hc, hb, by simp; omega⟩, rfl, rfl, rfl⟩
  · have h0 : BInv { t with splice := some true, allocs := t.allocs + 2 } (n + 1 + 1) :=
      ⟨hc, hb, by simp; omega⟩
    obtain ⟨h1, s1⟩ := put_spec h0 [] 0 (fun _ _ => rfl) (fun _ => rfl)
    obtain ⟨h2, s2⟩ := put_spec h1 [] 0 (fun _ _ => rfl) (fun _ => rfl)
    refine ⟨h2, ?_, ?_, ?_⟩
    · simp only [if_true]; rw [s2.1, s1.1]
    · simp only [if_true]; rw [s2.2.2, s1.2.2]
    · simp only [if_true]; rw [s2.2.1, s1.2.1]

theorem newOp_inv {t : Thr} (h : TInv t) {k : Nat} {relay ok : Bool} {t' o}
    (hp : newOp t k relay ok = some (t', o)) : TInv t' := by
  unfold newOp at hp
  cases hg : getSlot t.slots k with
  | some p => simp [hg] at hp
  | none =>
    simp only [hg, Option.some.injEq, Prod.mk.injEq] at hp
    obtain ⟨rfl, _⟩ := hp
    have hstep : ∃ t1, t1 = (if t.splice.isNone = true then probe t ok else t) ∧
        BInv t1 (held t.slots) ∧ t1.slots = t.slots ∧ t1.fault = t.fault ∧
        (∃ b, t1.splice = some b) ∧ (∀ kv, kv ∈ t.slots → t1.splice = t.splice) := by
      refine ⟨_, rfl, ?_⟩
      split
      · next hnone =>
        obtain ⟨a, b, c, d⟩ := probe_spec (tinv_toB h) ok
        refine ⟨a, b, c, ⟨ok, d⟩, ?_⟩
        intro kv hm
        have := h.mode kv hm
        rw [this] at hnone
        simp at hnone
      · next hsome =>
        refine ⟨tinv_toB h, rfl, rfl, ?_, fun _ _ => rfl⟩
        cases hsp : t.splice with
        | none => simp [hsp] at hsome
        | some b => exact ⟨b, rfl⟩
    obtain ⟨t1, ht1, hB1, hs1, hf1, ⟨b, hsb⟩, hkeep⟩ := hstep
    rw [← ht1]
    have hmemNew : ∀ kv : Nat × Slot, kv ∈ (k, Slot.fresh (t1.splice == some true) relay) :: t1.slots →
        kv.2 = Slot.fresh (t1.splice == some true) relay ∨ kv ∈ t.slots := by
      intro kv hm
      rcases List.mem_cons.mp hm with hm | hm
      · left; rw [hm]
      · right; rw [← hs1]; exact hm
    refine
      { clean := hB1.clean, bound := hB1.bound, pumps := ?_, idle := ?_, last0 := ?_, count := ?_,
        nofault := by simp only [hf1]; exact h.nofault, mode := ?_ }
    · intro kv hm
      rcases hmemNew kv hm with hm | hm
      · rw [hm]; exact init_inv _ _
      · exact h.pumps kv hm
    · intro kv hm
      rcases hmemNew kv hm with hm | hm
      · rw [hm]; intro _ _; rfl
      · exact h.idle kv hm
    · intro kv hm
      rcases hmemNew kv hm with hm | hm
      · rw [hm]; intro hl; cases hl
      · exact h.last0 kv hm
    · have := hB1.count
      simp only [held_cons, hs1, Slot.fresh, St.init, b2n]
      simp
      omega
    · intro kv hm
      rcases hmemNew kv hm with hm | hm
      · rw [hm]
        simp only [Slot.fresh, St.init, hsb]
        cases b <;> rfl
      · simp only
        rw [hkeep kv hm]
        exact h.mode kv hm

theorem purgeOp_inv {t : Thr} (h : TInv t) : TInv (purgeOp t) :=
  { clean := by simp [purgeOp], bound := by simp [purgeOp], pumps := h.pumps, idle := h.idle,
    last0 := h.last0, count := by have := h.count; simp [purgeOp]; omega, nofault := h.nofault,
    mode := h.mode }

theorem step_inv {t : Thr} (h : TInv t) {op : Op} {t' o r} (hs : step t op = some (t', o, r)) : TInv t' := by
  cases op with
  | new k relay ok =>
    simp only [step, h.nofault] at hs
    cases hn : newOp t k relay ok with
    | none => simp [hn] at hs
    | some q =>
      obtain ⟨t1, o1⟩ := q
      simp [hn] at hs
      obtain ⟨rfl, _, _⟩ := hs
      exact newOp_inv h hn
  | pump k evs =>
    simp only [step, h.nofault] at hs
    cases hn : pumpOp t k evs with
    | none => simp [hn] at hs
    | some q =>
      obtain ⟨t1, o1, r1⟩ := q
      simp [hn] at hs
      obtain ⟨rfl, _, _⟩ := hs
      exact pumpOp_inv h hn
  | destroy k =>
    simp only [step, h.nofault] at hs
    cases hn : destroyOp t k with
    | none => simp [hn] at hs
    | some q =>
      obtain ⟨t1, o1⟩ := q
      simp [hn] at hs
      obtain ⟨rfl, _, _⟩ := hs
      exact destroyOp_inv h hn
  | purge =>
    simp [step, h.nofault] at hs
    obtain ⟨rfl, _, _⟩ := hs
    exact purgeOp_inv h
  | setMode m =>
    simp only [step, h.nofault] at hs
    simp at hs
    obtain ⟨⟨hnil, _⟩, rfl, _, _⟩ := hs
    refine ⟨h.clean, h.bound, h.pumps, h.idle, h.last0, h.count, rfl, ?_⟩
    intro kv hm
    simp only at hm
    rw [hnil] at hm
    cases hm

theorem init_tinv (m : Option Bool) : TInv (Thr.init m) := by
  constructor <;> simp [Thr.init, held]

theorem runT_inv : ∀ (ops : List Op) {t t' : Thr}, TInv t → runT t ops = some t' → TInv t' := by
  intro ops
  induction ops with
  | nil => intro t t' h hr; simp [runT] at hr; subst hr; exact h
  | cons op rest ih =>
    intro t t' h hr
    simp only [runT] at hr
    split at hr
    · next t1 o1 r1 hs => exact ih (step_inv h hs) hr
    · cases hr

theorem reach_inv (m : Option Bool) (ops : List Op) {t : Thr} (hr : runT (Thr.init m) ops = some t) : TInv t :=
  runT_inv ops (init_tinv m) hr


/-! ### the C17 thread theorems -/

theorem cache_clean (m : Option Bool) (ops : List Op) {t : Thr} (hr : runT (Thr.init m) ops = some t) :
    (∀ c, c ∈ t.cache → c = []) ∧ t.cache.length ≤ PUMP_MAX_CACHED_BUFS :=
  ⟨(reach_inv m ops hr).clean, (reach_inv m ops hr).bound⟩

theorem acquire_empty (m : Option Bool) (ops : List Op) {t : Thr} (hr : runT (Thr.init m) ops = some t) :
    (bufGet t.cache).1 = [] ∧
      ∀ (s : St) (evs : List Ev), s.buf = [] → pumpWith (bufGet t.cache).1 s evs = pump s evs := by
  have hc := (reach_inv m ops hr).clean
  have : (bufGet t.cache).1 = [] := by
    cases hcache : t.cache with
    | nil => rfl
    | cons c rest => simp only [bufGet]; exact hc c (by simp [hcache])
  exact ⟨this, fun s evs hb => pumpWith_eq (fun _ => ⟨this, hb⟩)⟩

theorem pump_isolation (m : Option Bool) (ops : List Op) {t : Thr} (hr : runT (Thr.init m) ops = some t) :
    t.fault = false ∧ ∀ k p, (k, p) ∈ t.slots → Inv p.st ∧ t.splice = some p.st.splice :=
  ⟨(reach_inv m ops hr).nofault,
   fun k p hm => ⟨(reach_inv m ops hr).pumps (k, p) hm, (reach_inv m ops hr).mode (k, p) hm⟩⟩

theorem thread_stream (m : Option Bool) (ops : List Op) {t : Thr} (hr : runT (Thr.init m) ops = some t) :
    ∀ k p, (k, p) ∈ t.slots → p.st.sink <+: p.st.src ∧ (p.last = some 0 → p.st.sink = p.st.src) := by
  intro k p hm
  have hT := reach_inv m ops hr
  have hi := hT.pumps (k, p) hm
  refine ⟨?_, ?_⟩
  · rw [hi.stream]
    exact List.prefix_append _ _
  · intro hl
    have := hi.stream
    rw [hi.done_emp (hT.last0 (k, p) hm hl), List.append_nil] at this
    exact this.symm

theorem no_buffer_leak (m : Option Bool) (ops : List Op) {t : Thr} (hr : runT (Thr.init m) ops = some t) :
    t.allocs = t.frees + held t.slots + t.cache.length :=
  (reach_inv m ops hr).count

theorem runT_append : ∀ (a b : List Op) (t : Thr),
    runT t (a ++ b) = (runT t a).bind (fun t' => runT t' b) := by
  intro a
  induction a with
  | nil => intro b t; rfl
  | cons op rest ih =>
    intro b t
    simp only [List.cons_append, runT]
    cases step t op with
    | none => rfl
    | some q => exact ih b q.1

theorem destroyAll : ∀ (l : List (Nat × Slot)) (t : Thr), t.slots = l → t.fault = false →
    ∃ t', runT t (l.map (fun kv => Op.destroy kv.1)) = some t' ∧ t'.slots = [] := by
  intro l
  induction l with
  | nil => intro t hs _; exact ⟨t, rfl, hs⟩
  | cons a l ih =>
    intro t hs hf
    obtain ⟨k, p⟩ := a
    have hg : getSlot t.slots k = some p := by rw [hs]; simp [getSlot]
    let t1 : Thr := if p.st.hasBuf = true then t.put (contentOf t p.st) p.st.bytes else t
    have ht1 : t1.slots = t.slots ∧ t1.fault = t.fault := by
      show (if p.st.hasBuf = true then t.put (contentOf t p.st) p.st.bytes else t).slots = t.slots ∧
        (if p.st.hasBuf = true then t.put (contentOf t p.st) p.st.bytes else t).fault = t.fault
      split
      · exact ⟨rfl, rfl⟩
      · exact ⟨rfl, rfl⟩
    have hstep : step t (Op.destroy k) = some ({ t1 with slots := delSlot t1.slots k }, (destroy p.st).2, none) := by
      simp only [step, hf, destroyOp, hg]
      rfl
    have hdel : delSlot t1.slots k = l := by
      rw [ht1.1, hs]; simp [delSlot]
    obtain ⟨t', hrun, hnil⟩ := ih { t1 with slots := delSlot t1.slots k } hdel (by rw [← hf]; exact ht1.2)
    refine ⟨t', ?_, hnil⟩
    simp only [List.map_cons, runT, hstep]
    exact hrun

theorem deinit_no_leak (m : Option Bool) (ops : List Op) {t : Thr} (hr : runT (Thr.init m) ops = some t) :
    ∃ t', runT t (t.slots.map (fun kv => Op.destroy kv.1) ++ [Op.purge]) = some t' ∧
      t'.slots = [] ∧ t'.cache = [] ∧ t'.allocs = t'.frees := by
  have hT := reach_inv m ops hr
  obtain ⟨t1, hrun, hnil⟩ := destroyAll t.slots t rfl hT.nofault
  have hT1 := runT_inv _ hT hrun
  refine ⟨purgeOp t1, ?_, hnil, rfl, ?_⟩
  · rw [runT_append, hrun]
    simp [runT, step, hT1.nofault]
  · have := (purgeOp_inv hT1).count
    have hs : (purgeOp t1).slots = [] := hnil
    rw [hs] at this
    simpa [held, purgeOp] using this

end Ivy.Pump.Proofs
