import Ivy.L1.Exec
import Ivy.Mon.C06
/-!
# Monitor for the owner's side of C08 (iv_event inside one loop) — a posted event can never be stranded

A statement over observable records only.  "Posted" = `iv_event_post` on a registered event by the owner
(`evPost`) or by another thread while the owner is in the kernel wait (`xpost`), not yet followed by the
event's handler.  Rules:
* the handler of an event runs only while the event is registered, and only if it was posted since it last
  ran (never over-delivered: repeated posts coalesce into one run);
* whenever the loop enters the kernel wait while some event is posted and undelivered, the owner cannot be
  stranded: the wait cannot block (zero timeout / kernel timer at 1 ns: a deferred `events_local` task is
  pending), or the one-shot kick is armed in the kernel (epoll methods), or the kick raw event's descriptor
  is among the descriptors the kernel is asked to watch for input (poll methods).
Together with the kernel contract (an armed one-shot registration of an always-readable descriptor is
reported; a readable descriptor is reported) this gives "the handler runs after the post"; on the
implementation's logs the check additionally uses a direct lost-post oracle (vlib/c08.py).
-/
namespace Ivy.Mon.C08
open Ivy.L1

structure M where
  reg : List EvId := []              -- registered events
  pendingReg : Option EvId := none   -- evRegister seen, waiting for its RET
  posted : List EvId := []           -- posted, handler not yet entered
  dead : Bool := false

def kickFdWatched (interest : List (FdId × Bands)) : Bool :=
  interest.any fun p => p.1 == rawFd 0 && p.2.i

def step (m : M) (e : Ev) : Except String M :=
  if m.dead then .ok m else
  match e with
  | .inp (.api (.evRegister x _)) => .ok { m with pendingReg := some x }
  | .out (.ret v) =>
    match m.pendingReg with
    | some x => .ok (if v == 0 then { m with reg := m.reg ++ [x], pendingReg := none } else { m with pendingReg := none })
    | none => .ok m
  | .out (.fatal _) => .ok { m with dead := true }
  | .out (.fault _) => .ok { m with dead := true }
  | .inp (.api (.evUnregister x)) => .ok { m with reg := m.reg.erase x, posted := m.posted.erase x, pendingReg := none }
  | .inp (.api (.evPost x)) =>
    .ok (if m.reg.contains x && !m.posted.contains x then { m with posted := m.posted ++ [x], pendingReg := none } else { m with pendingReg := none })
  | .inp (.xpost x) =>
    .ok (if m.reg.contains x && !m.posted.contains x then { m with posted := m.posted ++ [x] } else m)
  | .out (.cb (.event x)) =>
    if !m.reg.contains x then .error s!"handler of event e{x} entered although the event is not registered"
    else if !m.posted.contains x then .error s!"handler of event e{x} entered without a post since it last ran (over-delivered)"
    else .ok { m with posted := m.posted.erase x }
  | .out (.wait _ to interest kt kick) =>
    if !m.posted.isEmpty && !(Ivy.Mon.C06.nonBlocking to kt) && kick != some true && !kickFdWatched interest then
      .error s!"loop enters a blocking wait with event e{m.posted.headD 0} posted and undelivered, the kick not armed and its descriptor not watched"
    else .ok m
  | _ => .ok { m with pendingReg := none }

def ok (evs : List Ev) : Bool := monOk step {} evs
def verdict (evs : List Ev) : Option String :=
  match runMon step {} evs with
  | .ok _ => none
  | .error e => some e

end Ivy.Mon.C08
