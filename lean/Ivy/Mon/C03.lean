import Ivy.Mon.Fd
/-!
# Monitor for C03 — descriptor handlers run only for kernel-reported conditions

Over observable records only: a descriptor callback (user descriptors) must name a descriptor that is
registered at that moment, a band whose handler is currently set, a band whose condition was reported
for that descriptor by the preceding kernel wait (in: IN|ERR|HUP, out: OUT|ERR|HUP, err: ERR|HUP), and
must be the first callback for that (descriptor, band) since that wait. A descriptor (re)registered
after the wait returned has not been reported.
-/
namespace Ivy.Mon.C03
open Ivy.L1 Ivy.Mon

structure M where
  book : FdBook := {}
  reported : List (FdId × KEv) := []
  called : List (FdId × Nat) := []
  dead : Bool := false

def bandHeld (ev : KEv) (band : Nat) : Bool :=
  match band with
  | 0 => ev.kerr || ev.khup
  | 1 => ev.kin || ev.kerr || ev.khup
  | _ => ev.kout || ev.kerr || ev.khup

def bandName (b : Nat) : String := match b with | 0 => "err" | 1 => "in" | _ => "out"

def step (m : M) (e : Ev) : Except String M :=
  if m.dead then .ok m else
  let book := m.book.step e
  match e with
  | .out (.fatal _) => .ok { m with dead := true }
  | .out (.fault _) => .ok { m with dead := true }
  | .inp (.wret r) =>
    let rep := match r with
      | .events l => l.filterMap fun it => match it with | .fd f ev => some (f, ev) | _ => none
      | _ => []
    .ok { m with book, reported := rep, called := [] }
  | .out (.ret _) =>
    -- a registration that just completed: the new registration has not been reported by any wait
    match m.book.pending with
    | some (.fdRegister f ..) => .ok { m with book, reported := m.reported.filter (·.1 != f) }
    | some (.fdRegisterTry f ..) => .ok { m with book, reported := m.reported.filter (·.1 != f) }
    | _ => .ok { m with book }
  | .out (.cb (.fd f band)) =>
    if f ≥ 1000 then .ok { m with book } else
    match m.book.find f with
    | none => .error s!"handler of descriptor f{f} called while it is not registered"
    | some _ =>
      if !m.book.handler f band then .error s!"{bandName band} handler of f{f} called although it is cleared (NULL)"
      else match m.reported.find? (·.1 == f) with
        | none => .error s!"{bandName band} handler of f{f} called although the preceding kernel poll did not report f{f}"
        | some (_, ev) =>
          if !bandHeld ev band then .error s!"{bandName band} handler of f{f} called although that condition was not reported"
          else if m.called.contains (f, band) then .error s!"{bandName band} handler of f{f} called twice in one loop iteration"
          else .ok { m with book, called := m.called ++ [(f, band)] }
  | _ => .ok { m with book }

def verdict (evs : List Ev) : Option String :=
  match runMon step {} evs with
  | .ok _ => none
  | .error e => some e

end Ivy.Mon.C03
