import Ivy.L1.Exec
/-!
# Monitor for C07 — iv_main returns iff quit or nothing registered; never hangs or spins

Over observable records only. The monitor counts what the user has registered (descriptors,
timers, tasks, events, raw events) from the API records and their return values:
* `iv_main` returns only if `iv_quit` was called since it was entered or nothing is registered;
* the loop never goes back to waiting after `iv_quit`, and never enters a wait that can block while
  nothing is registered (so it returns as soon as it should, and a failed registration leaves nothing
  behind); a zero-timeout poll with nothing registered is tolerated (the library's own pending-event
  task may need one more round);
* no callback is entered while another one is running, and none outside `iv_main`.
The separate `spin` oracle (three consecutive wake-ups that report something but dispatch nothing) is
run on implementation logs only; its model-side counterpart needs the full kernel contract (one-shot
kick, timerfd, level-triggered descriptors) and is not part of the proved monitor.
-/
namespace Ivy.Mon.C07
open Ivy.L1

structure M where
  fds : List FdId := []
  timers : List Nat := []
  tasks : List TaskId := []
  events : List EvId := []
  raws : List RawId := []
  pending : Option Api := none
  quit : Bool := false
  inMain : Bool := false
  inCb : Bool := false
  idleWakes : Nat := 0
  dead : Bool := false

def nonBlocking (to : Timeout) (ktimer : Option (Option Ivy.Heap.TS)) : Bool :=
  match to with
  | .ns v => v == 0
  | .ms v => v == 0
  | .inf => match ktimer with
    | some (some t) => t.sec == 0 && t.nsec == 1
    | _ => false

def count (m : M) : Nat := m.fds.length + m.timers.length + m.tasks.length + m.events.length + m.raws.length

def step (m : M) (e : Ev) : Except String M :=
  if m.dead then .ok m else
  match e with
  | .out (.fatal _) => .ok { m with dead := true }
  | .out (.fault _) => .ok { m with dead := true }
  | .inp (.api a) =>
    match a with
    | .main => .ok { m with quit := false, inMain := true, pending := none, idleWakes := 0 }
    | .quit => .ok { m with quit := true, pending := none }
    | .fdUnregister f => .ok { m with fds := m.fds.erase f, pending := none }
    | .timerUnregister t => .ok { m with timers := m.timers.erase t, pending := none }
    | .taskUnregister k => .ok { m with tasks := m.tasks.erase k, pending := none }
    | .evUnregister x => .ok { m with events := m.events.erase x, pending := none }
    | .rawUnregister r => .ok { m with raws := m.raws.erase r, pending := none }
    | a => .ok { m with pending := some a }
  | .out (.ret v) =>
    let m' := { m with pending := none }
    if v != 0 then .ok m' else
    match m.pending with
    | some (.fdRegister f ..) => .ok { m' with fds := m.fds ++ [f] }
    | some (.fdRegisterTry f ..) => .ok { m' with fds := m.fds ++ [f] }
    | some (.timerRegister t _) => .ok { m' with timers := m.timers ++ [t] }
    | some (.taskRegister k) => .ok { m' with tasks := m.tasks ++ [k] }
    | some (.evRegister x _) => .ok { m' with events := m.events ++ [x] }
    | some (.rawRegister r _) => .ok { m' with raws := m.raws ++ [r] }
    | _ => .ok m'
  | .out (.cb c) =>
    if !m.inMain then .error "callback entered outside iv_main"
    else if m.inCb then .error "callback entered while another callback is running"
    else
      let m := { m with inCb := true, idleWakes := 0, pending := none }
      match c with
      | .timer t => .ok { m with timers := m.timers.erase t }
      | .task k => .ok { m with tasks := m.tasks.erase k }
      | _ => .ok m
  | .inp .handlerEnd => .ok { m with inCb := false, pending := none }
  | .out (.wait _ to _ kt _) =>
    if m.quit then .error "iv_quit was called but the loop goes back to waiting instead of returning"
    else if count m == 0 && !nonBlocking to kt then .error "nothing is registered but the loop enters a blocking wait instead of returning (iv_main hangs)"
    else .ok { m with pending := none }
  | .out .mainRet =>
    if !m.quit && count m != 0 then .error s!"iv_main returned although iv_quit was not called and {count m} object(s) are registered"
    else .ok { m with inMain := false, pending := none }
  | _ => .ok { m with pending := none }

def verdict (evs : List Ev) : Option String :=
  match runMon step {} evs with
  | .ok _ => none
  | .error e => some e

/-- first-draft spin oracle (third consecutive wake-up that reports something, none having dispatched anything);
`Ivy.Props.C07progress.spin_false_positive` shows it can reject a legitimate trace (stale one-shot kick + stale kernel
timer), `no_spin` proves it sound under the extra hypothesis `srcVerdict`. Kept for those theorems; the checks use
`spin4Verdict` and the source-aware `Ivy.L1.Progress.idleVerdict` instead. -/
def spinStep (n : Nat) (e : Ev) : Except String Nat :=
  match e with
  | .out (.cb _) => .ok 0
  | .inp (.wret (.events l)) =>
    if l.isEmpty then .ok 0 else if n ≥ 2 then .error "the loop spins: repeated wake-ups that report events but dispatch nothing" else .ok (n + 1)
  | _ => .ok n

def spinVerdict (evs : List Ev) : Option String :=
  match runMon spinStep 0 evs with
  | .ok _ => none
  | .error e => some e

/-- implementation-side oracle used by the checks: a FOURTH consecutive wake-up that reports something after three
that dispatched nothing (a stale kick and a stale kernel timer legitimately account for two). Catches kernel-contract
breaches caused by the library itself, e.g. a kick descriptor that reports HUP forever (D3). -/
def spin4Step (n : Nat) (e : Ev) : Except String Nat :=
  match e with
  | .out (.cb _) => .ok 0
  | .inp (.wret (.events l)) =>
    if l.isEmpty then .ok 0 else if n ≥ 3 then .error "the loop spins: repeated wake-ups that report events but dispatch nothing" else .ok (n + 1)
  | _ => .ok n

def spin4Verdict (evs : List Ev) : Option String :=
  match runMon spin4Step 0 evs with
  | .ok _ => none
  | .error e => some e

/-- timeout-progress oracle: a wait with a NON-ZERO finite timeout that comes back with nothing (its timeout ran out: the harness'
kernel advances the clock by exactly the timeout it was given) must be followed by a callback before the loop waits again — the timeout
was computed from the earliest deadline, rounded UP to the granularity of the primitive, so that timer is due now. A library that rounds
the timeout down wakes up early, finds nothing due and polls again with a shorter (finally zero) timeout: the busy-wait `every wake-up
makes progress` forbids. A ZERO-timeout poll may legitimately come back empty without anything to dispatch (a posted event that was
unregistered before the poll, a stale pending flag): tolerated twice in a row, the third in a row is the spin.
State: (`sleep` = the wait in progress had a non-zero timeout, `owed` = a non-zero-timeout wait ran out unanswered, `zeros` = number of
consecutive empty zero-timeout polls without a callback). -/
structure TmoSt where
  sleep : Bool := false
  zero : Bool := false
  owed : Bool := false
  zeros : Nat := 0

def tmoStep (m : TmoSt) (e : Ev) : Except String TmoSt :=
  match e with
  | .out (.cb _) => .ok { m with owed := false, zeros := 0 }
  | .inp (.wret (.events l)) =>
    if l.isEmpty then
      if m.sleep then .ok { m with owed := true }
      else if m.zero then
        (if m.zeros ≥ 2 then .error "the loop spins: repeated zero-timeout polls that report nothing and dispatch nothing" else .ok { m with zeros := m.zeros + 1 })
      else .ok m
    else .ok { m with owed := false, zeros := 0 }
  | .out (.wait _ to ..) =>
    if m.owed then .error "timed-out wake-up without progress: the wait returned on its timeout, nothing was dispatched, and the loop waits again" else
    match to with
    | .inf => .ok { m with sleep := false, zero := false }
    | .ns v => .ok { m with sleep := decide (v > 0), zero := decide (v = 0) }
    | .ms v => .ok { m with sleep := decide (v > 0), zero := decide (v = 0) }
  | .out .mainRet => .ok {}
  | _ => .ok m

def tmoVerdict (evs : List Ev) : Option String :=
  match runMon tmoStep {} evs with
  | .ok _ => none
  | .error e => some e

/-- The oracle the checks run (`tmoStep` with one correction, found by the proof — `Ivy.Props.C07tmo.day_cap_rejected`): a millisecond wait at the
24 h cap of `to_msec` is not a sleep whose timeout running out owes a callback — the earliest timer may be further
away than the cap.  It is treated like an unbounded wait. -/
def tmoStepC (m : TmoSt) (e : Ev) : Except String TmoSt :=
  match e with
  | .out (.wait _ (.ms v) ..) =>
    if m.owed then .error "timed-out wake-up without progress: the wait returned on its timeout, nothing was dispatched, and the loop waits again"
    else .ok { m with sleep := decide (v > 0) && decide (v < 86400000), zero := decide (v = 0) }
  | e => tmoStep m e

def tmoCapVerdict (evs : List Ev) : Option String :=
  match runMon tmoStepC {} evs with
  | .ok _ => none
  | .error e => some e

end Ivy.Mon.C07
