import Ivy.Mon.Fd
/-!
# Monitor for C02 — descriptor readiness is never lost

(a) *interest = handlers*: at every kernel wait the set the kernel is asked to watch contains exactly
    the registered user descriptors that have a handler, asking for input iff the in handler is set and
    for output iff the out handler is set (ERR/HUP are always reported by the kernel);
(b) *dispatch complete*: every band reported by a wait for a descriptor whose handler for that band
    was set at that moment, and stayed set, with the descriptor staying registered, gets its callback
    before the loop waits again or returns;
(c) *no sleeping on ready* (uses the harness's ground truth): a wait that returned nothing for a
    descriptor although the kernel condition of a wanted band held before the wait is a lost wake-up.
-/
namespace Ivy.Mon.C02
open Ivy.L1 Ivy.Mon

structure M where
  book : FdBook := {}
  owed : List (FdId × Nat) := []
  gt : List (FdId × KEv) := []
  inWait : Bool := false
  dead : Bool := false

def bandName (b : Nat) : String := match b with | 0 => "err" | 1 => "in" | _ => "out"

/-- expected (in?, out?) request of a registered descriptor, none = must be absent -/
def expectInterest (v : FdView) : Option (Bool × Bool) :=
  if v.hin || v.hout || v.herr then some (v.hin, v.hout) else none

def checkInterest (book : FdBook) (interest : List (FdId × Bands)) : Option String :=
  let user := interest.filter (·.1 < 1000)
  -- every registered descriptor with a handler is present with the right bands
  let missing := book.regd.findSome? fun v =>
    match expectInterest v, user.find? (·.1 == v.f) with
    | some (i, o), some (_, b) =>
      if b.i != i || b.o != o then some s!"kernel is asked to watch f{v.f} for (in={b.i},out={b.o}) but its handlers are (in={i},out={o})" else none
    | some _, none => some s!"f{v.f} has a handler set but the kernel is not asked to watch it"
    | none, some _ => some s!"f{v.f} has no handler but is still in the kernel's interest set"
    | none, none => none
  match missing with
  | some e => some e
  | none =>
    -- nothing else is watched, nothing twice
    match user.find? (fun p => (book.find p.1).isNone) with
    | some (f, _) => some s!"kernel is asked to watch f{f}, which is not registered"
    | none =>
      if (user.map (·.1)).eraseDups.length != user.length then some "a descriptor appears twice in the kernel's interest set" else none

def bandHeld (ev : KEv) (band : Nat) : Bool :=
  match band with
  | 0 => ev.kerr || ev.khup
  | 1 => ev.kin || ev.kerr || ev.khup
  | _ => ev.kout || ev.kerr || ev.khup

def step (m : M) (e : Ev) : Except String M :=
  if m.dead then .ok m else
  let book := m.book.step e
  match e with
  | .out (.fatal _) => .ok { m with dead := true }
  | .out (.fault _) => .ok { m with dead := true }
  | .out (.wait _ _ interest _ _) =>
    match m.owed.find? (fun p => m.book.handler p.1 p.2) with
    | some (f, b) => .error s!"band {bandName b} of f{f} was reported by the kernel and its handler stayed set, but it was never called"
    | none =>
      match checkInterest m.book interest with
      | some err => .error err
      | none => .ok { m with book, owed := [], inWait := true, gt := [] }
  | .out .mainRet =>
    match m.owed.find? (fun p => m.book.handler p.1 p.2) with
    | some (f, b) => .error s!"band {bandName b} of f{f} was reported by the kernel and its handler stayed set, but it was never called"
    | none => .ok { m with book, owed := [] }
  | .gt l => .ok { m with book, gt := l }
  | .inp (.wret r) =>
    match r with
    | .events l =>
      let rep := l.filterMap fun it => match it with | .fd f ev => some (f, ev) | _ => none
      -- (c) lost wake-up: nothing at all reported although a wanted band was ready before the wait
      let lost := if l.isEmpty then
          m.gt.findSome? fun (f, ev) =>
            if (m.book.handler f 1 && ev.kin) || (m.book.handler f 2 && ev.kout) ||
               ((m.book.handler f 0 || m.book.handler f 1 || m.book.handler f 2) && (ev.kerr || ev.khup))
            then some f else none
        else none
      match lost with
      | some f => .error s!"the wait timed out although f{f} was ready for a band with a handler (lost readiness)"
      | none =>
        let owed := rep.flatMap fun (f, ev) =>
          if f ≥ 1000 then [] else
          ([0, 1, 2].filter fun b => bandHeld ev b && m.book.handler f b).map fun b => (f, b)
        .ok { m with book, owed := owed, inWait := false }
    | _ => .ok { m with book, owed := [], inWait := false }
  | .out (.cb (.fd f band)) => .ok { m with book, owed := m.owed.filter (· != (f, band)) }
  | .inp (.api (.fdUnregister f)) => .ok { m with book, owed := m.owed.filter (·.1 != f) }
  | .inp (.api (.fdSetIn f false)) => .ok { m with book, owed := m.owed.filter (· != (f, 1)) }
  | .inp (.api (.fdSetOut f false)) => .ok { m with book, owed := m.owed.filter (· != (f, 2)) }
  | .inp (.api (.fdSetErr f false)) => .ok { m with book, owed := m.owed.filter (· != (f, 0)) }
  | _ => .ok { m with book }

def verdict (evs : List Ev) : Option String :=
  match runMon step {} evs with
  | .ok _ => none
  | .error e => some e

end Ivy.Mon.C02
