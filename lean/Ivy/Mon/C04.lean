import Ivy.L1.Exec
/-!
# Monitor for C04 — timers fire exactly once, never early, and the loop never oversleeps

Over observable records only (`clock` = the last value the loop read from the clock):
* a timer handler is entered only for a registered timer, which consumes the registration (once);
* at entry the clock is at or past the expiry (never early);
* at every kernel wait, for every registered timer: the requested timeout does not reach beyond
  its expiry (nanosecond waits: `clock + to ≤ expiry` or `to = 0`; millisecond waits: rounded up to
  the next millisecond, capped at 24 h), or the wait is unbounded and the kernel timer is armed at a
  value `≤ expiry` (or at 1 ns);
* after a kernel wait returned (with events or `EINTR`) the loop reads the clock again before it uses
  it (`fresh`): a timer handler is only entered against a clock value read after the last wait
  returned, and a finite non-zero wait timeout (which is computed from the clock) is only requested
  with such a value while a timer is registered.  A wait that failed with `ENOSYS` did not sleep and
  leaves `fresh` unchanged.
-/
namespace Ivy.Mon.C04
open Ivy.L1
open Ivy.Heap (TS)

structure M where
  reg : List (Nat × TS) := []
  clock : TS := ⟨0, 0⟩
  pending : Option (Nat × TS) := none
  dead : Bool := false
  /-- the clock value was read after the last kernel wait returned -/
  fresh : Bool := false

def ns (t : TS) : Int := t.sec * 1000000000 + t.nsec

/-- the wait cannot last beyond `exp` -/
def bounded (clock : TS) (to : Timeout) (kt : Option (Option TS)) (exp : TS) : Bool :=
  let remain := ns exp - ns clock
  match to with
  | .ns d => d == 0 || d ≤ remain
  | .ms m => m == 0 || (m - 1) * 1000000 < remain || m == 86400000
  | .inf => match kt with
    | some (some v) => ns v ≤ ns exp || (v.sec == 0 && v.nsec == 1)
    | _ => false

/-- a finite non-zero timeout: it was computed from the loop's clock -/
def finitePos : Timeout → Bool
  | .ns v => decide (v > 0)
  | .ms v => decide (v > 0)
  | .inf => false

def step (m : M) (e : Ev) : Except String M :=
  if m.dead then .ok m else
  match e with
  | .out (.fatal _) => .ok { m with dead := true }
  | .out (.fault _) => .ok { m with dead := true }
  | .inp (.time t) => .ok { m with clock := t, pending := none, fresh := true }
  | .inp (.wret r) =>
    match r with
    | .enosys => .ok { m with pending := none }
    | _ => .ok { m with pending := none, fresh := false }
  | .inp (.api (.timerRegister t ex)) => .ok { m with pending := some (t, ex) }
  | .out (.ret _) =>
    match m.pending with
    | some (t, ex) => .ok { m with reg := m.reg.filter (·.1 != t) ++ [(t, ex)], pending := none }
    | none => .ok m
  | .inp (.api (.timerUnregister t)) => .ok { m with reg := m.reg.filter (·.1 != t), pending := none }
  | .out (.cb (.timer t)) =>
    match m.reg.find? (·.1 == t) with
    | none => .error s!"timer t{t} handler entered although the timer is not registered (fired twice or after unregister)"
    | some (_, ex) =>
      if ex.gt m.clock then .error s!"timer t{t} fired early: expiry {ns ex} ns, loop clock {ns m.clock} ns"
      else if !m.fresh then .error s!"timer t{t} fired against a clock value read before the last kernel wait"
      else .ok { m with reg := m.reg.filter (·.1 != t) }
  | .out (.wait _ to _ kt _) =>
    match m.reg.find? (fun p => !bounded m.clock to kt p.2) with
    | some (t, ex) => .error s!"wait may oversleep timer t{t} (expiry {ns ex} ns, loop clock {ns m.clock} ns)"
    | none =>
      if !m.fresh && !m.reg.isEmpty && finitePos to then
        .error "wait timeout computed from a clock value read before the last kernel wait returned"
      else .ok m
  | _ => .ok { m with pending := none }

def verdict (evs : List Ev) : Option String :=
  match runMon step {} evs with
  | .ok _ => none
  | .error e => some e

end Ivy.Mon.C04
