import Ivy.L1.Exec
/-!
# Monitor for C01 — no callback and no memory access after an unregister call returns

Over observable records only: a callback of a descriptor, event or raw event is entered only while the
object is registered; a timer or task callback only for a registered object, which is thereby
unregistered (one-shot); nothing is ever reported for an object between the return of its unregister
call and a later register call; and the library never touches object memory the user has freed
(`fault` records in the model; AddressSanitizer reports on the implementation).
The user may free an object whenever it is unregistered — in particular immediately after
unregistering it, or from inside a one-shot object's own handler.
-/
namespace Ivy.Mon.C01
open Ivy.L1

structure M where
  reg : List (Nat × Nat) := []      -- (kind, id): 0 fd, 1 timer, 2 task, 3 event, 4 raw
  pending : Option (Nat × Nat) := none
  dead : Bool := false

def kindName (k : Nat) : String := match k with | 0 => "descriptor f" | 1 => "timer t" | 2 => "task k" | 3 => "event e" | _ => "raw event r"

def step (m : M) (e : Ev) : Except String M :=
  if m.dead then .ok m else
  match e with
  | .out (.fatal _) => .ok { m with dead := true }
  | .out (.fault msg) => .error s!"library touches freed or out-of-bounds memory: {msg}"
  | .inp (.api a) =>
    match a with
    | .fdRegister f .. => .ok { m with pending := some (0, f) }
    | .fdRegisterTry f .. => .ok { m with pending := some (0, f) }
    | .timerRegister t _ => .ok { m with pending := some (1, t) }
    | .taskRegister k => .ok { m with pending := some (2, k) }
    | .evRegister x _ => .ok { m with pending := some (3, x) }
    | .rawRegister r _ => .ok { m with pending := some (4, r) }
    | .fdUnregister f => .ok { m with reg := m.reg.erase (0, f), pending := none }
    | .timerUnregister t => .ok { m with reg := m.reg.erase (1, t), pending := none }
    | .taskUnregister k => .ok { m with reg := m.reg.erase (2, k), pending := none }
    | .evUnregister x => .ok { m with reg := m.reg.erase (3, x), pending := none }
    | .rawUnregister r => .ok { m with reg := m.reg.erase (4, r), pending := none }
    | _ => .ok { m with pending := none }
  | .out (.ret v) =>
    match m.pending with
    | some p => .ok { m with reg := if v == 0 then m.reg.erase p ++ [p] else m.reg, pending := none }
    | none => .ok m
  | .out (.cb c) =>
    let (k, id, oneShot) := match c with
      | .fd f _ => (0, f, false) | .timer t => (1, t, true) | .task t => (2, t, true)
      | .event x => (3, x, false) | .raw r => (4, r, false)
    if k == 0 && id ≥ 1000 then .ok m else
    if !m.reg.contains (k, id) then .error s!"callback of {kindName k}{id} entered although it is not registered (unregister had returned)"
    else .ok { m with reg := if oneShot then m.reg.erase (k, id) else m.reg, pending := none }
  | _ => .ok { m with pending := none }

def verdict (evs : List Ev) : Option String :=
  match runMon step {} evs with
  | .ok _ => none
  | .error e => some e

end Ivy.Mon.C01
