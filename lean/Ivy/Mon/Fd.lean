import Ivy.L1.Exec
/-! Shared bookkeeping for the descriptor monitors (C02, C03): which descriptors are registered and
which handlers are set, as told by the API records alone. -/
namespace Ivy.Mon
open Ivy.L1

structure FdView where
  f : FdId
  hin : Bool
  hout : Bool
  herr : Bool
deriving Repr

structure FdBook where
  regd : List FdView := []
  pending : Option Api := none      -- a registration call waiting for its return value
deriving Repr

def FdBook.find (b : FdBook) (f : FdId) : Option FdView := b.regd.find? (·.f == f)
def FdBook.drop (b : FdBook) (f : FdId) : FdBook := { b with regd := b.regd.filter (·.f != f) }
def FdBook.put (b : FdBook) (v : FdView) : FdBook := { (b.drop v.f) with regd := (b.drop v.f).regd ++ [v] }

def FdBook.handler (b : FdBook) (f : FdId) (band : Nat) : Bool :=
  match b.find f with
  | some v => match band with | 0 => v.herr | 1 => v.hin | _ => v.hout
  | none => false

/-- update on one record; user descriptors only (ids < 1000) -/
def FdBook.step (b : FdBook) (e : Ev) : FdBook :=
  match e with
  | .inp (.api a) =>
    match a with
    | .fdRegister .. => { b with pending := some a }
    | .fdRegisterTry .. => { b with pending := some a }
    | .fdUnregister f => { (b.drop f) with pending := none }
    | .fdSetIn f v => match b.find f with
      | some w => { (b.put { w with hin := v }) with pending := none }
      | none => b
    | .fdSetOut f v => match b.find f with
      | some w => { (b.put { w with hout := v }) with pending := none }
      | none => b
    | .fdSetErr f v => match b.find f with
      | some w => { (b.put { w with herr := v }) with pending := none }
      | none => b
    | _ => { b with pending := none }
  | .out (.ret v) =>
    match b.pending with
    | some (.fdRegister f i o e) => if v == 0 then { (b.put ⟨f, i, o, e⟩) with pending := none } else { b with pending := none }
    | some (.fdRegisterTry f i o e _) => if v == 0 then { (b.put ⟨f, i, o, e⟩) with pending := none } else { b with pending := none }
    | _ => { b with pending := none }
  | _ => b

end Ivy.Mon
