import Ivy.Mon.C04
import Ivy.Mon.C07
/-!
# The timeout contract of `Ivy.Props.C07tmo` (hypothesis of `tmo_cap_sound`), as an executable predicate

Kept in its own small file so that the replay driver can evaluate it on every log of the implementation (a log that breaks it
is reported as ENVBAD: the harness' virtual kernel did not keep the contract the theorem assumes) without importing the proofs.
-/
namespace Ivy.L1.ProofsC07tmo
open Ivy.L1
open Ivy.Mon.C04 (ns)

/-! ## the timeout contract -/

structure CSt where
  last : Int := 0
  pend : Option Int := none
  due : Option Int := none

/-- the instant (ns) at which timeout `to`, computed from clock value `last`, runs out; `none` for
unbounded waits and zero-timeout polls -/
def toDeadline (last : Int) : Timeout → Option Int
  | .ns v => if v > 0 then some (last + v) else none
  | .ms v => if v > 0 then some (last + v * 1000000) else none
  | .inf => none

def ctrStep (c : CSt) (e : Ev) : Except String CSt :=
  match e with
  | .out (.wait _ to ..) => .ok { c with pend := toDeadline c.last to }
  | .inp (.wret (.events l)) => .ok { c with pend := none, due := if l.isEmpty then c.pend else none }
  | .inp (.wret _) => .ok { c with pend := none }
  | .inp (.time t) =>
    match c.due with
    | some d =>
      if d ≤ ns t then .ok { c with last := ns t, due := none }
      else .error "the clock did not advance by the timeout of a wait that timed out"
    | none => .ok { c with last := ns t }
  | _ => .ok c

/-- the timeout contract over a trace -/
def tmoContract (evs : List Ev) : Bool := monOk ctrStep {} evs

end Ivy.L1.ProofsC07tmo
