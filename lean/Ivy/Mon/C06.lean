import Ivy.L1.Exec
/-!
# Monitor for C06 — tasks run exactly once before the loop sleeps and cannot starve polling

A statement over observable records only:
* a task handler is entered only for a task that is registered, and entering it consumes the
  registration (exactly once per registration; unregistered on entry);
* whenever the loop enters the kernel wait while a task is registered, the wait cannot block:
  the timeout is zero, or (kernel-timer mode) the wait is unbounded but the kernel timer is armed at 1 ns;
* the same task never runs twice without a kernel wait in between (a re-registration by a task that
  already ran this round is deferred past the next poll).
-/
namespace Ivy.Mon.C06
open Ivy.L1

structure M where
  reg : List TaskId := []          -- registered, handler not yet entered
  ranSinceWait : List TaskId := []
  pendingReg : Option TaskId := none   -- taskRegister seen, waiting for its RET
  dead : Bool := false

def nonBlocking (to : Timeout) (ktimer : Option (Option Ivy.Heap.TS)) : Bool :=
  match to with
  | .ns v => v == 0
  | .ms v => v == 0
  | .inf => match ktimer with
    | some (some t) => t.sec == 0 && t.nsec == 1
    | _ => false

def step (m : M) (e : Ev) : Except String M :=
  if m.dead then .ok m else
  match e with
  | .inp (.api (.taskRegister k)) => .ok { m with pendingReg := some k }
  | .out (.ret _) =>
    match m.pendingReg with
    | some k => .ok { m with reg := m.reg ++ [k], pendingReg := none }
    | none => .ok m
  | .out (.fatal _) => .ok { m with dead := true }
  | .out (.fault _) => .ok { m with dead := true }
  | .inp (.api (.taskUnregister k)) => .ok { m with reg := m.reg.erase k, pendingReg := none }
  | .out (.cb (.task k)) =>
    if !m.reg.contains k then .error s!"task k{k} handler entered although the task is not registered (ran twice or after unregister)"
    else if m.ranSinceWait.contains k then .error s!"task k{k} ran twice without a kernel poll in between"
    else .ok { m with reg := m.reg.erase k, ranSinceWait := m.ranSinceWait ++ [k] }
  | .out (.wait _ to _ kt _) =>
    if !m.reg.isEmpty && !nonBlocking to kt then
      .error s!"loop enters a blocking wait while task k{m.reg.headD 0} is registered"
    else .ok { m with ranSinceWait := [] }
  | .out .mainRet => .ok { m with ranSinceWait := [] }
  | _ => .ok { m with pendingReg := none }

def ok (evs : List Ev) : Bool := monOk step {} evs
def verdict (evs : List Ev) : Option String :=
  match runMon step {} evs with
  | .ok _ => none
  | .error e => some e

end Ivy.Mon.C06
