import Ivy.L2.Signal
/-! Specification side of C10: the documented fan-out rule stated on the table of registered interests
(no reference to the ordered sets), and the invariant of the LTS `Ivy.Signal.step`. -/
namespace Ivy.Signal

/-- i is a registered process-wide interest -/
def InProc (st : State) (i : Nat) : Prop := st.reg i = true ∧ st.this i = false
/-- i is a registered interest restricted to thread T (IV_SIGNAL_FLAG_THIS_THREAD, registered by T) -/
def InThr (st : State) (T i : Nat) : Prop := st.reg i = true ∧ st.this i = true ∧ st.owner i = T

/-- The documented rule over a set `P` of interests, for signal `n`: if `P` has an exclusive interest for `n`,
exactly the first of them (lowest address) is woken; otherwise all its interests for `n` are. -/
def Selected (P : Nat → Prop) (st : State) (n i : Nat) : Prop :=
  P i ∧ st.sig i = n ∧
  ((st.excl i = true ∧ ∀ j, P j → st.sig j = n → st.excl j = true → i ≤ j) ∨
   (st.excl i = false ∧ ∀ j, P j → st.sig j = n → st.excl j = false))

/-- thread T has an own (this-thread) interest for n -/
def HasThr (st : State) (T n : Nat) : Prop := ∃ j, InThr st T j ∧ st.sig j = n

/-- Who a delivery of `n` received by thread `T` reaches: T's own interests for `n` if it has any (by the rule),
otherwise the process-wide ones (by the rule). -/
def Fanout (st : State) (T n i : Nat) : Prop :=
  (HasThr st T n ∧ Selected (InThr st T) st n i) ∨ (¬ HasThr st T n ∧ Selected (InProc st) st n i)

def Sorted (st : State) (l : List Nat) : Prop := l.Pairwise (fun a b => less st a b = true)

/-- the posts among the outputs -/
def posts : List Out → List Nat
  | [] => []
  | .post i :: r => i :: posts r
  | _ :: r => posts r

structure Inv (st : State) : Prop where
  pid_pos : st.pid ≠ 0
  fresh : st.ownerPid = 0 → ∀ i, st.reg i = false
  proc_mem : ∀ i, i ∈ st.proc ↔ InProc st i
  thr_mem : ∀ T i, i ∈ st.thr T ↔ InThr st T i
  proc_sorted : Sorted st st.proc
  thr_sorted : ∀ T, Sorted st (st.thr T)
  /-- `total_num_interests[n]` is the number of registered interests for n -/
  count_card : ∃ regs : List Nat, regs.Nodup ∧ (∀ i, i ∈ regs ↔ st.reg i = true) ∧
      ∀ n, st.count n = (regs.filter (fun i => st.sig i == n)).length
  disp_count : ∀ n, st.disp n = true ↔ st.count n ≠ 0
  sig_range : ∀ i, st.reg i = true → st.sig i < NSIG
  pc_main : ∀ T n, st.pc T = some n → st.ownerPid = st.pid
  pc_pend : ∀ T n, st.pc T = some n → st.pend T = []
  pend_main : ∀ T, st.pend T ≠ [] → st.ownerPid = st.pid
  /-- a pending write targets a registered interest, protected either by being the writer's own this-thread
  interest or by `sig_lock` -/
  pend_reg : ∀ T i, i ∈ st.pend T → st.reg i = true ∧ ((st.this i = true ∧ st.owner i = T) ∨ st.lock = some T)
  lock_pend : ∀ T, st.lock = some T → st.pend T ≠ []
  /-- a delivery noted for a registered interest whose handler has not started since: the `active` flag is set
  (so unregistering an exclusive interest hands it on) and an event run is owed, in progress, or its post is
  about to be written -/
  noted_ok : ∀ i, st.reg i = true → st.noted i = true →
      st.active i = true ∧ (st.owed i = true ∨ st.stage i = 1 ∨ ∃ T, i ∈ st.pend T)

/-- delivery actions -/
def Action.isDelivery : Action → Bool
  | .sigThread _ _ => true
  | .sigProc _ => true
  | _ => false

/-- actions that legitimately end the obligation "interest i is owed an event run": the run itself, unregistering i,
continuing in a forked child, (re-)registering in a forked child (post-fork reset) -/
def consumes (i : Nat) : Action → Bool
  | .evRead j => j == i
  | .unreg _ j => j == i
  | .fork _ => true
  | _ => false

/-- Interest i is owed an event run (C09 turns `owed` into a call of `iv_signal_event`) or a write to its raw event is
still being performed by the thread that is in the middle of a wake walk; in the owner process. -/
def Oblig (st : State) (i : Nat) : Prop :=
  st.ownerPid = st.pid ∧ st.reg i = true ∧ (st.owed i = true ∨ ∃ T, i ∈ st.pend T)

end Ivy.Signal
