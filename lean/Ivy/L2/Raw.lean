/-
Model of /repo/src/iv_event_raw_posix.c together with the part of /repo/src/eventfd-linux.h and
/repo/src/iv_fd.c it relies on (C09).

One `iv_event_raw` object is a labelled transition system:

* the *kernel object* behind its descriptor(s) (`KObj`) in its two representations — an eventfd
  counter (an 8-byte write of 1 adds 1 and fits while the counter is below 2^64-2; an 8-byte read
  returns the counter and zeroes it) and a pipe (a byte queue; a non-blocking 1-byte write either
  appends the byte or fails with EAGAIN, and it can fail only when the pipe holds data; a read of
  up to `count` bytes takes `min content count`) — with the O_NONBLOCK flag of the open file
  description read from and of the one written to (one and the same description for an eventfd);
* the process-wide latch `eventfd_in_use` (2 → 1 → 0) of eventfd-linux.h, which also selects the
  sizes used by `iv_event_raw_post` and `iv_event_raw_got_event` (a static shared by all objects);
* the owner's progress through `iv_event_raw_got_event` (`Pc`): the read happens BEFORE the handler
  is called, EAGAIN returns without calling it;
* any number of posters (threads, signal handlers, forked children — all hold a descriptor for the
  same kernel object), each running the write loop of `iv_event_raw_post`, retried only on EINTR.

Kernel answers that are not determined by the state (whether a pipe write fits, EINTR) are part of
the action label; `step` returns `none` when the answer is not allowed by the kernel contract or
the action is not enabled (e.g. a write that would have to block has no immediate answer).

Ghost state (not in the C code): a logical clock, the completed posts with the times they began and
performed their write, the times the handler was entered, and two counters for the accounting
invariant.  A registration that fails for lack of descriptors (EMFILE) is no action of the model: it changes
neither the object nor the shared latch (the `regfail` scenario family checks exactly that on the code).
-/
namespace Ivy.Raw

/-- what the running kernel offers (constant over the life of the process) and the pipe capacity -/
structure Cfg where
  has2 : Bool      -- eventfd2(2) exists
  has1 : Bool      -- eventfd(2) exists
  cap  : Nat       -- capacity of a pipe in bytes
deriving Repr, DecidableEq

/-- ceiling of an eventfd counter: a write that would take it above 2^64-2 does not fit -/
def counterMax : Nat := 18446744073709551614

structure KObj where
  isPipe  : Bool
  cap     : Nat
  content : Nat        -- counter value | bytes queued
  nbR     : Bool       -- O_NONBLOCK on the description the owner reads from
  nbW     : Bool       -- O_NONBLOCK on the description posters write to
deriving Repr, DecidableEq

instance : Inhabited KObj := ⟨{ isPipe := false, cap := 0, content := 0, nbR := false, nbW := false }⟩

/-- `eventfd2(0, EFD_CLOEXEC|EFD_NONBLOCK)` (nb = true) or `eventfd(0)` (nb = false) -/
def KObj.mkCounter (nb : Bool) : KObj := { isPipe := false, cap := 0, content := 0, nbR := nb, nbW := nb }
/-- `pipe(fd)`: both ends blocking -/
def KObj.mkPipe (cap : Nat) : KObj := { isPipe := true, cap := cap, content := 0, nbR := false, nbW := false }

/-- `fcntl(rfd, F_SETFL, O_NONBLOCK)`: an eventfd has a single description, a pipe one per end -/
def KObj.setNonblockR (k : KObj) : KObj :=
  if k.isPipe then { k with nbR := true } else { k with nbR := true, nbW := true }
def KObj.setNonblockW (k : KObj) : KObj :=
  if k.isPipe then { k with nbW := true } else { k with nbR := true, nbW := true }

def KObj.readable (k : KObj) : Bool := k.content != 0

/-- answers of one write(2) -/
inductive WRes | ok | eagain | eintr | einval
deriving Repr, DecidableEq

/-- the write transfers its data: the state afterwards, `none` when it does not fit (or is malformed) -/
def KObj.writeOk (k : KObj) (size : Nat) : Option KObj :=
  if k.isPipe then
    if k.content + size ≤ k.cap then some { k with content := k.content + size } else none
  else if size = 8 ∧ k.content < counterMax then some { k with content := k.content + 1 } else none

/-- EAGAIN is a possible answer: only on a non-blocking description, and only when the object holds
data (pipe: an empty pipe has room for one byte) resp. the counter is at its ceiling -/
def KObj.eagainAllowed (k : KObj) (size : Nat) : Bool :=
  k.nbW && (if k.isPipe then k.content != 0 else size == 8 && k.content == counterMax)

/-- EINVAL: an eventfd written with anything but 8 bytes -/
def KObj.einvalAllowed (k : KObj) (size : Nat) : Bool := !k.isPipe && size != 8

/-- answers of one read(2) that are determined by the state -/
inductive RRes
  | data (ret : Nat) (taken : Nat)   -- ret bytes returned; `taken` = amount removed from the object
  | eagain
  | einval
deriving Repr, DecidableEq

/-- `none` = the read would block (blocking description, nothing to read) -/
def KObj.read (k : KObj) (count : Nat) : Option (RRes × KObj) :=
  if !k.isPipe && count < 8 then some (.einval, k)
  else if k.content = 0 then (if k.nbR then some (.eagain, k) else none)
  else if k.isPipe then
    let n := min k.content count
    some (.data n n, { k with content := k.content - n })
  else some (.data 8 k.content, { k with content := 0 })

/-- `eventfd_grab()`: `some nb` = an eventfd was obtained (nb: created non-blocking), `none` = -ENOSYS;
second component = the latch afterwards -/
def grab (cfg : Cfg) (inUse : Nat) : Option Bool × Nat :=
  if inUse = 2 ∧ cfg.has2 then (some true, 2)
  else
    let iu := if inUse = 2 then 1 else inUse
    if iu ≠ 0 ∧ cfg.has1 then (some false, iu) else (none, 0)

/-- the descriptor(s) as created by `iv_event_raw_register`, before any fcntl; and the latch -/
def registerCreate (cfg : Cfg) (inUse : Nat) : KObj × Nat :=
  let g := if inUse ≠ 0 then grab cfg inUse else (none, 0)
  match g.1 with
  | some nb => (KObj.mkCounter nb, g.2)
  | none => (KObj.mkPipe cfg.cap, g.2)

/-- ... after `iv_fd_register(&this->event_rfd)` (sets O_NONBLOCK on the read descriptor) and
`if (!eventfd_in_use) iv_fd_set_nonblock(fd[1])` -/
def registerFlags (k : KObj) (inUse : Nat) : KObj :=
  let k1 := k.setNonblockR
  if inUse = 0 then k1.setNonblockW else k1

inductive Pc | idle | drained | inHandler
deriving Repr, DecidableEq

structure Flight where
  pid   : Nat
  epoch : Nat      -- which registration the poster's descriptor belongs to
  tb    : Nat
deriving Repr, DecidableEq

structure Post where
  pid : Nat
  tb  : Nat        -- ghost: time iv_event_raw_post was entered
  tw  : Nat        -- ghost: time of the write that ended it
  res : WRes
deriving Repr, DecidableEq

structure St where
  inUse      : Nat := 2        -- static int eventfd_in_use
  registered : Bool := false
  k          : KObj := default
  epoch      : Nat := 0
  pc         : Pc := .idle
  fatal      : Bool := false   -- iv_fatal was called
  flights    : List Flight := []
  now        : Nat := 0        -- ghost
  posts      : List Post := []   -- ghost: completed posts of the current registration
  hstarts    : List Nat := []    -- ghost: handler entries of the current registration
  nok        : Nat := 0          -- ghost: writes that transferred data
  ndrained   : Nat := 0          -- ghost: total amount taken by reads
deriving Repr, DecidableEq

def St.init : St := {}

inductive Action
  | register                          -- owner: iv_event_raw_register
  | grabElsewhere                     -- the registration of another object runs eventfd_grab on the shared latch
  | unregister                        -- owner: iv_event_raw_unregister
  | postBegin (pid : Nat)             -- any context: iv_event_raw_post entered
  | postWrite (pid : Nat) (res : WRes)  -- one write(2) of its loop, with the kernel's answer
  | ownerRead (eintr : Bool)          -- iv_event_raw_got_event: one read(2) of its loop
  | handlerStart                      -- this->handler(this->cookie) entered
  | handlerEnd
deriving Repr, DecidableEq

/-- bytes written by a post / asked for by the drain: selected by the latch, not by the object -/
def wsize (inUse : Nat) : Nat := if inUse = 0 then 1 else 8
def toread (inUse : Nat) : Nat := if inUse = 0 then 1024 else 8

def findFlight (l : List Flight) (pid : Nat) : Option Flight := l.find? (·.pid == pid)
def dropFlight (l : List Flight) (pid : Nat) : List Flight := l.filter (·.pid != pid)

def tick (s : St) : St := { s with now := s.now + 1 }

def doRegister (cfg : Cfg) (s : St) : St :=
  let c := registerCreate cfg s.inUse
  { s with inUse := c.2, registered := true, k := registerFlags c.1 c.2, epoch := s.epoch + 1,
           posts := [], hstarts := [], nok := 0, ndrained := 0 }

/-- the write ended the post (`ret >= 0`, or `ret < 0` with an errno other than EINTR) -/
def postDone (s : St) (f : Flight) (res : WRes) (k : KObj) (okc : Nat) : St :=
  { s with k := k, nok := s.nok + okc, flights := dropFlight s.flights f.pid,
           posts := { pid := f.pid, tb := f.tb, tw := s.now, res := res } :: s.posts }

/-- is the descriptor the poster holds the one of the current registration? (a forked child keeps
its copy of an earlier registration's descriptor; writing to that has no effect here) -/
def stale (s : St) (f : Flight) : Bool := !s.registered || f.epoch != s.epoch

def doPostWrite (s : St) (f : Flight) (res : WRes) : Option St :=
  match res with
  | .eintr => some s                                -- `while (ret < 0 && errno == EINTR)`: try again
  | .ok =>
    if stale s f then some { s with flights := dropFlight s.flights f.pid } else
    match s.k.writeOk (wsize s.inUse) with
    | some k' => some (postDone s f .ok k' 1)
    | none => none
  | .eagain =>
    if stale s f then some { s with flights := dropFlight s.flights f.pid } else
    if s.k.eagainAllowed (wsize s.inUse) then some (postDone s f .eagain s.k 0) else none
  | .einval =>
    if stale s f then some { s with flights := dropFlight s.flights f.pid } else
    if s.k.einvalAllowed (wsize s.inUse) then some (postDone s f .einval s.k 0) else none

def doOwnerRead (s : St) : Option St :=
  match s.k.read (toread s.inUse) with
  | none => none                                                   -- would block
  | some (.eagain, _) => some s                                    -- `return;` without the handler
  | some (.einval, _) => some { s with fatal := true }            -- iv_fatal("... returned error")
  | some (.data ret taken, k') =>
    if ret = 0 then some { s with fatal := true }                  -- iv_fatal("... returned zero")
    else some { s with k := k', pc := .drained, ndrained := s.ndrained + taken }

def step (cfg : Cfg) (s : St) (a : Action) : Option St :=
  if s.fatal then none else
  match a with
  | .register => if !s.registered && s.pc != .drained then some (tick (doRegister cfg s)) else none
  | .grabElsewhere => some (tick { s with inUse := if s.inUse ≠ 0 then (grab cfg s.inUse).2 else 0 })
  | .unregister => if s.registered && s.pc != .drained then some (tick { s with registered := false }) else none
  | .postBegin pid =>
    if s.registered && (findFlight s.flights pid).isNone then
      some (tick { s with flights := { pid := pid, epoch := s.epoch, tb := s.now } :: s.flights })
    else none
  | .postWrite pid res =>
    match findFlight s.flights pid with
    | none => none
    | some f => (doPostWrite s f res).map tick
  | .ownerRead eintr =>
    if s.registered && s.pc == .idle then
      if eintr then some (tick s) else (doOwnerRead s).map tick
    else none
  | .handlerStart => if s.pc == .drained then some (tick { s with pc := .inHandler, hstarts := s.now :: s.hstarts }) else none
  | .handlerEnd => if s.pc == .inHandler then some (tick { s with pc := .idle }) else none

/-- run a list of actions from a state -/
def runFrom (cfg : Cfg) (s : St) : List Action → Option St
  | [] => some s
  | a :: as => match step cfg s a with
    | some s' => runFrom cfg s' as
    | none => none

end Ivy.Raw
