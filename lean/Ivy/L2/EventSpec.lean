import Ivy.L2.Event
/-! Invariant and trace vocabulary for the C08 theorems. -/
namespace Ivy.Event

/-- a wake-up the owner's kernel wait will report through the transport in use -/
def kickPending (cfg : Cfg) (s : State) : Prop :=
  (cfg.raw = false ∧ s.armed = true) ∨ (cfg.raw = true ∧ 0 < s.rawCount)

/-- some poster has left its critical section with `post = 1` and has not issued the kick yet -/
def kickInFlight (s : State) : Prop := ∃ e, PSt.afterCs e true ∈ s.posters

/-- WakeOwed: a non-empty pending list is always covered by a wake source, a kick in flight, or an
owner that is already on its way to the steal. -/
def WakeOwed (cfg : Cfg) (s : State) : Prop :=
  s.pending ≠ [] → kickPending cfg s ∨ s.localTask = true ∨ kickInFlight s ∨ s.pc = .woken

structure Inv (cfg : Cfg) (s : State) : Prop where
  wake      : WakeOwed cfg s
  batchPc   : s.batch ≠ [] → ∃ e, s.pc = .inHandler e false
  nodup     : (s.pending ++ s.batch).Nodup            -- an event is on at most one list, at most once
  regNodup  : s.registered.Nodup
  sub       : ∀ x, x ∈ s.pending ∨ x ∈ s.batch → x ∈ s.registered
  postersReg: ∀ p ∈ s.posters, ∀ e, p.inPost e = true → e ∈ s.registered
  owedIff   : ∀ e, s.owed e = true ↔ (e ∈ s.pending ∨ e ∈ s.batch)
  cnt1      : ∀ e, s.delivered e + s.pending.count e + s.batch.count e ≤ s.csDone e
  cnt2      : ∀ e, s.csDone e + s.posters.count (.inCs e) = s.begun e
  noFault   : s.fault = false

/-- the owner is not inside the delivery code, no wake source exists and no kick is in flight -/
def Quiescent (cfg : Cfg) (s : State) : Prop :=
  (s.pc = .idle ∨ s.pc = .blocked) ∧ ¬ kickPending cfg s ∧ s.localTask = false ∧ ¬ kickInFlight s

/-- executable form of `Quiescent` (used by the replay driver at global quiescence) -/
def PSt.owesKick : PSt → Bool
  | .afterCs _ true => true
  | _ => false

def quiescentB (cfg : Cfg) (s : State) : Bool :=
  (s.pc == .idle || s.pc == .blocked) &&
  !((!cfg.raw && s.armed) || (cfg.raw && decide (0 < s.rawCount))) &&
  !s.localTask && !s.posters.any PSt.owesKick

/-- the action starts the handler of `e` (always executed by the owner: these are owner actions) -/
def Action.starts (e : Ev) : Action → Prop
  | .stealRun e' => e' = e
  | .handlerNext e' => e' = e
  | _ => False

/-- the action settles an owed post of `e`: handler start or unregistration -/
def Action.clears (e : Ev) : Action → Prop
  | .stealRun e' => e' = e
  | .handlerNext e' => e' = e
  | .unregister e' => e' = e
  | _ => False

instance (e : Ev) (a : Action) : Decidable (a.starts e) := by
  cases a <;> simp only [Action.starts] <;> infer_instance
instance (e : Ev) (a : Action) : Decidable (a.clears e) := by
  cases a <;> simp only [Action.clears] <;> infer_instance

/-- states reachable from the initial state with `n` poster threads -/
def Reachable (cfg : Cfg) (n : Nat) (s : State) : Prop := ∃ as, exec cfg (State.init n) as = some s

end Ivy.Event
