import Ivy.L2.RawSpec
/-! Proofs for C09 (see `Ivy/Props/C09.lean` for the statements). -/
namespace Ivy.Raw.Proofs
open Ivy.Raw

/-! ### the latch and the descriptor created by a registration -/

theorem grab_latch (cfg : Cfg) (iu : Nat) (h : iu = 2 ∨ iu = settle cfg) (h0 : iu ≠ 0) :
    (grab cfg iu).2 = settle cfg ∧ ((grab cfg iu).1 = none ↔ settle cfg = 0) ∧
    (∀ nb, (grab cfg iu).1 = some nb → (nb = true ↔ settle cfg = 2)) := by
  unfold grab settle at *
  cases h2 : cfg.has2 <;> cases h1 : cfg.has1 <;> simp_all <;> rcases h with h | h <;> simp_all

theorem create_spec (cfg : Cfg) (iu : Nat) (h : iu = 2 ∨ iu = settle cfg) :
    (registerCreate cfg iu).2 = settle cfg ∧
    (registerCreate cfg iu).1.isPipe = (settle cfg == 0) ∧
    (registerCreate cfg iu).1.content = 0 ∧
    ((registerCreate cfg iu).1.isPipe = true → (registerCreate cfg iu).1.cap = cfg.cap) := by
  unfold registerCreate
  by_cases h0 : iu = 0
  · have : settle cfg = 0 := by rcases h with h | h <;> omega
    simp [h0, this, KObj.mkPipe]
  · have g := grab_latch cfg iu h h0
    simp only [h0, ne_eq, not_false_eq_true, if_true]
    cases hg : (grab cfg iu).1 with
    | none => simp [g.1, g.2.1.mp hg, KObj.mkPipe]
    | some nb =>
      have : settle cfg ≠ 0 := fun h' => by have := g.2.1.mpr h'; simp [hg] at this
      simp [g.1, this, KObj.mkCounter]

theorem flags_spec (k : KObj) (iu : Nat) (hk : k.isPipe = (iu == 0)) :
    (registerFlags k iu).nbR = true ∧ (registerFlags k iu).nbW = true ∧
    (registerFlags k iu).isPipe = k.isPipe ∧ (registerFlags k iu).content = k.content ∧
    (registerFlags k iu).cap = k.cap := by
  unfold registerFlags KObj.setNonblockR KObj.setNonblockW
  by_cases h0 : iu = 0 <;> cases hp : k.isPipe <;> simp_all


/-! ### the invariant -/

theorem init_inv (cfg : Cfg) : Inv cfg St.init := by
  constructor <;> simp [St.init, drainedFlag]

theorem inv_register {cfg : Cfg} {s : St} (hwf : cfg.wf) (h : Inv cfg s) (hp : s.pc ≠ .drained) :
    Inv cfg (tick (doRegister cfg s)) := by
  have c := create_spec cfg s.inUse h.latch
  have f := flags_spec (registerCreate cfg s.inUse).1 (registerCreate cfg s.inUse).2 (by rw [c.2.1, c.1])
  constructor <;> simp only [tick, doRegister]
  · exact h.not_fatal
  · exact Or.inr c.1
  · intro _; exact c.1
  · intro _; rw [f.2.2.1, c.2.1, c.1]
  · intro _; exact ⟨f.1, f.2.1⟩
  · intro _ hpipe
    rw [f.2.2.1] at hpipe
    rw [f.2.2.2.1, f.2.2.2.2, c.2.2.1, c.2.2.2 hpipe]
    exact ⟨Nat.zero_le _, hwf⟩
  · intro _ _
    rw [f.2.2.2.1, c.2.2.1]; exact Nat.zero_le _
  · intro p hp'; simp at hp'
  · intro f' hf'; have := h.flightT f' hf'; omega
  · intro p hp'; simp at hp'
  · intro _; rw [f.2.2.2.1, c.2.2.1]
  · intro _; simp [drainedFlag, hp]
  · intro _ _ _ p hp'; simp at hp'


theorem grab_elsewhere_latch (cfg : Cfg) (iu : Nat) (h : iu = 2 ∨ iu = settle cfg) :
    (if iu ≠ 0 then (grab cfg iu).2 else 0) = settle cfg := by
  by_cases h0 : iu = 0
  · have : settle cfg = 0 := by rcases h with h | h <;> omega
    simp [h0, this]
  · simp [h0, (grab_latch cfg iu h h0).1]

theorem covered_mono {s s' : St} {p : Post} (h : Covered s p) (hh : ∀ x ∈ s.hstarts, x ∈ s'.hstarts) : Covered s' p := by
  obtain ⟨x, hx, hlt⟩ := h
  exact ⟨x, hh x hx, hlt⟩

theorem inv_grabElsewhere {cfg : Cfg} {s : St} (h : Inv cfg s) :
    Inv cfg (tick { s with inUse := if s.inUse ≠ 0 then (grab cfg s.inUse).2 else 0 }) := by
  have g := grab_elsewhere_latch cfg s.inUse h.latch
  exact {
    not_fatal := h.not_fatal
    latch := Or.inr g
    latch_reg := fun _ => g
    kind := fun hr => by
      show s.k.isPipe = ((if s.inUse ≠ 0 then (grab cfg s.inUse).2 else 0) == 0)
      rw [g, ← h.latch_reg hr]; exact h.kind hr
    nonblock := h.nonblock
    boundP := h.boundP
    boundC := h.boundC
    times := fun p hp => by have := h.times p hp; show _ ∧ p.tw < s.now + 1; omega
    flightT := fun f hf => by have := h.flightT f hf; show f.tb ≤ s.now + 1; omega
    results := h.results
    account := h.account
    handlers := h.handlers
    covered := fun hr hc hpc p hp => covered_mono (h.covered hr hc hpc p hp) (fun _ hx => hx) }

theorem inv_unregister {cfg : Cfg} {s : St} (h : Inv cfg s) :
    Inv cfg (tick { s with registered := false }) := by
  constructor <;> simp only [tick]
  · exact h.not_fatal
  · exact h.latch
  all_goals first
    | (intro hr; exact absurd hr (by simp))
    | skip
  · intro p hp; have := h.times p hp; omega
  · intro f hf; have := h.flightT f hf; omega
  · exact h.results

theorem inv_postBegin {cfg : Cfg} {s : St} (h : Inv cfg s) (pid : Nat) :
    Inv cfg (tick { s with flights := { pid := pid, epoch := s.epoch, tb := s.now } :: s.flights }) := by
  constructor <;> simp only [tick]
  · exact h.not_fatal
  · exact h.latch
  · exact h.latch_reg
  · exact h.kind
  · exact h.nonblock
  · exact h.boundP
  · exact h.boundC
  · intro p hp; have := h.times p hp; omega
  · intro f hf
    rcases List.mem_cons.mp hf with rfl | hf
    · simp
    · have := h.flightT f hf; omega
  · exact h.results
  · exact h.account
  · exact h.handlers
  · intro hr hc hpc p hp; exact covered_mono (h.covered hr hc hpc p hp) (fun _ hx => hx)


/-! ### posts -/

theorem writeOk_spec {k k' : KObj} {iu : Nat} (hk : k.isPipe = (iu == 0)) (h : k.writeOk (wsize iu) = some k') :
    k'.content = k.content + 1 ∧ k'.isPipe = k.isPipe ∧ k'.cap = k.cap ∧ k'.nbR = k.nbR ∧ k'.nbW = k.nbW ∧
    (k.isPipe = true → k.content + 1 ≤ k.cap) ∧ (k.isPipe = false → k.content < counterMax) := by
  unfold KObj.writeOk wsize at h
  by_cases h0 : iu = 0
  · have hp : k.isPipe = true := by simp [hk, h0]
    simp only [hp, h0, if_true] at h
    split at h
    · cases h; simp_all
    · cases h
  · have hp : k.isPipe = false := by simp [hk, h0]
    simp only [hp, h0, if_false, Bool.false_eq_true] at h
    split at h
    · cases h; simp_all
    · cases h

theorem eagain_nonzero {k : KObj} {size : Nat} (h : k.eagainAllowed size = true) : k.content ≠ 0 := by
  unfold KObj.eagainAllowed at h
  cases hp : k.isPipe <;> simp [hp, counterMax] at h <;> omega

theorem einval_impossible {k : KObj} {iu : Nat} (hk : k.isPipe = (iu == 0)) : k.einvalAllowed (wsize iu) = false := by
  unfold KObj.einvalAllowed wsize
  by_cases h0 : iu = 0 <;> simp_all

theorem mem_dropFlight {l : List Flight} {pid : Nat} {f : Flight} (h : f ∈ dropFlight l pid) : f ∈ l := by
  unfold dropFlight at h; exact (List.mem_filter.mp h).1

theorem findFlight_mem {l : List Flight} {pid : Nat} {f : Flight} (h : findFlight l pid = some f) : f ∈ l ∧ f.pid = pid := by
  unfold findFlight at h
  exact ⟨List.mem_of_find?_eq_some h, by simpa using List.find?_some h⟩

/-- a write that completed a post of the current registration and left the descriptor readable -/
theorem inv_post_done {cfg : Cfg} {s : St} (h : Inv cfg s) (_hr : s.registered = true) {f : Flight} (hf : f ∈ s.flights)
    (res : WRes) (hres : res = .ok ∨ res = .eagain) (k' : KObj) (okc : Nat)
    (hsame : k'.isPipe = s.k.isPipe ∧ k'.cap = s.k.cap ∧ k'.nbR = s.k.nbR ∧ k'.nbW = s.k.nbW)
    (hne : k'.content ≠ 0) (hacc : k'.content + s.ndrained = s.nok + okc)
    (hbP : k'.isPipe = true → k'.content ≤ k'.cap) (hbC : k'.isPipe = false → k'.content ≤ counterMax) :
    Inv cfg (tick (postDone s f res k' okc)) :=
  { not_fatal := h.not_fatal
    latch := h.latch
    latch_reg := h.latch_reg
    kind := fun hr => by show k'.isPipe = _; rw [hsame.1]; exact h.kind hr
    nonblock := fun hr => by show k'.nbR = true ∧ k'.nbW = true; rw [hsame.2.2.1, hsame.2.2.2]; exact h.nonblock hr
    boundP := fun hr hp => by
      show k'.content ≤ k'.cap ∧ 0 < k'.cap
      refine ⟨hbP hp, ?_⟩
      rw [hsame.2.1]; exact (h.boundP hr (hsame.1 ▸ hp)).2
    boundC := fun _ hp => hbC hp
    times := fun p hp => by
      show p.tb ≤ p.tw ∧ p.tw < s.now + 1
      rcases List.mem_cons.mp hp with rfl | hp
      · have := h.flightT f hf; simp; omega
      · have := h.times p hp; omega
    flightT := fun g hg => by have := h.flightT g (mem_dropFlight hg); show g.tb ≤ s.now + 1; omega
    results := fun p hp => by
      rcases List.mem_cons.mp hp with rfl | hp
      · exact hres
      · exact h.results p hp
    account := fun _ => hacc
    handlers := h.handlers
    covered := fun _ hc => absurd hc hne }

theorem inv_tick_flights {cfg : Cfg} {s : St} (h : Inv cfg s) (l : List Flight) (hl : ∀ f ∈ l, f ∈ s.flights) :
    Inv cfg (tick { s with flights := l }) :=
  { not_fatal := h.not_fatal
    latch := h.latch
    latch_reg := h.latch_reg
    kind := h.kind
    nonblock := h.nonblock
    boundP := h.boundP
    boundC := h.boundC
    times := fun p hp => by have := h.times p hp; show _ ∧ p.tw < s.now + 1; omega
    flightT := fun f hf => by have := h.flightT f (hl f hf); show f.tb ≤ s.now + 1; omega
    results := h.results
    account := h.account
    handlers := h.handlers
    covered := fun hr hc hpc p hp => covered_mono (h.covered hr hc hpc p hp) (fun _ hx => hx) }

theorem inv_tick {cfg : Cfg} {s : St} (h : Inv cfg s) : Inv cfg (tick s) :=
  inv_tick_flights h s.flights (fun _ hf => hf)

theorem stale_false {s : St} {f : Flight} (h : ¬ stale s f = true) : s.registered = true ∧ f.epoch = s.epoch := by
  unfold stale at h
  cases hreg : s.registered <;> simp_all

theorem inv_postWrite {cfg : Cfg} {s s1 : St} (h : Inv cfg s) {f : Flight} (hf : f ∈ s.flights) (res : WRes)
    (hs : doPostWrite s f res = some s1) : Inv cfg (tick s1) := by
  cases res with
  | eintr => simp only [doPostWrite] at hs; cases hs; exact inv_tick h
  | ok =>
    simp only [doPostWrite] at hs
    split at hs
    · cases hs; exact inv_tick_flights h _ (fun _ hg => mem_dropFlight hg)
    · rename_i hlive
      have hr := (stale_false hlive).1
      have hk := h.kind hr
      split at hs
      · rename_i k' hw
        cases hs
        have w := writeOk_spec hk hw
        refine inv_post_done h hr hf .ok (Or.inl rfl) k' 1 ⟨w.2.1, w.2.2.1, w.2.2.2.1, w.2.2.2.2.1⟩ (by omega) ?_ ?_ ?_
        · have := h.account hr; omega
        · intro hp; rw [w.2.1] at hp; have := w.2.2.2.2.2.1 hp; omega
        · intro hp; rw [w.2.1] at hp; have := w.2.2.2.2.2.2 hp; omega
      · cases hs
  | eagain =>
    simp only [doPostWrite] at hs
    split at hs
    · cases hs; exact inv_tick_flights h _ (fun _ hg => mem_dropFlight hg)
    · rename_i hlive
      have hr := (stale_false hlive).1
      split at hs
      · rename_i hal
        cases hs
        refine inv_post_done h hr hf .eagain (Or.inr rfl) s.k 0 ⟨rfl, rfl, rfl, rfl⟩ (eagain_nonzero hal) (h.account hr) ?_ ?_
        · intro hp; exact (h.boundP hr hp).1
        · intro hp; exact h.boundC hr hp
      · cases hs
  | einval =>
    simp only [doPostWrite] at hs
    split at hs
    · cases hs; exact inv_tick_flights h _ (fun _ hg => mem_dropFlight hg)
    · rename_i hlive
      have hr := (stale_false hlive).1
      rw [einval_impossible (h.kind hr)] at hs
      simp at hs


/-! ### the owner -/

/-- what the drain of `iv_event_raw_got_event` can see, given the invariant -/
theorem read_spec {cfg : Cfg} {s : St} (h : Inv cfg s) (hr : s.registered = true) :
    (s.k.content = 0 → s.k.read (toread s.inUse) = some (.eagain, s.k)) ∧
    (s.k.content ≠ 0 → ∃ ret taken k', s.k.read (toread s.inUse) = some (.data ret taken, k') ∧ 0 < ret ∧ 0 < taken ∧
        taken ≤ s.k.content ∧ k'.content = s.k.content - taken ∧ k'.isPipe = s.k.isPipe ∧ k'.cap = s.k.cap ∧
        k'.nbR = s.k.nbR ∧ k'.nbW = s.k.nbW ∧ (s.k.isPipe = false → k'.content = 0)) := by
  have hk := h.kind hr
  have hnb := (h.nonblock hr).1
  unfold KObj.read toread
  by_cases h0 : s.inUse = 0
  · have hp : s.k.isPipe = true := by simp [hk, h0]
    constructor
    · intro hc; simp [hp, h0, hc, hnb]
    · intro hc
      refine ⟨min s.k.content 1024, min s.k.content 1024, { s.k with content := s.k.content - min s.k.content 1024 }, ?_⟩
      simp [hp, h0, hc]; omega
  · have hp : s.k.isPipe = false := by simp [hk, h0]
    constructor
    · intro hc; simp [hp, h0, hc, hnb]
    · intro hc
      refine ⟨8, s.k.content, { s.k with content := 0 }, ?_⟩
      simp [hp, h0, hc]; omega

theorem inv_ownerRead {cfg : Cfg} {s s1 : St} (h : Inv cfg s) (hr : s.registered = true) (hpc : s.pc = .idle)
    (hs : doOwnerRead s = some s1) : Inv cfg (tick s1) := by
  have rs := read_spec h hr
  unfold doOwnerRead at hs
  by_cases hc : s.k.content = 0
  · rw [rs.1 hc] at hs; cases hs; exact inv_tick h
  · obtain ⟨ret, taken, k', hrd, hret, htk, hle, hcont, hP, hcap, hnr, hnw, hz⟩ := rs.2 hc
    rw [hrd] at hs
    have hret' : ret ≠ 0 := by omega
    simp only [hret', if_false] at hs
    cases hs
    exact {
      not_fatal := h.not_fatal
      latch := h.latch
      latch_reg := h.latch_reg
      kind := fun hr => by show k'.isPipe = _; rw [hP]; exact h.kind hr
      nonblock := fun hr => by show k'.nbR = true ∧ k'.nbW = true; rw [hnr, hnw]; exact h.nonblock hr
      boundP := fun hr hp => by
        show k'.content ≤ k'.cap ∧ 0 < k'.cap
        have := h.boundP hr (hP ▸ hp)
        rw [hcap, hcont]; omega
      boundC := fun hr hp => by
        show k'.content ≤ counterMax
        rw [hz (hP ▸ hp)]; exact Nat.zero_le _
      times := fun p hp => by have := h.times p hp; show _ ∧ p.tw < s.now + 1; omega
      flightT := fun f hf => by have := h.flightT f hf; show f.tb ≤ s.now + 1; omega
      results := h.results
      account := fun hr => by
        show k'.content + (s.ndrained + taken) = s.nok
        have := h.account hr; omega
      handlers := fun hr => by
        show s.hstarts.length + 1 ≤ s.ndrained + taken
        have := h.handlers hr
        simp [drainedFlag, hpc] at this
        omega
      covered := fun _ _ hpc' => absurd rfl hpc' }

theorem inv_handlerStart {cfg : Cfg} {s : St} (h : Inv cfg s) (hpc : s.pc = .drained) :
    Inv cfg (tick { s with pc := .inHandler, hstarts := s.now :: s.hstarts }) :=
  { not_fatal := h.not_fatal
    latch := h.latch
    latch_reg := h.latch_reg
    kind := h.kind
    nonblock := h.nonblock
    boundP := h.boundP
    boundC := h.boundC
    times := fun p hp => by have := h.times p hp; show _ ∧ p.tw < s.now + 1; omega
    flightT := fun f hf => by have := h.flightT f hf; show f.tb ≤ s.now + 1; omega
    results := h.results
    account := h.account
    handlers := fun hr => by
      have := h.handlers hr
      simp [drainedFlag, hpc] at this
      simp [drainedFlag, tick]; omega
    covered := fun _ _ _ p hp => ⟨s.now, List.mem_cons_self, (h.times p hp).2⟩ }

theorem inv_handlerEnd {cfg : Cfg} {s : St} (h : Inv cfg s) (hpc : s.pc = .inHandler) :
    Inv cfg (tick { s with pc := .idle }) :=
  { not_fatal := h.not_fatal
    latch := h.latch
    latch_reg := h.latch_reg
    kind := h.kind
    nonblock := h.nonblock
    boundP := h.boundP
    boundC := h.boundC
    times := fun p hp => by have := h.times p hp; show _ ∧ p.tw < s.now + 1; omega
    flightT := fun f hf => by have := h.flightT f hf; show f.tb ≤ s.now + 1; omega
    results := h.results
    account := h.account
    handlers := fun hr => by
      have := h.handlers hr
      simp [drainedFlag, hpc] at this
      simp [drainedFlag, tick]; omega
    covered := fun hr hc _ p hp => covered_mono (h.covered hr hc (by rw [hpc]; decide) p hp) (fun _ hx => hx) }

/-- every enabled action preserves the invariant -/
theorem step_inv {cfg : Cfg} (hwf : cfg.wf) {s s' : St} (a : Action) (h : Inv cfg s) (hs : step cfg s a = some s') :
    Inv cfg s' := by
  unfold step at hs
  have hnf : (s.fatal = true) = False := by simp [h.not_fatal]
  simp only [hnf, if_false] at hs
  cases a with
  | register =>
    simp only at hs
    split at hs
    · rename_i hc
      cases hs
      exact inv_register hwf h (by simp at hc; exact hc.2)
    · cases hs
  | grabElsewhere => simp only at hs; cases hs; exact inv_grabElsewhere h
  | unregister =>
    simp only at hs
    split at hs
    · cases hs; exact inv_unregister h
    · cases hs
  | postBegin pid =>
    simp only at hs
    split at hs
    · cases hs; exact inv_postBegin h pid
    · cases hs
  | postWrite pid res =>
    simp only at hs
    split at hs
    · cases hs
    · rename_i f hf
      simp only [Option.map_eq_some_iff] at hs
      obtain ⟨s1, hs1, rfl⟩ := hs
      exact inv_postWrite h (findFlight_mem hf).1 res hs1
  | ownerRead eintr =>
    simp only at hs
    split at hs
    · rename_i hc
      simp at hc
      cases eintr with
      | true => simp only [if_true] at hs; cases hs; exact inv_tick h
      | false =>
        simp only [Bool.false_eq_true, if_false, Option.map_eq_some_iff] at hs
        obtain ⟨s1, hs1, rfl⟩ := hs
        exact inv_ownerRead h hc.1 hc.2 hs1
    · cases hs
  | handlerStart =>
    simp only at hs
    split at hs
    · rename_i hc; cases hs; exact inv_handlerStart h (by simpa using hc)
    · cases hs
  | handlerEnd =>
    simp only at hs
    split at hs
    · rename_i hc; cases hs; exact inv_handlerEnd h (by simpa using hc)
    · cases hs

theorem reachable_inv {cfg : Cfg} (hwf : cfg.wf) {s : St} (h : Reachable cfg s) : Inv cfg s := by
  induction h with
  | init => exact init_inv cfg
  | step a _ hs ih => exact step_inv hwf a ih hs


/-! ### the property theorems -/

theorem coveredB_iff (s : St) (p : Post) : coveredB s p = true ↔ Covered s p := by
  unfold coveredB Covered
  simp [List.any_eq_true]

theorem no_lost_post {cfg : Cfg} (hwf : cfg.wf) {s : St} (h : Reachable cfg s) (hr : s.registered = true)
    (hpc : s.pc ≠ .drained) (hc : s.k.readable = false) :
    ∀ p ∈ s.posts, (p.res = .ok ∨ p.res = .eagain) ∧ ∃ t ∈ s.hstarts, p.tb ≤ p.tw ∧ p.tw < t := by
  have inv := reachable_inv hwf h
  have hc' : s.k.content = 0 := by simpa [KObj.readable] using hc
  intro p hp
  obtain ⟨t, ht, hlt⟩ := inv.covered hr hc' hpc p hp
  exact ⟨inv.results p hp, t, ht, (inv.times p hp).1, hlt⟩

theorem delivered_when_blocked {cfg : Cfg} (hwf : cfg.wf) {blocked : St → Prop} (L : LoopSpec cfg blocked) {s : St}
    (h : Reachable cfg s) (hb : blocked s) (hr : s.registered = true) :
    ∀ p ∈ s.posts, ∃ t ∈ s.hstarts, p.tb ≤ p.tw ∧ p.tw < t := by
  have l := L.no_sleep_on_ready s h hb hr
  intro p hp
  exact (no_lost_post hwf h hr (by rw [l.1]; decide) l.2 p hp).2

theorem nonblocking {cfg : Cfg} (hwf : cfg.wf) {s : St} (h : Reachable cfg s) (hr : s.registered = true) :
    s.k.nbW = true ∧ s.k.nbR = true :=
  ⟨((reachable_inv hwf h).nonblock hr).2, ((reachable_inv hwf h).nonblock hr).1⟩

theorem post_write_enabled {cfg : Cfg} (hwf : cfg.wf) {s : St} (h : Reachable cfg s) {pid : Nat} {f : Flight}
    (hf : findFlight s.flights pid = some f) :
    ∃ res, res ≠ WRes.eintr ∧ (step cfg s (.postWrite pid res)).isSome = true := by
  have inv := reachable_inv hwf h
  have hnf : (s.fatal = true) = False := by simp [inv.not_fatal]
  by_cases hst : stale s f = true
  · refine ⟨.ok, by decide, ?_⟩
    simp [step, hnf, hf, doPostWrite, hst]
  · have hr := (stale_false hst).1
    have hk := inv.kind hr
    have hnb := (inv.nonblock hr).2
    by_cases hw : (s.k.writeOk (wsize s.inUse)).isSome = true
    · refine ⟨.ok, by decide, ?_⟩
      obtain ⟨k', hk'⟩ := Option.isSome_iff_exists.mp hw
      simp [step, hnf, hf, doPostWrite, hst, hk']
    · refine ⟨.eagain, by decide, ?_⟩
      have hal : s.k.eagainAllowed (wsize s.inUse) = true := by
        unfold KObj.writeOk at hw
        unfold KObj.eagainAllowed
        by_cases h0 : s.inUse = 0
        · have hp : s.k.isPipe = true := by simp [hk, h0]
          have b := inv.boundP hr hp
          simp [hp, h0, wsize] at hw ⊢
          exact ⟨hnb, by omega⟩
        · have hp : s.k.isPipe = false := by simp [hk, h0]
          have b := inv.boundC hr hp
          simp [hp, h0, wsize] at hw ⊢
          exact ⟨hnb, by omega⟩
      simp [step, hnf, hf, doPostWrite, hst, hal]

theorem owner_read_enabled {cfg : Cfg} (hwf : cfg.wf) {s : St} (h : Reachable cfg s) (hr : s.registered = true)
    (hpc : s.pc = .idle) : (step cfg s (.ownerRead false)).isSome = true := by
  have inv := reachable_inv hwf h
  have hnf : (s.fatal = true) = False := by simp [inv.not_fatal]
  have rs := read_spec inv hr
  by_cases hc : s.k.content = 0
  · simp [step, hnf, hr, hpc, doOwnerRead, rs.1 hc]
  · obtain ⟨ret, taken, k', hrd, hret, _⟩ := rs.2 hc
    have : ret ≠ 0 := by omega
    simp [step, hnf, hr, hpc, doOwnerRead, hrd, this]

theorem never_fatal {cfg : Cfg} (hwf : cfg.wf) {s : St} (h : Reachable cfg s) : s.fatal = false :=
  (reachable_inv hwf h).not_fatal

theorem readable_iff {cfg : Cfg} (hwf : cfg.wf) {s : St} (h : Reachable cfg s) (hr : s.registered = true) :
    s.k.content + s.ndrained = s.nok ∧ (s.k.readable = true ↔ s.ndrained < s.nok) := by
  have a := (reachable_inv hwf h).account hr
  refine ⟨a, ?_⟩
  simp [KObj.readable]; omega

theorem no_spurious_handler {cfg : Cfg} (hwf : cfg.wf) {s : St} (h : Reachable cfg s) (hr : s.registered = true) :
    s.hstarts.length ≤ s.nok := by
  have a := (reachable_inv hwf h).account hr
  have b := (reachable_inv hwf h).handlers hr
  omega

theorem transport_selection {cfg : Cfg} (hwf : cfg.wf) {s : St} (h : Reachable cfg s) (hr : s.registered = true) :
    s.k.isPipe = (settle cfg == 0) := by
  have inv := reachable_inv hwf h
  rw [inv.kind hr, inv.latch_reg hr]


/-! ### both representations refine one abstract machine -/

theorem live_post_sets_pending {cfg : Cfg} {s s' : St} (inv : Inv cfg s) {pid : Nat} {res : WRes}
    (hl : liveFlight s pid = true) (hne : res ≠ .eintr) (hs : step cfg s (.postWrite pid res) = some s') :
    s'.k.readable = true ∧ (res = .ok ∨ res = .eagain) := by
  have hnf : (s.fatal = true) = False := by simp [inv.not_fatal]
  unfold liveFlight at hl
  cases hf : findFlight s.flights pid with
  | none => simp [hf] at hl
  | some f =>
    simp only [hf, Bool.not_eq_true'] at hl
    have hst : ¬ stale s f = true := by simp [hl]
    have hr := (stale_false hst).1
    simp only [step, hnf, if_false, hf, Option.map_eq_some_iff] at hs
    obtain ⟨s1, hs1, rfl⟩ := hs
    cases res with
    | eintr => exact absurd rfl hne
    | ok =>
      simp only [doPostWrite, hl, Bool.false_eq_true, if_false] at hs1
      split at hs1
      · rename_i k' hw
        cases hs1
        have w := writeOk_spec (inv.kind hr) hw
        refine ⟨?_, Or.inl rfl⟩
        show (k'.content != 0) = true
        simp; omega
      · cases hs1
    | eagain =>
      simp only [doPostWrite, hl, Bool.false_eq_true, if_false] at hs1
      split at hs1
      · rename_i hal
        cases hs1
        refine ⟨?_, Or.inr rfl⟩
        show (s.k.content != 0) = true
        simpa using eagain_nonzero hal
      · cases hs1
    | einval =>
      simp only [doPostWrite, hl, Bool.false_eq_true, if_false, einval_impossible (inv.kind hr)] at hs1
      cases hs1

theorem abs_refines {cfg : Cfg} {s s' : St} (inv : Inv cfg s) (a : Action) (hs : step cfg s a = some s') :
    AStep (abs s) a (abs s') := by
  have hnf : (s.fatal = true) = False := by simp [inv.not_fatal]
  cases a with
  | register =>
    simp only [step, hnf, if_false] at hs
    split at hs
    · cases hs
      have c := create_spec cfg s.inUse inv.latch
      have f := flags_spec (registerCreate cfg s.inUse).1 (registerCreate cfg s.inUse).2 (by rw [c.2.1, c.1])
      have : abs (tick (doRegister cfg s)) = { abs s with registered := true, pending := false } := by
        simp [abs, tick, doRegister, KObj.readable, f.2.2.2.1, c.2.2.1]
      rw [this]; exact AStep.register _
    · cases hs
  | grabElsewhere =>
    simp only [step, hnf, if_false] at hs
    cases hs; exact AStep.grabElsewhere _
  | unregister =>
    simp only [step, hnf, if_false] at hs
    split at hs
    · cases hs; exact AStep.unregister _
    · cases hs
  | postBegin pid =>
    simp only [step, hnf, if_false] at hs
    split at hs
    · cases hs; exact AStep.postBegin _ pid
    · cases hs
  | postWrite pid res =>
    by_cases hl : liveFlight s pid = true ∧ res ≠ .eintr
    · have lp := live_post_sets_pending inv hl.1 hl.2 hs
      have : abs s' = { abs s with pending := true } := by
        simp only [step, hnf, if_false] at hs
        split at hs
        · cases hs
        · rename_i f hf
          simp only [Option.map_eq_some_iff] at hs
          obtain ⟨s1, hs1, rfl⟩ := hs
          have hreg : (tick s1).registered = s.registered ∧ (tick s1).pc = s.pc := by
            cases res <;> simp only [doPostWrite] at hs1 <;> (try split at hs1) <;> (try split at hs1) <;>
              first | (cases hs1; exact ⟨rfl, rfl⟩) | cases hs1
          simp only [abs, lp.1, hreg.1, hreg.2]
      rw [this]; exact AStep.postLive _ pid res lp.2
    · have : abs s' = abs s := by
        simp only [step, hnf, if_false] at hs
        split at hs
        · cases hs
        · rename_i f hf
          simp only [Option.map_eq_some_iff] at hs
          obtain ⟨s1, hs1, rfl⟩ := hs
          have hst : res = .eintr ∨ stale s f = true := by
            by_cases he : res = .eintr
            · exact Or.inl he
            · right
              have : liveFlight s pid ≠ true := fun h' => hl ⟨h', he⟩
              simpa [liveFlight, hf] using this
          rcases hst with rfl | hst
          · simp only [doPostWrite] at hs1; cases hs1; rfl
          · cases res <;> simp only [doPostWrite, hst, if_true] at hs1 <;> cases hs1 <;> rfl
      rw [this]; exact AStep.postNoEffect _ pid res
  | ownerRead eintr =>
    simp only [step, hnf, if_false] at hs
    split at hs
    · rename_i hc
      simp at hc
      cases eintr with
      | true => simp only [if_true] at hs; cases hs; exact AStep.readEintr _
      | false =>
        simp only [Bool.false_eq_true, if_false, Option.map_eq_some_iff] at hs
        obtain ⟨s1, hs1, rfl⟩ := hs
        have rs := read_spec inv hc.1
        unfold doOwnerRead at hs1
        by_cases hcz : s.k.content = 0
        · rw [rs.1 hcz] at hs1; cases hs1
          exact AStep.readEmpty _ (by simp [abs, KObj.readable, hcz])
        · obtain ⟨ret, taken, k', hrd, hret, _⟩ := rs.2 hcz
          have hret' : ret ≠ 0 := by omega
          rw [hrd] at hs1
          simp only [hret', if_false] at hs1
          cases hs1
          exact AStep.readData (abs s) k'.readable (by simp [abs, KObj.readable, hcz])
    · cases hs
  | handlerStart =>
    simp only [step, hnf, if_false] at hs
    split at hs
    · rename_i hc; cases hs; exact AStep.handlerStart _ (by simpa [abs] using hc)
    · cases hs
  | handlerEnd =>
    simp only [step, hnf, if_false] at hs
    split at hs
    · rename_i hc; cases hs; exact AStep.handlerEnd _ (by simpa [abs] using hc)
    · cases hs

theorem eventfd_drain_clears {cfg : Cfg} {s s' : St} (inv : Inv cfg s) (hp : s.k.isPipe = false)
    (hs : step cfg s (.ownerRead false) = some s') : s'.k.readable = false := by
  have hnf : (s.fatal = true) = False := by simp [inv.not_fatal]
  simp only [step, hnf, if_false] at hs
  split at hs
  · rename_i hc
    simp at hc
    simp only [Bool.false_eq_true, if_false, Option.map_eq_some_iff] at hs
    obtain ⟨s1, hs1, rfl⟩ := hs
    have rs := read_spec inv hc.1
    unfold doOwnerRead at hs1
    by_cases hcz : s.k.content = 0
    · rw [rs.1 hcz] at hs1; cases hs1; simp [tick, KObj.readable, hcz]
    · obtain ⟨ret, taken, k', hrd, hret, _, _, _, _, _, _, _, hz⟩ := rs.2 hcz
      have hret' : ret ≠ 0 := by omega
      rw [hrd] at hs1
      simp only [hret', if_false] at hs1
      cases hs1
      simp [tick, KObj.readable, hz hp]
  · cases hs

end Ivy.Raw.Proofs
