import Ivy.L2.Raw
/-! Reachability, invariant, the statements' vocabulary, the loop-side assumption, the
representation-independent abstract machine and the "drain after the handler" mutant for C09. -/
namespace Ivy.Raw

/-- kernel configurations the theorems quantify over: any availability of eventfd2/eventfd, any
non-zero pipe capacity -/
def Cfg.wf (cfg : Cfg) : Prop := 0 < cfg.cap

/-- every state any interleaving of owner, posters and environment can reach -/
inductive Reachable (cfg : Cfg) : St → Prop
  | init : Reachable cfg St.init
  | step {s s' : St} (a : Action) : Reachable cfg s → step cfg s a = some s' → Reachable cfg s'

/-- the value the latch settles at, given what the kernel offers -/
def settle (cfg : Cfg) : Nat := if cfg.has2 then 2 else if cfg.has1 then 1 else 0

/-- a completed post is *covered* when the handler was entered after the post's write -/
def Covered (s : St) (p : Post) : Prop := ∃ h ∈ s.hstarts, p.tw < h

/-- decidable version used by the replay driver -/
def coveredB (s : St) (p : Post) : Bool := s.hstarts.any (fun h => p.tw < h)

/-- what the examples look at -/
structure Obs where
  registered : Bool
  pc : Pc
  readable : Bool
  nposts : Nat
  nhandler : Nat
  covered : List Bool     -- per completed post, most recent first
deriving DecidableEq, Repr

def observe (s : St) : Obs :=
  { registered := s.registered, pc := s.pc, readable := s.k.readable, nposts := s.posts.length,
    nhandler := s.hstarts.length, covered := s.posts.map (coveredB s) }

def drainedFlag (s : St) : Nat := if s.pc = .drained then 1 else 0

structure Inv (cfg : Cfg) (s : St) : Prop where
  not_fatal : s.fatal = false
  latch     : s.inUse = 2 ∨ s.inUse = settle cfg
  latch_reg : s.registered = true → s.inUse = settle cfg
  kind      : s.registered = true → s.k.isPipe = (s.inUse == 0)
  nonblock  : s.registered = true → s.k.nbR = true ∧ s.k.nbW = true
  boundP    : s.registered = true → s.k.isPipe = true → s.k.content ≤ s.k.cap ∧ 0 < s.k.cap
  boundC    : s.registered = true → s.k.isPipe = false → s.k.content ≤ counterMax
  times     : ∀ p ∈ s.posts, p.tb ≤ p.tw ∧ p.tw < s.now
  flightT   : ∀ f ∈ s.flights, f.tb ≤ s.now
  results   : ∀ p ∈ s.posts, p.res = .ok ∨ p.res = .eagain
  account   : s.registered = true → s.k.content + s.ndrained = s.nok
  handlers  : s.registered = true → s.hstarts.length + drainedFlag s ≤ s.ndrained
  /-- the heart of C09: whenever the descriptor is not readable and the owner is not between its
  drain and the handler call, every completed post has been followed by a handler entry -/
  covered   : s.registered = true → s.k.content = 0 → s.pc ≠ .drained → ∀ p ∈ s.posts, Covered s p

/-- What the owner's event loop contributes (the L1 contract, level-triggered dispatch: monitor
`Ivy.Mon.C02` clauses (b) "dispatch complete" and (c) "no sleeping on ready", theorems
`Ivy.Props.C02.monitor_accepts` / `Ivy.Props.C03.monitor_accepts`): the owner is never blocked in
its kernel wait while a registered descriptor with an in-handler is readable; in particular it is
not blocked in the middle of `iv_event_raw_got_event`.  Stated as an assumption about the predicate
"the owner is blocked"; it is not connected formally to the L1 machine. -/
structure LoopSpec (cfg : Cfg) (blocked : St → Prop) : Prop where
  no_sleep_on_ready : ∀ s, Reachable cfg s → blocked s → s.registered = true → s.pc = .idle ∧ s.k.readable = false

/-! ### Representation-independent abstract machine
The observable content of the descriptor is one bit (`pending`).  Both representations refine this
machine; the only freedom is whether a drain that found something leaves `pending` set (a pipe
holding more than 1024 bytes) — which only causes further handler calls. -/
structure ASt where
  registered : Bool
  pending : Bool
  pc : Pc
deriving DecidableEq, Repr

def abs (s : St) : ASt := { registered := s.registered, pending := s.k.readable, pc := s.pc }

/-- is the poster `pid`'s descriptor the one of the current registration? -/
def liveFlight (s : St) (pid : Nat) : Bool :=
  match findFlight s.flights pid with
  | some f => !stale s f
  | none => false

inductive AStep : ASt → Action → ASt → Prop
  | register (a : ASt) : AStep a .register { a with registered := true, pending := false }
  | grabElsewhere (a : ASt) : AStep a .grabElsewhere a
  | unregister (a : ASt) : AStep a .unregister { a with registered := false }
  | postBegin (a : ASt) (pid : Nat) : AStep a (.postBegin pid) a
  | postNoEffect (a : ASt) (pid : Nat) (r : WRes) : AStep a (.postWrite pid r) a   -- EINTR, or a descriptor of an earlier registration
  | postLive (a : ASt) (pid : Nat) (r : WRes) : r = .ok ∨ r = .eagain → AStep a (.postWrite pid r) { a with pending := true }
  | readEintr (a : ASt) : AStep a (.ownerRead true) a
  | readEmpty (a : ASt) : a.pending = false → AStep a (.ownerRead false) a
  | readData (a : ASt) (more : Bool) : a.pending = true → AStep a (.ownerRead false) { a with pending := more, pc := .drained }
  | handlerStart (a : ASt) : a.pc = .drained → AStep a .handlerStart { a with pc := .inHandler }
  | handlerEnd (a : ASt) : a.pc = .inHandler → AStep a .handlerEnd { a with pc := .idle }

/-! ### The mutant "drain after the handler instead of before"
Same kernel, same posters; only the owner differs: it calls the handler first and reads afterwards. -/
namespace Mutant

/-- handler entered without a drain -/
def handlerStart (s : St) : Option St :=
  if s.registered && s.pc == .idle then some (tick { s with pc := .inHandler, hstarts := s.now :: s.hstarts }) else none

/-- handler returns, then the descriptor is drained -/
def handlerEndThenDrain (s : St) : Option St :=
  if s.pc == .inHandler then
    match s.k.read (toread s.inUse) with
    | some (.data _ taken, k') => some (tick { s with k := k', pc := .idle, ndrained := s.ndrained + taken })
    | some (_, _) => some (tick { s with pc := .idle })
    | none => none
  else none

/-- register; post; handler entered; a second post arrives during the handler; handler returns; drain -/
def witness (cfg : Cfg) : Option St := do
  let s ← step cfg St.init .register
  let s ← step cfg s (.postBegin 1)
  let s ← step cfg s (.postWrite 1 .ok)
  let s ← handlerStart s
  let s ← step cfg s (.postBegin 2)
  let s ← step cfg s (.postWrite 2 .ok)
  handlerEndThenDrain s

end Mutant

end Ivy.Raw
