import Ivy.Generated.Consts
/-
Model of /repo/src/iv_signal.c (labelled transition system at critical-section granularity).

* An interest (`struct iv_signal`) is identified by a number `i`.  The AVL trees `process_sigs` and the
  per-thread `thr_sigs` are modelled as lists kept sorted by `iv_signal_compare` (signal number, exclusive
  first, then address); the address order is represented by the order of the interest ids (the replay driver
  uses the address of the struct, logged by the harness, as the id).  (That an AVL tree behaves like the
  sorted list of its nodes is C16.)
* Per interest: `sig`, `excl`, `this` (flags), `owner` (registering thread), `reg` (inserted in its tree and
  raw event registered), `active` (the C field), and three abstractions of what is outside iv_signal.c:
  `owed`   – the raw event has been posted and not yet read; by C09 the owner thread will then run
             `iv_signal_event` at least once (`evRead` is enabled while `owed`);
  `stage`  – control state of the owner's event run: 0 idle, 1 `iv_signal_event` entered (descriptor read,
             `active` not yet cleared), 2 user handler running;
  `noted`  – ghost: a delivery has been noted for this interest and its user handler has not started since.
* `count` = `total_num_interests[]`, `disp n` = "sigaction(n) is iv_signal_handler" (false = SIG_DFL),
  `ownerPid` = `sig_owner_pid`, `pid` = what getpid() answers, `pc T = some n` = thread T is inside
  `iv_signal_handler(n)`, its own set woke nothing and the walk over the process-wide set (under `sig_lock`)
  is still to come.
* Every critical section (under `sig_lock` and/or with signals blocked) is ONE action for what it does to the sets,
  counts, dispositions and `active` flags; the writes to the raw event descriptors that a wake walk performs are
  separate actions (`posted T`: thread T writes the next one of `pend T`), because the owner of an interest may
  read its descriptor at any moment in between.  `lock = some T` while T still has such writes to do inside a
  section that holds `sig_lock`; every action that needs the lock requires `lock = none`.  (The model releases the
  lock with the last write, the code a little later: the model admits more interleavings than the code.)
  The signal handler is two such sections (`sigThread`: owner-pid check + walk over the receiving thread's own
  set, without the lock; `sigProc`: the walk over the process-wide set under the lock), so anything may happen in
  between.  A thread that is inside the handler or has writes to do performs nothing else (`busy`).
* `fork p`: the model continues in the child (memory copy, new pid, only the forking thread exists, which is
  not inside a signal handler: no `pc`, no pending writes; the ghost `noted` is dropped, the child owes the
  parent's deliveries nothing; enabled only while `sig_lock` is free, as the atfork handlers take it).
  `iv_signal_child_reset_postfork` clears `process_sigs` and the calling
  thread's set; the model clears every thread's set there, which stands for the other threads not existing
  in the child.
* Invalid use is `none`: registering a registered interest, unregistering an unregistered one or from a
  thread other than the registering one (the C code would delete a node from a tree it is not in), API
  calls from inside the signal handler.  Also outside the model (`none`): unregistering, in a forked child
  that has not registered anything itself, an interest inherited from the parent (the C code does not look at
  the pid there; its hand-off walk would run over the inherited sets).
-/
namespace Ivy.Signal

/-- `_NSIG` as iv_signal.c sees it (its own fallback `#define`, or the C library's: glibc 65); regenerated from the source on every run -/
def NSIG : Nat := Ivy.Generated.SIG_NSIG

inductive Out where
  | post (i : Nat)                 -- iv_event_raw_post(&is->ev)
  | disp (n : Nat) (handler : Bool) -- sigaction(n, iv_signal_handler | SIG_DFL)
  | err                            -- iv_signal_register returned -1
deriving Repr, DecidableEq

inductive Action where
  | reg (T i n : Nat) (excl this : Bool)   -- iv_signal_register by thread T
  | unreg (T i : Nat)                      -- iv_signal_unregister by thread T
  | sigThread (T n : Nat)                  -- the kernel runs iv_signal_handler(n) in thread T: first half
  | sigProc (T : Nat)                      -- second half (process-wide set, under sig_lock)
  | evRead (i : Nat)                       -- raw event layer: read > 0, calls iv_signal_event
  | evClear (i : Nat)                      -- iv_signal_event clears `active`; the user handler starts
  | evEnd (i : Nat)                        -- the user handler returns
  | posted (T : Nat)                       -- thread T completes the next raw-event write of its current wake walk
  | fork (p : Nat)                         -- continue in a forked child with pid p
deriving Repr, DecidableEq

structure State where
  sig : Nat → Nat
  excl : Nat → Bool
  this : Nat → Bool
  owner : Nat → Nat
  reg : Nat → Bool
  active : Nat → Bool
  owed : Nat → Bool
  noted : Nat → Bool
  stage : Nat → Nat
  proc : List Nat
  thr : Nat → List Nat
  count : Nat → Nat
  disp : Nat → Bool
  ownerPid : Nat
  pid : Nat
  pc : Nat → Option Nat
  lock : Option Nat
  pend : Nat → List Nat

def State.init (pid : Nat) : State :=
  { sig := fun _ => 0, excl := fun _ => false, this := fun _ => false, owner := fun _ => 0,
    reg := fun _ => false, active := fun _ => false, owed := fun _ => false, noted := fun _ => false,
    stage := fun _ => 0, proc := [], thr := fun _ => [], count := fun _ => 0, disp := fun _ => false,
    ownerPid := 0, pid := pid, pc := fun _ => none, lock := none, pend := fun _ => [] }

def upd {α : Type} (f : Nat → α) (k : Nat) (v : α) : Nat → α := fun x => if x = k then v else f x

/-- `iv_signal_compare(a, b) < 0` -/
def less (st : State) (a b : Nat) : Bool :=
  if st.sig a < st.sig b then true
  else if st.sig b < st.sig a then false
  else if st.excl a && !st.excl b then true
  else if !st.excl a && st.excl b then false
  else decide (a < b)

/-- `iv_avl_tree_insert` on the sorted-list view -/
def insertS (st : State) (i : Nat) : List Nat → List Nat
  | [] => [i]
  | a :: tl => if less st i a then i :: a :: tl else a :: insertS st i tl

/-- `__iv_signal_find_first`: the part of the set starting at the first interest for `n` (descends by
signal number only; empty when there is no interest for `n`) -/
def findFirst (st : State) (l : List Nat) (n : Nat) : List Nat :=
  match l.dropWhile (fun i => decide (st.sig i < n)) with
  | [] => []
  | i :: tl => if st.sig i = n then i :: tl else []

/-- the loop of `__iv_signal_do_wake`: who is posted, in order -/
def walk (st : State) (n : Nat) : List Nat → List Nat
  | [] => []
  | i :: tl => if st.sig i ≠ n then [] else if st.excl i then [i] else i :: walk st n tl

def setAll (f : Nat → Bool) (ps : List Nat) : Nat → Bool := fun j => if j ∈ ps then true else f j

/-- `__iv_signal_do_wake(tree, n)`: who is woken, in order -/
def wake (st : State) (l : List Nat) (n : Nat) : List Nat := walk st n (findFirst st l n)

/-- thread T is inside the signal handler or in the middle of a wake walk -/
def busy (st : State) (T : Nat) : Bool := (st.pc T).isSome || !(st.pend T).isEmpty

/-- the walk's writes become thread T's pending writes; `sig_lock` stays held while there are any -/
def startPosts (st : State) (T : Nat) (ps : List Nat) (locked : Bool) : State :=
  { st with pend := upd st.pend T ps, lock := if locked && !ps.isEmpty then some T else st.lock }

/-- the effect of `__iv_signal_do_wake` performed by thread T: every interest walked gets `active = 1` (and the
ghost `noted`); the raw-event writes become T's pending writes (`posted` actions) -/
def markSt (st : State) (T : Nat) (ps : List Nat) (locked : Bool) : State :=
  startPosts { st with active := setAll st.active ps, noted := setAll st.noted ps } T ps locked

/-- `iv_signal_tree(this)` evaluated in thread `T` -/
def tree (st : State) (isThis : Bool) (T : Nat) : List Nat := if isThis then st.thr T else st.proc

def setTree (st : State) (isThis : Bool) (T : Nat) (l : List Nat) : State :=
  if isThis then { st with thr := upd st.thr T l } else { st with proc := l }

/-- `iv_signal_child_reset_postfork` -/
def childReset (st : State) : State × List Out :=
  let sigs := (List.range NSIG).filter (fun n => st.count n != 0)
  ({ st with
      disp := fun n => if decide (n < NSIG) && st.count n != 0 then false else st.disp n,
      count := fun n => if decide (n < NSIG) then 0 else st.count n,
      ownerPid := 0, proc := [], thr := fun _ => [],
      reg := fun _ => false, owed := fun _ => false, noted := fun _ => false },
   sigs.map (fun n => Out.disp n false))

/-- `iv_signal_register`, first part: in a forked child (owner pid set and different) reset everything inherited;
in any case the caller's pid becomes the owner pid -/
def baseSt (st : State) : State :=
  { (if st.ownerPid != 0 && st.ownerPid != st.pid then (childReset st).1 else st) with ownerPid := st.pid }

def baseOut (st : State) : List Out :=
  if st.ownerPid != 0 && st.ownerPid != st.pid then (childReset st).2 else []

/-- `iv_signal_register`, second part: raw event registered, `active = 0`, count incremented (handler installed
for the first interest of the signal), node inserted into the caller's tree -/
def addSt (s : State) (T i n : Nat) (e t : Bool) : State :=
  let s2 := { s with sig := upd s.sig i n, excl := upd s.excl i e, this := upd s.this i t,
                     owner := upd s.owner i T, reg := upd s.reg i true,
                     active := upd s.active i false, owed := upd s.owed i false, noted := upd s.noted i false }
  let s3 := { s2 with count := upd s2.count n (s.count n + 1),
                      disp := if s.count n == 0 then upd s2.disp n true else s2.disp }
  setTree s3 t T (insertS s3 i (tree s3 t T))

def regStep (st : State) (T i n : Nat) (e t : Bool) : Option (State × List Out) :=
  if busy st T then none
  -- the range check comes first in the C code, before sig_lock is taken: it can fail while another thread holds the lock
  else if decide (NSIG ≤ n) then (if st.reg i then none else some (st, [Out.err]))
  else if st.lock.isSome then none
  else if st.reg i then none
  else
    let s := baseSt st
    some (addSt s T i n e t, baseOut st ++ (if s.count n == 0 then [Out.disp n true] else []))

/-- `iv_signal_unregister` up to the hand-off: node deleted from the caller's tree, count decremented, SIG_DFL
restored at zero; (ghost) raw event unregistered -/
def remSt (st : State) (T i : Nat) : State :=
  let n := st.sig i
  let c := st.count n - 1
  let s1 := setTree st (st.this i) T ((tree st (st.this i) T).erase i)
  { s1 with count := upd st.count n c, disp := if c == 0 then upd st.disp n false else st.disp,
            reg := upd st.reg i false, owed := upd st.owed i false, noted := upd st.noted i false }

/-- the hand-off walk of `iv_signal_unregister` (as repaired): the remaining interests of the same tree; if that
is the caller's thread tree and nothing was woken there, the process-wide ones -/
def handoff (r : State) (T n : Nat) (isThis : Bool) : List Nat :=
  let p1 := wake r (tree r isThis T) n
  if p1.isEmpty && isThis then wake r r.proc n else p1

def unregStep (st : State) (T i : Nat) : Option (State × List Out) :=
  if busy st T || st.lock.isSome then none
  else if !st.reg i || st.owner i != T || st.stage i == 1 || st.ownerPid != st.pid then none
  else
    let n := st.sig i
    let c := st.count n - 1
    let r := remSt st T i
    let ps := if c == 0 then [] else if st.excl i && st.active i then handoff r T n (st.this i) else []
    some (markSt r T ps true, (if c == 0 then [Out.disp n false] else []) ++ ps.map Out.post)

def sigThreadStep (st : State) (T n : Nat) : Option (State × List Out) :=
  if busy st T then none
  else if st.ownerPid == 0 || st.ownerPid != st.pid then some (st, [])
  else
    let ps := wake st (st.thr T) n
    if ps.isEmpty then some ({ st with pc := upd st.pc T (some n) }, [])
    else some (markSt st T ps false, ps.map Out.post)

def sigProcStep (st : State) (T : Nat) : Option (State × List Out) :=
  match st.pc T with
  | none => none
  | some n =>
    if st.lock.isSome || !(st.pend T).isEmpty then none
    else
      let ps := wake st st.proc n
      some (markSt { st with pc := upd st.pc T none } T ps true, ps.map Out.post)

/-- one `iv_event_raw_post` of the current walk of thread T reaches the descriptor -/
def postedStep (st : State) (T : Nat) : Option (State × List Out) :=
  match st.pend T with
  | [] => none
  | i :: rest =>
    if !st.reg i then none     -- would be a write to a closed descriptor
    else some ({ st with owed := upd st.owed i true, pend := upd st.pend T rest,
                         lock := if rest.isEmpty && st.lock == some T then none else st.lock }, [])

def step (st : State) : Action → Option (State × List Out)
  | .reg T i n e t => regStep st T i n e t
  | .unreg T i => unregStep st T i
  | .sigThread T n => sigThreadStep st T n
  | .sigProc T => sigProcStep st T
  | .posted T => postedStep st T
  | .evRead i =>
    if st.reg i && st.owed i && st.stage i == 0 && !busy st (st.owner i) then
      some ({ st with owed := upd st.owed i false, stage := upd st.stage i 1 }, [])
    else none
  | .evClear i =>
    if st.stage i == 1 && !busy st (st.owner i) && (st.this i || st.lock.isNone) then
      some ({ st with active := upd st.active i false, noted := upd st.noted i false, stage := upd st.stage i 2 }, [])
    else none
  | .evEnd i =>
    if st.stage i == 2 then some ({ st with stage := upd st.stage i 0 }, []) else none
  | .fork p =>
    if p == 0 || p == st.pid || st.lock.isSome then none   -- the atfork handlers hold sig_lock across fork()
    else some ({ st with pid := p, pc := fun _ => none, pend := fun _ => [], noted := fun _ => false }, [])

/-- a history: any sequence of actions, each enabled; outputs concatenated -/
def run (st : State) : List Action → Option (State × List Out)
  | [] => some (st, [])
  | a :: as =>
    match step st a with
    | none => none
    | some (st1, o1) =>
      match run st1 as with
      | none => none
      | some (st2, o2) => some (st2, o1 ++ o2)

end Ivy.Signal
