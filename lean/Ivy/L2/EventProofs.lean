import Ivy.L2.EventSpec
/-! Proofs for C08 (iv_event). -/
namespace Ivy.Event.Proofs
open Ivy.Event

/-! ### list helpers -/

theorem mem_set_of_ne {α} {l : List α} {i : Nat} {p q a : α} (hp : p ∈ l) (hi : l[i]? = some q) (hne : p ≠ q) :
    p ∈ l.set i a := by
  obtain ⟨j, hj, hjp⟩ := List.getElem_of_mem hp
  have hij : i ≠ j := by
    intro h; subst h
    rw [List.getElem?_eq_getElem hj] at hi
    simp at hi; exact hne (hjp ▸ hi)
  have : (l.set i a)[j]? = some p := by
    rw [List.getElem?_set]; simp [hij, hj, hjp]
  exact List.mem_of_getElem? this

theorem mem_of_mem_set {α} {l : List α} {i : Nat} {p a : α} (hp : p ∈ l.set i a) : p ∈ l ∨ p = a := by
  rcases List.mem_or_eq_of_mem_set hp with h | h
  · exact Or.inl h
  · exact Or.inr h

theorem set_mem {α} {l : List α} {i : Nat} {q a : α} (hi : l[i]? = some q) : a ∈ l.set i a := by
  have hlt : i < l.length := by
    rcases Nat.lt_or_ge i l.length with h | h
    · exact h
    · rw [List.getElem?_eq_none h] at hi; cases hi
  exact List.mem_set hlt a

theorem lt_of_get {α} {l : List α} {i : Nat} {q : α} (hi : l[i]? = some q) : i < l.length := by
  rcases Nat.lt_or_ge i l.length with h | h
  · exact h
  · rw [List.getElem?_eq_none h] at hi; cases hi

theorem get_mem {α} {l : List α} {i : Nat} {q : α} (hi : l[i]? = some q) : q ∈ l :=
  List.mem_of_getElem? hi

theorem count_set' {l : List PSt} {i : Nat} {q a b : PSt} (hi : l[i]? = some q) :
    (l.set i a).count b = (l.count b - if q = b then 1 else 0) + if a = b then 1 else 0 := by
  have hlt := lt_of_get hi
  rw [List.count_set hlt]
  have : l[i] = q := by
    rw [List.getElem?_eq_getElem hlt] at hi; simpa using hi
  simp [this]

theorem ownerOut_set_other {cfg : Cfg} {s : State} {t : Tid} {p : PSt} (h : t ≠ cfg.owner) :
    ownerOut cfg { s with posters := s.posters.set t p } = ownerOut cfg s := by
  simp [ownerOut, h]


/-! ### the invariant holds initially and is preserved by every enabled action -/

theorem init_inv (cfg : Cfg) (n : Nat) : Inv cfg (State.init n) := by
  refine { wake := ?_, batchPc := ?_, nodup := ?_, regNodup := ?_, sub := ?_, postersReg := ?_,
           owedIff := ?_, cnt1 := ?_, cnt2 := ?_, noFault := rfl }
  · intro h; simp [State.init] at h
  · intro h; simp [State.init] at h
  · simp [State.init]
  · simp [State.init]
  · intro x h; simp [State.init] at h
  · intro p hp e he
    simp [State.init, List.mem_replicate] at hp
    rw [hp.2] at he; simp [PSt.inPost] at he
  · intro e; simp [State.init]
  · intro e; simp [State.init]
  · intro e
    have : (List.replicate n PSt.outside).count (PSt.inCs e) = 0 := by
      rw [List.count_eq_zero]; intro h; simp [List.mem_replicate] at h
    simp [State.init, this]

theorem kickPending_congr {cfg : Cfg} {s s' : State} (ha : s'.armed = s.armed) (hr : s'.rawCount = s.rawCount) :
    kickPending cfg s' ↔ kickPending cfg s := by
  simp [kickPending, ha, hr]

theorem postBegin_inv {cfg : Cfg} {s s' : State} {t : Tid} {e : Ev} (h : Inv cfg s)
    (hs : stepPostBegin cfg s t e = some s') : Inv cfg s' := by
  unfold stepPostBegin at hs
  split at hs
  next hg =>
    obtain ⟨hpt, hreg, _⟩ := hg
    cases hs
    refine { wake := ?_, batchPc := h.batchPc, nodup := h.nodup, regNodup := h.regNodup, sub := h.sub,
             postersReg := ?_, owedIff := h.owedIff, cnt1 := h.cnt1, cnt2 := ?_, noFault := h.noFault }
    · intro hp
      rcases h.wake hp with k | l | ⟨e', he'⟩ | w
      · exact Or.inl k
      · exact Or.inr (Or.inl l)
      · exact Or.inr (Or.inr (Or.inl ⟨e', mem_set_of_ne he' hpt (by simp)⟩))
      · exact Or.inr (Or.inr (Or.inr w))
    · intro p hp e' he'
      rcases mem_of_mem_set hp with hp | hp
      · exact h.postersReg p hp e' he'
      · subst hp; simp [PSt.inPost] at he'; subst he'; exact hreg
    · intro e'
      have := h.cnt2 e'
      simp only [count_set' hpt, upd]
      by_cases hee : e' = e
      · subst hee; simp; omega
      · have : ¬ (e = e') := fun h => hee h.symm
        simp [hee, this]; omega
  next => cases hs


theorem postCs_inv {cfg : Cfg} {s s' : State} {t : Tid} {e : Ev} (h : Inv cfg s)
    (hs : stepPostCs s t e = some s') : Inv cfg s' := by
  unfold stepPostCs at hs
  split at hs
  next hpt =>
    have hreg : e ∈ s.registered := h.postersReg _ (get_mem hpt) e (by simp [PSt.inPost])
    have hcpos : 0 < s.posters.count (.inCs e) := List.count_pos_iff.2 (get_mem hpt)
    split at hs
    next hq =>
      cases hs
      refine { wake := ?_, batchPc := h.batchPc, nodup := h.nodup, regNodup := h.regNodup, sub := h.sub,
               postersReg := ?_, owedIff := ?_, cnt1 := ?_, cnt2 := ?_, noFault := h.noFault }
      · intro hp
        rcases h.wake hp with k | l | ⟨e', he'⟩ | w
        · exact Or.inl k
        · exact Or.inr (Or.inl l)
        · exact Or.inr (Or.inr (Or.inl ⟨e', mem_set_of_ne he' hpt (by simp)⟩))
        · exact Or.inr (Or.inr (Or.inr w))
      · intro p hp e' he'
        rcases mem_of_mem_set hp with hp | hp
        · exact h.postersReg p hp e' he'
        · subst hp; simp [PSt.inPost] at he'; subst he'; exact hreg
      · intro e'
        by_cases hee : e' = e
        · subst hee; simp [upd, hq]
        · simp [upd, hee]; exact h.owedIff e'
      · intro e'
        have := h.cnt1 e'
        by_cases hee : e' = e
        · subst hee; simp [upd]; omega
        · simp [upd, hee]; omega
      · intro e'
        have := h.cnt2 e'
        simp only [count_set' hpt, upd]
        by_cases hee : e' = e
        · subst hee; simp; omega
        · have : ¬ (e = e') := fun h => hee h.symm
          simp [hee, this]; omega
    next hq =>
      cases hs
      have hq1 : e ∉ s.pending := fun x => hq (Or.inl x)
      have hq2 : e ∉ s.batch := fun x => hq (Or.inr x)
      refine { wake := ?_, batchPc := h.batchPc, nodup := ?_, regNodup := h.regNodup, sub := ?_,
               postersReg := ?_, owedIff := ?_, cnt1 := ?_, cnt2 := ?_, noFault := h.noFault }
      · intro _
        by_cases hp : s.pending = []
        · refine Or.inr (Or.inr (Or.inl ⟨e, ?_⟩))
          simp only [hp, List.isEmpty_nil]
          exact set_mem hpt
        · rcases h.wake hp with k | l | ⟨e', he'⟩ | w
          · exact Or.inl k
          · exact Or.inr (Or.inl l)
          · exact Or.inr (Or.inr (Or.inl ⟨e', mem_set_of_ne he' hpt (by simp)⟩))
          · exact Or.inr (Or.inr (Or.inr w))
      · have hn := h.nodup
        simp only [List.nodup_append, List.mem_append, List.mem_singleton] at hn ⊢
        obtain ⟨h1, h2, h3⟩ := hn
        refine ⟨⟨h1, by simp, ?_⟩, h2, ?_⟩
        · intro a ha b hb hab; subst hb; subst hab; exact hq1 ha
        · intro a ha b hb hab
          rcases ha with ha | ha
          · exact h3 a ha b hb hab
          · subst ha; subst hab; exact hq2 hb
      · intro x hx
        simp only [List.mem_append, List.mem_singleton] at hx
        rcases hx with (hx | hx) | hx
        · exact h.sub x (Or.inl hx)
        · subst hx; exact hreg
        · exact h.sub x (Or.inr hx)
      · intro p hp e' he'
        rcases mem_of_mem_set hp with hp | hp
        · exact h.postersReg p hp e' he'
        · subst hp; simp [PSt.inPost] at he'; subst he'; exact hreg
      · intro e'
        by_cases hee : e' = e
        · subst hee; simp [upd]
        · simp [upd, hee]; exact h.owedIff e'
      · intro e'
        have := h.cnt1 e'
        by_cases hee : e' = e
        · subst hee; simp [upd, List.count_append]; omega
        · have : ¬ (e = e') := fun h => hee h.symm
          simp [upd, hee, List.count_append, this]; omega
      · intro e'
        have := h.cnt2 e'
        simp only [count_set' hpt, upd]
        by_cases hee : e' = e
        · subst hee; simp; omega
        · have : ¬ (e = e') := fun h => hee h.symm
          simp [hee, this]; omega
  next => cases hs


/-- frame lemma for the poster leaving `iv_event_post`: everything but the wake sources and the
poster's own state is untouched; the wake obligation is supplied by the caller. -/
theorem leave_frame {cfg : Cfg} {s s' : State} {t : Tid} {e : Ev} {b : Bool} (h : Inv cfg s)
    (hpt : s.posters[t]? = some (.afterCs e b))
    (h1 : s'.registered = s.registered) (h2 : s'.pending = s.pending) (h3 : s'.batch = s.batch)
    (h4 : s'.pc = s.pc) (h5 : s'.posters = s.posters.set t .outside) (h6 : s'.fault = false)
    (h7 : s'.owed = s.owed) (h8 : s'.begun = s.begun) (h9 : s'.csDone = s.csDone)
    (h10 : s'.delivered = s.delivered) (hw : WakeOwed cfg s') : Inv cfg s' := by
  refine { wake := hw, batchPc := ?_, nodup := ?_, regNodup := ?_, sub := ?_,
           postersReg := ?_, owedIff := ?_, cnt1 := ?_, cnt2 := ?_, noFault := h6 }
  · rw [h3, h4]; exact h.batchPc
  · rw [h2, h3]; exact h.nodup
  · rw [h1]; exact h.regNodup
  · rw [h1, h2, h3]; exact h.sub
  · intro p hp e' he'
    rw [h5] at hp; rw [h1]
    rcases mem_of_mem_set hp with hp | hp
    · exact h.postersReg p hp e' he'
    · subst hp; simp [PSt.inPost] at he'
  · rw [h7, h2, h3]; exact h.owedIff
  · rw [h10, h2, h3, h9]; exact h.cnt1
  · intro e'
    rw [h9, h8, h5, count_set' hpt]
    have := h.cnt2 e'
    simp; omega

theorem postKick_inv {cfg : Cfg} {s s' : State} {t : Tid} {e : Ev} (h : Inv cfg s)
    (hs : stepPostKick cfg s t e = some s') : Inv cfg s' := by
  unfold stepPostKick at hs
  split at hs
  next hpt =>
    cases hs
    refine leave_frame h hpt rfl rfl rfl rfl rfl h.noFault rfl rfl rfl rfl ?_
    intro hp
    rcases h.wake hp with k | l | ⟨e', he'⟩ | w
    · exact Or.inl k
    · exact Or.inr (Or.inl l)
    · exact Or.inr (Or.inr (Or.inl ⟨e', mem_set_of_ne he' hpt (by simp)⟩))
    · exact Or.inr (Or.inr (Or.inr w))
  next =>
    split at hs
    next hpt =>
      have hreg : e ∈ s.registered := h.postersReg _ (get_mem hpt) e (by simp [PSt.inPost])
      simp only at hs
      split at hs
      next hown =>
        cases hs
        exact leave_frame h hpt rfl rfl rfl rfl rfl h.noFault rfl rfl rfl rfl (fun _ => Or.inr (Or.inl rfl))
      next hown =>
        split at hs
        next hre => rw [hre] at hreg; cases hreg
        next hre =>
          split at hs
          next hraw =>
            cases hs
            refine leave_frame h hpt rfl rfl rfl rfl rfl h.noFault rfl rfl rfl rfl (fun _ => Or.inl (Or.inr ⟨hraw, ?_⟩))
            simp
          next hraw =>
            cases hs
            refine leave_frame h hpt rfl rfl rfl rfl rfl h.noFault rfl rfl rfl rfl (fun _ => Or.inl (Or.inl ⟨?_, rfl⟩))
            simpa using hraw
    next => cases hs


/-- frame lemma for owner actions that change only `pc` and the wake sources -/
theorem pc_frame {cfg : Cfg} {s s' : State} (h : Inv cfg s)
    (h1 : s'.registered = s.registered) (h2 : s'.pending = s.pending) (h3 : s'.batch = s.batch)
    (h5 : s'.posters = s.posters) (h6 : s'.fault = s.fault)
    (h7 : s'.owed = s.owed) (h8 : s'.begun = s.begun) (h9 : s'.csDone = s.csDone)
    (h10 : s'.delivered = s.delivered) (hw : WakeOwed cfg s')
    (hb : s'.batch ≠ [] → ∃ e, s'.pc = .inHandler e false) : Inv cfg s' := by
  refine { wake := hw, batchPc := hb, nodup := ?_, regNodup := ?_, sub := ?_,
           postersReg := ?_, owedIff := ?_, cnt1 := ?_, cnt2 := ?_, noFault := ?_ }
  · rw [h2, h3]; exact h.nodup
  · rw [h1]; exact h.regNodup
  · rw [h1, h2, h3]; exact h.sub
  · rw [h5, h1]; exact h.postersReg
  · rw [h7, h2, h3]; exact h.owedIff
  · rw [h10, h2, h3, h9]; exact h.cnt1
  · rw [h9, h8, h5]; exact h.cnt2
  · rw [h6]; exact h.noFault

theorem batch_nil_of_pc {cfg : Cfg} {s : State} (h : Inv cfg s) (hpc : ∀ e, s.pc ≠ .inHandler e false) :
    s.batch = [] := by
  by_cases hb : s.batch = []
  · exact hb
  · obtain ⟨e, he⟩ := h.batchPc hb
    exact absurd he (hpc e)

theorem kickWake_inv {cfg : Cfg} {s s' : State} (h : Inv cfg s) (hs : stepKickWake cfg s = some s') : Inv cfg s' := by
  unfold stepKickWake at hs
  split at hs
  next hg =>
    cases hs
    have hb : s.batch = [] := batch_nil_of_pc h (by rcases hg.2.2.1 with x | x <;> simp [x])
    exact pc_frame h rfl rfl rfl rfl rfl rfl rfl rfl rfl (fun _ => Or.inr (Or.inr (Or.inr rfl)))
      (fun hne => absurd hb hne)
  next => cases hs

theorem rawWake_inv {cfg : Cfg} {s s' : State} (h : Inv cfg s) (hs : stepRawWake cfg s = some s') : Inv cfg s' := by
  unfold stepRawWake at hs
  split at hs
  next hg =>
    cases hs
    have hb : s.batch = [] := batch_nil_of_pc h (by simp [hg.2.2.1])
    exact pc_frame h rfl rfl rfl rfl rfl rfl rfl rfl rfl (fun _ => Or.inr (Or.inr (Or.inr rfl)))
      (fun hne => absurd hb hne)
  next => cases hs

theorem taskWake_inv {cfg : Cfg} {s s' : State} (h : Inv cfg s) (hs : stepTaskWake cfg s = some s') : Inv cfg s' := by
  unfold stepTaskWake at hs
  split at hs
  next hg =>
    cases hs
    have hb : s.batch = [] := batch_nil_of_pc h (by simp [hg.2.1])
    exact pc_frame h rfl rfl rfl rfl rfl rfl rfl rfl rfl (fun _ => Or.inr (Or.inr (Or.inr rfl)))
      (fun hne => absurd hb hne)
  next => cases hs

theorem stealEmpty_inv {cfg : Cfg} {s s' : State} (h : Inv cfg s) (hs : stepStealEmpty s = some s') : Inv cfg s' := by
  unfold stepStealEmpty at hs
  split at hs
  next hg =>
    cases hs
    have hb : s.batch = [] := batch_nil_of_pc h (by simp [hg.1])
    exact pc_frame h rfl rfl rfl rfl rfl rfl rfl rfl rfl (fun hp => absurd hg.2 hp)
      (fun hne => absurd hb hne)
  next => cases hs

/-- wake obligation survives an owner step that leaves pending, the sources and the posters alone
and does not start from `woken` -/
theorem wake_keep {cfg : Cfg} {s s' : State} (h : Inv cfg s) (hnw : s.pc ≠ .woken)
    (h2 : s'.pending = s.pending) (ha : s'.armed = s.armed) (hr : s'.rawCount = s.rawCount)
    (hl : s'.localTask = s.localTask) (h5 : s'.posters = s.posters) : WakeOwed cfg s' := by
  intro hp
  rw [h2] at hp
  rcases h.wake hp with k | l | ⟨e', he'⟩ | w
  · exact Or.inl ((kickPending_congr ha hr).2 k)
  · exact Or.inr (Or.inl (hl ▸ l))
  · exact Or.inr (Or.inr (Or.inl ⟨e', h5 ▸ he'⟩))
  · exact absurd w hnw

theorem handlerDone_inv {cfg : Cfg} {s s' : State} (h : Inv cfg s) (hs : stepHandlerDone cfg s = some s') : Inv cfg s' := by
  unfold stepHandlerDone at hs
  split at hs
  next e en hpc =>
    split at hs
    next hg =>
      cases hs
      have hb : s.batch = [] := by
        rcases hg.2 with hen | hb
        · subst hen; exact batch_nil_of_pc h (by simp [hpc])
        · exact hb
      exact pc_frame h rfl rfl rfl rfl rfl rfl rfl rfl rfl
        (wake_keep h (by simp [hpc]) rfl rfl rfl rfl rfl) (fun hne => absurd hb hne)
    next => cases hs
  next => cases hs

theorem block_inv {cfg : Cfg} {s s' : State} (h : Inv cfg s) (hs : stepBlock cfg s = some s') : Inv cfg s' := by
  unfold stepBlock at hs
  split at hs
  next hg =>
    cases hs
    have hb : s.batch = [] := batch_nil_of_pc h (by simp [hg.1])
    exact pc_frame h rfl rfl rfl rfl rfl rfl rfl rfl rfl
      (wake_keep h (by simp [hg.1]) rfl rfl rfl rfl rfl) (fun hne => absurd hb hne)
  next => cases hs

theorem unblock_inv {cfg : Cfg} {s s' : State} (h : Inv cfg s) (hs : stepUnblock s = some s') : Inv cfg s' := by
  unfold stepUnblock at hs
  split at hs
  next hg =>
    cases hs
    have hb : s.batch = [] := batch_nil_of_pc h (by simp [hg])
    exact pc_frame h rfl rfl rfl rfl rfl rfl rfl rfl rfl
      (wake_keep h (by simp [hg]) rfl rfl rfl rfl rfl) (fun hne => absurd hb hne)
  next => cases hs


theorem stealRun_inv {cfg : Cfg} {s s' : State} {e : Ev} (h : Inv cfg s) (hs : stepStealRun s e = some s') : Inv cfg s' := by
  unfold stepStealRun at hs
  split at hs
  next => cases hs
  next hd rest hpend =>
    split at hs
    next hg =>
      obtain ⟨hpc, hhe⟩ := hg
      subst hhe
      cases hs
      have hb : s.batch = [] := batch_nil_of_pc h (by simp [hpc])
      have hn := h.nodup
      rw [hpend, hb] at hn
      simp only [List.append_nil, List.nodup_cons] at hn
      refine { wake := ?_, batchPc := ?_, nodup := ?_, regNodup := h.regNodup, sub := ?_,
               postersReg := h.postersReg, owedIff := ?_, cnt1 := ?_, cnt2 := h.cnt2, noFault := h.noFault }
      · intro hp; exact absurd rfl hp
      · intro hne
        refine ⟨hd, ?_⟩
        cases rest with
        | nil => exact absurd rfl hne
        | cons a b => rfl
      · simpa using hn.2
      · intro x hx
        rcases hx with hx | hx
        · cases hx
        · exact h.sub x (Or.inl (by rw [hpend]; exact List.mem_cons_of_mem _ hx))
      · intro e'
        by_cases hee : e' = hd
        · subst hee; simp [upd, hn.1]
        · have := h.owedIff e'
          rw [hpend, hb] at this
          simp [upd, hee] at this ⊢
          exact this
      · intro e'
        have := h.cnt1 e'
        rw [hpend, hb] at this
        by_cases hee : e' = hd
        · subst hee; simp [upd] at this ⊢; omega
        · have hne : ¬ (hd = e') := fun h => hee h.symm
          simp [upd, hee, hne] at this ⊢; omega
    next => cases hs

theorem handlerNext_inv {cfg : Cfg} {s s' : State} {e : Ev} (h : Inv cfg s) (hs : stepHandlerNext cfg s e = some s') :
    Inv cfg s' := by
  unfold stepHandlerNext at hs
  split at hs
  next e0 hd rest hpc hbatch =>
    split at hs
    next hg =>
      obtain ⟨_, hhe⟩ := hg
      subst hhe
      cases hs
      have hn := h.nodup
      rw [hbatch] at hn
      have hn' : (s.pending ++ rest).Nodup :=
        List.Nodup.sublist (List.Sublist.append_left (List.sublist_cons_self hd rest) s.pending) hn
      have hnot : hd ∉ s.pending ∧ hd ∉ rest := by
        simp only [List.nodup_append, List.nodup_cons] at hn
        refine ⟨fun hx => hn.2.2 hd hx hd (List.mem_cons_self) rfl, hn.2.1.1⟩
      refine { wake := wake_keep h (by simp [hpc]) rfl rfl rfl rfl rfl, batchPc := ?_, nodup := hn',
               regNodup := h.regNodup, sub := ?_,
               postersReg := h.postersReg, owedIff := ?_, cnt1 := ?_, cnt2 := h.cnt2, noFault := h.noFault }
      · intro hne
        refine ⟨hd, ?_⟩
        cases rest with
        | nil => exact absurd rfl hne
        | cons a b => rfl
      · intro x hx
        rcases hx with hx | hx
        · exact h.sub x (Or.inl hx)
        · exact h.sub x (Or.inr (by rw [hbatch]; exact List.mem_cons_of_mem _ hx))
      · intro e'
        by_cases hee : e' = hd
        · subst hee; simp [upd, hnot.1, hnot.2]
        · have := h.owedIff e'
          rw [hbatch] at this
          simp [upd, hee] at this ⊢
          exact this
      · intro e'
        have := h.cnt1 e'
        rw [hbatch] at this
        by_cases hee : e' = hd
        · subst hee; simp [upd] at this ⊢; omega
        · have hne : ¬ (hd = e') := fun h => hee h.symm
          simp [upd, hee, hne] at this ⊢; omega
    next => cases hs
  next => cases hs


theorem unregister_core {cfg : Cfg} {s : State} {e : Ev} (h : Inv cfg s) (a : Bool) (r : Nat)
    (hpc : s.pc.user = true) (hposters : ∀ p ∈ s.posters, p.inPost e = false)
    (har : s.registered.erase e = [] ∨ (a = s.armed ∧ r = s.rawCount)) :
    Inv cfg { s with registered := s.registered.erase e, pending := s.pending.erase e, batch := s.batch.erase e,
                     owed := upd s.owed e false, armed := a, rawCount := r } := by
  have hn := h.nodup
  have hnp : s.pending.Nodup := (List.nodup_append.1 hn).1
  have hnb : s.batch.Nodup := (List.nodup_append.1 hn).2.1
  have hsub : ∀ x, x ∈ s.pending.erase e ∨ x ∈ s.batch.erase e → x ∈ s.registered.erase e := by
    intro x hx
    rcases hx with hx | hx
    · have := (List.Nodup.mem_erase_iff hnp).1 hx
      exact (List.mem_erase_of_ne this.1).2 (h.sub x (Or.inl this.2))
    · have := (List.Nodup.mem_erase_iff hnb).1 hx
      exact (List.mem_erase_of_ne this.1).2 (h.sub x (Or.inr this.2))
  have hnw : s.pc ≠ .woken := by intro hw; rw [hw] at hpc; simp [Pc.user] at hpc
  refine { wake := ?_, batchPc := ?_, nodup := ?_, regNodup := h.regNodup.erase e, sub := hsub,
           postersReg := ?_, owedIff := ?_, cnt1 := ?_, cnt2 := h.cnt2, noFault := h.noFault }
  · intro hp
    simp only at hp
    rcases har with hre | ⟨ha, hr⟩
    · exfalso
      cases hpe : s.pending.erase e with
      | nil => exact hp hpe
      | cons x xs =>
        have := hsub x (Or.inl (by rw [hpe]; exact List.mem_cons_self))
        rw [hre] at this; cases this
    · have hp0 : s.pending ≠ [] := by
        intro h0; rw [h0] at hp; exact hp rfl
      rcases h.wake hp0 with k | l | ⟨e', he'⟩ | w
      · exact Or.inl ((kickPending_congr (s := s) ha hr).2 k)
      · exact Or.inr (Or.inl l)
      · exact Or.inr (Or.inr (Or.inl ⟨e', he'⟩))
      · exact absurd w hnw
  · intro hne
    have : s.batch ≠ [] := by
      intro h0; simp only at hne; rw [h0] at hne; exact hne rfl
    exact h.batchPc this
  · exact List.Nodup.sublist (List.Sublist.append List.erase_sublist List.erase_sublist) hn
  · intro p hp e' he'
    have hne : e' ≠ e := by
      intro hee; subst hee
      have := hposters p hp; rw [this] at he'; cases he'
    exact (List.mem_erase_of_ne hne).2 (h.postersReg p hp e' he')
  · intro e'
    by_cases hee : e' = e
    · subst hee
      have h1 : e' ∉ s.pending.erase e' := fun hx => ((List.Nodup.mem_erase_iff hnp).1 hx).1 rfl
      have h2 : e' ∉ s.batch.erase e' := fun hx => ((List.Nodup.mem_erase_iff hnb).1 hx).1 rfl
      simp [upd, h1, h2]
    · simp only [upd, hee, if_false, List.mem_erase_of_ne hee]
      exact h.owedIff e'
  · intro e'
    have := h.cnt1 e'
    simp only [List.count_erase]
    omega

theorem unregister_inv {cfg : Cfg} {s s' : State} {e : Ev} (h : Inv cfg s) (hs : stepUnregister cfg s e = some s') :
    Inv cfg s' := by
  unfold stepUnregister at hs
  split at hs
  next hg =>
    obtain ⟨_, hpc, _, hposters⟩ := hg
    simp only at hs
    split at hs
    next hre =>
      cases hs
      exact unregister_core h false 0 hpc hposters (Or.inl hre)
    next hre =>
      cases hs
      exact unregister_core h s.armed s.rawCount hpc hposters (Or.inr ⟨rfl, rfl⟩)
  next => cases hs

theorem register_core {cfg : Cfg} {s : State} {e : Ev} (h : Inv cfg s) (a : Bool) (r : Nat)
    (hpc : s.pc.user = true) (hnew : e ∉ s.registered)
    (har : s.registered = [] ∨ (a = s.armed ∧ r = s.rawCount)) :
    Inv cfg { s with registered := e :: s.registered, armed := a, rawCount := r } := by
  have hnw : s.pc ≠ .woken := by intro hw; rw [hw] at hpc; simp [Pc.user] at hpc
  refine { wake := ?_, batchPc := h.batchPc, nodup := h.nodup, regNodup := List.nodup_cons.2 ⟨hnew, h.regNodup⟩,
           sub := fun x hx => List.mem_cons_of_mem _ (h.sub x hx),
           postersReg := fun p hp e' he' => List.mem_cons_of_mem _ (h.postersReg p hp e' he'),
           owedIff := h.owedIff, cnt1 := h.cnt1, cnt2 := h.cnt2, noFault := h.noFault }
  intro hp
  simp only at hp
  rcases har with hre | ⟨ha, hr⟩
  · exfalso
    cases hpe : s.pending with
    | nil => exact hp hpe
    | cons x xs =>
      have := h.sub x (Or.inl (by rw [hpe]; exact List.mem_cons_self))
      rw [hre] at this; cases this
  · rcases h.wake hp with k | l | ⟨e', he'⟩ | w
    · exact Or.inl ((kickPending_congr (s := s) ha hr).2 k)
    · exact Or.inr (Or.inl l)
    · exact Or.inr (Or.inr (Or.inl ⟨e', he'⟩))
    · exact absurd w hnw

theorem register_inv {cfg : Cfg} {s s' : State} {e : Ev} (h : Inv cfg s) (hs : stepRegister cfg s e = some s') :
    Inv cfg s' := by
  unfold stepRegister at hs
  split at hs
  next hg =>
    obtain ⟨hnew, hpc, _⟩ := hg
    split at hs
    next hre =>
      cases hs
      have := register_core h false 0 hpc hnew (Or.inl hre)
      rw [hre] at this; exact this
    next hre =>
      cases hs
      exact register_core h s.armed s.rawCount hpc hnew (Or.inr ⟨rfl, rfl⟩)
  next => cases hs

/-- **Every enabled action preserves the invariant** (hence it holds on every interleaving). -/
theorem step_inv {cfg : Cfg} {s s' : State} (a : Action) (h : Inv cfg s) (hs : step cfg s a = some s') : Inv cfg s' := by
  cases a with
  | postBegin t e => exact postBegin_inv h hs
  | postCs t e => exact postCs_inv h hs
  | postKick t e => exact postKick_inv h hs
  | kickWake => exact kickWake_inv h hs
  | rawWake => exact rawWake_inv h hs
  | taskWake => exact taskWake_inv h hs
  | stealEmpty => exact stealEmpty_inv h hs
  | stealRun e => exact stealRun_inv h hs
  | handlerDone => exact handlerDone_inv h hs
  | handlerNext e => exact handlerNext_inv h hs
  | unregister e => exact unregister_inv h hs
  | register e => exact register_inv h hs
  | block => exact block_inv h hs
  | unblock => exact unblock_inv h hs

theorem exec_inv {cfg : Cfg} (as : List Action) {s s' : State} (h : Inv cfg s) (hs : exec cfg s as = some s') :
    Inv cfg s' := by
  induction as generalizing s with
  | nil => simp [exec] at hs; exact hs ▸ h
  | cons a as ih =>
    simp only [exec] at hs
    split at hs
    next s1 h1 => exact ih (step_inv a h h1) hs
    next => cases hs

theorem reachable_inv {cfg : Cfg} {n : Nat} {s : State} (hr : Reachable cfg n s) : Inv cfg s := by
  obtain ⟨as, has⟩ := hr
  exact exec_inv as (init_inv cfg n) has


/-! ### consequences of the invariant -/

/-- no lost post, state form -/
theorem no_lost_post {cfg : Cfg} {s : State} (h : Inv cfg s) (hq : Quiescent cfg s) :
    s.pending = [] ∧ s.batch = [] ∧ ∀ e, s.owed e = false := by
  obtain ⟨hpc, hk, hl, hf⟩ := hq
  have hp : s.pending = [] := by
    by_cases hp : s.pending = []
    · exact hp
    · rcases h.wake hp with k | l | f | w
      · exact absurd k hk
      · rw [hl] at l; cases l
      · exact absurd f hf
      · rcases hpc with x | x <;> rw [x] at w <;> cases w
  have hb : s.batch = [] := batch_nil_of_pc h (by rcases hpc with x | x <;> simp [x])
  refine ⟨hp, hb, fun e => ?_⟩
  cases ho : s.owed e with
  | false => rfl
  | true =>
    have := (h.owedIff e).1 ho
    rw [hp, hb] at this; simp at this

theorem count_le_one_of_nodup {l : List Ev} (hn : l.Nodup) (e : Ev) : l.count e ≤ 1 := by
  induction l with
  | nil => simp
  | cons a l ih =>
    rw [List.nodup_cons] at hn
    rw [List.count_cons]
    by_cases hae : a = e
    · subst hae
      have : l.count a = 0 := List.count_eq_zero.2 hn.1
      simp [this]
    · have := ih hn.2
      simp [hae]; omega

/-- never over-delivered, counter form -/
theorem not_over_delivered {cfg : Cfg} {s : State} (h : Inv cfg s) (e : Ev) :
    s.delivered e + (s.pending ++ s.batch).count e ≤ s.csDone e ∧ s.csDone e ≤ s.begun e ∧
    (s.pending ++ s.batch).count e ≤ 1 := by
  refine ⟨?_, ?_, count_le_one_of_nodup h.nodup e⟩
  · have := h.cnt1 e; rw [List.count_append]; omega
  · have := h.cnt2 e; omega

theorem exec_append {cfg : Cfg} (as bs : List Action) (s : State) :
    exec cfg s (as ++ bs) = (exec cfg s as).bind (fun s' => exec cfg s' bs) := by
  induction as generalizing s with
  | nil => simp [exec]
  | cons a as ih =>
    simp only [List.cons_append, exec]
    cases step cfg s a with
    | none => simp
    | some s1 => simp [ih]

/-- how each action changes the ghost `owed` -/
theorem step_owed {cfg : Cfg} {s s' : State} (a : Action) (hs : step cfg s a = some s') :
    s'.owed = match a with
      | .postCs _ e => upd s.owed e true
      | .stealRun e => upd s.owed e false
      | .handlerNext e => upd s.owed e false
      | .unregister e => upd s.owed e false
      | _ => s.owed := by
  cases a with
  | postBegin t e => simp only [step, stepPostBegin] at hs; split at hs <;> cases hs; rfl
  | postCs t e =>
    simp only [step, stepPostCs] at hs
    split at hs
    · split at hs <;> cases hs <;> rfl
    · cases hs
  | postKick t e =>
    simp only [step, stepPostKick] at hs
    repeat' split at hs
    all_goals first | cases hs; rfl | cases hs
  | kickWake => simp only [step, stepKickWake] at hs; split at hs <;> cases hs; rfl
  | rawWake => simp only [step, stepRawWake] at hs; split at hs <;> cases hs; rfl
  | taskWake => simp only [step, stepTaskWake] at hs; split at hs <;> cases hs; rfl
  | stealEmpty => simp only [step, stepStealEmpty] at hs; split at hs <;> cases hs; rfl
  | stealRun e =>
    simp only [step, stepStealRun] at hs
    split at hs
    · cases hs
    · split at hs <;> cases hs; rfl
  | handlerDone =>
    simp only [step, stepHandlerDone] at hs
    split at hs
    · split at hs <;> cases hs; rfl
    · cases hs
  | handlerNext e =>
    simp only [step, stepHandlerNext] at hs
    split at hs
    · split at hs <;> cases hs; rfl
    · cases hs
  | unregister e =>
    simp only [step, stepUnregister] at hs
    split at hs
    · split at hs <;> cases hs <;> rfl
    · cases hs
  | register e =>
    simp only [step, stepRegister] at hs
    split at hs
    · split at hs <;> cases hs <;> rfl
    · cases hs
  | block => simp only [step, stepBlock] at hs; split at hs <;> cases hs; rfl
  | unblock => simp only [step, stepUnblock] at hs; split at hs <;> cases hs; rfl

/-- `owed e` after a step: either this step was a post of `e` passing its critical section, or it
was owed before and this step is neither a handler start nor an unregistration of `e`. -/
theorem owed_back {cfg : Cfg} {s s' : State} {a : Action} {e : Ev} (hs : step cfg s a = some s')
    (ho : s'.owed e = true) : (∃ t, a = .postCs t e) ∨ (s.owed e = true ∧ ¬ a.clears e) := by
  have := step_owed a hs
  rw [this] at ho
  cases a with
  | postCs t e' =>
    by_cases hee : e = e'
    · subst hee; exact Or.inl ⟨t, rfl⟩
    · simp [upd, hee] at ho; exact Or.inr ⟨ho, by simp [Action.clears]⟩
  | stealRun e' =>
    by_cases hee : e = e'
    · subst hee; simp [upd] at ho
    · simp [upd, hee] at ho; exact Or.inr ⟨ho, by simp [Action.clears]; exact fun h => hee h.symm⟩
  | handlerNext e' =>
    by_cases hee : e = e'
    · subst hee; simp [upd] at ho
    · simp [upd, hee] at ho; exact Or.inr ⟨ho, by simp [Action.clears]; exact fun h => hee h.symm⟩
  | unregister e' =>
    by_cases hee : e = e'
    · subst hee; simp [upd] at ho
    · simp [upd, hee] at ho; exact Or.inr ⟨ho, by simp [Action.clears]; exact fun h => hee h.symm⟩
  | _ => exact Or.inr ⟨ho, by simp [Action.clears]⟩

/-- forward form: an owed post stays owed until a handler start / unregistration of `e` -/
theorem owed_fwd {cfg : Cfg} {s s' : State} {a : Action} {e : Ev} (hs : step cfg s a = some s')
    (ho : s.owed e = true) (hc : ¬ a.clears e) : s'.owed e = true := by
  have := step_owed a hs
  rw [this]
  cases a with
  | postCs t e' => by_cases hee : e = e' <;> simp [upd, hee, ho]
  | stealRun e' =>
    have : e ≠ e' := fun h => hc (by simp [Action.clears, h])
    simp [upd, this, ho]
  | handlerNext e' =>
    have : e ≠ e' := fun h => hc (by simp [Action.clears, h])
    simp [upd, this, ho]
  | unregister e' =>
    have : e ≠ e' := fun h => hc (by simp [Action.clears, h])
    simp [upd, this, ho]
  | _ => exact ho

theorem owed_exec_fwd {cfg : Cfg} (as : List Action) {s s' : State} {e : Ev} (hs : exec cfg s as = some s')
    (ho : s.owed e = true) (hc : ∀ a ∈ as, ¬ a.clears e) : s'.owed e = true := by
  induction as generalizing s with
  | nil => simp [exec] at hs; exact hs ▸ ho
  | cons a as ih =>
    simp only [exec] at hs
    split at hs
    next s1 h1 =>
      exact ih hs (owed_fwd h1 ho (hc a List.mem_cons_self)) (fun b hb => hc b (List.mem_cons_of_mem _ hb))
    next => cases hs

theorem owed_exec_back {cfg : Cfg} (as : List Action) {s s' : State} {e : Ev} (hs : exec cfg s as = some s')
    (ho : s'.owed e = true) :
    (s.owed e = true ∧ ∀ a ∈ as, ¬ a.clears e) ∨
    (∃ p1 t p2, as = p1 ++ Action.postCs t e :: p2 ∧ ∀ b ∈ p2, ¬ b.clears e) := by
  induction as generalizing s with
  | nil => simp [exec] at hs; exact Or.inl ⟨hs ▸ ho, by simp⟩
  | cons a as ih =>
    simp only [exec] at hs
    split at hs
    next s1 h1 =>
      rcases ih hs with ⟨ho1, hc1⟩ | ⟨p1, t, p2, hp, hc⟩
      · rcases owed_back h1 ho1 with ⟨t, ht⟩ | ⟨ho0, hc0⟩
        · exact Or.inr ⟨[], t, as, by simp [ht], hc1⟩
        · refine Or.inl ⟨ho0, ?_⟩
          intro b hb
          rcases List.mem_cons.1 hb with hb | hb
          · exact hb ▸ hc0
          · exact hc1 b hb
      · exact Or.inr ⟨a :: p1, t, p2, by simp [hp], hc⟩
    next => cases hs

/-- no lost post, trace form -/
theorem post_settled {cfg : Cfg} {n : Nat} {pre post : List Action} {t : Tid} {e : Ev} {s : State}
    (hs : exec cfg (State.init n) (pre ++ Action.postCs t e :: post) = some s) (hq : Quiescent cfg s) :
    ∃ a ∈ post, a.clears e := by
  rw [exec_append] at hs
  cases h1 : exec cfg (State.init n) pre with
  | none => rw [h1] at hs; simp at hs
  | some s1 =>
    rw [h1] at hs
    simp only [Option.bind_some, exec] at hs
    split at hs
    next s2 h2 =>
      have hinv : Inv cfg s := exec_inv post (step_inv _ (exec_inv pre (init_inv cfg n) h1) h2) hs
      have ho2 : s2.owed e = true := by
        have := step_owed _ h2
        simp only at this
        rw [this]; simp [upd]
      apply Classical.byContradiction
      intro hno
      have hall : ∀ a ∈ post, ¬ a.clears e := fun a ha hc => hno ⟨a, ha, hc⟩
      have := owed_exec_fwd post hs ho2 hall
      rw [(no_lost_post hinv hq).2.2 e] at this
      cases this
    next => cases hs

/-- a handler start needs the event to be owed -/
theorem starts_owed {cfg : Cfg} {s s' : State} {a : Action} {e : Ev} (h : Inv cfg s) (hs : step cfg s a = some s')
    (hst : a.starts e) : s.owed e = true := by
  cases a with
  | stealRun e' =>
    simp only [Action.starts] at hst; subst hst
    simp only [step, stepStealRun] at hs
    split at hs
    · cases hs
    next hd rest hp =>
      split at hs
      next hg => exact (h.owedIff e').2 (Or.inl (by rw [hp, hg.2]; exact List.mem_cons_self))
      next => cases hs
  | handlerNext e' =>
    simp only [Action.starts] at hst; subst hst
    simp only [step, stepHandlerNext] at hs
    split at hs
    next e0 hd rest hpc hb =>
      split at hs
      next hg => exact (h.owedIff e').2 (Or.inr (by rw [hb, hg.2]; exact List.mem_cons_self))
      next => cases hs
    next => cases hs
  | _ => simp [Action.starts] at hst

/-- never over-delivered, trace form: every handler start of `e` is preceded by a post of `e` whose
critical section came after the previous handler start (and after any unregistration) of `e`. -/
theorem start_justified {cfg : Cfg} {n : Nat} {pre : List Action} {a : Action} {e : Ev} {s : State}
    (hs : exec cfg (State.init n) (pre ++ [a]) = some s) (hst : a.starts e) :
    ∃ p1 t p2, pre = p1 ++ Action.postCs t e :: p2 ∧ ∀ b ∈ p2, ¬ b.clears e := by
  rw [exec_append] at hs
  cases h1 : exec cfg (State.init n) pre with
  | none => rw [h1] at hs; simp at hs
  | some s1 =>
    rw [h1] at hs
    simp only [Option.bind_some, exec] at hs
    split at hs
    next s2 h2 =>
      have ho := starts_owed (exec_inv pre (init_inv cfg n) h1) h2 hst
      rcases owed_exec_back pre h1 ho with ⟨h0, _⟩ | h
      · simp [State.init] at h0
      · exact h
    next => cases hs


/-! ### counters as trace counts, thread of execution, ordering -/

def isBegin (e : Ev) : Action → Bool
  | .postBegin _ e' => e' == e
  | _ => false
def isCs (e : Ev) : Action → Bool
  | .postCs _ e' => e' == e
  | _ => false
def isStart (e : Ev) : Action → Bool
  | .stealRun e' => e' == e
  | .handlerNext e' => e' == e
  | _ => false

theorem isStart_iff (e : Ev) (a : Action) : isStart e a = true ↔ a.starts e := by
  cases a <;> simp [isStart, Action.starts]

/-- how each action changes the ghost counters, and what the posters look like afterwards -/
theorem step_ghost {cfg : Cfg} {s s' : State} (a : Action) (hs : step cfg s a = some s') (e : Ev) :
    s'.begun e = s.begun e + (if isBegin e a then 1 else 0) ∧
    s'.csDone e = s.csDone e + (if isCs e a then 1 else 0) ∧
    s'.delivered e = s.delivered e + (if isStart e a then 1 else 0) := by
  cases a with
  | postBegin t e' =>
    simp only [step, stepPostBegin] at hs; split at hs <;> cases hs
    by_cases hee : e = e' <;> simp [isBegin, isCs, isStart, upd, hee]
    exact fun h => absurd h.symm hee
  | postCs t e' =>
    simp only [step, stepPostCs] at hs
    split at hs
    · split at hs <;> cases hs <;> by_cases hee : e = e' <;> simp [isBegin, isCs, isStart, upd, hee] <;>
        exact fun h => absurd h.symm hee
    · cases hs
  | postKick t e' =>
    simp only [step, stepPostKick] at hs
    repeat' split at hs
    all_goals first | (cases hs; simp [isBegin, isCs, isStart]) | cases hs
  | kickWake => simp only [step, stepKickWake] at hs; split at hs <;> cases hs; simp [isBegin, isCs, isStart]
  | rawWake => simp only [step, stepRawWake] at hs; split at hs <;> cases hs; simp [isBegin, isCs, isStart]
  | taskWake => simp only [step, stepTaskWake] at hs; split at hs <;> cases hs; simp [isBegin, isCs, isStart]
  | stealEmpty => simp only [step, stepStealEmpty] at hs; split at hs <;> cases hs; simp [isBegin, isCs, isStart]
  | stealRun e' =>
    simp only [step, stepStealRun] at hs
    split at hs
    · cases hs
    · split at hs <;> cases hs
      by_cases hee : e = e' <;> simp [isBegin, isCs, isStart, upd, hee]
      exact fun h => absurd h.symm hee
  | handlerDone =>
    simp only [step, stepHandlerDone] at hs
    split at hs
    · split at hs <;> cases hs; simp [isBegin, isCs, isStart]
    · cases hs
  | handlerNext e' =>
    simp only [step, stepHandlerNext] at hs
    split at hs
    · split at hs <;> cases hs
      by_cases hee : e = e' <;> simp [isBegin, isCs, isStart, upd, hee]
      exact fun h => absurd h.symm hee
    · cases hs
  | unregister e' =>
    simp only [step, stepUnregister] at hs
    split at hs
    · split at hs <;> cases hs <;> simp [isBegin, isCs, isStart]
    · cases hs
  | register e' =>
    simp only [step, stepRegister] at hs
    split at hs
    · split at hs <;> cases hs <;> simp [isBegin, isCs, isStart]
    · cases hs
  | block => simp only [step, stepBlock] at hs; split at hs <;> cases hs; simp [isBegin, isCs, isStart]
  | unblock => simp only [step, stepUnblock] at hs; split at hs <;> cases hs; simp [isBegin, isCs, isStart]

theorem exec_ghost {cfg : Cfg} (as : List Action) {s s' : State} (hs : exec cfg s as = some s') (e : Ev) :
    s'.begun e = s.begun e + as.countP (isBegin e) ∧
    s'.csDone e = s.csDone e + as.countP (isCs e) ∧
    s'.delivered e = s.delivered e + as.countP (isStart e) := by
  induction as generalizing s with
  | nil => simp [exec] at hs; subst hs; simp
  | cons a as ih =>
    simp only [exec] at hs
    split at hs
    next s1 h1 =>
      have g := step_ghost a h1 e
      have i := ih hs
      simp only [List.countP_cons]
      refine ⟨?_, ?_, ?_⟩
      · rw [i.1, g.1]; omega
      · rw [i.2.1, g.2.1]; omega
      · rw [i.2.2, g.2.2]; omega
    next => cases hs

/-- never over-delivered, counting form on traces -/
theorem trace_counts {cfg : Cfg} {n : Nat} {as : List Action} {s : State}
    (hs : exec cfg (State.init n) as = some s) (e : Ev) :
    as.countP (isStart e) + (s.pending ++ s.batch).count e ≤ as.countP (isCs e) ∧
    as.countP (isCs e) ≤ as.countP (isBegin e) := by
  have g := exec_ghost as hs e
  have h := not_over_delivered (exec_inv as (init_inv cfg n) hs) e
  simp [State.init] at g
  rw [g.1, g.2.1, g.2.2] at h
  exact ⟨h.1, h.2.1⟩

/-- handlers run only in the owner thread: the only actions that start a handler are the owner's
`stealRun`/`handlerNext`, taken from the owner's delivery loop, and the event is registered. -/
theorem owner_thread {cfg : Cfg} {s s' : State} {a : Action} {e : Ev} (h : Inv cfg s) (hs : step cfg s a = some s')
    (hd : s'.delivered e ≠ s.delivered e) :
    a.starts e ∧ (s.pc = .woken ∨ ∃ e0, s.pc = .inHandler e0 false) ∧ (∃ b, s'.pc = .inHandler e b) ∧
    e ∈ s.registered := by
  have g := (step_ghost a hs e).2.2
  have hst : isStart e a = true := by
    cases hb : isStart e a with
    | true => rfl
    | false => rw [hb] at g; simp at g; exact absurd g hd
  have hst' := (isStart_iff e a).1 hst
  have hreg : e ∈ s.registered := by
    have := (h.owedIff e).1 (starts_owed h hs hst')
    exact h.sub e this
  refine ⟨hst', ?_, ?_, hreg⟩
  · cases a with
    | stealRun e' =>
      simp only [step, stepStealRun] at hs
      split at hs
      · cases hs
      · split at hs
        next hg => exact Or.inl hg.1
        next => cases hs
    | handlerNext e' =>
      simp only [step, stepHandlerNext] at hs
      split at hs
      next e0 hd rest hpc hb => exact Or.inr ⟨e0, hpc⟩
      next => cases hs
    | _ => simp [isStart] at hst
  · cases a with
    | stealRun e' =>
      simp only [Action.starts] at hst'; subst hst'
      simp only [step, stepStealRun] at hs
      split at hs
      · cases hs
      · split at hs <;> cases hs
        exact ⟨_, rfl⟩
    | handlerNext e' =>
      simp only [Action.starts] at hst'; subst hst'
      simp only [step, stepHandlerNext] at hs
      split at hs
      · split at hs <;> cases hs
        exact ⟨_, rfl⟩
      · cases hs
    | _ => simp [isStart] at hst

/-- the poster state of thread `t` after a step: if it is "inside the critical section of a post of e",
either this step was thread t entering that post, or it was already there and this step is not t's
critical section. -/
theorem inCs_back {cfg : Cfg} {s s' : State} {a : Action} {t : Tid} {e : Ev} (hs : step cfg s a = some s')
    (hp : s'.posters[t]? = some (.inCs e)) :
    a = .postBegin t e ∨ (s.posters[t]? = some (.inCs e) ∧ ∀ e', a ≠ .postCs t e') := by
  cases a with
  | postBegin t' e' =>
    simp only [step, stepPostBegin] at hs; split at hs <;> cases hs
    simp only [List.getElem?_set] at hp
    by_cases htt : t' = t
    · subst htt
      simp only [if_true] at hp
      split at hp
      · simp at hp; subst hp; exact Or.inl rfl
      · cases hp
    · simp only [htt, if_false] at hp; exact Or.inr ⟨hp, by simp⟩
  | postCs t' e' =>
    simp only [step, stepPostCs] at hs
    split at hs
    · split at hs <;> cases hs <;> simp only [List.getElem?_set] at hp <;> by_cases htt : t' = t
      · subst htt; simp only [if_true] at hp; split at hp <;> simp at hp
      · simp only [htt, if_false] at hp; exact Or.inr ⟨hp, by simp [htt]⟩
      · subst htt; simp only [if_true] at hp; split at hp <;> simp at hp
      · simp only [htt, if_false] at hp; exact Or.inr ⟨hp, by simp [htt]⟩
    · cases hs
  | postKick t' e' =>
    simp only [step, stepPostKick] at hs
    have key : ∀ (s0 : State), s0.posters = s.posters.set t' .outside → s0.posters[t]? = some (.inCs e) →
        s.posters[t]? = some (.inCs e) := by
      intro s0 h0 h1
      rw [h0, List.getElem?_set] at h1
      by_cases htt : t' = t
      · subst htt; simp only [if_true] at h1; split at h1 <;> simp at h1
      · simpa [htt] using h1
    repeat' split at hs
    all_goals first | (cases hs; exact Or.inr ⟨key _ rfl hp, by simp⟩) | cases hs
  | kickWake => simp only [step, stepKickWake] at hs; split at hs <;> cases hs; exact Or.inr ⟨hp, by simp⟩
  | rawWake => simp only [step, stepRawWake] at hs; split at hs <;> cases hs; exact Or.inr ⟨hp, by simp⟩
  | taskWake => simp only [step, stepTaskWake] at hs; split at hs <;> cases hs; exact Or.inr ⟨hp, by simp⟩
  | stealEmpty => simp only [step, stepStealEmpty] at hs; split at hs <;> cases hs; exact Or.inr ⟨hp, by simp⟩
  | stealRun e' =>
    simp only [step, stepStealRun] at hs
    split at hs
    · cases hs
    · split at hs <;> cases hs; exact Or.inr ⟨hp, by simp⟩
  | handlerDone =>
    simp only [step, stepHandlerDone] at hs
    split at hs
    · split at hs <;> cases hs; exact Or.inr ⟨hp, by simp⟩
    · cases hs
  | handlerNext e' =>
    simp only [step, stepHandlerNext] at hs
    split at hs
    · split at hs <;> cases hs; exact Or.inr ⟨hp, by simp⟩
    · cases hs
  | unregister e' =>
    simp only [step, stepUnregister] at hs
    split at hs
    · split at hs <;> cases hs <;> exact Or.inr ⟨hp, by simp⟩
    · cases hs
  | register e' =>
    simp only [step, stepRegister] at hs
    split at hs
    · split at hs <;> cases hs <;> exact Or.inr ⟨hp, by simp⟩
    · cases hs
  | block => simp only [step, stepBlock] at hs; split at hs <;> cases hs; exact Or.inr ⟨hp, by simp⟩
  | unblock => simp only [step, stepUnblock] at hs; split at hs <;> cases hs; exact Or.inr ⟨hp, by simp⟩

theorem inCs_exec_back {cfg : Cfg} (as : List Action) {s s' : State} {t : Tid} {e : Ev}
    (hs : exec cfg s as = some s') (hp : s'.posters[t]? = some (.inCs e)) :
    (s.posters[t]? = some (.inCs e) ∧ ∀ a ∈ as, ∀ e', a ≠ .postCs t e') ∨
    (∃ q1 q2, as = q1 ++ Action.postBegin t e :: q2 ∧ ∀ b ∈ q2, ∀ e', b ≠ .postCs t e') := by
  induction as generalizing s with
  | nil => simp [exec] at hs; exact Or.inl ⟨hs ▸ hp, by simp⟩
  | cons a as ih =>
    simp only [exec] at hs
    split at hs
    next s1 h1 =>
      rcases ih hs with ⟨hp1, hc1⟩ | ⟨q1, q2, hq, hc⟩
      · rcases inCs_back h1 hp1 with ha | ⟨hp0, hc0⟩
        · exact Or.inr ⟨[], as, by simp [ha], hc1⟩
        · refine Or.inl ⟨hp0, ?_⟩
          intro b hb
          rcases List.mem_cons.1 hb with hb | hb
          · exact hb ▸ hc0
          · exact hc1 b hb
      · exact Or.inr ⟨a :: q1, q2, by simp [hq], hc⟩
    next => cases hs

/-- every critical section of a post by thread t is preceded by t entering that post (and it is the
first critical section of t since then): with `start_justified`, a handler start is after the
beginning of the post that justifies it. -/
theorem cs_after_begin {cfg : Cfg} {n : Nat} {pre : List Action} {t : Tid} {e : Ev} {s : State}
    (hs : exec cfg (State.init n) (pre ++ [Action.postCs t e]) = some s) :
    ∃ q1 q2, pre = q1 ++ Action.postBegin t e :: q2 ∧ ∀ b ∈ q2, ∀ e', b ≠ .postCs t e' := by
  rw [exec_append] at hs
  cases h1 : exec cfg (State.init n) pre with
  | none => rw [h1] at hs; simp at hs
  | some s1 =>
    rw [h1] at hs
    simp only [Option.bind_some, exec] at hs
    split at hs
    next s2 h2 =>
      have hp : s1.posters[t]? = some (.inCs e) := by
        simp only [step, stepPostCs] at h2
        split at h2
        next hpt => exact hpt
        next => cases h2
      rcases inCs_exec_back pre h1 hp with ⟨h0, _⟩ | h
      · simp only [State.init, List.getElem?_replicate] at h0
        split at h0 <;> simp at h0
      · exact h
    next => cases hs


/-! ### the owner is never stuck: once the posters are done, the head of a non-empty pending list can be delivered
by owner actions alone (this is the LTS-level "no deadlock"; that the kernel really ends the wait when a wake
source exists is the kernel contract) -/

theorem ownerOut_of_all_outside {cfg : Cfg} {s : State} (hall : ∀ p ∈ s.posters, p = .outside) :
    ownerOut cfg s = true := by
  unfold ownerOut
  cases hg : s.posters[cfg.owner]? with
  | none => simp
  | some p => have := hall p (get_mem hg); subst this; simp

theorem stealRun_enabled {cfg : Cfg} {s : State} {e : Ev} {rest : List Ev} (hpc : s.pc = .woken)
    (hp : s.pending = e :: rest) : ∃ s', step cfg s (.stealRun e) = some s' ∧ s'.pc = .inHandler e rest.isEmpty := by
  simp [step, stepStealRun, hp, hpc]

theorem deliverable {cfg : Cfg} {s : State} {e : Ev} {rest : List Ev} (h : Inv cfg s) (hp : s.pending = e :: rest)
    (hpc : s.pc = .idle ∨ s.pc = .blocked) (hall : ∀ p ∈ s.posters, p = .outside) :
    ∃ as s' b, exec cfg s as = some s' ∧ s'.pc = .inHandler e b ∧
      ∀ a ∈ as, a = .unblock ∨ a = .kickWake ∨ a = .rawWake ∨ a = .taskWake ∨ a = .stealRun e := by
  have hoo := ownerOut_of_all_outside (cfg := cfg) hall
  have hne : s.pending ≠ [] := by rw [hp]; simp
  -- first bring the owner to `idle`
  have hidle : ∃ pre s0, exec cfg s pre = some s0 ∧ s0.pc = .idle ∧ s0.pending = s.pending ∧ s0.armed = s.armed ∧
      s0.rawCount = s.rawCount ∧ s0.localTask = s.localTask ∧ s0.posters = s.posters ∧
      (∀ a ∈ pre, a = Action.unblock) := by
    rcases hpc with hi | hb
    · exact ⟨[], s, rfl, hi, rfl, rfl, rfl, rfl, rfl, by simp⟩
    · exact ⟨[.unblock], { s with pc := .idle }, by simp [exec, step, stepUnblock, hb], rfl, rfl, rfl, rfl, rfl, rfl, by simp⟩
  obtain ⟨pre, s0, hpre, hi0, hp0, ha0, hr0, hl0, hpo0, hpreall⟩ := hidle
  have hoo0 : ownerOut cfg s0 = true := by
    apply ownerOut_of_all_outside; rw [hpo0]; exact hall
  -- then consume a wake source
  have hwoken : ∃ w s1, step cfg s0 w = some s1 ∧ s1.pc = .woken ∧ s1.pending = s.pending ∧
      (w = .kickWake ∨ w = .rawWake ∨ w = .taskWake) := by
    rcases h.wake hne with k | l | ⟨e', he'⟩ | w
    · rcases k with ⟨hraw, harm⟩ | ⟨hraw, hcnt⟩
      · exact ⟨.kickWake, { s0 with armed := false, pc := .woken },
          by simp [step, stepKickWake, hraw, ha0, harm, hi0, hoo0], rfl, hp0, Or.inl rfl⟩
      · exact ⟨.rawWake, { s0 with rawCount := 0, pc := .woken },
          by simp [step, stepRawWake, hraw, hr0, hcnt, hi0, hoo0], rfl, hp0, Or.inr (Or.inl rfl)⟩
    · exact ⟨.taskWake, { s0 with localTask := false, pc := .woken },
        by simp [step, stepTaskWake, hl0, l, hi0, hoo0], rfl, hp0, Or.inr (Or.inr rfl)⟩
    · have := hall _ he'; cases this
    · rcases hpc with x | x <;> rw [x] at w <;> cases w
  obtain ⟨w, s1, hw, hpc1, hp1, hwk⟩ := hwoken
  obtain ⟨s2, hs2, hpc2⟩ := stealRun_enabled (cfg := cfg) hpc1 (hp1.trans hp)
  refine ⟨pre ++ [w, .stealRun e], s2, _, ?_, hpc2, ?_⟩
  · rw [exec_append, hpre]; simp [exec, hw, hs2]
  · intro a ha
    rcases List.mem_append.1 ha with ha | ha
    · exact Or.inl (hpreall a ha)
    · simp at ha
      rcases ha with ha | ha
      · subst ha; rcases hwk with x | x | x <;> simp [x]
      · simp [ha]


theorem owesKick_iff (p : PSt) : p.owesKick = true ↔ ∃ e, p = .afterCs e true := by
  cases p with
  | outside => simp [PSt.owesKick]
  | inCs e => simp [PSt.owesKick]
  | afterCs e b => cases b <;> simp [PSt.owesKick]

/-- the executable quiescence test used by the replay driver is the `Quiescent` of the theorems -/
theorem quiescentB_iff (cfg : Cfg) (s : State) : quiescentB cfg s = true ↔ Quiescent cfg s := by
  have hk : s.posters.any PSt.owesKick = true ↔ kickInFlight s := by
    rw [List.any_eq_true]
    constructor
    · rintro ⟨p, hp, ho⟩
      obtain ⟨e, he⟩ := (owesKick_iff p).1 ho
      exact ⟨e, he ▸ hp⟩
    · rintro ⟨e, he⟩
      exact ⟨_, he, by simp [PSt.owesKick]⟩
  have hkb : (s.posters.any PSt.owesKick = false) ↔ ¬ kickInFlight s := by
    rw [← hk]; simp
  unfold quiescentB Quiescent kickPending
  cases hraw : cfg.raw <;> cases harm : s.armed <;> cases hl : s.localTask <;>
    simp [hkb, Nat.pos_iff_ne_zero, and_assoc]

end Ivy.Event.Proofs
