/-
Model of /repo/src/iv_event.c (iv_event_post / __iv_event_run_pending_events / iv_event_register /
iv_event_unregister) together with its two wake-up transports:
  * the epoll "kick": /repo/src/iv_fd_epoll.c event_rx_on (EPOLL_CTL_ADD, events = 0), event_send
    (EPOLL_CTL_MOD, EPOLLIN|EPOLLONESHOT on a shared always-readable descriptor), event_rx_off (EPOLL_CTL_DEL);
    the one-shot registration is consumed when epoll_wait reports it;
  * the raw event (/repo/src/iv_event_raw_posix.c): an eventfd (or pipe) whose counter is bumped by the
    poster's write and reset to zero by the owner's read in iv_event_raw_got_event;
  * the owner posting to itself: the `events_local` task.

A labelled transition system for ONE owner thread, any number of poster threads (the owner's own thread
is poster number `cfg.owner`) and any number of events (natural numbers).  The granularity is the code's
critical sections on the owner's `event_list_mutex` plus the single system call / task registration
that follows a post; every action below is one of them, so every interleaving of the real threads
at lock/unlock/syscall boundaries is a path of this LTS.

  shared under event_list_mutex : `pending`   (st->events_pending)
  owner-local                   : `batch`     (the stolen list `events` on the owner's stack), `pc`
  wake sources                  : `armed`     (one-shot kick armed in the owner's epoll set)
                                  `rawCount`  (counter of the owner's events_kick descriptor)
                                  `localTask` (iv_task_registered(&st->events_local))
  per poster thread             : outside | inCs e (between function entry and the unlock)
                                  | afterCs e post (after the unlock, before the kick / return)
`unregister e` is the code's single critical section (membership test + unlink under the owner's mutex) fused with the
`event_rx_off` / `iv_event_raw_unregister` that follows when the last event goes: nothing can interleave observably,
because with no registered event left no thread may be inside a post towards this owner (valid use).
Ghost components (never read by `step` to decide anything): `owed`, `begun`, `csDone`, `delivered`.
`fault` is set when the code would issue a kick towards an owner whose receive side is off
(EPOLL_CTL_MOD → ENOENT → iv_fatal; write on a closed descriptor).
-/
namespace Ivy.Event

abbrev Ev := Nat
abbrev Tid := Nat

/-- owner program counter.  `idle` = running loop/user code outside `__iv_event_run_pending_events`
(it may enter the kernel wait: `blocked`); `woken` = the wake source has been consumed, the first
critical section (the steal) has not happened yet; `inHandler e emptyNow` = inside `ie->handler`,
`emptyNow` is the local flag computed when `e` was unlinked. -/
inductive Pc where
  | idle
  | blocked
  | woken
  | inHandler (e : Ev) (emptyNow : Bool)
deriving Repr, DecidableEq

inductive PSt where
  | outside
  | inCs (e : Ev)
  | afterCs (e : Ev) (post : Bool)
deriving Repr, DecidableEq

/-- the thread is inside `iv_event_post(e)` -/
def PSt.inPost (e : Ev) : PSt → Bool
  | .outside => false
  | .inCs e' => e' == e
  | .afterCs e' _ => e' == e

/-- the owner is executing code that may call the iv_event API (loop code / a handler) -/
def Pc.user : Pc → Bool
  | .idle => true
  | .inHandler _ _ => true
  | _ => false

structure Cfg where
  owner : Tid          -- index of the owner's own thread among the posters
  raw : Bool           -- iv_event_use_event_raw (poll/ppoll method, or event_rx_on failed)
deriving Repr, DecidableEq

structure State where
  registered : List Ev
  pending : List Ev
  batch : List Ev
  pc : Pc
  armed : Bool
  rawCount : Nat
  localTask : Bool
  posters : List PSt
  fault : Bool
  -- ghosts
  owed : Ev → Bool          -- a post of e passed its critical section and no handler start / unregister of e followed yet
  begun : Ev → Nat          -- iv_event_post(e) calls entered
  csDone : Ev → Nat         -- iv_event_post(e) critical sections completed
  delivered : Ev → Nat      -- handler invocations of e started

def State.init (nthreads : Nat) : State :=
  { registered := [], pending := [], batch := [], pc := .idle, armed := false, rawCount := 0,
    localTask := false, posters := List.replicate nthreads .outside, fault := false,
    owed := fun _ => false, begun := fun _ => 0, csDone := fun _ => 0, delivered := fun _ => 0 }

def upd {α : Type} (f : Ev → α) (e : Ev) (v : α) : Ev → α := fun x => if x = e then v else f x

inductive Action where
  | postBegin (t : Tid) (e : Ev)   -- thread t enters iv_event_post(e)
  | postCs (t : Tid) (e : Ev)      -- lock; if e on no list: post := pending empty; append; unlock
  | postKick (t : Tid) (e : Ev)    -- if post: same thread → register events_local, else kick; return
  | kickWake                       -- epoll_wait returns the one-shot kick (consumes it)
  | rawWake                        -- iv_event_raw_got_event: read() resets the counter
  | taskWake                       -- iv_run_tasks unlinks events_local and calls it
  | stealEmpty                     -- lock; pending empty; unlock; return
  | stealRun (e : Ev)              -- lock; steal; unlink head e; unlock; call e's handler
  | handlerDone                    -- handler returned: emptyNow → break, else lock; batch empty; unlock; break
  | handlerNext (e : Ev)           -- handler returned: lock; unlink head e of batch; unlock; call e's handler
  | unregister (e : Ev)            -- iv_event_unregister(e) by the owner (loop code or any handler): lock; unlink if queued; unlock
  | register (e : Ev)              -- iv_event_register(e) by the owner
  | block                          -- the owner enters the kernel wait with nothing ready
  | unblock                        -- the wait returns (timeout / other descriptor / level-triggered raw fd)
deriving Repr, DecidableEq

/-- the owner's own thread is not in the middle of a post -/
def ownerOut (cfg : Cfg) (s : State) : Bool := (s.posters[cfg.owner]?.getD .outside) == .outside

def stepPostBegin (cfg : Cfg) (s : State) (t : Tid) (e : Ev) : Option State :=
  if s.posters[t]? = some .outside ∧ e ∈ s.registered ∧ (t = cfg.owner → s.pc.user = true) then
    some { s with posters := s.posters.set t (.inCs e), begun := upd s.begun e (s.begun e + 1) }
  else none

def stepPostCs (s : State) (t : Tid) (e : Ev) : Option State :=
  if s.posters[t]? = some (.inCs e) then
    if e ∈ s.pending ∨ e ∈ s.batch then      -- !iv_list_empty(&this->list)
      some { s with posters := s.posters.set t (.afterCs e false),
                    owed := upd s.owed e true, csDone := upd s.csDone e (s.csDone e + 1) }
    else
      some { s with pending := s.pending ++ [e],
                    posters := s.posters.set t (.afterCs e s.pending.isEmpty),
                    owed := upd s.owed e true, csDone := upd s.csDone e (s.csDone e + 1) }
  else none

def stepPostKick (cfg : Cfg) (s : State) (t : Tid) (e : Ev) : Option State :=
  if s.posters[t]? = some (.afterCs e false) then
    some { s with posters := s.posters.set t .outside }
  else if s.posters[t]? = some (.afterCs e true) then
    let s := { s with posters := s.posters.set t .outside }
    if t = cfg.owner then some { s with localTask := true }
    else if s.registered = [] then some { s with fault := true }
    else if cfg.raw then some { s with rawCount := s.rawCount + 1 }
    else some { s with armed := true }
  else none

def stepKickWake (cfg : Cfg) (s : State) : Option State :=
  if cfg.raw = false ∧ s.armed = true ∧ (s.pc = .idle ∨ s.pc = .blocked) ∧ ownerOut cfg s = true then
    some { s with armed := false, pc := .woken }
  else none

def stepRawWake (cfg : Cfg) (s : State) : Option State :=
  if cfg.raw = true ∧ 0 < s.rawCount ∧ s.pc = .idle ∧ ownerOut cfg s = true then
    some { s with rawCount := 0, pc := .woken }
  else none

def stepTaskWake (cfg : Cfg) (s : State) : Option State :=
  if s.localTask = true ∧ s.pc = .idle ∧ ownerOut cfg s = true then
    some { s with localTask := false, pc := .woken }
  else none

def stepStealEmpty (s : State) : Option State :=
  if s.pc = .woken ∧ s.pending = [] then some { s with pc := .idle } else none

def stepStealRun (s : State) (e : Ev) : Option State :=
  match s.pending with
  | [] => none
  | h :: rest =>
    if s.pc = .woken ∧ h = e then
      some { s with pending := [], batch := rest, pc := .inHandler e rest.isEmpty,
                    owed := upd s.owed e false, delivered := upd s.delivered e (s.delivered e + 1) }
    else none

def stepHandlerDone (cfg : Cfg) (s : State) : Option State :=
  match s.pc with
  | .inHandler _ emptyNow =>
    if ownerOut cfg s = true ∧ (emptyNow = true ∨ s.batch = []) then some { s with pc := .idle } else none
  | _ => none

def stepHandlerNext (cfg : Cfg) (s : State) (e : Ev) : Option State :=
  match s.pc, s.batch with
  | .inHandler _ false, h :: rest =>
    if ownerOut cfg s = true ∧ h = e then
      some { s with batch := rest, pc := .inHandler e rest.isEmpty,
                    owed := upd s.owed e false, delivered := upd s.delivered e (s.delivered e + 1) }
    else none
  | _, _ => none

def stepUnregister (cfg : Cfg) (s : State) (e : Ev) : Option State :=
  if e ∈ s.registered ∧ s.pc.user = true ∧ ownerOut cfg s = true ∧ (∀ p ∈ s.posters, p.inPost e = false) then
    let reg := s.registered.erase e
    let s := { s with registered := reg, pending := s.pending.erase e, batch := s.batch.erase e,
                      owed := upd s.owed e false }
    -- last event gone: event_rx_off (EPOLL_CTL_DEL) / iv_event_raw_unregister (close)
    if reg = [] then some { s with armed := false, rawCount := 0 } else some s
  else none

def stepRegister (cfg : Cfg) (s : State) (e : Ev) : Option State :=
  if e ∉ s.registered ∧ s.pc.user = true ∧ ownerOut cfg s = true then
    -- first event: event_rx_on (EPOLL_CTL_ADD with events = 0) / a fresh descriptor with counter 0
    if s.registered = [] then some { s with registered := [e], armed := false, rawCount := 0 }
    else some { s with registered := e :: s.registered }
  else none

def stepBlock (cfg : Cfg) (s : State) : Option State :=
  if s.pc = .idle ∧ ownerOut cfg s = true then some { s with pc := .blocked } else none

def stepUnblock (s : State) : Option State :=
  if s.pc = .blocked then some { s with pc := .idle } else none

def step (cfg : Cfg) (s : State) : Action → Option State
  | .postBegin t e => stepPostBegin cfg s t e
  | .postCs t e => stepPostCs s t e
  | .postKick t e => stepPostKick cfg s t e
  | .kickWake => stepKickWake cfg s
  | .rawWake => stepRawWake cfg s
  | .taskWake => stepTaskWake cfg s
  | .stealEmpty => stepStealEmpty s
  | .stealRun e => stepStealRun s e
  | .handlerDone => stepHandlerDone cfg s
  | .handlerNext e => stepHandlerNext cfg s e
  | .unregister e => stepUnregister cfg s e
  | .register e => stepRegister cfg s e
  | .block => stepBlock cfg s
  | .unblock => stepUnblock s

/-- run a sequence of actions; `none` when one of them is not enabled -/
def exec (cfg : Cfg) (s : State) : List Action → Option State
  | [] => some s
  | a :: as => match step cfg s a with
    | some s' => exec cfg s' as
    | none => none

end Ivy.Event
