/-!
# C14 — lockset discipline: generic happens-before theorem, policy, compliance

Part 1 (generic, proved once, no bound on trace length / threads / locks):
an execution is a list of events `(thread, op)` with
`op ∈ {acq l, rel l, rd x, wr x, fork t, join t, post c, recv c}`; happens-before `HB` is the transitive
closure of program order, release → later acquire of the same lock, fork → child, child → join and
post → recv of the same message.  Mutual exclusion is the well-formedness predicate `WF`
(a lock is acquired only when free and released only by its holder).  `lockset_sound`: two events whose
threads both hold a common lock at the time of the event are ordered by `HB`.

Part 2 (the discipline): `Access` rows (generated from the C source into `Ivy/Generated/AccessTable.lean`),
`policy : record → location → Discipline`, the executable check `complies`, and `drf_of_comply`: in any
well-formed execution, two conflicting accesses to one memory word that are instances of complying rows
are ordered by `HB` or are both atomic operations — unless the word is a listed one-way flag, or one of the two rows relies on a listed
exemption (private phase of the object's life: initialisation before publication, tear-down after
unpublication, detached stolen list, refcount-guarded read, libpthread absent), which is an assumption.
-/
namespace Ivy.L2.Lockset

/-! ## Part 1: executions, happens-before, lockset soundness -/

abbrev Tid := Nat

inductive Op (L X C : Type) where
  | acq (l : L)
  | rel (l : L)
  | rd (x : X)
  | wr (x : X)
  | fork (t : Tid)
  | join (t : Tid)
  | post (c : C)
  | recv (c : C)

structure Ev (L X C : Type) where
  tid : Tid
  op : Op L X C

abbrev Trace (L X C : Type) := List (Ev L X C)

section generic
variable {L X C : Type} [DecidableEq L]

/-- effect of one event on the lock table (lock ↦ holder) -/
def step (σ : L → Option Tid) (e : Ev L X C) : L → Option Tid :=
  match e.op with
  | .acq l => fun l' => if l' = l then some e.tid else σ l'
  | .rel l => fun l' => if l' = l then none else σ l'
  | _ => σ

/-- lock table just before event number `n` (all locks free initially) -/
def stateAt (tr : Trace L X C) : Nat → (L → Option Tid)
  | 0 => fun _ => none
  | n + 1 =>
    match tr[n]? with
    | some e => step (stateAt tr n) e
    | none => stateAt tr n

/-- mutual exclusion: a lock is acquired only when free, released only by its holder -/
def WF (tr : Trace L X C) : Prop :=
  ∀ (n : Nat) (e : Ev L X C), tr[n]? = some e →
    match e.op with
    | .acq l => stateAt tr n l = none
    | .rel l => stateAt tr n l = some e.tid
    | _ => True

/-- happens-before between event indices -/
inductive HB (tr : Trace L X C) : Nat → Nat → Prop
  | po {i j : Nat} {ei ej : Ev L X C} : i < j → tr[i]? = some ei → tr[j]? = some ej → ei.tid = ej.tid → HB tr i j
  | sync {i j : Nat} {ei ej : Ev L X C} {l : L} :
      i < j → tr[i]? = some ei → tr[j]? = some ej → ei.op = .rel l → ej.op = .acq l → HB tr i j
  | fork {i j : Nat} {ei ej : Ev L X C} :
      i < j → tr[i]? = some ei → tr[j]? = some ej → ei.op = .fork ej.tid → HB tr i j
  | join {i j : Nat} {ei ej : Ev L X C} :
      i < j → tr[i]? = some ei → tr[j]? = some ej → ej.op = .join ei.tid → HB tr i j
  | msg {i j : Nat} {ei ej : Ev L X C} {c : C} :
      i < j → tr[i]? = some ei → tr[j]? = some ej → ei.op = .post c → ej.op = .recv c → HB tr i j
  | trans {i k j : Nat} : HB tr i k → HB tr k j → HB tr i j

omit [DecidableEq L] in
theorem HB.lt {tr : Trace L X C} {i j : Nat} (h : HB tr i j) : i < j := by
  induction h with
  | po h _ _ _ => exact h
  | sync h _ _ _ _ => exact h
  | fork h _ _ _ => exact h
  | join h _ _ _ => exact h
  | msg h _ _ _ _ => exact h
  | trans _ _ ih1 ih2 => exact Nat.lt_trans ih1 ih2

theorem stateAt_succ_some (tr : Trace L X C) (n : Nat) (e : Ev L X C) (h : tr[n]? = some e) :
    stateAt tr (n + 1) = step (stateAt tr n) e := by
  simp [stateAt, h]

theorem stateAt_succ_none (tr : Trace L X C) (n : Nat) (h : tr[n]? = none) :
    stateAt tr (n + 1) = stateAt tr n := by
  simp [stateAt, h]

/-- if `t` holds `l` before event `i` and no longer holds it before event `i+d`, then `t` released it in between -/
theorem released_between (tr : Trace L X C) (wf : WF tr) (l : L) (t : Tid) (i : Nat) :
    ∀ d, stateAt tr i l = some t → stateAt tr (i + d) l ≠ some t →
      ∃ k e, i ≤ k ∧ k < i + d ∧ tr[k]? = some e ∧ e.op = .rel l ∧ e.tid = t := by
  intro d
  induction d with
  | zero => intro h1 h2; exact absurd h1 h2
  | succ d ih =>
    intro h1 h2
    by_cases hd : stateAt tr (i + d) l = some t
    · -- the change happens at event i+d
      cases hk : tr[i + d]? with
      | none =>
        rw [show i + (d + 1) = (i + d) + 1 from rfl, stateAt_succ_none tr _ hk] at h2
        exact absurd hd h2
      | some e =>
        rw [show i + (d + 1) = (i + d) + 1 from rfl, stateAt_succ_some tr _ e hk] at h2
        have w := wf (i + d) e hk
        cases hop : e.op with
        | acq l' =>
          rw [hop] at w
          by_cases hl : l = l'
          · subst hl; simp at w; rw [w] at hd; cases hd
          · simp [step, hop, hl] at h2; exact absurd hd h2
        | rel l' =>
          rw [hop] at w
          by_cases hl : l = l'
          · subst hl
            simp at w
            rw [w] at hd
            exact ⟨i + d, e, Nat.le_add_right _ _, Nat.lt_succ_self _, hk, hop, (Option.some.inj hd)⟩
          · simp [step, hop, hl] at h2; exact absurd hd h2
        | rd x => simp [step, hop] at h2; exact absurd hd h2
        | wr x => simp [step, hop] at h2; exact absurd hd h2
        | fork x => simp [step, hop] at h2; exact absurd hd h2
        | join x => simp [step, hop] at h2; exact absurd hd h2
        | post x => simp [step, hop] at h2; exact absurd hd h2
        | recv x => simp [step, hop] at h2; exact absurd hd h2
    · obtain ⟨k, e, h3, h4, h5, h6, h7⟩ := ih h1 hd
      exact ⟨k, e, h3, Nat.lt_succ_of_lt h4, h5, h6, h7⟩

/-- whoever holds `l` before event `j` acquired it at some `b < j` and has held it ever since -/
theorem acquired_before (tr : Trace L X C) (l : L) (t : Tid) :
    ∀ j, stateAt tr j l = some t →
      ∃ b e, b < j ∧ tr[b]? = some e ∧ e.op = .acq l ∧ e.tid = t ∧ ∀ m, b < m → m ≤ j → stateAt tr m l = some t := by
  intro j
  induction j with
  | zero => intro h; simp [stateAt] at h
  | succ j ih =>
    intro h
    have keep : stateAt tr j l = some t →
        ∃ b e, b < j + 1 ∧ tr[b]? = some e ∧ e.op = .acq l ∧ e.tid = t ∧
          ∀ m, b < m → m ≤ j + 1 → stateAt tr m l = some t := by
      intro hj
      obtain ⟨b, e, h1, h2, h3, h4, h5⟩ := ih hj
      refine ⟨b, e, Nat.lt_succ_of_lt h1, h2, h3, h4, ?_⟩
      intro m hm1 hm2
      by_cases hm : m = j + 1
      · subst hm; exact h
      · exact h5 m hm1 (by omega)
    cases hk : tr[j]? with
    | none =>
      rw [stateAt_succ_none tr _ hk] at h
      exact keep h
    | some e =>
      have h' := h
      rw [stateAt_succ_some tr _ e hk] at h'
      cases hop : e.op with
      | acq l' =>
        by_cases hl : l = l'
        · subst hl
          simp [step, hop] at h'
          refine ⟨j, e, Nat.lt_succ_self _, hk, hop, h', ?_⟩
          intro m hm1 hm2
          have : m = j + 1 := by omega
          subst this; exact h
        · simp [step, hop, hl] at h'; exact keep h'
      | rel l' =>
        by_cases hl : l = l'
        · subst hl; simp [step, hop] at h'
        · simp [step, hop, hl] at h'; exact keep h'
      | rd x => simp [step, hop] at h'; exact keep h'
      | wr x => simp [step, hop] at h'; exact keep h'
      | fork x => simp [step, hop] at h'; exact keep h'
      | join x => simp [step, hop] at h'; exact keep h'
      | post x => simp [step, hop] at h'; exact keep h'
      | recv x => simp [step, hop] at h'; exact keep h'

/-- **Lockset soundness.**  In a well-formed execution, if the thread of event `i` holds lock `l` at `i` and the
thread of the later event `j` holds the same lock at `j`, then `i` happens-before `j`.  (For two accesses to
one location this says: a common lock excludes a data race.) -/
theorem lockset_sound (tr : Trace L X C) (wf : WF tr) {i j : Nat} {ei ej : Ev L X C} {l : L}
    (hij : i < j) (hi : tr[i]? = some ei) (hj : tr[j]? = some ej)
    (hli : stateAt tr i l = some ei.tid) (hlj : stateAt tr j l = some ej.tid) : HB tr i j := by
  by_cases ht : ei.tid = ej.tid
  · exact HB.po hij hi hj ht
  · have hne : stateAt tr (i + (j - i)) l ≠ some ei.tid := by
      rw [show i + (j - i) = j by omega, hlj]
      intro h; exact ht (Option.some.inj h).symm
    obtain ⟨k, ek, hk1, hk2, hk3, hk4, hk5⟩ := released_between tr wf l ei.tid i (j - i) hli hne
    have hkj : k < j := by omega
    obtain ⟨b, eb, hb1, hb2, hb3, hb4, hb5⟩ := acquired_before tr l ej.tid j hlj
    have hkb : k < b := by
      apply Nat.lt_of_not_le
      intro hbk
      have h1 := hb5 (k + 1) (by omega) (by omega)
      rw [stateAt_succ_some tr k ek hk3] at h1
      simp [step, hk4] at h1
    have s1 : HB tr k b := HB.sync hkb hk3 hb2 hk4 hb3
    have s2 : HB tr b j := HB.po hb1 hb2 hj hb4
    by_cases hik : i = k
    · subst hik; exact HB.trans s1 s2
    · exact HB.trans (HB.po (by omega) hi hk3 hk5.symm) (HB.trans s1 s2)

omit [DecidableEq L] in
/-- same thread ⇒ ordered -/
theorem same_thread_ordered (tr : Trace L X C) {i j : Nat} {ei ej : Ev L X C}
    (hij : i < j) (hi : tr[i]? = some ei) (hj : tr[j]? = some ej) (ht : ei.tid = ej.tid) : HB tr i j :=
  HB.po hij hi hj ht

omit [DecidableEq L] in
/-- an access before a fork is ordered before everything the child does -/
theorem fork_ordered (tr : Trace L X C) {i f j : Nat} {ei ef ej : Ev L X C}
    (hif : i ≤ f) (hfj : f < j) (hi : tr[i]? = some ei) (hf : tr[f]? = some ef) (hj : tr[j]? = some ej)
    (ht : ei.tid = ef.tid) (hop : ef.op = .fork ej.tid) : HB tr i j := by
  by_cases h : i = f
  · subst h; exact HB.fork hfj hf hj hop
  · exact HB.trans (HB.po (by omega) hi hf ht) (HB.fork hfj hf hj hop)

omit [DecidableEq L] in
/-- everything a thread did is ordered before what the joiner does after the join -/
theorem join_ordered (tr : Trace L X C) {i g j : Nat} {ei eg ej : Ev L X C}
    (hig : i < g) (hgj : g ≤ j) (hi : tr[i]? = some ei) (hg : tr[g]? = some eg) (hj : tr[j]? = some ej)
    (hop : eg.op = .join ei.tid) (ht : eg.tid = ej.tid) : HB tr i j := by
  by_cases h : g = j
  · subst h; exact HB.join hig hi hg hop
  · exact HB.trans (HB.join hig hi hg hop) (HB.po (by omega) hg hj ht)

omit [DecidableEq L] in
/-- an access before a post is ordered before what the receiver does from the receipt on (event handler edge) -/
theorem msg_ordered (tr : Trace L X C) {i p r j : Nat} {ei ep er ej : Ev L X C} {c : C}
    (hip : i ≤ p) (hpr : p < r) (hrj : r ≤ j)
    (hi : tr[i]? = some ei) (hp : tr[p]? = some ep) (hr : tr[r]? = some er) (hj : tr[j]? = some ej)
    (t1 : ei.tid = ep.tid) (t2 : er.tid = ej.tid) (o1 : ep.op = .post c) (o2 : er.op = .recv c) : HB tr i j := by
  have m : HB tr p r := HB.msg hpr hp hr o1 o2
  have a : HB tr i r := by
    by_cases h : i = p
    · subst h; exact m
    · exact HB.trans (HB.po (by omega) hi hp t1) m
  by_cases h : r = j
  · subst h; exact a
  · exact HB.trans a (HB.po (by omega) hr hj t2)

end generic

/-! ## Part 2: access rows, policy, compliance -/

inductive Kind where
  | read | write
deriving DecidableEq, Repr

inductive Ctx where
  | owner | foreign
deriving DecidableEq, Repr

/-- one row of the generated table -/
structure Access where
  file : String
  fn : String
  line : Nat
  /-- record the location belongs to ("" for a global variable) -/
  recd : String
  /-- `record.field[@variant]` or the name of the global -/
  loc : String
  kind : Kind
  /-- canonical names of the locks held (incl. the pseudo locks `sigmask`, `nothreads`) -/
  locks : List String
  ctx : Ctx
  /-- walked under a cross-thread / signal-handler entry point -/
  entry : Bool
  /-- reached through a thread-private stolen list -/
  priv : Bool
  /-- the access is an atomic operation (`__atomic_load_n` / `__atomic_store_n` / read-modify-write builtin) -/
  atomic : Bool
deriving Repr

inductive Discipline where
  /-- every access holds `l`; `exempt` lists the functions that touch the object only while it is private to the
  calling thread (before publication / after unpublication / never-shared variant); `stolenOk`: rows reached
  through a detached stolen list are private as well -/
  | lockedBy (l : String) (exempt : List String) (stolenOk : Bool)
  /-- only ever accessed by the thread that owns the object (`ctx = owner`) -/
  | ownerOnly (exempt : List String)
  /-- written only by the owner with `l` held; read by the owner, or by anyone with `l` held -/
  | ownerWritesLocked (l : String) (exempt : List String)
  /-- written only in the listed initialisation functions (before publication), read-only afterwards -/
  | immutableAfterPublication (init : List String)
  /-- touched by the owning thread only, always with every signal blocked (handler context included) -/
  | signalSafe (exempt : List String)
  /-- written with `l` held (on the 0→1 transition of a reference count kept under `l`); the listed functions
  read it without `l` while the reading thread or the destination holds a reference -/
  | guardedPublish (l : String) (readers : List String)
  /-- every access after publication is an atomic operation (atomics never form a data race with each other); plain
  accesses only in the listed initialisation functions, before publication -/
  | atomicOnly (init : List String)
  /-- idempotent one-way feature-detection flag: exempt -/
  | oneWayFlag
  | unknown
deriving Repr

open Discipline in
/-- the discipline of every shared location of the files covered by C14 -/
def policy (rec loc : String) : Discipline :=
  match loc with
  -- one-way flags (exempt; every writer stores the same value, or the value only ever moves one way)
  | "inited" => oneWayFlag
  | "eventfd_in_use" => oneWayFlag
  | "epoll_support" => oneWayFlag
  | "epoll_pwait2_support" => oneWayFlag
  | "iv_event_use_event_raw" => oneWayFlag
  | "splice_available" => oneWayFlag
  | "pipe2_support" => oneWayFlag
  | "clock_source" => oneWayFlag
  | "method" => oneWayFlag
  | "iv_thread_debug" => oneWayFlag
  | "iv_state_key_allocated" => oneWayFlag      -- set by the first iv_init(), which completes before other threads start
  | "sig_owner_pid" => oneWayFlag               -- only ever getpid() (0 in a fresh child); stored under sig_lock before the handler is installed
  -- process-wide state of iv_tls.c / iv_main_posix.c / iv_thread_posix.c: written by constructors / first init only
  | "last_offset" => immutableAfterPublication ["iv_tls_user_register"]
  | "iv_tls_users" => immutableAfterPublication ["iv_tls_user_register"]
  | "iv_state_key" => immutableAfterPublication ["pthr_key_create"]
  | "iv_thread_key" => immutableAfterPublication ["pthr_key_create"]
  -- iv_signal.c
  | "process_sigs" => lockedBy "sig_lock" ["iv_signal_init", "iv_signal_child_reset_postfork"] false
  | "total_num_interests" => lockedBy "sig_lock" ["iv_signal_child_reset_postfork"] false
  | "sig_mask_fork" => lockedBy "sig_lock" [] false
  | "iv_signal_thr_info.thr_sigs" => signalSafe ["iv_signal_tls_init_thread", "iv_signal_child_reset_postfork"]
  | "iv_signal.active@process" => lockedBy "sig_lock" [] false
  | "iv_signal.active@thread" => signalSafe []
  | "iv_signal.an@process" => lockedBy "sig_lock" [] false
  | "iv_signal.an@thread" => signalSafe []
  | "iv_signal.signum@process" => immutableAfterPublication ["iv_wait_tls_init_thread"]
  | "iv_signal.signum@thread" => immutableAfterPublication ["iv_wait_tls_init_thread"]
  | "iv_signal.flags@process" => immutableAfterPublication ["iv_wait_tls_init_thread"]
  | "iv_signal.flags@thread" => immutableAfterPublication ["iv_wait_tls_init_thread"]
  | "iv_signal.handler@process" => immutableAfterPublication ["iv_wait_tls_init_thread"]
  | "iv_signal.handler@thread" => immutableAfterPublication ["iv_wait_tls_init_thread"]
  | "iv_signal.cookie@process" => immutableAfterPublication []
  | "iv_signal.cookie@thread" => immutableAfterPublication []
  -- iv_wait.c
  | "iv_wait_interests" => lockedBy "iv_wait_lock" [] false
  | "iv_wait_interest.avl_node" => lockedBy "iv_wait_lock" [] false
  | "iv_wait_interest.pid" => lockedBy "iv_wait_lock" [] false
  | "iv_wait_interest.flags" => lockedBy "iv_wait_lock" ["__iv_wait_interest_register"] false
  | "iv_wait_interest.events_pending" =>
      lockedBy "iv_wait_lock" ["__iv_wait_interest_register", "__iv_wait_interest_unregister"] false
  | "iv_wait_interest.dummy" => ownerOnly []
  | "iv_wait_interest.handler" => immutableAfterPublication []
  | "iv_wait_interest.cookie" => immutableAfterPublication []
  | "wait_event.list" => lockedBy "iv_wait_lock" ["__iv_wait_interest_unregister"] true
  | "wait_event.status" => lockedBy "iv_wait_lock" [] true
  | "wait_event.rusage" => lockedBy "iv_wait_lock" [] true
  -- iv_event.c
  | "iv_state.events_pending" => lockedBy "event_list_mutex(owner)" ["iv_event_init"] false
  | "iv_event.list" => lockedBy "event_list_mutex(owner)" ["iv_event_register"] false
  | "iv_event.owner" => immutableAfterPublication ["iv_event_register"]
  | "iv_event.cookie" =>
      immutableAfterPublication ["iv_work_thread", "iv_work_pool_create", "iv_thread_create", "__iv_wait_interest_register"]
  | "iv_event.handler" =>
      immutableAfterPublication ["iv_work_thread", "iv_work_pool_create", "iv_thread_create", "__iv_wait_interest_register"]
  -- iv_event_raw_posix.c
  | "iv_event_raw.event_wfd" => immutableAfterPublication ["iv_event_raw_register"]
  | "iv_event_raw.cookie" => immutableAfterPublication ["iv_event_init", "iv_signal_register"]
  | "iv_event_raw.handler" => immutableAfterPublication ["iv_event_init", "iv_signal_register"]
  -- iv_fd_epoll.c: the shared always-active descriptor
  | "iv_active_fd_refcount" => lockedBy "iv_fd_epoll_active_fd_mutex" [] false
  | "iv_active_fd_wr" => lockedBy "iv_fd_epoll_active_fd_mutex" [] false
  | "iv_active_fd" =>
      guardedPublish "iv_fd_epoll_active_fd_mutex" ["iv_fd_epoll_event_rx_on", "iv_fd_epoll_event_rx_off", "iv_fd_epoll_event_send"]
  | "iv_state.u.epoll.epoll_fd" => immutableAfterPublication ["iv_fd_epoll_init"]
  -- iv_work.c
  | "work_pool_priv.shutting_down" => ownerWritesLocked "pool->lock" ["iv_work_pool_create"]
  | "work_pool_priv.started_threads" => lockedBy "pool->lock" ["iv_work_pool_create"] false
  | "work_pool_priv.idle_threads" => lockedBy "pool->lock" ["iv_work_pool_create"] false
  | "work_pool_priv.seq_head" => lockedBy "pool->lock" ["iv_work_pool_create"] false
  | "work_pool_priv.seq_tail" => lockedBy "pool->lock" ["iv_work_pool_create"] false
  | "work_pool_priv.work_items" => lockedBy "pool->lock" ["iv_work_pool_create"] false
  | "work_pool_priv.work_done" => lockedBy "pool->lock" ["iv_work_pool_create"] false
  | "work_pool_priv.max_threads" => immutableAfterPublication ["iv_work_pool_create"]
  | "work_pool_priv.cookie" => immutableAfterPublication ["iv_work_pool_create"]
  | "work_pool_priv.thread_start" => immutableAfterPublication ["iv_work_pool_create"]
  | "work_pool_priv.thread_stop" => immutableAfterPublication ["iv_work_pool_create"]
  | "work_pool_priv.tid" => immutableAfterPublication ["iv_work_pool_create"]
  | "work_pool_thread.pool" => immutableAfterPublication ["iv_work_start_thread"]
  | "work_pool_thread.list" => lockedBy "pool->lock" ["iv_work_thread"] false
  | "work_pool_thread.kicked" => lockedBy "pool->lock" ["iv_work_thread"] false
  | "iv_work_item.list" => lockedBy "pool->lock" ["iv_work_submit_local"] true
  | "iv_work_item.work" => immutableAfterPublication []
  | "iv_work_item.cookie" => immutableAfterPublication []
  | "iv_work_item.completion" => immutableAfterPublication []
  | "iv_work_pool.priv" => immutableAfterPublication ["iv_work_pool_create", "iv_work_pool_put"]
  | "iv_work_pool.max_threads" => immutableAfterPublication []
  | "iv_work_pool.cookie" => immutableAfterPublication []
  | "iv_work_pool.thread_start" => immutableAfterPublication []
  | "iv_work_pool.thread_stop" => immutableAfterPublication []
  -- iv_thread_posix.c
  | "iv_thread.name" => immutableAfterPublication ["iv_thread_create"]
  | "iv_thread.start_routine" => immutableAfterPublication ["iv_thread_create"]
  | "iv_thread.arg" => immutableAfterPublication ["iv_thread_create"]
  | "iv_thread.tid" => atomicOnly ["iv_thread_create"]
  | "iv_thread.orphaned" => lockedBy "iv_thread_lock" ["iv_thread_create"] false   -- hand-over flags of the creator-deinit repair
  | "iv_thread.exited" => lockedBy "iv_thread_lock" ["iv_thread_create"] false
  | "iv_thread.list" => ownerOnly []
  | "iv_thread.thread_id" => ownerOnly []
  | _ =>
    -- whole records that belong to exactly one thread
    match rec with
    | "iv_state" => ownerOnly []                -- the remaining fields of the per-thread loop state
    | "iv_fd_" => ownerOnly []
    | "iv_fd" => ownerOnly []
    | "iv_task" => ownerOnly []
    | "iv_task_" => ownerOnly []
    | "iv_timer" => ownerOnly []
    | "iv_timer_" => ownerOnly []
    | "iv_fd_pump" => ownerOnly []
    | "iv_fd_pump_buf" => ownerOnly []
    | "iv_fd_pump_thr_info" => ownerOnly []
    | "iv_wait_thr_info" => ownerOnly []
    | "iv_thread_thr_info" => ownerOnly []
    | "iv_work_thr_info" => ownerOnly []
    | "iv_tls_user" => immutableAfterPublication ["iv_tls_user_register"]
    | "iv_fd_poll_method" => immutableAfterPublication []
    | _ => unknown

def isWrite (a : Access) : Bool := a.kind == .write
def isOwner (a : Access) : Bool := a.ctx == .owner
def holds (a : Access) (l : String) : Bool := a.locks.contains l

/-- the row satisfies the checked condition of its discipline without using any exemption -/
def strong (a : Access) : Bool :=
  match policy a.recd a.loc with
  | .lockedBy l _ _ => holds a l
  | .ownerOnly _ => isOwner a
  | .ownerWritesLocked l _ => if isWrite a then isOwner a && holds a l else isOwner a || holds a l
  | .immutableAfterPublication _ => !isWrite a
  | .signalSafe _ => isOwner a && holds a "sigmask"
  | .guardedPublish l _ => holds a l
  | .atomicOnly _ => a.atomic
  | .oneWayFlag => false
  | .unknown => false

/-- the row relies on a listed exemption (its ordering w.r.t. other accesses is ASSUMED, not derived) -/
def usesExemption (a : Access) : Bool :=
  holds a "nothreads" ||
  match policy a.recd a.loc with
  | .lockedBy _ ex st => ex.contains a.fn || (st && a.priv)
  | .ownerOnly ex => ex.contains a.fn
  | .ownerWritesLocked _ ex => ex.contains a.fn
  | .immutableAfterPublication init => init.contains a.fn
  | .signalSafe ex => ex.contains a.fn
  | .guardedPublish _ rs => !isWrite a && rs.contains a.fn
  | .atomicOnly init => init.contains a.fn
  | .oneWayFlag => false
  | .unknown => false

def isOneWay (rec loc : String) : Bool :=
  match policy rec loc with
  | .oneWayFlag => true
  | _ => false

/-- compliance of one row with the policy -/
def complies (a : Access) : Bool :=
  isOneWay a.recd a.loc || strong a || usesExemption a

def compliesAll (l : List Access) : Bool := l.all complies

theorem compliesAll_mem {l : List Access} (h : compliesAll l = true) : ∀ a ∈ l, complies a = true := by
  intro a ha
  exact List.all_eq_true.mp h a ha

theorem compliesAll_flatten {ls : List (List Access)} (h : ∀ l ∈ ls, compliesAll l = true) :
    ∀ a ∈ ls.flatten, complies a = true := by
  intro a ha
  obtain ⟨l, hl, hal⟩ := List.mem_flatten.mp ha
  exact compliesAll_mem (h l hl) a hal

/-! ### from compliance to race freedom -/

/-- how the abstract rows are read in a concrete execution (this is the TRUSTED aliasing classification of the
extractor, made explicit): which abstract location a memory word belongs to, which concrete lock a canonical
lock name denotes for the object containing that word, and which thread owns that object -/
structure Interp (L X : Type) where
  absRec : X → String
  absLoc : X → String
  lockOf : String → X → L
  ownerOf : X → Tid

/-- event `i` of the execution is an instance of row `a` on memory word `x` -/
structure Inst {L X C : Type} [DecidableEq L] (I : Interp L X) (tr : Trace L X C) (i : Nat) (e : Ev L X C) (x : X)
    (a : Access) : Prop where
  at_ : tr[i]? = some e
  acc : (e.op = .rd x ∧ a.kind = .read) ∨ (e.op = .wr x ∧ a.kind = .write)
  recd_ : a.recd = I.absRec x
  loc_ : a.loc = I.absLoc x
  /-- every lock the row claims is held by the accessing thread at that moment -/
  locks_ : ∀ ln, a.locks.contains ln = true → stateAt tr i (I.lockOf ln x) = some e.tid
  /-- a row with context `owner` is executed by the thread owning the object -/
  owner_ : a.ctx = .owner → e.tid = I.ownerOf x

theorem strong_pair_ordered {L X C : Type} [DecidableEq L] (I : Interp L X) (tr : Trace L X C) (wf : WF tr)
    {i j : Nat} {ei ej : Ev L X C} {x : X} {a b : Access} (hij : i < j)
    (hi : Inst I tr i ei x a) (hj : Inst I tr j ej x b)
    (hw : a.kind = .write ∨ b.kind = .write) (sa : strong a = true) (sb : strong b = true) :
    HB tr i j ∨ (a.atomic = true ∧ b.atomic = true) := by
  have hloc : policy b.recd b.loc = policy a.recd a.loc := by rw [hi.recd_, hi.loc_, hj.recd_, hj.loc_]
  have byLock : ∀ l, holds a l = true → holds b l = true → HB tr i j := fun l ha hb =>
    lockset_sound tr wf hij hi.at_ hj.at_ (hi.locks_ l ha) (hj.locks_ l hb)
  have byOwner : isOwner a = true → isOwner b = true → HB tr i j := fun ha hb => by
    have e1 := hi.owner_ (by simpa [isOwner] using ha)
    have e2 := hj.owner_ (by simpa [isOwner] using hb)
    exact HB.po hij hi.at_ hj.at_ (e1.trans e2.symm)
  unfold strong at sa sb
  rw [hloc] at sb
  cases hp : policy a.recd a.loc with
  | lockedBy l ex st => rw [hp] at sa sb; exact Or.inl (byLock l sa sb)
  | ownerOnly ex => rw [hp] at sa sb; exact Or.inl (byOwner sa sb)
  | atomicOnly init => rw [hp] at sa sb; exact Or.inr ⟨sa, sb⟩
  | ownerWritesLocked l ex =>
    rw [hp] at sa sb
    simp only [] at sa sb
    by_cases wa : isWrite a = true
    · simp [wa] at sa
      by_cases wb : isWrite b = true
      · simp [wb] at sb; exact Or.inl (byOwner sa.1 sb.1)
      · simp [wb] at sb
        cases sb with
        | inl h => exact Or.inl (byOwner sa.1 h)
        | inr h => exact Or.inl (byLock l sa.2 h)
    · have wb : isWrite b = true := by
        cases hw with
        | inl h => simp [isWrite, h] at wa
        | inr h => simp [isWrite, h]
      simp [wa] at sa
      simp [wb] at sb
      cases sa with
      | inl h => exact Or.inl (byOwner h sb.1)
      | inr h => exact Or.inl (byLock l h sb.2)
  | immutableAfterPublication init =>
    rw [hp] at sa sb
    cases hw with
    | inl h => simp [isWrite, h] at sa
    | inr h => simp [isWrite, h] at sb
  | signalSafe ex =>
    rw [hp] at sa sb
    simp at sa sb
    exact Or.inl (byOwner sa.1 sb.1)
  | guardedPublish l rs => rw [hp] at sa sb; exact Or.inl (byLock l sa sb)
  | oneWayFlag => rw [hp] at sa; simp at sa
  | unknown => rw [hp] at sa; simp at sa

/-- **Race freedom from compliance.**  Let every row of `tbl` comply.  In any well-formed execution, take two
events `i < j` that access the same memory word `x`, at least one of them writing, and that are instances of rows
`a`, `b` of the table.  Then `i` happens-before `j`, or both are atomic operations (either way: no data race) —
unless `x` is a listed one-way flag, or one
of the two rows relies on a listed exemption (then the order is an assumption: private phase / refcount guard /
no threads). -/
theorem drf_of_comply {L X C : Type} [DecidableEq L] (tbl : List Access) (hc : ∀ a ∈ tbl, complies a = true)
    (I : Interp L X) (tr : Trace L X C) (wf : WF tr)
    {i j : Nat} {ei ej : Ev L X C} {x : X} {a b : Access} (hij : i < j) (ha : a ∈ tbl) (hb : b ∈ tbl)
    (hi : Inst I tr i ei x a) (hj : Inst I tr j ej x b) (hw : a.kind = .write ∨ b.kind = .write) :
    HB tr i j ∨ (a.atomic = true ∧ b.atomic = true) ∨ isOneWay (I.absRec x) (I.absLoc x) = true ∨
      usesExemption a = true ∨ usesExemption b = true := by
  have ca := hc a ha
  have cb := hc b hb
  unfold complies at ca cb
  by_cases ow : isOneWay (I.absRec x) (I.absLoc x) = true
  · exact Or.inr (Or.inr (Or.inl ow))
  · by_cases ea : usesExemption a = true
    · exact Or.inr (Or.inr (Or.inr (Or.inl ea)))
    · by_cases eb : usesExemption b = true
      · exact Or.inr (Or.inr (Or.inr (Or.inr eb)))
      · have owa : isOneWay a.recd a.loc = false := by rw [hi.recd_, hi.loc_]; simpa using ow
        have owb : isOneWay b.recd b.loc = false := by rw [hj.recd_, hj.loc_]; simpa using ow
        have sa : strong a = true := by simpa [owa, ea] using ca
        have sb : strong b = true := by simpa [owb, eb] using cb
        cases strong_pair_ordered I tr wf hij hi hj hw sa sb with
        | inl h => exact Or.inl h
        | inr h => exact Or.inr (Or.inl h)

/-! ### reporting helpers (used by the plugin through `#eval`) -/

def kindStr : Kind → String
  | .read => "read"
  | .write => "write"

def ctxStr : Ctx → String
  | .owner => "owner"
  | .foreign => "foreign"

def discStr : Discipline → String
  | .lockedBy l _ _ => s!"lockedBy {l}"
  | .ownerOnly _ => "ownerOnly"
  | .ownerWritesLocked l _ => s!"ownerWritesLocked {l}"
  | .immutableAfterPublication _ => "immutableAfterPublication"
  | .signalSafe _ => "signalSafe"
  | .guardedPublish l _ => s!"guardedPublish {l}"
  | .atomicOnly _ => "atomicOnly"
  | .oneWayFlag => "oneWayFlag"
  | .unknown => "unknown"

def rowStr (a : Access) : String :=
  s!"{a.file}:{a.line} {a.fn} {a.loc} {kindStr a.kind} locks=[{",".intercalate a.locks}] ctx={ctxStr a.ctx}{if a.atomic then " atomic" else ""} policy={discStr (policy a.recd a.loc)}"

/-- one line per row: `NONCOMPLY …` / `ROW <class> …` — class ∈ oneway | strong | exempt -/
def report (tbl : List Access) : List String :=
  tbl.map fun a =>
    if !complies a then "NONCOMPLY " ++ rowStr a
    else if isOneWay a.recd a.loc then "ROW oneway " ++ rowStr a
    else if strong a then "ROW strong " ++ rowStr a
    else "ROW exempt " ++ rowStr a

end Ivy.L2.Lockset
